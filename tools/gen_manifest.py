#!/usr/bin/env python3
import json, subprocess, sys
sys.path.insert(0, "/verif")
from harness.registry import CHECKS, NOT_BUILT_REASON, NOT_APPLICABLE
props = [json.loads(l)["id"] for l in open("/verif/properties.jsonl")]
hooks_commits = subprocess.run(["git", "-C", "/repo", "log", "--format=%h %s", "--grep=^verif-hook"],
                               capture_output=True, text=True).stdout.strip().splitlines()
man = {
    "version": 1,
    "setup_cmd": "sh tools/setup.sh",
    "hooks": {
        "guard": "SE2P_PYNGUIN_VERIF",
        "enable": "environment variable SE2P_PYNGUIN_VERIF=1 (set by ./check); pure Python, nothing to rebuild",
        "baseline_off_cmd": "env -u SE2P_PYNGUIN_VERIF -u SE2P_PYNGUIN_VERIF_TRACE -u SE2P_PYNGUIN_VERIF_CRASH /venv/bin/python /verif/tools/baseline_check.py",
        "source_commits": [c.split()[0] for c in hooks_commits],
        "add_only": True,
    },
    "engines": [{"name": "tlc-harness", "path": "harness/", "serves_properties": sorted(CHECKS),
                 "kind_free_text": "explicit TLA+ specifications (spec/*.tla) checked by TLC; behaviours replayed "
                                   "into the real code and recorded traces validated by TLC (trace specs)"}],
    "checks": [],
    "not_applicable": [],
    "notes": "Every check: ./check <ID> --tier quick|thorough; exit 0 ok / 1 VIOLATION / 2 machinery failure. "
             "known_findings.json lists genuine defects (open or fixed).",
}
for pid in props:
    if pid in CHECKS:
        c = CHECKS[pid]
        man["checks"].append({
            "property_id": pid,
            "quick_cmd": f"./check {pid} --tier quick",
            "thorough_cmd": f"./check {pid} --tier thorough",
            "evidence_file": f"/verif/evidence/{pid}.json",
            "replay_cmd_template": f"./check {pid} --replay {{path}}",
            "engine": "tlc-harness",
            "level_claimed": {"category": c["category"], "text": c["text"], "design_ref": c["design_ref"]},
            "level_note": c["note"],
            "technique": c["technique"],
        })
    else:
        man["not_applicable"].append({"property_id": pid, "reason": NOT_APPLICABLE.get(pid, NOT_BUILT_REASON)})
json.dump(man, open("/verif/MANIFEST.json", "w"), indent=1)
print(f"claimed={len(man['checks'])} not_claimed={len(man['not_applicable'])}")

#!/bin/sh
# offline setup: nothing to build (pure Python harness + TLA+ specs); sanity-check the tools.
cd "$(dirname "$0")/.." || exit 1
command -v java >/dev/null || { echo "java missing"; exit 1; }
test -f /opt/veriftools/tla/tla2tools.jar || { echo "tla2tools missing"; exit 1; }
/venv/bin/python -c "import pynguin" || { echo "pynguin not importable"; exit 1; }
mkdir -p .cache evidence
echo setup ok

#!/usr/bin/env python3
"""Write /verif/seeded/SUMMARY.md from the meta.json files of the seeded changes."""
import glob, json, os, re
rows = []
for d in sorted(glob.glob("/verif/seeded/*/")):
    name = os.path.basename(d.rstrip("/"))
    m = json.load(open(d + "meta.json"))
    first = ""
    notes = d + "notes.md"
    if os.path.exists(notes):
        for ln in open(notes):
            if ln.startswith("#"):
                first = re.sub(r"^#+\s*", "", ln.strip())[:110]
                break
    sig = ""
    for ln in m.get("check_violation_lines") or []:
        if "signature=" in ln:
            sig = ln.split("signature=")[1][:70]
            break
    if not m.get("patch_applies", True) and not m.get("detected"):
        status = "no longer applies (code changed by a later fix)"
    elif not m.get("confirmed_demo", True) and not m.get("detected"):
        status = "moot (demo no longer fails after a later fix)"
    elif m.get("detected"):
        status = "caught" + (" after strengthening: " + m["detected_after_strengthening"] if m.get("detected_after_strengthening") else "")
    else:
        status = "MISSED"
    rows.append((name, first, status, sig))
with open("/verif/seeded/SUMMARY.md", "w") as f:
    f.write("# Seeded breaking changes and what the checks say\n\n"
            "Written by independent sub-agents (property text + scratch worktree only), confirmed with\n"
            "`tools/confirm_seed.py` (demo passes without / fails with the patch; `VERIF_REPO=<worktree> ./check <id>`).\n\n"
            "| seed | change | status | first signature |\n|---|---|---|---|\n")
    for r in rows:
        f.write("| " + " | ".join(x.replace("|", "/") for x in r) + " |\n")
    n = len(rows)
    c = sum(1 for r in rows if r[2].startswith("caught"))
    f.write(f"\n{c} of {n} caught; {sum(1 for r in rows if r[2]=='MISSED')} missed; the rest no longer apply.\n")
print(open("/verif/seeded/SUMMARY.md").read()[-400:])

#!/usr/bin/env python3
"""Confirm a seeded breaking change and keep it under /verif/seeded/<prop>-<n>/.

usage: confirm_seed.py <PROP> <n> [--full] [--check]
 - takes /tmp/seed-<PROP>-out/<n>/{patch.diff,demo.py,notes.md}
 - scratch worktree /tmp/cs-<PROP>-<n>: demo must pass without the patch and fail with it
 - --full: run the pinned suite in the worktree with the patch (stable_pass of BASELINE.json must pass)
 - --check: run ./check <PROP> against the worktree (VERIF_REPO) and record whether it alarms
"""
import json, os, shutil, subprocess, sys, xml.etree.ElementTree as ET
from pathlib import Path

prop, n = sys.argv[1], sys.argv[2]
full = "--full" in sys.argv
docheck = "--check" in sys.argv
src = Path(f"/tmp/seed-{prop}-out/{n}")
dst = Path(f"/verif/seeded/{prop}-{n}")
wt = Path(f"/tmp/cs-{prop}-{n}")
subprocess.run(["git", "-C", "/repo", "worktree", "remove", "--force", str(wt)], capture_output=True)
subprocess.run(["git", "-C", "/repo", "worktree", "add", "-q", str(wt), "HEAD"], check=True)
env = dict(os.environ, PYTHONPATH=f"{wt}/src:{wt}", PYNGUIN_DANGER_AWARE="1", PYTHONHASHSEED="0")
meta = {"property": prop, "seed": int(n)}
try:
    demo = src / "demo.py"
    def run_demo():
        if (src / "demo.py").read_text().lstrip().startswith(("import pytest", "def test_")) or "def test_" in demo.read_text() and "__main__" not in demo.read_text():
            cmd = ["/venv/bin/python", "-m", "pytest", "-q", "-p", "no:cacheprovider", str(demo)]
        else:
            cmd = ["/venv/bin/python", str(demo)]
        p = subprocess.run(cmd, cwd=wt, env=env, capture_output=True, text=True, timeout=900)
        return p.returncode, (p.stdout + p.stderr)[-600:]
    rc0, out0 = run_demo()
    ap = subprocess.run(["git", "apply", str(src / "patch.diff")], cwd=wt, capture_output=True, text=True)
    meta["patch_applies"] = ap.returncode == 0
    rc1, out1 = run_demo()
    meta["demo_without_patch_rc"] = rc0
    meta["demo_with_patch_rc"] = rc1
    meta["demo_with_patch_tail"] = out1[-300:]
    meta["confirmed_demo"] = (rc0 == 0 and rc1 != 0 and ap.returncode == 0)
    if full:
        base = json.load(open("/root/.vp/BASELINE.json"))
        xml = f"/tmp/cs-{prop}-{n}.xml"
        cmd = base["cmd"].replace("cd /repo", f"cd {wt}").replace("<file>", xml)
        p = subprocess.run(cmd, shell=True, env=env, capture_output=True, text=True)
        passed = set()
        for tc in ET.parse(xml).getroot().iter("testcase"):
            if not any(c.tag in ("failure", "error", "skipped") for c in tc):
                passed.add(f"{tc.get('classname')}::{tc.get('name')}")
        missing = [t for t in base["stable_pass"] if t not in passed]
        meta["suite_summary"] = p.stdout.strip().splitlines()[-1] if p.stdout.strip() else ""
        meta["suite_stable_pass_missing"] = missing[:20]
        meta["confirmed_suite"] = not missing
        os.remove(xml)
    if docheck:
        p = subprocess.run(["./check", prop], cwd="/verif", env=dict(os.environ, VERIF_REPO=str(wt)),
                           capture_output=True, text=True, timeout=3600)
        meta["check_rc"] = p.returncode
        meta["check_violation_lines"] = [l for l in p.stdout.splitlines() if l.startswith(("VIOLATION", "  clause"))][:8]
        meta["detected"] = p.returncode == 1
finally:
    subprocess.run(["git", "-C", "/repo", "worktree", "remove", "--force", str(wt)], capture_output=True)
dst.mkdir(parents=True, exist_ok=True)
for f in ("patch.diff", "demo.py", "notes.md"):
    if (src / f).exists():
        shutil.copy2(src / f, dst / f)
old = {}
if (dst / "meta.json").exists():
    old = json.loads((dst / "meta.json").read_text())
old.update(meta)
notes = (src / "notes.md").read_text() if (src / "notes.md").exists() else ""
old.setdefault("needs_to_manifest", notes[:1200])
(dst / "meta.json").write_text(json.dumps(old, indent=1))
print(json.dumps({k: v for k, v in old.items() if k != "needs_to_manifest"}, indent=1))

#!/usr/bin/env python3
"""mark_fixed.py <PROP> <signatures-file> <commit> [<what>]: set status=fixed for the listed
signatures in known_findings.d/<PROP>.json (several props allowed: file may hold C20 and C23 lines)
and append a line to known_findings.json's fixed_log."""
import json, sys, glob
prop, sigfile, commit = sys.argv[1:4]
what = sys.argv[4] if len(sys.argv) > 4 else ""
sigs = [l.strip() for l in open(sigfile) if l.strip()]
n = 0
for f in glob.glob("/verif/known_findings.d/*.json"):
    d = json.load(open(f)); ch = False
    for e in d["findings"]:
        if e["signature"] in sigs or any(s in e["signature"] for s in sigs):
            if e.get("status") != "fixed":
                e["status"] = "fixed"; e["commit"] = commit; ch = True; n += 1
    if ch:
        json.dump(d, open(f, "w"), indent=1)
k = json.load(open("/verif/known_findings.json"))
k["fixed_log"].append(f"fixed: property={prop} {commit} {what or sigs[0]}")
json.dump(k, open("/verif/known_findings.json", "w"), indent=1)
print(f"{n} entries marked fixed for {commit}")

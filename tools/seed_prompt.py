#!/usr/bin/env python3
"""Print the prompt for an independent mutant-seeding agent (property text only)."""
import json, sys
pid = sys.argv[1]
props = {json.loads(l)["id"]: json.loads(l) for l in open("/verif/properties.jsonl")}
p = props[pid]
print(f"""You are helping to evaluate a verification tool by writing realistic *breaking changes* (seeded defects) for the Python project se2p/pynguin (a search-based unit test generator). You have your own scratch git worktree of the repository at /tmp/seed-{pid} (Python interpreter: /venv/bin/python; run things with `cd /tmp/seed-{pid} && PYTHONPATH=/tmp/seed-{pid}/src /venv/bin/python ...` so that YOUR copy of the sources is imported; verify with `python -c "import pynguin; print(pynguin.__file__)"`). Work ONLY inside /tmp/seed-{pid} and /tmp/seed-{pid}-out. Do not read or touch /repo, /verif or any other directory; no network is available.

The semantic property that must hold for the unmodified code:

  {p['title']}
  {p['statement']}
  (Intended to hold over: {p['quantifier']['text']})
  Relevant files: {', '.join(p['anchors']['files'])}

Task: produce up to THREE different, independent source changes to files under /tmp/seed-{pid}/src/pynguin, each of which
  1. breaks the property above (a realistic bug a developer could introduce: an off-by-one, a dropped or reordered statement, a wrong comparison operator, a missing copy/reset/finally, a wrongly narrowed condition, two cooperating edits that each look fine alone ...) — not a gross sabotage;
  2. still imports/compiles, and the existing test suite still passes with it: at the end run the whole suite `cd /tmp/seed-{pid} && PYTHONPATH=/tmp/seed-{pid}/src /venv/bin/python -m pytest -q -p no:cacheprovider --timeout=900 -x -q 2>&1 | tail -5` (about 1-2 minutes; the ~21 failures/17 errors in tests/large_language_model, tests/analyses/test_type_inference.py and tests/ga/algorithms/test_llmosalgorithm.py exist in the unmodified tree too and do not count — run without -x if they get in the way and compare the failing set with the unmodified tree by saving your diff to a file, `git checkout -- .`, and re-applying it with `git apply`; NEVER use `git stash`: the stash is shared between all worktrees of this repository and other people use them concurrently);
  3. needs something specific to manifest — a particular input, a multi-step sequence of operations, an unusual argument kind, a particular interleaving or fault — rather than failing on the very first ordinary use;
  4. comes with a demonstration: a small standalone Python script demo.py (or pytest test) that exercises the real API, exits non-zero / fails WITH your change and exits zero / passes WITHOUT it (check both, using `git apply -R patch.diff` / `git apply patch.diff`; never `git stash`).
Make the three changes differ in kind and location (different functions / different mechanisms).

For each change n = 1..3 write to /tmp/seed-{pid}-out/<n>/ : patch.diff (output of `git diff` for that change alone, applicable with `git apply` to the unmodified tree), demo.py, and notes.md (what it breaks, what it needs in order to manifest, the commands you ran and their results incl. the test-suite summary line). Leave the worktree clean at the end (`git checkout -- . && git status --short` empty). Reply with a short summary of the changes.""")

#!/venv/bin/python
"""Run the repository's pinned suite with the verification guard OFF and compare with
/root/.vp/BASELINE.json (every stable_pass test must pass)."""
import json, os, subprocess, sys, tempfile, xml.etree.ElementTree as ET

env = dict(os.environ)
for k in ("SE2P_PYNGUIN_VERIF", "SE2P_PYNGUIN_VERIF_TRACE", "SE2P_PYNGUIN_VERIF_CRASH"):
    env.pop(k, None)
base = json.load(open("/root/.vp/BASELINE.json"))
with tempfile.TemporaryDirectory() as d:
    xml = os.path.join(d, "j.xml")
    cmd = base["cmd"].replace("<file>", xml)
    p = subprocess.run(cmd, shell=True, env=env, capture_output=True, text=True)
    print(p.stdout.strip().splitlines()[-1])
    root = ET.parse(xml).getroot()
    passed = set()
    for tc in root.iter("testcase"):
        if not any(c.tag in ("failure", "error", "skipped") for c in tc):
            passed.add(f"{tc.get('classname')}::{tc.get('name')}")
missing = [t for t in base["stable_pass"] if t not in passed]
print(f"stable_pass={len(base['stable_pass'])} passed_now={len(passed)} missing={len(missing)}")
for t in missing[:40]:
    print("  NOT PASSING:", t)
sys.exit(1 if missing else 0)

#!/usr/bin/env python3-vt
"""Validate MANIFEST.json and evidence/*.json against the given schemas (dev aid)."""
import json, sys, glob, jsonschema
ms = json.load(open("/root/.vp/MANIFEST.schema.json")); es = json.load(open("/root/.vp/EVIDENCE.schema.json"))
jsonschema.validate(json.load(open("/verif/MANIFEST.json")), ms); print("MANIFEST ok")
bad = 0
for f in sorted(glob.glob("/verif/evidence/*.json")):
    try:
        jsonschema.validate(json.load(open(f)), es)
    except Exception as e:
        bad += 1; print("BAD", f, str(e)[:300])
print("evidence files ok" if not bad else f"{bad} bad"); sys.exit(bad)

\* suggested repair: the exception travels in a picklable form that keeps its type
CONSTANTS
  Batches <- UnpicklableBatches
  Observers <- ObsModes
  M = 4
  Per = 2
  Faults = {}
  MaxFaults = 0
  Pickle = "faithful"
  Variant = "ascoded"
SPECIFICATION Spec
INVARIANT TypeOK
INVARIANT ChildBudgetAgree
INVARIANT TimeoutAgree
INVARIANT ExceptionsAgree
INVARIANT LinesAgree
INVARIANT AssertionAgree
INVARIANT VerificationAgree
INVARIANT NoOrphan
PROPERTY AbsSpec
PROPERTY Returns

\* suggested repair: the exception travels in a picklable form that keeps its type
CONSTANTS
  Batches <- UnpicklableBatches
  Observers <- ObsModes
  M = 2
  Per = 1
  Faults = {}
  MaxFaults = 0
  Pickle = "faithful"
SPECIFICATION Spec
INVARIANT TypeOK
INVARIANT TimeoutAgree
INVARIANT ExceptionsAgree
INVARIANT LinesAgree
INVARIANT AssertionAgree
INVARIANT VerificationAgree
INVARIANT NoOrphan
PROPERTY AbsSpec
PROPERTY Returns

----------------------------- MODULE MC_Ranking ------------------------------
(***************************************************************************)
(* Behaviour extraction for the replay of C14 on the real code.            *)
(*                                                                         *)
(* "rank" scenario: a population is built by Add steps (so that -simulate  *)
(* produces large random populations), then Depth calls of                 *)
(* compute_ranking_assignment (each followed, in the adapter, by the       *)
(* crowding-distance calls) are appended to hist.  With Depth = 0 every    *)
(* population of size 1..N over IndividualsFor(size) is emitted exactly once and    *)
(* the harness applies every call of RankCalls (printed once, scen = params).  *)
(* `share` = individuals with identical fitness and length are the same    *)
(* test case (equal chromosomes, as clones in a GA population are).        *)
(*                                                                         *)
(* "select" scenario: every (population size, bias) pair; the draws are    *)
(* the grid k/K, k in 0..K-1, K = 8n, plus the special draws (values       *)
(* adjacent to 0.0 and to 1.0).  Floats are symbolic here; the adapter     *)
(* turns them into IEEE doubles.                                           *)
(***************************************************************************)
EXTENDS RankingOps, TLC, Json

CONSTANTS N,        \* maximal population size
          NG,       \* number of goals
          MaxVal,   \* fitness values 0..MaxVal
          MaxLen,   \* lengths 1..MaxLen ...
          LenN,     \* ... in populations of size <= LenN (larger ones: all lengths 1)
          Depth,    \* number of rank calls in hist (0: emit populations only)
          PopCfgs,  \* configured population sizes
          SelNs     \* population sizes of the select scenario ({} = none)

VARIABLES scen, target, share, P, hist
vars == <<scen, target, share, P, hist>>

Goals == 1..NG
IndividualsFor(size) == [f : [Goals -> 0..MaxVal], len : IF size <= LenN THEN 1..MaxLen ELSE {1}]
GoalSeqs == {s \in UNION {[1..n -> Goals] : n \in 0..NG} : NoDupSeq(s)}
CoinSeqs == {<<FALSE>>, <<TRUE>>, <<TRUE, FALSE>>}
RankCalls == {[op |-> "rank", pop |-> p, goals |-> g, coins |-> c] :
                p \in PopCfgs, g \in GoalSeqs, c \in CoinSeqs}

(* bias: "ratio" p/q | "1+ulp" 1 + p*2^-52 | "1+2^-" 1 + 2^-p | "2-ulp" 2 - p*2^-52 |
         "2+ulp" 2 + p*2^-51                                                        *)
Bias(kind, p, q) == [kind |-> kind, p |-> p, q |-> q]
Biases ==
  {Bias("ratio", 1, 1), Bias("ratio", 11, 10), Bias("ratio", 5, 4), Bias("ratio", 3, 2),
   Bias("ratio", 42, 25), Bias("ratio", 17, 10), Bias("ratio", 7, 4), Bias("ratio", 2, 1),
   Bias("ratio", 5, 2), Bias("ratio", 3, 1), Bias("ratio", 10, 1),
   Bias("1+ulp", 1, 0), Bias("1+ulp", 2, 0), Bias("1+2^-", 40, 0), Bias("1+2^-", 20, 0),
   Bias("1+2^-", 7, 0), Bias("2-ulp", 1, 0), Bias("2+ulp", 1, 0)}
(* draw: "grid" k/K | "0+" 2^-k | "1-ulp" 1 - k*2^-53 | "1-2^-" 1 - 2^-k *)
Draw(kind, k) == [kind |-> kind, k |-> k]
SpecialDraws ==
  {Draw("0+", 53), Draw("0+", 30), Draw("1-2^-", 10), Draw("1-2^-", 30), Draw("1-2^-", 40),
   Draw("1-2^-", 50), Draw("1-ulp", 3), Draw("1-ulp", 2), Draw("1-ulp", 1)}
GridOf(n) == 8 * n

InitRank == /\ scen = "rank" /\ target \in 1..N /\ share \in BOOLEAN
            /\ P = <<>> /\ hist = <<>>
InitSelect == /\ scen = "select" /\ target \in SelNs /\ share = FALSE /\ P = <<>>
              /\ \E b \in Biases :
                   hist = <<[op |-> "select", n |-> target, bias |-> b, K |-> GridOf(target)]>>
Init == InitRank \/ InitSelect

HasTwins(Q) == \E i, j \in DOMAIN Q : i < j /\ Q[i] = Q[j]

Add == /\ scen = "rank" /\ Len(P) < target /\ hist = <<>>
       /\ \E x \in IndividualsFor(target) : P' = Append(P, x)
       /\ (share /\ Len(P') = target) => HasTwins(P')     \* share is only meaningful with twins
       /\ UNCHANGED <<scen, target, share, hist>>

Call == /\ scen = "rank" /\ Len(P) = target /\ Len(hist) < Depth
        /\ \E c \in RankCalls : hist' = Append(hist, c)
        /\ UNCHANGED <<scen, target, share, P>>

Next == Add \/ Call
Spec == Init /\ [][Next]_vars

Complete == \/ scen = "select"
            \/ scen = "rank" /\ Len(P) = target /\ Len(hist) = Depth

Emit == Complete =>
  PrintT(<<"HIST", ToJson([scen |-> scen, share |-> share, P |-> P, hist |-> hist])>>)

\* the parameter spaces the harness combines with every emitted population / select case
ASSUME PrintT(<<"HIST", ToJson([scen |-> "params", calls |-> SetToSeq(RankCalls),
                                draws |-> SetToSeq(SpecialDraws)])>>)
=============================================================================

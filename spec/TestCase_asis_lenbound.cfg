\* as coded: one insertion at size MaxLen - 1 adds the call AND its dependency statements:
\* LenBound must be violated (expected counterexample, documents finding C15/LenBound/*)
CONSTANTS
  NObj = 2
  Types = {"A"}
  MaxLen = 3
  MaxDeps = 1
  MaxUses = 1
  MaxStmts = 4
  MaxCtr = 5
  MaxSteps = 3
  InsertGuard = "as_coded"
  Raw = FALSE
SPECIFICATION Spec
INVARIANT LenBound
CONSTRAINT Bounded

CONSTANTS
  NUser = 2
  Level = 0
  MaxSteps = 0
  Deviations = {}
  Prov = "G"
  FixedRoots = TRUE
  Depth = 3
  EmitLevel = 0
SPECIFICATION MCSpec
INVARIANT Emit

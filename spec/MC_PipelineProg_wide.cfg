CONSTANTS
  MaxLen = 4
  Kinds = {"flip", "toggle", "get", "total", "mark", "mode", "boom", "note"}
SPECIFICATION Spec
INVARIANT Emit
CHECK_DEADLOCK FALSE

CONSTANTS
  MaxLen = 4
  Kinds = {"flip", "toggle", "get", "total", "mark", "mode", "boom"}
SPECIFICATION Spec
INVARIANT Emit
CHECK_DEADLOCK FALSE

CONSTANTS
  MaxLen = 5
  Kinds = {"flip", "toggle", "get"}
SPECIFICATION Spec
INVARIANT Emit
CHECK_DEADLOCK FALSE

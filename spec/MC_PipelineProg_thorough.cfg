CONSTANTS MaxLen = 5
SPECIFICATION Spec
INVARIANT Emit
CHECK_DEADLOCK FALSE

SPECIFICATION Spec
INVARIANT UnderTestSubsetOfEligible
INVARIANT EligibleSubsetOfUnderTest
INVARIANT NothingForeignUnderTest
INVARIANT ModelAgrees
INVARIANT RecordsWellTyped
PROPERTY ObservedMonotone

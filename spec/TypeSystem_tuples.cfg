CONSTANTS
  NUser = 2
  Level = 3
  MaxSteps = 0
  Deviations = {}
  Prov = "G"
  FixedRoots = FALSE
SPECIFICATION Spec
INVARIANT TypeOK
INVARIANT Refl
INVARIANT Trans
INVARIANT AnyTop
INVARIANT UnionAll
INVARIANT InstFollowsClass
INVARIANT AgreesWithIssubclass
INVARIANT DistDefinedOnlyWhenMaybeSub
INVARIANT DistZeroOnIdentity
INVARIANT DistDefinedIffMaybeSub
INVARIANT StrictImpliesMaybe
INVARIANT OfferedCompatible
INVARIANT ProvidersAgree

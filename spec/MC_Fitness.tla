------------------------------- MODULE MC_Fitness -------------------------------
(***************************************************************************)
(* Case generation for the spec -> code replay of C10 / C11.               *)
(*                                                                         *)
(* Enumeration (INIT InitEnum / NEXT NextEnum): one state per registry in  *)
(* bounds; Emit prints the registry, ALL well-formed abstract traces over  *)
(* it (= the reachable `cur` of Fitness.tla with the same bounds) and the  *)
(* family of exclusion sets.  The harness materialises every trace (C10)   *)
(* and every FamLen-tuple of traces (C11) on the real classes.             *)
(*                                                                         *)
(* Simulation (INIT InitSim / NEXT NextSim): the state machine of          *)
(* Fitness.tla with a history: random tracer callback sequences grouped    *)
(* into tests, plus restrict() calls; the last state carries the family    *)
(* `tests \o <<cur>>` and the accumulated exclusions.                      *)
(***************************************************************************)
EXTENDS FitnessOps, TLC, Json

CONSTANTS MaxPred, MaxBl, MaxLine, MaxCnt, MaxTests, Dists, Shapes, Diam,
          LinePred, LineBl,   \* registries with lines have at most this many predicates / branch-less code objects
          MaxSize,            \* at most this many predicates + branch-less code objects
          ExAll     \* TRUE: all exclusion sets; FALSE: none, every single branch / code object, all

VARIABLES reg, tests, cur, ex, hist
vars == <<reg, tests, cur, ex, hist>>

Registries == UNION {{MkReg(x[1], x[2], x[3], sh, Diam) : sh \in ShapesFor(x[1], Shapes)} :
                        x \in {y \in (0..MaxPred) \X (0..MaxBl) \X (0..MaxLine) :
                                 /\ y[1] + y[2] <= MaxSize
                                 /\ y[3] = 0 \/ (y[1] <= LinePred /\ y[2] <= LineBl)}}

(* state of one predicate in a trace: <<count, true distance, false distance>> *)
PredStates ==
  {s \in (0..MaxCnt) \X (Dists \cup {"INF"}) \X (Dists \cup {"INF"}) :
     /\ s[1] = 0 => s[2] = "INF" /\ s[3] = "INF"
     /\ s[1] > 0 => s[2] = "Z" \/ s[3] = "Z"
     /\ s[1] = 1 => ~(s[2] = "Z" /\ s[3] = "Z")}

TracesOf(r) ==
  {[cos |-> c, cnt |-> [p \in Preds(r) |-> ps[p][1]], dT |-> [p \in Preds(r) |-> ps[p][2]],
    dF |-> [p \in Preds(r) |-> ps[p][3]], lines |-> ls, chk |-> ck] :
     c \in SUBSET r.cos, ps \in [Preds(r) -> PredStates], ls \in SUBSET Lines(r), ck \in SUBSET Lines(r)}
  \cap {t \in [cos : SUBSET r.cos, cnt : [Preds(r) -> 0..MaxCnt], dT : [Preds(r) -> Dist],
                dF : [Preds(r) -> Dist], lines : SUBSET Lines(r), chk : SUBSET Lines(r)] : WF(t, r)}

ExFamily(r) ==
  IF ExAll THEN Exclusions(r)
  ELSE {NoEx, [code |-> Branchless(r), tr |-> Preds(r), fa |-> Preds(r)]}
       \cup {[code |-> {c}, tr |-> {}, fa |-> {}] : c \in Branchless(r)}
       \cup {[code |-> {}, tr |-> {p}, fa |-> {}] : p \in Preds(r)}
       \cup {[code |-> {}, tr |-> {}, fa |-> {p}] : p \in Preds(r)}

(* ------------------------------ enumeration ------------------------------ *)
InitEnum == /\ reg \in Registries /\ tests = <<>> /\ cur = EmptyTrace(reg) /\ ex = NoEx /\ hist = <<>>
NextEnum == UNCHANGED vars
EmitEnum == PrintT(<<"HIST", ToJson([reg |-> reg, exs |-> ExFamily(reg), traces |-> TracesOf(reg)])>>)

(* ------------------------------ simulation ------------------------------- *)
InitSim == InitEnum
Log(e) == hist' = Append(hist, e)
NextSim ==
  \/ \E c \in reg.cos : /\ cur' = ExecCodeObject(cur, c) /\ Log(<<"co", c>>)
                        /\ UNCHANGED <<reg, tests, ex>>
  \/ \E p \in Preds(reg), a \in Dists, b \in Dists :
       /\ reg.own[p] \in cur.cos /\ (a = "Z") # (b = "Z") /\ cur.cnt[p] < MaxCnt
       /\ cur' = ExecPredicate(cur, p, a, b) /\ Log(<<"pred", p>>)
       /\ UNCHANGED <<reg, tests, ex>>
  \/ \E l \in Lines(reg) : /\ cur' = TrackLine(cur, l) /\ Log(<<"line", l>>)
                           /\ UNCHANGED <<reg, tests, ex>>
  \/ \E l \in Lines(reg) : /\ cur' = CheckLine(cur, l) /\ Log(<<"chk", l>>)
                           /\ UNCHANGED <<reg, tests, ex>>
  \/ /\ Len(tests) < MaxTests /\ cur # EmptyTrace(reg)
     /\ tests' = Append(tests, cur) /\ cur' = EmptyTrace(reg) /\ Log(<<"finish", 0>>)
     /\ UNCHANGED <<reg, ex>>
  \/ \E e \in {x \in ExFamily(reg) : Cardinality(x.code) + Cardinality(x.tr) + Cardinality(x.fa) = 1} :
       /\ RestrictEx(ex, e) # ex
       /\ ex' = RestrictEx(ex, e) /\ Log(<<"restrict", 0>>) /\ UNCHANGED <<reg, tests, cur>>

SpecEnum == InitEnum /\ [][NextEnum]_vars
SpecSim == InitSim /\ [][NextSim]_vars
=============================================================================

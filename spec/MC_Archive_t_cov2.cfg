CONSTANTS
  NG = 1
  Sizes = {1, 2}
  ResKinds = {"ok", "exc"}
  Copies = 1
  FitsCov = {1, 1000001}
  FitsMio = {1}
  FitsPop = {1}
  MaxLenCov = 2
  MaxLenMio = 1
  Cap0 = 2
  MaxSteps = 99
  Depth = 2
  Modes = {"cov"}
SPECIFICATION MCSpec
INVARIANT Emit

\* P2: TLC-generated TestCase API calls replayed on real TestCase objects
SPECIFICATION Spec
INVARIANT ApiPreservesWF
INVARIANT Drift_StateFollows
INVARIANT Drift_Result
INVARIANT Drift_Raises
INVARIANT Drift_ApiCounter

CONSTANTS
  NG = 3
  AssumeReachable = TRUE
  Acyclic = FALSE
SPECIFICATION FairSpec
INVARIANT TypeOK
INVARIANT GoalReachable
INVARIANT AnyParentSuffices
INVARIANT Disjoint
INVARIANT ObjsTrack
INVARIANT Complete
PROPERTY NoGoalLost
PROPERTY CoveredGrows
PROPERTY AllCoveredEventually

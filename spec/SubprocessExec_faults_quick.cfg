\* every crash / suppressed-exception / late-poll point of the child, one fault (quick tier)
CONSTANTS
  Batches <- DesignBatches2
  Observers = {"trace"}
  M = 4
  Per = 2
  Faults <- AllFaults
  MaxFaults = 1
  Pickle = "ascoded"
  Variant = "ascoded"
SPECIFICATION Spec
INVARIANT TypeOK
INVARIANT SafeDegradation
INVARIANT ChildBudgetAgree
INVARIANT TimeoutAgree
INVARIANT ExceptionsAgree
INVARIANT LinesAgree
INVARIANT AssertionAgree
INVARIANT VerificationAgree
INVARIANT NoOrphan
INVARIANT AtMostTwice
INVARIANT AllDelivered
PROPERTY AbsSpec
PROPERTY Returns

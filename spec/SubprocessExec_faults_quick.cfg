\* every crash / suppressed-exception / late-poll point of the child, one fault (quick tier)
CONSTANTS
  Batches <- DesignBatches2
  Observers = {"trace"}
  M = 2
  Per = 1
  Faults <- AllFaults
  MaxFaults = 1
  Pickle = "ascoded"
SPECIFICATION Spec
INVARIANT TypeOK
INVARIANT SafeDegradation
INVARIANT TimeoutAgree
INVARIANT ExceptionsAgree
INVARIANT LinesAgree
INVARIANT AssertionAgree
INVARIANT VerificationAgree
INVARIANT NoOrphan
INVARIANT AtMostTwice
INVARIANT AllDelivered
PROPERTY AbsSpec
PROPERTY Returns

CONSTANTS
  NG = 2
  Sizes = {1, 2, 3}
  ResKinds = {"ok", "exc", "to"}
  Copies = 1
  FitsCov = {1, 1000001}
  FitsMio = {1, 2, 1000001}
  FitsPop = {1}
  MaxLenCov = 1
  MaxLenMio = 1
  Cap0 = 2
  MaxSteps = 99
  Depth = 2
  Modes = {"mio"}
SPECIFICATION MCSpec
INVARIANT Emit

CONSTANTS
  N = 3
  NG = 2
  MaxVal = 1
  MaxLen = 1
  PopCfgs = {1}
  SelNs = {}
  Biases <- BiasesDefault
  KnownDeviations = {"RemainderInOneFront"}
SPECIFICATION Spec
INVARIANT TypeOK
INVARIANT Front0HasBestPerGoal
INVARIANT LaterFrontsAreNonDominatedLayers
INVARIANT CrowdingIn01
INVARIANT RankSelectionInRange
INVARIANT RankSelectionMonotone
INVARIANT RankSelectionPrefersBetter
INVARIANT FrontsPartition
INVARIANT RankedEnough
INVARIANT Front0OnlyPreferred
INVARIANT LayerMembersIncomparable

------------------------------- MODULE Ranking -------------------------------
(***************************************************************************)
(* Design model for C14.  Two scenarios, chosen in Init:                   *)
(*                                                                         *)
(*  "rank":   a population P, a sequence of uncovered goals, the           *)
(*            configured population size and a coin stream are fixed; the  *)
(*            actions are the public calls                                 *)
(*              Rank      RankBasedPreferenceSorting.compute_ranking_assignment *)
(*              Crowd     fast_epsilon_dominance_assignment(front k, goals)*)
(*                        for k = 1, 2, ... (MOSA's _compute_dominance)    *)
(*              CrowdAll  the same on the whole population as one list     *)
(*            State: the fronts, the number of fronts already crowded and  *)
(*            the `distance` attribute of every individual                 *)
(*            (numerator/denominator, -1/1 = never assigned).              *)
(*  "select": RankSelection(bias).get_index(population of size n) with the *)
(*            random draw k/K; one Select step = one call with one draw.   *)
(*                                                                         *)
(* KnownDeviations names the places where the code as it is departs from   *)
(* the intended design.  With KnownDeviations = {} every C14 clause must   *)
(* hold; with a deviation enabled TLC must find the counterexample.        *)
(***************************************************************************)
EXTENDS RankingOps, TLC

CONSTANTS N,        \* maximal population size explored
          NG,       \* number of goals (columns of the fitness matrix)
          MaxVal,   \* fitness values 0..MaxVal
          MaxLen,   \* test-case lengths 1..MaxLen
          PopCfgs,  \* values of configuration.search_algorithm.population
          SelNs,    \* population sizes for rank selection
          Biases,   \* set of <<p, q>>: bias p/q
          KnownDeviations

VARIABLES scen, P, useq, pop, coins,   \* inputs
          phase, fronts, crowded, dist, \* ranking state
          sel                          \* last rank selection

vars == <<scen, P, useq, pop, coins, phase, fronts, crowded, dist, sel>>

Goals == 1..NG
Individuals == [f : [Goals -> 0..MaxVal], len : 1..MaxLen]
Populations == UNION {[1..n -> Individuals] : n \in 1..N}
GoalSeqs == {s \in UNION {[1..n -> Goals] : n \in 0..NG} : NoDupSeq(s)}
CoinSeqs == {<<FALSE>>, <<TRUE>>, <<TRUE, FALSE>>}
Unassigned == [num |-> -1, den |-> 1]
NoSel == [n |-> 0, p |-> 1, q |-> 1, k |-> 0, K |-> 1, rt |-> "none", idx |-> 0]
GridOf(n) == 8 * n
\* biases used by the cfg files (cfg files cannot write tuples): 1, 5/4, 3/2, 1.68, 2, 5/2, 10
BiasesDefault == {<<1, 1>>, <<5, 4>>, <<3, 2>>, <<42, 25>>, <<2, 1>>, <<5, 2>>, <<10, 1>>}

U == ElemsOf(useq)

InitRank ==
  /\ scen = "rank"
  /\ P \in Populations /\ useq \in GoalSeqs /\ pop \in PopCfgs /\ coins \in CoinSeqs
  /\ phase = "new" /\ fronts = <<>> /\ crowded = 0
  /\ dist = [i \in Ids(P) |-> Unassigned]
  /\ sel = NoSel

InitSelect ==
  /\ scen = "select"
  /\ P = <<>> /\ useq = <<>> /\ pop = 1 /\ coins = <<FALSE>>
  /\ phase = "new" /\ fronts = <<>> /\ crowded = 0 /\ dist = <<>>
  /\ \E n \in SelNs, b \in Biases :
       sel = [n |-> n, p |-> b[1], q |-> b[2], k |-> 0, K |-> GridOf(n), rt |-> "none", idx |-> 0]

Init == InitRank \/ InitSelect

(* compute_ranking_assignment(P, useq) *)
Rank ==
  /\ scen = "rank" /\ phase = "new"
  /\ fronts' = Fronts(P, useq, pop, coins, "RemainderInOneFront" \in KnownDeviations)
  /\ phase' = "ranked"
  /\ UNCHANGED <<scen, P, useq, pop, coins, crowded, dist, sel>>

(* fast_epsilon_dominance_assignment(fronts[k], useq): every member gets a distance *)
Crowd ==
  /\ scen = "rank" /\ phase = "ranked" /\ crowded < Len(fronts)
  /\ LET F == fronts[crowded + 1]
         nums == CrowdNums(P, U, F)
     IN dist' = [i \in Ids(P) |->
          IF i \in ElemsOf(F)
          THEN [num |-> nums[CHOOSE m \in DOMAIN F : F[m] = i], den |-> Len(F)]
          ELSE dist[i]]
  /\ crowded' = crowded + 1
  /\ UNCHANGED <<scen, P, useq, pop, coins, phase, fronts, sel>>

(* the same on an arbitrary list of individuals (here: the whole population) *)
CrowdAll ==
  /\ scen = "rank" /\ phase = "ranked" /\ crowded = Len(fronts)
  /\ LET F == Asc(Ids(P))
         nums == CrowdNums(P, U, F)
     IN dist' = [i \in Ids(P) |-> [num |-> nums[i], den |-> Len(F)]]
  /\ phase' = "done"
  /\ UNCHANGED <<scen, P, useq, pop, coins, fronts, crowded, sel>>

(* RankSelection(p/q).get_index(population of size n) with randomness.next_float() = k/K *)
Select ==
  /\ scen = "select" /\ sel.rt = "none"
  /\ \E k \in 0..(sel.K - 1) :
     sel' = IF sel.p = sel.q /\ "DivideByBiasMinusOne" \in KnownDeviations
               THEN [sel EXCEPT !.k = k, !.rt = "ZeroDivisionError", !.idx = -1]
               ELSE [sel EXCEPT !.k = k, !.rt = "int",
                                !.idx = SelIndex(sel.n, sel.p, sel.q, k, sel.K)]
  /\ UNCHANGED <<scen, P, useq, pop, coins, phase, fronts, crowded, dist>>

Next == \/ Rank
        \/ Crowd
        \/ CrowdAll
        \/ Select

Spec == Init /\ [][Next]_vars

(* ------------------------------------------------------------------------ *)
TypeOK ==
  /\ scen \in {"rank", "select"} /\ phase \in {"new", "ranked", "done"}
  /\ \A k \in DOMAIN fronts : ElemsOf(fronts[k]) \subseteq Ids(P)
  /\ DOMAIN dist = Ids(P)

(* ---- C14 ---- *)
Front0HasBestPerGoal == phase # "new" => Front0HasBest(P, U, fronts)
LaterFrontsAreNonDominatedLayers == phase # "new" => LaterFrontsAreLayers(P, U, fronts)
CrowdingIn01 == \A i \in Ids(P) : dist[i] = Unassigned \/ In01(dist[i].num, dist[i].den)
RankSelectionInRange ==
  (scen = "select" /\ sel.rt # "none") => sel.rt = "int" /\ SelInRange(sel.n, sel.idx)
\* a larger draw never selects a better (smaller) index ...
RankSelectionMonotone ==
  (scen = "select" /\ sel.rt = "int") =>
     \A k2 \in 0..sel.k : SelIndex(sel.n, sel.p, sel.q, k2, sel.K) <= sel.idx
\* ... and a better rank never gets less of the draw space than a worse one
MassOf(n, p, q, K, i) == Cardinality({k \in 0..(K - 1) : SelIndex(n, p, q, k, K) = i})
RankSelectionPrefersBetter ==
  (scen = "select" /\ sel.rt = "int" /\ sel.k = 0) =>
     LET m == [i \in 0..(sel.n - 1) |-> MassOf(sel.n, sel.p, sel.q, sel.K, i)]
     IN \A i, j \in 0..(sel.n - 1) : i < j => m[i] + 1 >= m[j]

(* ---- further design facts ---- *)
\* fronts are duplicate free and pairwise disjoint; nobody is ranked twice
FrontsPartition ==
  phase # "new" =>
    /\ \A k \in DOMAIN fronts : NoDupSeq(fronts[k])
    /\ \A k, m \in DOMAIN fronts : k # m => ElemsOf(fronts[k]) \cap ElemsOf(fronts[m]) = {}
\* ranking stops only when the configured population size is reached or nobody is left
RankedEnough ==
  phase # "new" =>
    LET ranked == UnionOfFronts(fronts, Len(fronts))
    IN ranked = Ids(P) \/ Cardinality(ranked) >= pop
\* the zero front consists of preferred individuals only (fitness, then length)
Front0OnlyPreferred ==
  phase # "new" => \A i \in ElemsOf(fronts[1]) : \E g \in U : i \in PrefBest(P, g)
\* members of one later front do not dominate each other
LayerMembersIncomparable ==
  (phase # "new" /\ "RemainderInOneFront" \notin KnownDeviations) =>
    \A k \in 2..Len(fronts) : \A i, j \in ElemsOf(fronts[k]) : DomCmp(P, U, i, j) = 0
=============================================================================

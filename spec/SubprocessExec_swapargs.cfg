\* what-if: the two timeout settings are swapped on the way into the child: a test case slower than Per but inside its budget times out only in the child, TimeoutAgree fails
CONSTANTS
  Batches <- DesignBatches2
  Observers <- ObsModes
  M = 4
  Per = 2
  Faults = {}
  MaxFaults = 0
  Pickle = "ascoded"
  Variant = "swapargs"
SPECIFICATION Spec
INVARIANT TypeOK
INVARIANT NoOrphan
INVARIANT TimeoutAgree

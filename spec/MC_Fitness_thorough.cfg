CONSTANTS
  MaxPred = 2
  MaxBl = 2
  MaxLine = 3
  LinePred = 1
  LineBl = 1
  MaxSize = 5
  MaxCnt = 2
  MaxTests = 0
  Dists = {"Z", "P", "Q", "INF"}
  Shapes = {"own", "nested", "seq"}
  Diam = 2
  ExAll = TRUE
INIT InitEnum
NEXT NextEnum
INVARIANT EmitEnum

CONSTANTS
  NObj = 2
  Types = {"A", "B"}
  MaxLen = 3
  MaxDeps = 2
  MaxUses = 2
  MaxStmts = 4
  MaxCtr = 5
  MaxSteps = 3
  InsertGuard = "as_coded"
  Raw = FALSE
SPECIFICATION Spec
INVARIANT AllWF
INVARIANT CounterOK
INVARIANT CrossoverLenBound
CONSTRAINT Bounded

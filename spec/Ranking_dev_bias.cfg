CONSTANTS
  N = 1
  NG = 2
  MaxVal = 1
  MaxLen = 2
  PopCfgs = {1, 2, 3}
  SelNs = {1, 3}
  Biases <- BiasesDefault
  KnownDeviations = {"DivideByBiasMinusOne"}
SPECIFICATION Spec
INVARIANT TypeOK
INVARIANT Front0HasBestPerGoal
INVARIANT LaterFrontsAreNonDominatedLayers
INVARIANT CrowdingIn01
INVARIANT RankSelectionInRange
INVARIANT RankSelectionMonotone
INVARIANT RankSelectionPrefersBetter
INVARIANT FrontsPartition
INVARIANT RankedEnough
INVARIANT Front0OnlyPreferred
INVARIANT LayerMembersIncomparable

CONSTANTS
  MinB = 1
  MaxB = 2
  MaxOut = 3
  ExitAug = FALSE
  Repr = "digraph"
SPECIFICATION Spec
INVARIANT TypeOK
INVARIANT AlgorithmCorrect
INVARIANT LabelsUnique

CONSTANTS
  U = {1, 2, 3}
  MaxArg = 2
  MaxSteps = 4
SPECIFICATION Spec
INVARIANT TypeOK
INVARIANT IsSet
INVARIANT InsertionOrdered
INVARIANT SeqProtocol
INVARIANT Algebra
CONSTRAINT Bound

SPECIFICATION Spec
INVARIANT AddCoverageMonotone
INVARIANT AddFitnessMonotone
INVARIANT MergeOrderIndependent
INVARIANT ObservedTraceWF
INVARIANT ConformsMerge

SPECIFICATION Spec
INVARIANT AddCoverageMonotone
INVARIANT AddFitnessMonotone
INVARIANT MergeOrderIndependent
INVARIANT MergeKeepsInputs
INVARIANT ObservedTraceWF
INVARIANT ConformsMerge

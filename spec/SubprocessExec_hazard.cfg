\* as coded, with exceptions that pickle cannot rebuild: ExceptionsAgree (and the refinement) fail
CONSTANTS
  Batches <- UnpicklableBatches
  Observers <- ObsModes
  M = 2
  Per = 1
  Faults = {}
  MaxFaults = 0
  Pickle = "ascoded"
SPECIFICATION Spec
INVARIANT TypeOK
INVARIANT TimeoutAgree
INVARIANT LinesAgree
INVARIANT AssertionAgree
INVARIANT VerificationAgree
INVARIANT NoOrphan
INVARIANT ExceptionsAgree

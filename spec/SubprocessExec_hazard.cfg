\* as coded, with exceptions that pickle cannot rebuild: ExceptionsAgree (and the refinement) fail
CONSTANTS
  Batches <- UnpicklableBatches
  Observers <- ObsModes
  M = 4
  Per = 2
  Faults = {}
  MaxFaults = 0
  Pickle = "ascoded"
  Variant = "ascoded"
SPECIFICATION Spec
INVARIANT TypeOK
INVARIANT TimeoutAgree
INVARIANT LinesAgree
INVARIANT AssertionAgree
INVARIANT VerificationAgree
INVARIANT NoOrphan
INVARIANT ExceptionsAgree

CONSTANTS
  N = 4
  Parent <- T1Parent
  Alt <- T1Alt
  OpSeq <- T1OpSeq
  Deferred = {"A"}
  AsCoded = FALSE
  EarlyExit = TRUE
  FinishReversed = TRUE
  FiniteCaps = {0, 2, 4}
  Strats = {"each", "ftl"}
  Orders = {1, 2, 3}
  MaxActs = 10
  MaxStarts = 2
SPECIFICATION Spec
CONSTRAINT Bound
INVARIANT TypeOK
INVARIANT RestoredAtQuiescence
INVARIANT MutantDiffersOnlyAtNode
INVARIANT SampleSubsetOfFull
INVARIANT NoAssertion
INVARIANT CountEqualsFull

CONSTANTS
  MaxMarkers = 1
  ScopeCfgs = {"none"}
SPECIFICATION Spec
INVARIANT Emit

------------------------------ MODULE MC_SetCover ------------------------------
(***************************************************************************)
(* Behaviour extraction for the C21 replay.  One behaviour = one complete  *)
(* input of a mutation analysis (the answers of the environment: which     *)
(* mutants are valid, which executions time out / raise / violate which    *)
(* assertions) or one tuple of mutant counts:                              *)
(*                                                                         *)
(*  "map"    every kill map up to MaxA x MaxM for one test case, all       *)
(*           mutants valid and terminating (exhaustive, emitted at Init)   *)
(*  "wide"   every outcome up to WA x WM with every mutant kind            *)
(*           (ok / timeout / invalid module), exceptions, time budget      *)
(*  "tuple"  every consistent (created, killed, timeout, unchecked) tuple  *)
(*           up to MaxCount                                                *)
(*  "crit"   the prune-critical kill maps of SetCoverCritical (5 x 7 ...  *)
(*           7 x 9), emitted like "map"                                    *)
(*  "sim"    random big inputs (two test cases, layouts, budget, both      *)
(*           removal modes, in-process and subprocess executor), built by  *)
(*           small pick steps so that -simulate stays cheap                *)
(*                                                                         *)
(* Fields of a behaviour b (all modes carry all fields):                   *)
(*   nA[t]      number of assertions on test t (statement order)           *)
(*   lay[t]     which statement layout the adapter uses for test t         *)
(*   nM         number of mutants the controller yields                    *)
(*   kind[m]    "ok" | "tmo" | "invalid"; tmoAt[m] = test that times out   *)
(*   budget     number of mutants reached within the time budget, -1 = all *)
(*   viol[t][m] assertions of t whose verification fails on mutant m       *)
(*   exc[t]     mutants on which a statement of t raises                   *)
(*   minimize   configuration.test_case_output.assertion_minimization      *)
(*   sub        the mutation executor is a SubprocessTestCaseExecutor      *)
(*   q          count tuple (mode "tuple")                                 *)
(***************************************************************************)
EXTENDS SetCoverOps, SetCoverCritical, TLC, Json

CONSTANTS MaxA, MaxM, WA, WM, MaxCount, Modes

VARIABLES b, todo
vars == <<b, todo>>

Unlimited == -1

Rec(mode, nA, lay, nM, kind, tmoAt, budget, viol, exc, minimize, sub, q) ==
  [mode |-> mode, nA |-> nA, lay |-> lay, nM |-> nM, kind |-> kind, tmoAt |-> tmoAt,
   budget |-> budget, viol |-> viol, exc |-> exc, minimize |-> minimize, sub |-> sub, q |-> q]

Kinds == {"ok", "tmo", "invalid"}

InitMap ==
  \E a \in 0..MaxA, m \in 0..MaxM :
    \E v \in [1..m -> SUBSET (1..a)] :
      b = Rec("map", <<a>>, <<0>>, m, [i \in 1..m |-> "ok"], [i \in 1..m |-> 1], Unlimited,
              <<v>>, <<{}>>, TRUE, FALSE, <<0, 0, 0, 0>>)

InitCrit ==
  \E c \in CriticalMaps :
    LET a == Len(c)
        m == MaxOf(UNION {c[i] : i \in DOMAIN c})
    IN b = Rec("map", <<a>>, <<0>>, m, [i \in 1..m |-> "ok"], [i \in 1..m |-> 1], Unlimited,
               <<[j \in 1..m |-> {i \in 1..a : j \in c[i]}]>>, <<{}>>, TRUE, FALSE, <<0, 0, 0, 0>>)

InitWide ==
  \E a \in 0..WA, m \in 0..WM, mini \in BOOLEAN :
    \E v \in [1..m -> SUBSET (1..a)], k \in [1..m -> Kinds], e \in SUBSET (1..m),
       bud \in {Unlimited} \cup 0..(m - 1) :
      b = Rec("wide", <<a>>, <<a + m>>, m, k, [i \in 1..m |-> 1], bud, <<v>>, <<e>>, mini, FALSE,
              <<0, 0, 0, 0>>)

InitTuple ==
  \E q \in Tuples(MaxCount) :
    b = Rec("tuple", <<>>, <<>>, 0, <<>>, <<>>, Unlimited, <<>>, <<>>, TRUE, FALSE, q)

(* ------------------------------------------------------------------ sim *)
InitSim == b = Rec("sim", <<>>, <<>>, 0, <<>>, <<>>, Unlimited, <<>>, <<>>, TRUE, FALSE, <<0, 0, 0, 0>>)

T == Len(b.nA)

PickN1 ==
  /\ todo = "n1"
  /\ \E n1 \in 0..MaxA, l1 \in 0..3 : b' = [b EXCEPT !.nA = <<n1>>, !.lay = <<l1>>]
  /\ todo' = "n2"

PickN2 ==
  /\ todo = "n2"
  /\ \E n2 \in -1..MaxA, l2 \in 0..3 :
       b' = IF n2 < 0 THEN b ELSE [b EXCEPT !.nA = Append(@, n2), !.lay = Append(@, l2)]
  /\ todo' = "m"

PickM ==
  /\ todo = "m"
  /\ \E m \in 0..MaxM, bi \in 1..8 :
       b' = [b EXCEPT !.nM = m,
                      !.budget = IF bi <= 6 \/ m = 0 THEN Unlimited ELSE (bi + m) % m,
                      !.viol = [t \in 1..T |-> <<>>],
                      !.exc = [t \in 1..T |-> {}]]
  /\ todo' = "flags"

PickFlags ==
  /\ todo = "flags"
  /\ \E mi \in 1..4, s \in BOOLEAN : b' = [b EXCEPT !.minimize = mi <= 3, !.sub = s]
  /\ todo' = "kind"

PickKind ==
  /\ todo = "kind" /\ Len(b.kind) < b.nM
  /\ \E ki \in 1..7, at \in 1..T :
       b' = [b EXCEPT !.kind = Append(@, IF ki <= 5 THEN "ok" ELSE IF ki = 6 THEN "tmo" ELSE "invalid"),
                      !.tmoAt = Append(@, at)]
  /\ todo' = "cell"

Cur == Len(b.kind)
NextTest == IF Len(b.viol[1]) < Cur THEN 1 ELSE 2

PickCell ==
  /\ todo = "cell"
  /\ LET t == NextTest
     IN /\ \E v \in SUBSET (1..b.nA[t]), e \in BOOLEAN :
             b' = [b EXCEPT !.viol[t] = Append(@, v),
                            !.exc[t] = IF e THEN @ \cup {Cur} ELSE @]
        /\ todo' = IF t = T THEN "kind" ELSE "cell"

SimDone == todo = "kind" /\ Len(b.kind) = b.nM

Init ==
  \/ "map" \in Modes /\ InitMap /\ todo = "done"
  \/ "crit" \in Modes /\ InitCrit /\ todo = "done"
  \/ "wide" \in Modes /\ InitWide /\ todo = "done"
  \/ "tuple" \in Modes /\ InitTuple /\ todo = "done"
  \/ "sim" \in Modes /\ InitSim /\ todo = "n1"

Next == PickN1 \/ PickN2 \/ PickM \/ PickFlags \/ PickKind \/ PickCell
Spec == Init /\ [][Next]_vars

Complete == todo = "done" \/ SimDone
\* exhaustive families are emitted compactly (ToJson of the full record dominates the run time):
\*   map   [nA, nM, masks of viol[1]]
\*   wide  [nA, nM, masks of viol[1], kind, mask of exc[1], budget, minimize]
\*   tuple [c, k, t, u]
Bit(S, i) == IF i \in S THEN 2 ^ (i - 1) ELSE 0
Mask(S) == Bit(S, 1) + Bit(S, 2) + Bit(S, 3) + Bit(S, 4) + Bit(S, 5) + Bit(S, 6) + Bit(S, 7) + Bit(S, 8)
Masks(f) == [m \in DOMAIN f |-> Mask(f[m])]
\* (sets are emitted as bit masks: TLC wraps long PrintT lines, which the harness cannot parse)
Compact == IF b.mode = "map" THEN ToJson(<<b.nA[1], b.nM, Masks(b.viol[1])>>)
           ELSE IF b.mode = "wide"
                THEN ToJson(<<b.nA[1], b.nM, Masks(b.viol[1]), b.kind, Mask(b.exc[1]), b.budget, b.minimize>>)
                ELSE ToJson(b.q)
Emit == todo = "done" => PrintT(<<"HIST", Compact>>)
=============================================================================

SPECIFICATION Spec
INVARIANT InstrumentationSucceeds
INVARIANT RecordingContinuesLines
INVARIANT RecordingContinuesOutcomes
INVARIANT EnabledRestored
CHECK_DEADLOCK FALSE

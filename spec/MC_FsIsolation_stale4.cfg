CONSTANTS
  Depth = 4
  AllVias = FALSE
  LastAllVias = FALSE
  Prune = TRUE
  PruneLast = TRUE
  Repr = TRUE
  OnlyStale <- StaleOn
SPECIFICATION Spec
INVARIANT Emit

CONSTANTS
  N = 4
  Parent <- T1Parent
  Alt <- T1Alt
  OpSeq <- T1OpSeq
  Deferred = {"A"}
  AsCoded = TRUE
  EarlyExit = FALSE
  FinishReversed = TRUE
  FiniteCaps = {0, 2, 4}
  Strats = {"each", "ftl"}
  Orders = {1, 2, 3}
  MaxActs = 4
  MaxStarts = 2
SPECIFICATION Spec
CONSTRAINT Bound
INVARIANT CountEqualsFull

CONSTANTS
  Preds = {1, 2}
  Lines = {1, 2}
  MaxCalls = 4
  RestoreOnRaise = TRUE
SPECIFICATION Spec
INVARIANT RecordedWF
INVARIANT EnabledRestored

CONSTANTS
  Dev = {"RecordExisting", "NoCheckOnWrite", "KwDstIsSrc"}
  MaxSteps = 1
  AllVias = FALSE
SPECIFICATION Spec
INVARIANT Isolation

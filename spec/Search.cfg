CONSTANTS
  MaxIter = 3
  MaxExec = 7
  ExecPerIter = {0, 1, 3}
  InitExecs = 2
  LoopConsults = TRUE
  StrictGE = TRUE
SPECIFICATION Spec
INVARIANT IterBound
PROPERTY NoIterationAfterBudget
PROPERTY Terminates

CONSTANTS
  NUser = 2
  Level = 0
  MaxSteps = 3
  Deviations = {}
  Prov = "R"
  FixedRoots = TRUE
SPECIFICATION Spec
INVARIANT TypeOK
INVARIANT CacheCoherent
INVARIANT OfferedNowCompatible

------------------------------ MODULE MC_Cache -------------------------------
(***************************************************************************)
(* Behaviour extraction for spec->code replay (C12).  The design model of  *)
(* the code as it is (Faults = CodeFaults in the cfg) is explored; `hist`  *)
(* records the calls.  hist is excluded from the VIEW, so TLC keeps one    *)
(* (shortest) history per distinct (world, report, last call) and Emit     *)
(* prints it whenever the last call is a query: every distinct way the     *)
(* model can answer a query is replayed on the real chromosomes.  `pred`   *)
(* is what the model predicts for that last query.                         *)
(***************************************************************************)
EXTENDS Cache, Json

VARIABLES hist, ip
mcvars == <<W, obs, hist, ip>>

MCInit == /\ \E mode \in Modes : \E pr \in InitParams(mode) :
               /\ W = InitWorld(mode, pr[1], pr[2], pr[3])
               /\ ip = [sut1 |-> pr[1], regF |-> pr[2], regC |-> pr[3], mode |-> mode,
                         ns |-> IF mode \in {"T"} \cup FocusC THEN 0 ELSE 1]
          /\ obs = NoV
          /\ hist = <<>>

MCNext == /\ Len(hist) < DepthOf(W)
          /\ \E act \in Acts(W) : \E out \in Outs(W, act) :
                Do(act, out) /\ hist' = Append(hist, act)
          /\ UNCHANGED ip

MCSpec == MCInit /\ [][MCNext]_mcvars

LastAct == IF hist = <<>> THEN A("", 0, 0, 0, 0, "", "") ELSE hist[Len(hist)]
View == <<W, obs, LastAct, ip>>

Emit == (hist # <<>> /\ IsQuery(LastAct)) =>
          PrintT(<<"HIST", ToJson([ip |-> ip, hist |-> hist, pred |-> obs])>>)
=============================================================================

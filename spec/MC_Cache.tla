------------------------------ MODULE MC_Cache -------------------------------
(***************************************************************************)
(* Behaviour extraction for spec->code replay (C12).  The design model of  *)
(* the code as it is (Faults = CodeFaults in the cfg) is explored; `hist`  *)
(* records the calls.  hist is excluded from the VIEW, so TLC keeps one    *)
(* (shortest) history per distinct (world, report, last call) and Emit     *)
(* prints it whenever the last call is a query: every distinct way the     *)
(* model can answer a query is replayed on the real chromosomes.  `pred`   *)
(* is what the model predicts for that last query.                         *)
(* Histories that are equivalent in the model need not be equivalent in a  *)
(* broken implementation (clone before or after the first query), so the   *)
(* pattern modes PC*/PM* keep `hist` in the VIEW and emit every call       *)
(* sequence of the shapes given by PhaseNext.                              *)
(***************************************************************************)
EXTENDS Cache, Json

VARIABLES hist, ip, ph
mcvars == <<W, obs, hist, ip, ph>>

(* pattern modes: a history is  query [relate] edit query [query]  or  query edit clone query [query]
   -- ph is the state of that automaton *)
Pat == PatC \cup PatM
QOps == {"tq", "sq"}
ROps == {"tclone", "sclone", "sadd", "sadds", "sset"}
EOps == {"tmut", "txo", "smut", "sxo", "sadd", "sadds", "sdel", "sset"}
COps == {"tclone", "sclone"}
PhaseNext(p, op) ==
  CASE p = 0 -> IF op \in QOps THEN {1} ELSE {}                         \* first query
    [] p = 1 -> (IF op \in ROps THEN {2} ELSE {}) \cup (IF op \in EOps THEN {3} ELSE {})
    [] p = 2 -> IF op \in EOps THEN {7} ELSE {}                         \* edit after relate
    [] p = 3 -> (IF op \in QOps THEN {4} ELSE {}) \cup (IF op \in COps THEN {6} ELSE {})
    [] p = 6 -> IF op \in QOps THEN {4} ELSE {}                         \* clone after edit
    [] p = 7 -> IF op \in QOps THEN {4} ELSE {}
    [] p = 4 -> IF op \in QOps THEN {5} ELSE {}                         \* second query, other chromosome
    [] OTHER -> {}
PhaseFinal == {4, 5}

(* two live suites, modes PXfit PXisc PXcov:  [sq(1) sq(2)]  sxo(a, b, p, q)  [sq | sq(1) sq(2)]  smut(a | b)  sq sq(the other one)
   -- a direct cross_over between two suites that both stay in use, then one of them is mutated and
   both are asked *)
LastA == hist[Len(hist)].a
PhaseNextX(p, act) ==
  CASE p = 0 -> (IF act.op = "sq" /\ act.a = 1 THEN {1} ELSE {}) \cup (IF act.op = "sxo" THEN {3} ELSE {})
    [] p = 1 -> IF act.op = "sq" /\ act.a = 2 THEN {2} ELSE {}
    [] p = 2 -> IF act.op = "sxo" THEN {3} ELSE {}
    [] p = 3 -> (IF act.op = "sq" THEN {4} ELSE {}) \cup (IF act.op = "smut" THEN {6} ELSE {})
    [] p = 4 -> (IF act.op = "sq" /\ act.a > LastA THEN {5} ELSE {}) \cup (IF act.op = "smut" THEN {6} ELSE {})
    [] p = 5 -> IF act.op = "smut" THEN {6} ELSE {}
    [] p = 6 -> IF act.op = "sq" THEN {7} ELSE {}
    [] p = 7 -> IF act.op = "sq" /\ act.a # LastA THEN {8} ELSE {}
    [] OTHER -> {}
PhaseFinalX == {8}

MCInit == /\ \E mode \in Modes : \E pr \in InitParams(mode) :
               /\ W = InitWorld(mode, pr[1], pr[2], pr[3])
               /\ ip = [sut1 |-> pr[1], regF |-> pr[2], regC |-> pr[3], mode |-> mode,
                         ns |-> IF mode \in {"T"} \cup FocusC THEN 0 ELSE IF mode \in PatX THEN 2 ELSE 1]
          /\ obs = NoV
          /\ hist = <<>>
          /\ ph = 0

MCNext == /\ Len(hist) < DepthOf(W)
          /\ \E act \in Acts(W) : \E out \in Outs(W, act) :
                /\ Do(act, out) /\ hist' = Append(hist, act)
                /\ IF W.mode \in Pat
                   THEN /\ ph' \in PhaseNext(ph, act.op)
                        \* the second query asks another chromosome than the first
                        /\ (ph = 4 => <<act.op, act.a>> # <<hist[Len(hist)].op, hist[Len(hist)].a>>)
                   ELSE IF W.mode \in PatX THEN ph' \in PhaseNextX(ph, act)
                   ELSE ph' = ph
          /\ UNCHANGED ip

MCSpec == MCInit /\ [][MCNext]_mcvars

\* chromosomes own their test cases: the call just made changed the inputs of no other chromosome
IsolationMC == [][IsolatedP(W, W', hist'[Len(hist')])]_mcvars

LastAct == IF hist = <<>> THEN A("", 0, 0, 0, 0, "", "") ELSE hist[Len(hist)]
View == <<W, obs, LastAct, ip, ph, IF W.mode \in Pat \cup PatX THEN hist ELSE <<>>>>

Emit == (hist # <<>> /\ IsQuery(LastAct) /\ (W.mode \in Pat => ph \in PhaseFinal)
           /\ (W.mode \in PatX => ph \in PhaseFinalX)) =>
          PrintT(<<"HIST", ToJson([ip |-> ip, hist |-> hist, pred |-> obs])>>)
=============================================================================

----------------------------- MODULE ReportTrace ------------------------------
(***************************************************************************)
(* C35: the coverage report (pynguin.utils.report.get_coverage_report)     *)
(* agrees with the computed coverage.  One event per generated suite:      *)
(*   rep_*   totals of the report as [cov, ex] pairs and its coverage       *)
(*           values as rationals [num, den]                                 *)
(*   ann     per-line annotations (branches, branchless, lines, total)      *)
(*   trk_*   coverage values Pynguin tracked for the final suite            *)
(*   ind_*   counts recomputed from the suite's merged execution trace and  *)
(*           the registries, independently of the report                    *)
(*   covered_lines   lines the suite's merged trace covers                  *)
(*   xml     <line number, hits> of the rendered cov_report.xml             *)
(***************************************************************************)
EXTENDS Naturals, Integers, Sequences, FiniteSets, Folds, Functions, TLC, TLCExt, Json, IOUtils

Traces == ndJsonDeserialize(IOEnv.TRACE_FILE)
VARIABLES tid, l, cur
vars == <<tid, l, cur>>
NoEv == [ev |-> "none"]
Init == /\ tid \in 1..Len(Traces) /\ l = 0 /\ cur = NoEv
Next == /\ l < Len(Traces[tid].ev) /\ l' = l + 1 /\ cur' = Traces[tid].ev[l + 1] /\ UNCHANGED tid
Spec == Init /\ [][Next]_vars

SumBy(seq, f(_)) == FoldFunction(LAMBDA x, acc : f(x) + acc, 0, seq)
RatEq(a, b) == a.num * b.den = b.num * a.den
SetOf(q) == {q[i] : i \in DOMAIN q}
IsRep == cur.ev = "Report"

(* totals = tracked coverage *)
TotalsEqualTracked ==
  IsRep =>
    /\ cur.has_branch => (RatEq(cur.rep_bc, cur.trk_bc)
                          /\ (cur.rep_b.cov + cur.rep_bl.cov) * cur.rep_bc.den = cur.rep_bc.num * (cur.rep_b.ex + cur.rep_bl.ex))
    /\ cur.has_line => (RatEq(cur.rep_lc, cur.trk_lc)
                        /\ cur.rep_l.cov * cur.rep_lc.den = cur.rep_lc.num * cur.rep_l.ex)
(* totals = what the suite's merged trace really covers *)
TotalsEqualRecomputed ==
  IsRep =>
    /\ cur.has_branch => (cur.rep_b.cov + cur.rep_bl.cov = cur.ind_b.cov /\ cur.rep_b.ex + cur.rep_bl.ex = cur.ind_b.ex)
    /\ cur.has_line => (cur.rep_l.cov = cur.ind_l.cov /\ cur.rep_l.ex = cur.ind_l.ex)
(* per-line annotations sum to the totals *)
AnnotationsSumToTotals ==
  IsRep =>
    /\ SumBy(cur.ann, LAMBDA a : a.b.cov) = cur.rep_b.cov /\ SumBy(cur.ann, LAMBDA a : a.b.ex) = cur.rep_b.ex
    /\ SumBy(cur.ann, LAMBDA a : a.bl.cov) = cur.rep_bl.cov /\ SumBy(cur.ann, LAMBDA a : a.bl.ex) = cur.rep_bl.ex
    /\ SumBy(cur.ann, LAMBDA a : a.l.cov) = cur.rep_l.cov /\ SumBy(cur.ann, LAMBDA a : a.l.ex) = cur.rep_l.ex
    /\ \A i \in DOMAIN cur.ann :
         /\ cur.ann[i].t.cov = cur.ann[i].b.cov + cur.ann[i].bl.cov + cur.ann[i].l.cov
         /\ cur.ann[i].t.ex = cur.ann[i].b.ex + cur.ann[i].bl.ex + cur.ann[i].l.ex
         /\ cur.ann[i].t.cov <= cur.ann[i].t.ex
(* a line is shown as covered exactly when the suite covers it *)
LineShownCoveredIffCovered ==
  (IsRep /\ cur.has_line) =>
    \A i \in DOMAIN cur.ann :
      cur.ann[i].l.ex > 0 => ((cur.ann[i].l.cov = cur.ann[i].l.ex) = (cur.ann[i].line \in SetOf(cur.covered_lines)))
(* the rendered XML report marks a line as hit exactly when the report object says that the line *)
(* or something on it (a branch, a branch-less code object) is covered                          *)
XmlHitsFollowAnnotations ==
  IsRep =>
    \A i \in DOMAIN cur.xml :
      \E j \in DOMAIN cur.ann :
        /\ cur.ann[j].line = cur.xml[i].line
        /\ (cur.xml[i].hits > 0) = (cur.ann[j].l.cov > 0 \/ cur.ann[j].b.cov + cur.ann[j].bl.cov > 0)
=============================================================================

---------------------------- MODULE SubprocessExec ----------------------------
(***************************************************************************)
(* Protocol of pynguin.testcase.subprocess_executor                        *)
(* SubprocessTestCaseExecutor.execute_multiple as coded:                   *)
(*                                                                         *)
(* parent   Setup     _before_remote_test_case_execution for every test,   *)
(*                    _create_variable_binding, Pipe, Process(...).start() *)
(*          Poll      receiving_connection.poll(timeout = budget of the    *)
(*                    whole batch) -> HAS_RESULTS | NO_RESULTS             *)
(*          Recv      recv(): the message, or EOFError when the child went *)
(*                    away without sending (poll is also true at EOF)      *)
(*          Join      process.join(maximum timeout), kill if still alive,  *)
(*                    RNG / module provider / tracer state taken over,     *)
(*                    _fix_assertion_trace re-links every assertion trace  *)
(*          Fallback  _fallback_on_failure: kill the child if alive; one   *)
(*                    test: the result is ExecutionResult(timeout=True);   *)
(*                    several tests: a fresh subprocess executor executes  *)
(*                    them one process per test (same protocol, jobs of 1) *)
(* child    ChildRun  _replace_tracer, then TestCaseExecutor (the          *)
(*                    in-process executor, thread + watchdog, Executor.tla)*)
(*                    executes one test case after the other               *)
(*          ChildFix  _fix_result_for_pickle, _create_new_reference_bind.  *)
(*          ChildSend sending_connection.send(...), close, exit            *)
(* faults   Crash     the child process dies (signal, os._exit) at any of  *)
(*                    its steps; ChildRaise: an exception inside the child *)
(*                    function is suppressed, the child exits silently;    *)
(*                    Slow: the poll timeout expires although the child    *)
(*                    would have answered (machine load)                   *)
(*                                                                         *)
(* The model refines the abstract executor of Executor.tla                 *)
(* (Execute(tc) -> result, operator ExecResultAt): property AbsSpec says   *)
(* every result the parent delivers is the abstract one - or, for a test   *)
(* case that hits a fault, the timeout result.  The components of the      *)
(* agreement (C31) are the invariants TimeoutAgree .. VerificationAgree.    *)
(*                                                                         *)
(* Time is abstract: the child "clock" is the time at which it will have   *)
(* finished the test cases executed so far; process start and pickling     *)
(* take a positive amount of time, therefore the child answers in time iff *)
(* clock < budget.  A terminating test case takes Dur(p) (its "slow"       *)
(* statements sleep in uninstrumented code); it is a timeout exactly when  *)
(* Dur(p) reaches TestBudget(p, m, per) of the executor that runs it.  The *)
(* executor inside the child is built from the two settings that Setup     *)
(* puts into the argument tuple of the process (ChildArgs): the budget of  *)
(* a test case in the child is TestBudget(p, ChildArgs.m, ChildArgs.per)   *)
(* and has to be the budget of the in-process executor (ChildBudgetAgree). *)
(*                                                                         *)
(* Variant (what-if switches, "ascoded" is the code):                      *)
(*   "swapargs"     the two timeout settings arrive swapped in the child   *)
(*   "relinkbound"  _fix_assertion_trace re-adds only positions that bind  *)
(*   "sendoutside"  the results are pickled after the tracer was stopped:  *)
(*                  instrumented pickling hooks kill the child             *)
(***************************************************************************)
EXTENDS SubprocessExecOps, TLC

CONSTANTS Batches,    \* set of batches; a batch is the sequence of test cases of one call
          Observers,  \* subset of ObsModes: which remote observer is attached
          M, Per,     \* maximum timeout, time per statement (abstract units)
          Faults,     \* subset of {"crash", "raise", "slow"}
          MaxFaults,  \* bound on the number of fault events
          Pickle,     \* "ascoded": unpicklable exceptions are dropped | "faithful": sent in a picklable form
          Variant     \* "ascoded" | "swapargs" | "relinkbound" | "sendoutside" (what-if)

VARIABLES tests,    \* the batch given to execute_multiple
          obs,      \* the attached remote observer
          ppc,      \* parent: "setup" | "poll" | "recv" | "join" | "fallback" | "next" | "done"
          jobs,     \* queue of jobs (sequences of test indices); the head is being executed
          cpc,      \* child of the current job:
                    \*   "none" | "run" | "send" | "closing" | "exited" | "dead" | "killed"
          ck,       \* child: index into the job of the test case executed next
          cres,     \* child: results so far
          clock,    \* child: time consumed
          cst,      \* child: hidden SUT state (what-if "cnt"); the parent's SUT state stays 0
          pipe,     \* "none" | "open" | "data" | "eof"
          msg,      \* content of the pipe
          results,  \* test index -> delivered result (NoRes before)
          execs,    \* test index -> how many processes started executing it
          nfault,   \* number of fault events so far
          path      \* history of protocol events (for the replay on the real executor)
vars == <<tests, obs, ppc, jobs, cpc, ck, cres, clock, cst, pipe, msg, results, execs, nfault, path>>

N == Len(tests)
Job == Head(jobs)
Whole == [k \in 1..N |-> k]
Singles(job) == [k \in 1..Len(job) |-> <<job[k]>>]
NoMsg == [res |-> <<>>, newb |-> <<>>]
\* (maximum_test_execution_timeout, test_execution_time_per_statement) as they arrive in
\* _execute_test_cases_in_subprocess
ChildArgs == IF Variant = "swapargs" THEN [m |-> Per, per |-> M] ELSE [m |-> M, per |-> Per]
ChildBudget(p) == TestBudget(p, ChildArgs.m, ChildArgs.per)
\* _create_new_reference_bindings: None when the assertion trace is empty
NoBind == [some |-> FALSE, b |-> <<>>]
ChildAlive == cpc \in {"run", "send", "closing"}
CanFault(f) == f \in Faults /\ nfault < MaxFaults

Init ==
  /\ tests \in Batches /\ obs \in Observers
  /\ ppc = "setup" /\ jobs = <<[k \in 1..Len(tests) |-> k]>>
  /\ cpc = "none" /\ ck = 0 /\ cres = <<>> /\ clock = 0 /\ cst = 0
  /\ pipe = "none" /\ msg = NoMsg
  /\ results = [i \in 1..Len(tests) |-> NoRes]
  /\ execs = [i \in 1..Len(tests) |-> 0]
  /\ nfault = 0 /\ path = <<>>

---------------------------------------------------------------------------
(* parent *)
Setup ==
  /\ ppc = "setup"
  /\ cpc' = "run" /\ ck' = 1 /\ cres' = <<>> /\ clock' = 0
  /\ cst' = 0                      \* fork: the child starts from the parent's SUT state
  /\ pipe' = "open" /\ msg' = NoMsg
  /\ ppc' = "poll"
  /\ path' = Append(path, <<"fork", Len(Job)>>)
  /\ UNCHANGED <<tests, obs, jobs, results, execs, nfault>>

\* poll() returns True: a message or EOF is there
PollReady ==
  /\ ppc = "poll" /\ pipe \in {"data", "eof"}
  /\ ppc' = "recv"
  /\ UNCHANGED <<tests, obs, jobs, cpc, ck, cres, clock, cst, pipe, msg, results, execs, nfault, path>>

\* poll() returns False: the budget of the job is used up
PollTimeout ==
  /\ ppc = "poll" /\ pipe = "open"
  /\ IF clock >= Budget(Job, tests, M, Per) THEN nfault' = nfault
     ELSE CanFault("slow") /\ nfault' = nfault + 1
  /\ ppc' = "fallback"
  /\ path' = Append(path, <<"polltimeout", Len(Job)>>)
  /\ UNCHANGED <<tests, obs, jobs, cpc, ck, cres, clock, cst, pipe, msg, results, execs>>

Recv ==
  /\ ppc = "recv"
  /\ IF pipe = "data" THEN ppc' = "join" /\ path' = path
     ELSE ppc' = "fallback" /\ path' = Append(path, <<"eof", Len(Job)>>)
  /\ UNCHANGED <<tests, obs, jobs, cpc, ck, cres, clock, cst, pipe, msg, results, execs, nfault>>

\* the results of the job are taken over and re-linked
Deliver(k) ==
  LET r == msg.res[k]
      p == tests[Job[k]]
  IN IF ~msg.newb[k].some THEN r
     ELSE IF Variant = "relinkbound"
     THEN [r EXCEPT !.atr = RelinkBoundOnly(r.atr, Bind(p), msg.newb[k].b)]
     ELSE [r EXCEPT !.atr = Relink(r.atr, Bind(p), msg.newb[k].b)]
Join ==
  /\ ppc = "join"
  /\ cpc' = IF cpc \in {"exited", "dead"} THEN cpc ELSE "killed"
  /\ results' = [i \in 1..N |->
        IF \E k \in 1..Len(Job) : Job[k] = i
        THEN Deliver(CHOOSE k \in 1..Len(Job) : Job[k] = i)
        ELSE results[i]]
  /\ ppc' = "next"
  /\ path' = Append(path, <<"direct", Len(Job)>>)
  /\ UNCHANGED <<tests, obs, jobs, ck, cres, clock, cst, pipe, msg, execs, nfault>>

Fallback ==
  /\ ppc = "fallback"
  /\ cpc' = IF cpc \in {"exited", "dead"} THEN cpc ELSE "killed"
  /\ pipe' = "none"
  /\ path' = Append(path, <<"fallback", Len(Job)>>)
  /\ IF Len(Job) = 1
     THEN /\ results' = [results EXCEPT ![Job[1]] = TimeoutRes]
          /\ ppc' = "next" /\ UNCHANGED jobs
     ELSE /\ jobs' = Singles(Job) \o Tail(jobs)
          /\ ppc' = "setup" /\ UNCHANGED results
  /\ UNCHANGED <<tests, obs, ck, cres, clock, cst, msg, execs, nfault>>

NextJob ==
  /\ ppc = "next"
  /\ jobs' = Tail(jobs)
  /\ ppc' = IF Tail(jobs) = <<>> THEN "done" ELSE "setup"
  /\ UNCHANGED <<tests, obs, cpc, ck, cres, clock, cst, pipe, msg, results, execs, nfault, path>>

---------------------------------------------------------------------------
(* child of the current job *)
ChildRun ==
  /\ cpc = "run" /\ ck <= Len(Job)
  /\ LET i == Job[ck]
         p == tests[i]
     IN /\ execs' = [execs EXCEPT ![i] = @ + 1]
        /\ IF HasDie(p)
           THEN /\ cpc' = "dead" /\ pipe' = IF pipe = "open" THEN "eof" ELSE pipe
                /\ UNCHANGED <<ck, cres, clock, cst>>
           ELSE /\ cres' = Append(cres, ExecResultAt(p, obs, cst, ChildArgs.m, ChildArgs.per))
                /\ clock' = clock + Cost(p, ChildArgs.m, ChildArgs.per)
                /\ cst' = cst + CntIn(p)
                /\ ck' = ck + 1
                /\ UNCHANGED <<cpc, pipe>>
  /\ UNCHANGED <<tests, obs, ppc, jobs, msg, results, nfault, path>>

ChildFix ==
  /\ cpc = "run" /\ ck > Len(Job)
  /\ cres' = [k \in 1..Len(cres) |-> PickleFix(cres[k], Pickle)]
  /\ cpc' = "send"
  /\ UNCHANGED <<tests, obs, ppc, jobs, ck, clock, cst, pipe, msg, results, execs, nfault, path>>

\* a late child (clock >= budget) reaches send() only after the parent's poll has expired
ChildSend ==
  /\ cpc = "send"
  /\ clock < Budget(Job, tests, M, Per) \/ ppc # "poll"
  /\ IF Variant = "sendoutside" /\ \E k \in 1..Len(cres) : cres[k].exct \in Hooked
     THEN \* TracingAbortedException (a BaseException) out of the pickler: exit code 1, nothing sent
          /\ cpc' = "dead" /\ pipe' = (IF pipe = "open" THEN "eof" ELSE pipe) /\ UNCHANGED msg
     ELSE IF pipe = "open" /\ ppc = "poll"
     THEN /\ pipe' = "data"
          /\ msg' = [res |-> cres,
                     newb |-> [k \in 1..Len(cres) |->
                                 IF cres[k].atr # {}
                                 THEN [some |-> TRUE, b |-> Bind(tests[Job[k]])] ELSE NoBind]]
          /\ cpc' = "closing"
     ELSE /\ cpc' = "exited"            \* BrokenPipe, suppressed
          /\ UNCHANGED <<pipe, msg>>
  /\ UNCHANGED <<tests, obs, ppc, jobs, ck, cres, clock, cst, results, execs, nfault, path>>

ChildExit ==
  /\ cpc = "closing" /\ cpc' = "exited"
  /\ UNCHANGED <<tests, obs, ppc, jobs, ck, cres, clock, cst, pipe, msg, results, execs, nfault, path>>

(* faults *)
Crash ==
  /\ ChildAlive /\ CanFault("crash")
  /\ cpc' = "dead" /\ pipe' = IF pipe = "open" THEN "eof" ELSE pipe
  /\ nfault' = nfault + 1
  /\ UNCHANGED <<tests, obs, ppc, jobs, ck, cres, clock, cst, msg, results, execs, path>>

ChildRaise ==
  /\ cpc \in {"run", "send"} /\ CanFault("raise")
  /\ cpc' = "exited" /\ pipe' = IF pipe = "open" THEN "eof" ELSE pipe
  /\ nfault' = nfault + 1
  /\ UNCHANGED <<tests, obs, ppc, jobs, ck, cres, clock, cst, msg, results, execs, path>>

ParentStep == Setup \/ PollReady \/ PollTimeout \/ Recv \/ Join \/ Fallback \/ NextJob
ChildStep == ChildRun \/ ChildFix \/ ChildSend \/ ChildExit
Next == ParentStep \/ ChildStep \/ Crash \/ ChildRaise

Spec == Init /\ [][Next]_vars /\ WF_vars(ParentStep) /\ WF_vars(ChildStep)

---------------------------------------------------------------------------
TypeOK ==
  /\ ppc \in {"setup", "poll", "recv", "join", "fallback", "next", "done"}
  /\ cpc \in {"none", "run", "send", "closing", "exited", "dead", "killed"}
  /\ pipe \in {"none", "open", "data", "eof"}
  /\ obs \in ObsModes /\ nfault \in 0..MaxFaults
  /\ (ppc # "done" => jobs # <<>>)

(* the abstract executor: test i of a batch runs in the process that ran tests 1..i-1 *)
StateBefore(i) == CntUpTo(tests, i - 1)
Expected(i) == ExecResultAt(tests[i], obs, StateBefore(i), M, Per)
Delivered(i) == ~results[i].none
Undisturbed == nfault = 0

(* ---- refinement of Executor.tla's Execute(tc) -> result ----------------- *)
Allowed(i) == {Expected(i)} \cup (IF Faults # {} \/ ~Det(tests[i]) THEN {TimeoutRes} ELSE {})
AbsNext == \A i \in 1..N : results'[i] = results[i] \/ (results[i].none /\ results'[i] \in Allowed(i))
AbsSpec == [][AbsNext]_results

(* ---- C31, component by component (deterministic test cases, no fault) --- *)
Relevant(i) == Delivered(i) /\ Det(tests[i]) /\ Undisturbed
TimeoutAgree      == \A i \in 1..N : Relevant(i) => results[i].timeout = Expected(i).timeout
ExceptionsAgree   == \A i \in 1..N : Relevant(i) => /\ results[i].exc = Expected(i).exc
                                                    /\ results[i].exct = Expected(i).exct
LinesAgree        == \A i \in 1..N : Relevant(i) => results[i].items = Expected(i).items
AssertionAgree    == \A i \in 1..N : Relevant(i) => results[i].atr = Expected(i).atr
VerificationAgree == \A i \in 1..N : Relevant(i) => results[i].vtr = Expected(i).vtr

\* the executor in the child gives every test case the budget of the in-process executor
ChildBudgetAgree == \A i \in 1..N : ChildBudget(tests[i]) = TestBudget(tests[i], M, Per)

(* ---- protocol properties ------------------------------------------------- *)
\* under faults a result is the abstract one or the timeout result, never something else
SafeDegradation == \A i \in 1..N : Delivered(i) => results[i] \in {Expected(i), TimeoutRes}
\* whenever the parent is between jobs no child process is left behind
NoOrphan == ppc \in {"setup", "next", "done"} => ~ChildAlive
\* a test case is executed by at most two processes (the batch child and its own child)
AtMostTwice == \A i \in 1..N : execs[i] <= 2
\* execute_multiple returns a result for every test case
AllDelivered == ppc = "done" => \A i \in 1..N : Delivered(i)
Returns == <>(ppc = "done")

(* ---- batches used by the design configurations --------------------------- *)
DP(ops) == Uniform(ops, "gen")
\* (design configurations: M = 4, Per = 2, SlowDur = 3 - one statement: budget 2, more: budget 4)
DesignPrograms == {DP(<<"recT">>), DP(<<"recF", "exc", "recT">>), DP(<<"obj", "mut">>),
                   DP(<<"spin">>), DP(<<"recT", "nap">>), DP(<<"recT", "die">>),
                   <<St("recT", "fail"), St("excS", "xwrong"), St("lit", "err")>>,
                   DP(<<"recT", "slow">>),       \* slower than Per, inside its budget
                   DP(<<"slow">>),               \* terminates, but only after its budget
                   \* hooked object, mutated by an expression statement; the last statement is a
                   \* raising expression statement whose exception has instrumented pickling hooks
                   <<St("objR", "gen"), Unb(St("mut", "gen")), Unb(St("excR", "gen"))>>}
UnpicklablePrograms == {DP(<<"recT", "excU">>), DP(<<"excU">>)}
HiddenPrograms == {DP(<<"cnt">>), DP(<<"cnt", "nap">>), DP(<<"recT">>)}
SeqsUpTo(S, n) == UNION {[1..k -> S] : k \in 1..n}
DesignBatches2 == SeqsUpTo(DesignPrograms, 2)
DesignBatches3 == SeqsUpTo(DesignPrograms, 3)
UnpicklableBatches == SeqsUpTo(DesignPrograms \cup UnpicklablePrograms, 2)
HiddenBatches == SeqsUpTo(HiddenPrograms, 3)
AllFaults == {"crash", "raise", "slow"}
=============================================================================

---------------------------- MODULE MC_PyMiniData -----------------------------
(***************************************************************************)
(* Case generation for C09: a program builder.  A behaviour picks a         *)
(* skeleton (shape of the function body: straight line, if / if-else, early  *)
(* return, for loop, nesting of depth 2) and inputs, then fills the slots of *)
(* the skeleton from left to right with statements of the alphabet whose     *)
(* reads are definitely defined at that point (so the program does not raise *)
(* NameError / AttributeError / KeyError), prepends the creation statements  *)
(* of the containers the body mentions and appends `return x|y`.  The last   *)
(* step evaluates the PyMiniData semantics on the program (executed lines,   *)
(* dynamic slice of the returned value, return value).                       *)
(*  - exhaustive (cfg with INVARIANT Emit): every program of the chosen      *)
(*    skeletons x alphabet x inputs is emitted once;                         *)
(*  - `-simulate` (cfg without Emit): random programs over all skeletons; the *)
(*    harness reads the final state of each behaviour.                       *)
(***************************************************************************)
EXTENDS PyMiniData, Json

CONSTANTS SkSet,      \* skeleton ids to use
          Alpha,      \* "core" | "full"
          InputSet    \* set of <<a, b>>

(* ---- alphabet of simple statements ---- *)
Plain == {Const("x", 0), Const("x", 1), Const("y", 1),
          Bin("x", "x", "y", "add"), Bin("y", "x", "a", "add"), Bin("x", "a", "b", "add"),
          Bin("x", "x", "y", "mul"), Bin("y", "y", "b", "add"), Copy("y", "x"), Copy("x", "b")}
Calls == {Call("x", "h", "y"), Call("y", "g", "x"), Call("x", "g", "a"), Call("y", "h", "b")}
Attrs == {Store("o", 0, "x"), Store("o", 0, "a"), Store("p", 0, "y"), Store("o", 1, "y"),
          Load("x", "o", 0), Load("y", "p", 0), Load("x", "o", 1), Load("x", "p", 1)}
Lists == {Store("l", 0, "x"), Store("l", 1, "y"), Store("l", 0, "b"), Load("x", "l", 0), Load("y", "l", 1)}
Dicts == {Store("d", 0, "x"), Store("d", 1, "y"), Store("d", 1, "a"), Load("x", "d", 0), Load("y", "d", 1)}
Globs == {Copy("G", "x"), Copy("G", "b"), Copy("x", "G"), Copy("y", "G")}
FullAlpha == Plain \cup Calls \cup Attrs \cup Lists \cup Dicts \cup Globs
CoreAlpha == {Const("x", 1), Copy("y", "x"), Bin("x", "x", "y", "add"), Bin("x", "a", "b", "add"),
              Call("x", "h", "y"), Call("y", "g", "x"),
              Store("o", 0, "x"), Store("p", 0, "y"), Load("x", "o", 0), Load("y", "p", 0),
              Store("l", 0, "x"), Store("l", 1, "y"), Load("x", "l", 0),
              Store("d", 0, "x"), Store("d", 1, "a"), Load("x", "d", 0), Load("y", "d", 1),
              Copy("G", "x"), Copy("x", "G")}
Alphabet == IF Alpha = "core" THEN CoreAlpha ELSE FullAlpha

(* ---- what a statement needs / provides (names and cells of the must-defined analysis) ---- *)
Cell(o, f) == IF o \in {"o", "p"} THEN (IF f = 0 THEN "o0" ELSE "o1")
              ELSE IF o = "l" THEN (IF f = 0 THEN "l0" ELSE "l1") ELSE (IF f = 0 THEN "d0" ELSE "d1")
Reads(s) == CASE s.t = "bin" -> {s.y, s.z} [] s.t \in {"copy", "call"} -> {s.y}
              [] s.t = "store" -> {s.y} [] s.t = "load" -> {Cell(s.o, s.f)} [] OTHER -> {}
Writes(s) == CASE s.t = "store" -> {Cell(s.o, s.f)} [] OTHER -> {s.x}
Mentions(s) == CASE s.t \in {"store", "load"} -> {s.o} [] OTHER -> {}
Defd0 == {"a", "b", "G", "l0", "l1", "d0"}

(* ---- skeletons: slot kinds "H" top-level statement, "h" nested statement, "C" condition variable, ---- *)
(* ---- "K" loop count, "R" variable of an early return                                               ---- *)
Slots(sk) ==
  CASE sk = 1 -> <<"H", "H">>
    [] sk = 2 -> <<"H", "H", "H">>
    [] sk = 3 -> <<"H", "H", "H", "H">>
    [] sk = 4 -> <<"H", "C", "h", "H">>
    [] sk = 5 -> <<"H", "C", "h", "h", "H">>
    [] sk = 6 -> <<"H", "C", "h", "h", "h">>
    [] sk = 7 -> <<"H", "C", "R", "H">>
    [] sk = 8 -> <<"H", "C", "h", "R", "H">>
    [] sk = 9 -> <<"H", "K", "h", "H">>
    [] sk = 10 -> <<"H", "K", "h", "h">>
    [] sk = 11 -> <<"H", "K", "C", "h", "H">>
    [] sk = 12 -> <<"H", "C", "C", "h", "h", "h", "H">>
    [] sk = 13 -> <<"H", "C", "K", "h", "H">>
    [] sk = 14 -> <<"H", "K", "C", "R", "h", "H">>
    [] sk = 15 -> <<"C", "h", "h", "C", "h", "H">>
    [] sk = 16 -> <<"H", "C", "C", "R", "h", "H">>
    [] sk = 17 -> <<"H", "H", "C", "h", "H", "H">>
    [] sk = 18 -> <<"H", "H", "K", "h", "h", "H">>
AllSkeletons == 1..18

Body(sk, h) ==
  CASE sk = 1 -> <<h[1], h[2]>>
    [] sk = 2 -> <<h[1], h[2], h[3]>>
    [] sk = 3 -> <<h[1], h[2], h[3], h[4]>>
    [] sk = 4 -> <<h[1], If(h[2].v, <<h[3]>>, <<>>), h[4]>>
    [] sk = 5 -> <<h[1], If(h[2].v, <<h[3]>>, <<h[4]>>), h[5]>>
    [] sk = 6 -> <<h[1], If(h[2].v, <<h[3], h[4]>>, <<h[5]>>)>>
    [] sk = 7 -> <<h[1], If(h[2].v, <<Ret(h[3].v)>>, <<>>), h[4]>>
    [] sk = 8 -> <<h[1], If(h[2].v, <<h[3], Ret(h[4].v)>>, <<>>), h[5]>>
    [] sk = 9 -> <<h[1], For(h[2].n, <<h[3]>>), h[4]>>
    [] sk = 10 -> <<h[1], For(h[2].n, <<h[3], h[4]>>)>>
    [] sk = 11 -> <<h[1], For(h[2].n, <<If(h[3].v, <<h[4]>>, <<>>)>>), h[5]>>
    [] sk = 12 -> <<h[1], If(h[2].v, <<If(h[3].v, <<h[4]>>, <<h[5]>>)>>, <<h[6]>>), h[7]>>
    [] sk = 13 -> <<h[1], If(h[2].v, <<For(h[3].n, <<h[4]>>)>>, <<>>), h[5]>>
    [] sk = 14 -> <<h[1], For(h[2].n, <<If(h[3].v, <<Ret(h[4].v)>>, <<>>), h[5]>>), h[6]>>
    [] sk = 15 -> <<If(h[1].v, <<h[2]>>, <<h[3]>>), If(h[4].v, <<h[5]>>, <<>>), h[6]>>
    [] sk = 16 -> <<h[1], If(h[2].v, <<If(h[3].v, <<Ret(h[4].v)>>, <<>>), h[5]>>, <<>>), h[6]>>
    [] sk = 17 -> <<h[1], h[2], If(h[3].v, <<h[4]>>, <<>>), h[5], h[6]>>
    [] sk = 18 -> <<h[1], h[2], For(h[3].n, <<h[4], h[5]>>), h[6]>>

VarSlot(v) == [t |-> "var", v |-> v]
CountSlot(n) == [t |-> "cnt", n |-> n]
IsStmt(e) == e.t \notin {"var", "cnt"}

(* the creation statements the body needs *)
Prologue(h) ==
  LET m == UNION {Mentions(h[i]) : i \in {j \in DOMAIN h : IsStmt(h[j])}}
  IN (IF m \cap {"o", "p"} # {} THEN <<New("o")>> ELSE <<>>)
     \o (IF "p" \in m THEN <<Copy("p", "o")>> ELSE <<>>)
     \o (IF "l" \in m THEN <<Mk("l", "list", "a")>> ELSE <<>>)
     \o (IF "d" \in m THEN <<Mk("d", "dict", "b")>> ELSE <<>>)

VARIABLES sk, h, defd, inp, done, prog, out
vars == <<sk, h, defd, inp, done, prog, out>>

NoOut == [flow |-> "-"]
Init == /\ sk \in SkSet /\ inp \in InputSet
        /\ h = <<>> /\ defd = Defd0 /\ done = FALSE /\ prog = <<>> /\ out = NoOut

IntVars == {"a", "b", "x", "y"}
Fill ==
  /\ ~done /\ Len(h) < Len(Slots(sk))
  /\ LET kind == Slots(sk)[Len(h) + 1] IN
     CASE kind \in {"H", "h"} ->
            \E s \in Alphabet :
              /\ Reads(s) \subseteq defd
              /\ h' = Append(h, s)
              /\ defd' = IF kind = "H" THEN defd \cup Writes(s) ELSE defd
       [] kind \in {"C", "R"} ->
            \E v \in IntVars \cap defd : h' = Append(h, VarSlot(v)) /\ UNCHANGED defd
       [] kind = "K" ->
            \E n \in 0..2 : h' = Append(h, CountSlot(n)) /\ UNCHANGED defd
  /\ UNCHANGED <<sk, inp, done, prog, out>>

Finish ==
  /\ ~done /\ Len(h) = Len(Slots(sk))
  /\ \E r \in {"x", "y"} \cap defd :
       LET pr == Prologue(h) \o Body(sk, h) \o <<Ret(r)>>
           res == Run(pr, inp[1], inp[2])
       IN /\ prog' = pr
          /\ out' = [flow |-> res.flow, retv |-> res.retv, lines |-> res.lines, slice |-> res.slice,
                     strict |-> res.strict, retp |-> res.retp, ninst |-> res.ninst]
  /\ done' = TRUE
  /\ UNCHANGED <<sk, h, defd, inp>>

Next == Fill \/ Finish
Spec == Init /\ [][Next]_vars

(* ---- sanity of the semantics itself on every generated case (design check) ---- *)
WellFormed == done => ValidProg(prog)
NoRuntimeError == done => out.flow = "r"                    \* the must-defined analysis is right
SpecSliceExecuted == done => (out.slice \subseteq out.lines /\ out.strict \subseteq out.lines)
SpecSliceHasCriterion == done => (out.flow = "r" => out.retp \in out.slice)
StrictContainsSlice == done => out.slice \subseteq out.strict
DefLineInSlice == done => (out.flow = "r" => ModLine(5) \in out.slice)

QuickSkeletons == {1}
QuickInputs == {<<1, 0>>}
ThoroughSkeletons == {1, 2, 4, 7, 9}
SimSkeletons == AllSkeletons
AllInputs == {<<0, 0>>, <<0, 1>>, <<1, 0>>, <<1, 1>>}

Emit == done => PrintT(<<"HIST", ToJson([prog |-> prog, inp |-> inp, sk |-> sk, exp |-> out])>>)
=============================================================================

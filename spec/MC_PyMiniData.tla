---------------------------- MODULE MC_PyMiniData -----------------------------
(***************************************************************************)
(* Case generation for C09: a program builder.  A behaviour picks a         *)
(* skeleton (shape of the function body: straight line, if / if-else, early  *)
(* return, for / while loop, nesting of depth 2) and inputs, then fills the   *)
(* slots of the skeleton from left to right with statements of the alphabet   *)
(* whose reads are definitely defined at that point (so the program does not *)
(* raise NameError / AttributeError / KeyError), prepends the creation       *)
(* statements of the containers the body mentions (p is an alias of o or a   *)
(* second Box) and appends `return x|y`.  The last                            *)
(* step evaluates the PyMiniData semantics on the program (executed lines,   *)
(* dynamic slice of the returned value, return value).                       *)
(* Alphabets: "full" (locals, global, attributes, containers, calls of h/g),  *)
(* themed ones for exhaustive enumeration (attr, cont, glob; uattr:           *)
(* attributes with an underscore name, instance and class level; clo: the     *)
(* closures r (reads y) and w (writes y via nonlocal) defined anywhere among   *)
(* the assignments of y; hlp: helpers with their own branching) and mixes of   *)
(* those for simulation (clomix, hlp, umix).                                   *)
(*  - exhaustive (cfg with INVARIANT Emit): every program of the chosen      *)
(*    skeletons x alphabet x inputs is emitted once;                         *)
(*  - `-simulate` (cfg without Emit): random programs over all skeletons; the *)
(*    harness reads the final state of each behaviour.                       *)
(***************************************************************************)
EXTENDS PyMiniData, Json

CONSTANTS Families,   \* set of [sk: skeleton id, alpha: name of the alphabet, chain: BOOLEAN]
                      \* chain = TRUE: every top-level statement after the first (except calls) reads something an
                      \* earlier statement of the body wrote; the returned variable was written by the last
                      \* statement / the body
          InputSet    \* set of <<a, b>>

(* ---- alphabet of simple statements ---- *)
Plain == {Const("x", 0), Const("x", 1), Const("y", 1),
          Bin("x", "x", "y", "add"), Bin("y", "x", "a", "add"), Bin("x", "a", "b", "add"),
          Bin("x", "x", "y", "mul"), Bin("y", "y", "b", "add"), Copy("y", "x"), Copy("x", "b")}
Calls == {Call("x", "h", "y"), Call("y", "g", "x"), Call("x", "g", "a"), Call("y", "h", "b"), Call("x", "h", "a")}
(* helpers with their own branching (k: if / else on a value computed on the line before, m: loop with an if) *)
BranchyCalls == {Call("x", "k", "a"), Call("y", "k", "x"), Call("x", "k", "y"), Call("y", "k", "b"),
                 Call("x", "m", "a"), Call("y", "m", "x"), Call("x", "m", "b")}
Attrs == {Store("o", 0, "x"), Store("o", 0, "a"), Store("p", 0, "y"), Store("o", 1, "y"),
          Load("x", "o", 0), Load("y", "p", 0), Load("x", "o", 1), Load("x", "p", 1)}
Lists == {Store("l", 0, "x"), Store("l", 1, "y"), Store("l", 0, "b"), Load("x", "l", 0), Load("y", "l", 1)}
Dicts == {Store("d", 0, "x"), Store("d", 1, "y"), Store("d", 1, "a"), Load("x", "d", 0), Load("y", "d", 1)}
Globs == {Copy("G", "x"), Copy("G", "b"), Copy("x", "G"), Copy("y", "G")}
(* attributes whose name starts with an underscore: _q2 (instance), _c4 (class level; c3: class level, public name) *)
UAttrs == {Store("o", 2, "x"), Store("p", 2, "y"), Store("o", 2, "a"), Store("o", 4, "y"), Store("p", 4, "x"),
           Load("x", "o", 2), Load("y", "p", 2), Load("x", "o", 4), Load("y", "p", 4), Load("x", "p", 4),
           Load("y", "o", 3), Load("x", "p", 3)}
(* closures: r reads, w writes (nonlocal) the local y of f *)
CapVar == "y"
Closures == {DefR(CapVar), DefW(CapVar), Call("x", "r", "a"), Call("x", "r", "x"), Call("y", "r", "b"),
             Do("w", "a"), Do("w", "x")}
FullAlpha == Plain \cup Calls \cup Attrs \cup Lists \cup Dicts \cup Globs
CoreAlpha == {Const("x", 1), Copy("y", "x"), Bin("x", "x", "y", "add"), Bin("x", "a", "b", "add"),
              Call("x", "h", "y"), Call("y", "g", "x"),
              Store("o", 0, "x"), Store("p", 0, "y"), Load("x", "o", 0), Load("y", "p", 0),
              Store("l", 0, "x"), Store("l", 1, "y"), Load("x", "l", 0),
              Store("d", 0, "x"), Store("d", 1, "a"), Load("x", "d", 0), Load("y", "d", 1),
              Copy("G", "x"), Copy("x", "G")}
(* themed alphabets for exhaustive enumeration of three-statement programs *)
AttrAlpha == Attrs \cup {Store("p", 0, "a"), Store("p", 1, "y"), Const("y", 1), Bin("x", "a", "b", "add")}
ContAlpha == Lists \cup Dicts \cup {Const("y", 1), Bin("x", "a", "b", "add")}
GlobAlpha == Globs \cup {Call("y", "g", "x"), Call("x", "g", "a"), Const("x", 1), Bin("x", "x", "y", "add"),
                         Do("s", "x"), Do("s", "b")}
UAttrAlpha == UAttrs \cup {Const("y", 1), Bin("x", "a", "b", "add"), Bin("x", "x", "y", "add")}
CloAlpha == Closures \cup {Const("y", 1), Const("x", 1), Bin("y", "x", "a", "add"), Bin("y", "y", "b", "add"),
                           Bin("x", "x", "y", "add"), Copy("x", "y")}
(* closures / branching helpers next to the other families (programs with branches and loops: simulation) *)
CloMix == CloAlpha \cup {Copy("y", "x"), Call("x", "h", "y"), Call("y", "k", "x"), Store("o", 0, "y"), Load("y", "o", 0),
                         Copy("G", "y"), Copy("y", "G"), Call("x", "g", "a")}
HlpAlpha == BranchyCalls \cup {Call("y", "g", "x"), Call("x", "h", "y"), Const("x", 1), Const("y", 1), Const("x", 0),
                               Bin("x", "x", "y", "add"), Bin("y", "x", "a", "add"), Bin("x", "a", "b", "add"),
                               Copy("y", "x"), Copy("x", "b"), Copy("G", "x"), Copy("x", "G"), Do("s", "x"), Do("s", "a")}
UMix == UAttrs \cup {Store("o", 0, "x"), Load("x", "o", 0), Const("y", 1), Const("x", 0), Bin("x", "a", "b", "add"),
                     Bin("x", "x", "y", "add"), Bin("y", "x", "a", "add"), Copy("y", "x"), Call("x", "k", "y")}
AlphaOf(name) == CASE name = "core" -> CoreAlpha [] name = "attr" -> AttrAlpha [] name = "cont" -> ContAlpha
                   [] name = "glob" -> GlobAlpha [] name = "uattr" -> UAttrAlpha [] name = "clo" -> CloAlpha
                   [] name = "clomix" -> CloMix [] name = "hlp" -> HlpAlpha [] name = "umix" -> UMix
                   [] OTHER -> FullAlpha
Fam(n, name, ch) == [sk |-> n, alpha |-> name, chain |-> ch]

(* ---- what a statement needs / provides (names and cells of the must-defined analysis) ---- *)
(* al = "alias": p is an alias of o (p = o); "new": p is a second object (p = Box()); "none": p not used yet *)
CellNames == [b \in {"o", "p", "l", "d"} |->
                CASE b = "o" -> <<"o0", "o1", "o2", "o3", "o4">> [] b = "p" -> <<"p0", "p1", "p2", "p3", "p4">>
                  [] b = "l" -> <<"l0", "l1", "l2", "l3", "l4">> [] b = "d" -> <<"d0", "d1", "d2", "d3", "d4">>]
Cell(o, f, al) == CellNames[IF o = "p" /\ al = "alias" THEN "o" ELSE o][f + 1]
(* a class-level attribute can always be read through a Box; an inner function needs its def and the captured variable *)
Reads(s, al) == CASE s.t = "bin" -> {s.y, s.z} [] s.t \in {"copy", "inc"} -> {s.y}
                  [] s.t = "call" -> IF s.fn = "r" THEN {s.y, "r", CapVar} ELSE {s.y}
                  [] s.t = "do" -> IF s.fn \in Inner THEN {s.y, s.fn} ELSE {s.y}
                  [] s.t = "store" -> {s.y}
                  [] s.t = "load" -> IF s.o \in {"o", "p"} /\ s.f \in ClassFields THEN {} ELSE {Cell(s.o, s.f, al)}
                  [] OTHER -> {}
Writes(s, al) == CASE s.t = "store" -> {Cell(s.o, s.f, al)} [] s.t = "defr" -> {"r"} [] s.t = "defw" -> {"w"}
                   [] s.t = "do" -> (IF s.fn = "w" THEN {CapVar} ELSE {"G"}) [] OTHER -> {s.x}
(* statements that need not read what the body wrote before (chain mode) *)
Unchained(s) == s.t \in {"call", "do", "defr", "defw"} \/ (s.t = "load" /\ s.o \in {"o", "p"} /\ s.f \in ClassFields)
Mentions(s) == CASE s.t \in {"store", "load"} -> {s.o} [] OTHER -> {}
Defd0 == {"a", "b", "G", "l0", "l1", "d0"}

(* ---- skeletons: slot kinds "H" top-level statement, "h" nested statement, "C" condition variable, ---- *)
(* ---- "K" loop count, "R" variable of an early return                                               ---- *)
Slots(sk) ==
  CASE sk = 1 -> <<"H", "H">>
    [] sk = 2 -> <<"H", "H", "H">>
    [] sk = 3 -> <<"H", "H", "H", "H">>
    [] sk = 4 -> <<"H", "C", "h", "H">>
    [] sk = 5 -> <<"H", "C", "h", "h", "H">>
    [] sk = 6 -> <<"H", "C", "h", "h", "h">>
    [] sk = 7 -> <<"H", "C", "R", "H">>
    [] sk = 8 -> <<"H", "C", "h", "R", "H">>
    [] sk = 9 -> <<"H", "K", "h", "H">>
    [] sk = 10 -> <<"H", "K", "h", "h">>
    [] sk = 11 -> <<"H", "K", "C", "h", "H">>
    [] sk = 12 -> <<"H", "C", "C", "h", "h", "h", "H">>
    [] sk = 13 -> <<"H", "C", "K", "h", "H">>
    [] sk = 14 -> <<"H", "K", "C", "R", "h", "H">>
    [] sk = 15 -> <<"C", "h", "h", "C", "h", "H">>
    [] sk = 16 -> <<"H", "C", "C", "R", "h", "H">>
    [] sk = 17 -> <<"H", "H", "C", "h", "H", "H">>
    [] sk = 18 -> <<"H", "H", "K", "h", "h", "H">>
    [] sk = 19 -> <<"H", "C", "h", "H">>
    [] sk = 20 -> <<"H", "H", "C", "h", "h", "H">>
    [] sk = 21 -> <<"H", "C", "C", "h", "H">>
    [] sk = 22 -> <<"H", "C", "C", "R", "h", "H">>
AllSkeletons == 1..22

Body(sk, h) ==
  CASE sk = 1 -> <<h[1], h[2]>>
    [] sk = 2 -> <<h[1], h[2], h[3]>>
    [] sk = 3 -> <<h[1], h[2], h[3], h[4]>>
    [] sk = 4 -> <<h[1], If(h[2].v, <<h[3]>>, <<>>), h[4]>>
    [] sk = 5 -> <<h[1], If(h[2].v, <<h[3]>>, <<h[4]>>), h[5]>>
    [] sk = 6 -> <<h[1], If(h[2].v, <<h[3], h[4]>>, <<h[5]>>)>>
    [] sk = 7 -> <<h[1], If(h[2].v, <<Ret(h[3].v)>>, <<>>), h[4]>>
    [] sk = 8 -> <<h[1], If(h[2].v, <<h[3], Ret(h[4].v)>>, <<>>), h[5]>>
    [] sk = 9 -> <<h[1], For(h[2].n, <<h[3]>>), h[4]>>
    [] sk = 10 -> <<h[1], For(h[2].n, <<h[3], h[4]>>)>>
    [] sk = 11 -> <<h[1], For(h[2].n, <<If(h[3].v, <<h[4]>>, <<>>)>>), h[5]>>
    [] sk = 12 -> <<h[1], If(h[2].v, <<If(h[3].v, <<h[4]>>, <<h[5]>>)>>, <<h[6]>>), h[7]>>
    [] sk = 13 -> <<h[1], If(h[2].v, <<For(h[3].n, <<h[4]>>)>>, <<>>), h[5]>>
    [] sk = 14 -> <<h[1], For(h[2].n, <<If(h[3].v, <<Ret(h[4].v)>>, <<>>), h[5]>>), h[6]>>
    [] sk = 15 -> <<If(h[1].v, <<h[2]>>, <<h[3]>>), If(h[4].v, <<h[5]>>, <<>>), h[6]>>
    [] sk = 16 -> <<h[1], If(h[2].v, <<If(h[3].v, <<Ret(h[4].v)>>, <<>>), h[5]>>, <<>>), h[6]>>
    [] sk = 17 -> <<h[1], h[2], If(h[3].v, <<h[4]>>, <<>>), h[5], h[6]>>
    [] sk = 18 -> <<h[1], h[2], For(h[3].n, <<h[4], h[5]>>), h[6]>>
    \* while loops: the body ends with the decrement of the condition variable
    [] sk = 19 -> <<h[1], While(h[2].v, <<h[3], Dec(h[2].v)>>), h[4]>>
    [] sk = 20 -> <<h[1], h[2], While(h[3].v, <<h[4], h[5], Dec(h[3].v)>>), h[6]>>
    [] sk = 21 -> <<h[1], While(h[2].v, <<If(h[3].v, <<h[4]>>, <<>>), Dec(h[2].v)>>), h[5]>>
    [] sk = 22 -> <<h[1], While(h[2].v, <<If(h[3].v, <<Ret(h[4].v)>>, <<>>), h[5], Dec(h[2].v)>>), h[6]>>

VarSlot(v) == [t |-> "var", v |-> v]
CountSlot(n) == [t |-> "cnt", n |-> n]
IsStmt(e) == e.t \notin {"var", "cnt"}

(* the creation statements the body needs *)
Prologue(h, al) ==
  LET m == UNION {Mentions(h[i]) : i \in {j \in DOMAIN h : IsStmt(h[j])}}
  IN (IF "o" \in m \/ ("p" \in m /\ al = "alias") THEN <<New("o")>> ELSE <<>>)
     \o (IF "p" \in m THEN (IF al = "alias" THEN <<Copy("p", "o")>> ELSE <<New("p")>>) ELSE <<>>)
     \o (IF "l" \in m THEN <<Mk("l", "list", "a")>> ELSE <<>>)
     \o (IF "d" \in m THEN <<Mk("d", "dict", "b")>> ELSE <<>>)

VARIABLES fam, alias, h, defd, fresh, inp, done, prog, out, js
vars == <<fam, alias, h, defd, fresh, inp, done, prog, out, js>>
sk == fam.sk
Alphabet == AlphaOf(fam.alpha)
Chain == fam.chain

NoOut == [flow |-> "-"]
Init == /\ fam \in Families /\ inp \in InputSet /\ alias = "none"
        /\ h = <<>> /\ defd = Defd0 /\ fresh = {} /\ done = FALSE /\ prog = <<>> /\ out = NoOut /\ js = ""

IntVars == {"a", "b", "x", "y"}
Fill ==
  /\ ~done /\ Len(h) < Len(Slots(sk))
  /\ LET kind == Slots(sk)[Len(h) + 1] IN
     CASE kind \in {"H", "h"} ->
            \E s \in Alphabet :
              \E al \in (IF alias = "none" /\ "p" \in Mentions(s) THEN {"alias", "new"} ELSE {alias}) :
                /\ Reads(s, al) \subseteq defd
                /\ (Chain /\ kind = "H" /\ fresh # {} /\ ~Unchained(s)) => Reads(s, al) \cap fresh # {}
                /\ h' = Append(h, s)
                /\ alias' = al
                /\ defd' = IF kind = "H" THEN defd \cup Writes(s, al) ELSE defd
                /\ fresh' = fresh \cup Writes(s, al)
       [] kind \in {"C", "R"} ->
            \E v \in IntVars \cap defd : h' = Append(h, VarSlot(v)) /\ UNCHANGED <<defd, fresh, alias>>
       [] kind = "K" ->
            \E n \in 0..2 : h' = Append(h, CountSlot(n)) /\ UNCHANGED <<defd, fresh, alias>>
  /\ UNCHANGED <<fam, inp, done, prog, out, js>>

(* `nonlocal v` in w is a SyntaxError unless f itself binds v somewhere *)
RECURSIVE Binds(_, _), HasDefW(_)
Binds(blk, v) == \E i \in DOMAIN blk :
                   LET s == blk[i]
                   IN CASE s.t \in {"const", "bin", "inc", "copy", "call", "load", "new", "mk", "dec"} -> s.x = v
                        [] s.t = "if" -> Binds(s.a, v) \/ Binds(s.b, v)
                        [] s.t \in {"for", "while"} -> Binds(s.a, v)
                        [] OTHER -> FALSE
HasDefW(blk) == \E i \in DOMAIN blk :
                  LET s == blk[i]
                  IN CASE s.t = "defw" -> TRUE
                       [] s.t = "if" -> HasDefW(s.a) \/ HasDefW(s.b)
                       [] s.t \in {"for", "while"} -> HasDefW(s.a)
                       [] OTHER -> FALSE
Compiles(blk) == HasDefW(blk) => Binds(blk, CapVar)

(* the returned variable: in Chain mode one the last top-level statement wrote, else one the body wrote *)
LastTop == LET S == {i \in DOMAIN h : Slots(sk)[i] = "H"} IN IF S = {} THEN {} ELSE Writes(h[CHOOSE i \in S : \A j \in S : j <= i], alias)
RetVars == LET all == {"x", "y"} \cap defd
           IN IF ~Chain THEN all \cap fresh
              ELSE IF all \cap LastTop # {} /\ Slots(sk)[Len(Slots(sk))] = "H" THEN all \cap LastTop
              ELSE all \cap fresh
Finish ==
  /\ ~done /\ Len(h) = Len(Slots(sk))
  /\ Compiles(Body(sk, h))
  /\ \E r \in RetVars :
       LET pr == Prologue(h, alias) \o Body(sk, h) \o <<Ret(r)>>
           res == Run(pr, inp[1], inp[2])
           o == [flow |-> res.flow, retv |-> res.retv, lines |-> res.lines, slice |-> res.slice,
                 strict |-> res.strict, retp |-> res.retp, ninst |-> res.ninst]
       IN /\ prog' = pr
          /\ out' = o
          /\ js' = ToJson([prog |-> pr, inp |-> inp, sk |-> sk, alpha |-> fam.alpha,
                           exp |-> [flow |-> res.flow, retv |-> res.retv, lines |-> res.lines,
                                    slice |-> res.slice, strict |-> res.strict, retp |-> res.retp,
                                    edges |-> res.edges]])
  /\ done' = TRUE
  /\ UNCHANGED <<fam, alias, h, defd, fresh, inp>>

Next == Fill \/ Finish
Spec == Init /\ [][Next]_vars

(* ---- sanity of the semantics itself on every generated case (design check) ---- *)
WellFormed == done => ValidProg(prog)
NoRuntimeError == done => out.flow \in {"r", "t"}           \* the must-defined analysis is right ("t": loop bound)
SpecSliceExecuted == done => (out.slice \subseteq out.lines /\ out.strict \subseteq out.lines)
SpecSliceHasCriterion == done => (out.flow = "r" => out.retp \in out.slice)
StrictContainsSlice == done => out.slice \subseteq out.strict
DefLineInSlice == done => (out.flow = "r" => ModLine(5) \in out.slice)

QuickFamilies == {Fam(1, "full", TRUE), Fam(2, "attr", FALSE), Fam(2, "uattr", FALSE), Fam(3, "clo", FALSE)}
QuickInputs == {<<1, 0>>}
ThoroughFamilies == {Fam(1, "core", TRUE), Fam(2, "core", TRUE), Fam(2, "attr", FALSE), Fam(2, "cont", FALSE),
                     Fam(2, "glob", FALSE), Fam(2, "uattr", FALSE), Fam(2, "clo", FALSE), Fam(3, "clo", FALSE),
                     Fam(2, "hlp", TRUE)}
ThoroughInputs == {<<1, 0>>, <<0, 1>>}
SimFamilies == {Fam(n, "full", TRUE) : n \in AllSkeletons}
(* closures, helpers with their own branching, underscore / class-level attributes inside branches and loops *)
(* (the nested skeletons a second time, unchained, with the helper alphabet: calls of branching helpers next to   *)
(* nested decisions of the caller)                                                                               *)
NestedSkeletons == {11, 12, 14, 15, 16, 21, 22}
SimFamiliesNew == {Fam(n, al, TRUE) : n \in AllSkeletons, al \in {"clomix", "hlp", "umix"}}
                  \cup {Fam(n, "hlp", FALSE) : n \in NestedSkeletons}
AllInputs == (0..2) \X (0..2)

Emit == done => PrintT(<<"HIST", js>>)
=============================================================================

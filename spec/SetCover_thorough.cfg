CONSTANTS
  MaxA = 4
  MaxM = 4
  Statuses = {"run"}
  WithExc = FALSE
  MaxCount = 5
  UseCritical = FALSE
  Hazard = "none"
SPECIFICATION Spec
INVARIANT TypeOK
INVARIANT Subset
INVARIANT KillsPreserved
INVARIANT GreedyInv
INVARIANT GreedyCovers
INVARIANT KeepOnlyKillers
INVARIANT ResultIrredundant
INVARIANT ResultIsSelect
INVARIANT ScorePreserved
INVARIANT ScoreIn01
INVARIANT ScoreIgnores

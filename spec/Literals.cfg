CONSTANTS
  Dev = "intended"
  Scope = "medium"
SPECIFICATION Spec
INVARIANT RenderedLiteralIsValidPython
INVARIANT EvaluatesToRequestedType
INVARIANT RoundTrip
INVARIANT ParseBackAgrees
INVARIANT IntLiteralIsParseable
INVARIANT RenderNeverFails
INVARIANT AssertionHoldsOnObservedValue
INVARIANT ExecutionObservesTheLiteral

CONSTANTS MaxLen = 4
SPECIFICATION Spec
INVARIANT Emit
CHECK_DEADLOCK FALSE

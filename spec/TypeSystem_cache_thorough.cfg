CONSTANTS
  NUser = 2
  Level = 0
  MaxSteps = 3
  Deviations = {}
  Prov = "G"
  FixedRoots = TRUE
SPECIFICATION Spec
INVARIANT TypeOK
INVARIANT Refl
INVARIANT Trans
INVARIANT AnyTop
INVARIANT UnionAll
INVARIANT InstFollowsClass
INVARIANT AgreesWithIssubclass
INVARIANT DistDefinedOnlyWhenMaybeSub
INVARIANT DistZeroOnIdentity
INVARIANT DistDefinedIffMaybeSub
INVARIANT StrictImpliesMaybe
INVARIANT OfferedCompatible
INVARIANT ProvidersAgree
INVARIANT CacheCoherent
INVARIANT OfferedNowCompatible

CONSTANTS
  Depth = 3
  AllVias = FALSE
  LastAllVias = FALSE
  Prune = TRUE
  PruneLast = TRUE
  Repr = TRUE
  OnlyStale <- StaleOn
SPECIFICATION Spec
INVARIANT Emit

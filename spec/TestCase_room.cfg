\* repaired guard (insert only if the call and its dependencies fit): LenBound holds as well
CONSTANTS
  NObj = 2
  Types = {"A"}
  MaxLen = 3
  MaxDeps = 1
  MaxUses = 1
  MaxStmts = 3
  MaxCtr = 4
  MaxSteps = 3
  InsertGuard = "room"
  Raw = FALSE
SPECIFICATION Spec
INVARIANT AllWF
INVARIANT LenBound
CONSTRAINT Bounded

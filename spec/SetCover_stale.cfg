CONSTANTS
  MaxA = 3
  MaxM = 3
  Statuses = {"run", "timeout"}
  WithExc = FALSE
  MaxCount = 5
  UseCritical = TRUE
  Hazard = "stale_prune"
SPECIFICATION Spec
INVARIANT TypeOK
INVARIANT Subset
INVARIANT KillsPreserved
INVARIANT GreedyInv
INVARIANT KeepOnlyKillers
INVARIANT ScorePreserved
INVARIANT ScoreIn01
INVARIANT ScoreIgnores

--------------------------- MODULE TypeSystemTrace ----------------------------
(***************************************************************************)
(* Trace validation for C25 and the static part of C26.                    *)
(*                                                                         *)
(* One trace = one generated module analysed by the real                   *)
(* generate_test_cluster; its single event carries the relation matrices   *)
(* recorded from the real TypeSystem (is_subtype, is_maybe_subtype,        *)
(* subtype_distance over the type universe; is_subclass and Python's       *)
(* issubclass over the analysed classes) and the generator sets offered by *)
(* GeneratorProvider (offG) and RandomGeneratorProvider (offR) for every   *)
(* universe type.  TLC evaluates the law operators of TypeSystemOps on     *)
(* these recorded matrices.                                                *)
(*                                                                         *)
(* TLC reports only the first violated invariant of a state, so the spec   *)
(* walks through one phase per clause: clause Clauses[ph] is evaluated in  *)
(* phase ph only.                                                          *)
(*                                                                         *)
(* Clauses named X_Known<Deviation> hold the violations that the           *)
(* declarative model explains by one known deviation of the code as it is  *)
(* (TypeSystemOps.AllDeviations); X_Other holds every other violation.     *)
(* The clause names are the signatures of known_findings.d and are kept    *)
(* from the first version of the check: after the fixes bee086b..1991def   *)
(*   KnownGenericArgsOnly       = deviation DistCovariantArgs (the classes *)
(*       are compared now, the type arguments are still covariant),        *)
(*   KnownUndefinedForNoneOrTuple = deviation                              *)
(*       DistUndefinedForAnyBelowNoneOrTuple (None / unions are handled    *)
(*       now, an Any subtype still is not).                                *)
(* DistZeroOnIdentity has no known deviation any more (7303de6): every     *)
(* violation of it is _Other.                                              *)
(* Clauses named Drift_* compare the real matrices with the declarative    *)
(* model of the code (no verdict).                                         *)
(***************************************************************************)
EXTENDS TypeSystemOps, TLC, TLCExt, Json, IOUtils

CONSTANT Clauses        \* sequence of clause names to evaluate (cfg: Clauses <- C25Clauses / ...)

Traces == ndJsonDeserialize(IOEnv.TRACE_FILE)

VARIABLES tid, l, ph
vars == <<tid, l, ph>>

Init == tid \in 1..Len(Traces) /\ l = 0 /\ ph = Len(Clauses)
Next == IF l > 0 /\ ph < Len(Clauses)
        THEN ph' = ph + 1 /\ UNCHANGED <<tid, l>>
        ELSE l < Len(Traces[tid].ev) /\ l' = l + 1 /\ ph' = 1 /\ UNCHANGED tid
Spec == Init /\ [][Next]_vars

cur == Traces[tid].ev[l]
At(name) == l > 0 /\ Clauses[ph] = name

C25Clauses == <<"Total", "Refl", "Trans", "AnyTop", "UnionAll", "InstFollowsClass",
                "AgreesWithIssubclass",
                "DistDefinedOnlyWhenMaybeSub_KnownGenericArgsOnly", "DistDefinedOnlyWhenMaybeSub_Other",
                "DistZeroOnIdentity_Other",
                "Drift_Sub", "Drift_Maybe", "Drift_Dist", "Drift_Subclass", "Drift_StrictImpliesMaybe">>
C26Clauses == <<"Total", "SameGenerators",
                "OfferedCompatible_Random", "OfferedCompatible_KnownGenericArgsOnly", "OfferedCompatible_Other",
                "OfferedCompatibleSpec_Random", "OfferedCompatibleSpec_KnownGenericArgsOnly",
                "OfferedCompatibleSpec_Other",
                "ProvidersAgree_KnownPrimitiveRequestEmpty", "ProvidersAgree_KnownUndefinedForNoneOrTuple",
                "ProvidersAgree_KnownGenericArgsOnly", "ProvidersAgree_Other",
                "Drift_Selected", "Drift_Offered">>

(* ------------------------------------------------------------ recorded data *)
UT == cur.types
N == DOMAIN cur.types
\* the declarative side: the hierarchy as the model emitted it
HM == MkH({cur.classes[i] : i \in DOMAIN cur.classes}, {cur.edges[i] : i \in DOMAIN cur.edges}, cur.anyd)
CodeDistDeviations == {"DistCovariantArgs", "DistUndefinedForAnyBelowNoneOrTuple"}

\* a pair for which only the named deviation of the code makes the distance (un)defined:
\* covariant type arguments of generic instances (somewhere inside t / s) ...
KnownGenericArgsOnly(H, t, s) ==
  DistR(H, {"DistCovariantArgs"}, t, s) # Undef /\ DistR(H, {}, t, s) = Undef
\* ... an Any subtype below a None / tuple supertype (somewhere inside t / s)
KnownUndefined(H, t, s) ==
  DistR(H, {"DistUndefinedForAnyBelowNoneOrTuple"}, t, s) = Undef /\ DistR(H, {}, t, s) # Undef

(* --------------------------------------------------------------------- C25 *)
\* every query answered (no exception): otherwise no law can be evaluated
Total == At("Total") => cur.raised = <<>>
Refl == At("Refl") => LawRefl(UT, cur.sub)
Trans == At("Trans") => LawTrans(UT, cur.sub)
AnyTop == At("AnyTop") => LawAnyTop(UT, cur.sub) /\ LawAnyTop(UT, cur.maybe)
UnionAll == At("UnionAll") => LawUnionAll(UT, cur.sub)
InstFollowsClass == At("InstFollowsClass") => LawInstFollowsClass(UT, cur.sub, cur.cs, cur.subc)
AgreesWithIssubclass == At("AgreesWithIssubclass") => LawAgreesWithIssubclass(cur.cs, cur.subc, cur.issub)

DistDefinedOnlyWhenMaybeSub_KnownGenericArgsOnly ==
  At("DistDefinedOnlyWhenMaybeSub_KnownGenericArgsOnly") =>
    LET H == HM IN
    \A i \in N : \A j \in N :
      DistWithoutMaybe(UT, cur.dist, cur.maybe, i, j) => ~KnownGenericArgsOnly(H, UT[i], UT[j])
DistDefinedOnlyWhenMaybeSub_Other ==
  At("DistDefinedOnlyWhenMaybeSub_Other") =>
    LET H == HM IN
    \A i \in N : \A j \in N :
      DistWithoutMaybe(UT, cur.dist, cur.maybe, i, j) => KnownGenericArgsOnly(H, UT[i], UT[j])

\* no deviation of the code makes the distance of an Any-free type to itself undefined any
\* more (subtype_distance(None, None) = 0 since 7303de6): the whole law is one clause
NonZeroIdentity(i) == AnyFree(UT[i]) /\ cur.dist[i][i] # 0
DistZeroOnIdentity_Other ==
  At("DistZeroOnIdentity_Other") => \A i \in N : ~NonZeroIdentity(i)

(* real code vs. declarative model of the code: drift, never a verdict *)
Drift_Sub == At("Drift_Sub") => cur.sub = SubMatrix(HM, TRUE, UT)
Drift_Maybe == At("Drift_Maybe") => cur.maybe = SubMatrix(HM, FALSE, UT)
Drift_Dist == At("Drift_Dist") => cur.dist = DistMatrix(HM, CodeDistDeviations, UT)
Drift_Subclass ==
  At("Drift_Subclass") =>
    LET H == HM IN
    \A i \in DOMAIN cur.cs : \A j \in DOMAIN cur.cs :
      (cur.cs[i] \in H.cls /\ cur.cs[j] \in H.cls) => (cur.subc[i][j] <=> IsSubclass(H, cur.cs[i], cur.cs[j]))
Drift_StrictImpliesMaybe ==
  At("Drift_StrictImpliesMaybe") => \A i \in N : \A j \in N : cur.sub[i][j] => cur.maybe[i][j]

(* --------------------------------------------------------------------- C26 *)
Gens == DOMAIN cur.gens
RetOf(g) == cur.gens[g].ret                       \* index of the generated type in the universe
OffG(i) == {cur.offG[i][x] : x \in DOMAIN cur.offG[i]}
OffR(i) == {cur.offR[i][x] : x \in DOMAIN cur.offR[i]}
\* harness sanity: both clusters registered the same generators with the same return types
SameGenerators == At("SameGenerators") => cur.gens = cur.gensR /\ \A i \in N : 0 \notin OffG(i) \cup OffR(i)

\* every offered generator returns a type that may be a subtype of the requested type
\* (answer of the real is_maybe_subtype)
OfferedCompatible_Random ==
  At("OfferedCompatible_Random") => \A i \in N : \A g \in OffR(i) : cur.maybe[RetOf(g)][i]
OfferedCompatible_KnownGenericArgsOnly ==
  At("OfferedCompatible_KnownGenericArgsOnly") =>
    LET H == HM IN
    \A i \in N : \A g \in OffG(i) :
      ~cur.maybe[RetOf(g)][i] => ~KnownGenericArgsOnly(H, UT[i], UT[RetOf(g)])
OfferedCompatible_Other ==
  At("OfferedCompatible_Other") =>
    LET H == HM IN
    \A i \in N : \A g \in OffG(i) :
      ~cur.maybe[RetOf(g)][i] => KnownGenericArgsOnly(H, UT[i], UT[RetOf(g)])
\* the same with the declarative MaybeSub
OfferedCompatibleSpec_Random ==
  At("OfferedCompatibleSpec_Random") =>
    LET H == HM IN \A i \in N : \A g \in OffR(i) : MaybeSub(H, UT[RetOf(g)], UT[i])
OfferedCompatibleSpec_KnownGenericArgsOnly ==
  At("OfferedCompatibleSpec_KnownGenericArgsOnly") =>
    LET H == HM IN
    \A i \in N : \A g \in OffG(i) :
      ~MaybeSub(H, UT[RetOf(g)], UT[i]) => ~KnownGenericArgsOnly(H, UT[i], UT[RetOf(g)])
OfferedCompatibleSpec_Other ==
  At("OfferedCompatibleSpec_Other") =>
    LET H == HM IN
    \A i \in N : \A g \in OffG(i) :
      ~MaybeSub(H, UT[RetOf(g)], UT[i]) => KnownGenericArgsOnly(H, UT[i], UT[RetOf(g)])

\* both providers offer the same set of generators for every requested type
PrimitiveEmpty(i) == IsPrimitive(UT[i]) /\ OffG(i) = {} /\ OffR(i) # {}
ProvidersAgree_KnownPrimitiveRequestEmpty ==
  At("ProvidersAgree_KnownPrimitiveRequestEmpty") => \A i \in N : ~PrimitiveEmpty(i)
ProvidersAgree_KnownUndefinedForNoneOrTuple ==
  At("ProvidersAgree_KnownUndefinedForNoneOrTuple") =>
    LET H == HM IN
    \A i \in N : ~PrimitiveEmpty(i) =>
      \A g \in OffR(i) \ OffG(i) : ~KnownUndefined(H, UT[i], UT[RetOf(g)])
ProvidersAgree_KnownGenericArgsOnly ==
  At("ProvidersAgree_KnownGenericArgsOnly") =>
    LET H == HM IN
    \A i \in N : ~PrimitiveEmpty(i) =>
      \A g \in OffG(i) \ OffR(i) : ~KnownGenericArgsOnly(H, UT[i], UT[RetOf(g)])
ProvidersAgree_Other ==
  At("ProvidersAgree_Other") =>
    LET H == HM IN
    \A i \in N : ~PrimitiveEmpty(i) =>
      /\ \A g \in OffR(i) \ OffG(i) : KnownUndefined(H, UT[i], UT[RetOf(g)])
      /\ \A g \in OffG(i) \ OffR(i) : KnownGenericArgsOnly(H, UT[i], UT[RetOf(g)])

\* public API: select_generator_for returns a member of the offered set, None iff it is empty
Drift_Selected ==
  At("Drift_Selected") =>
    \A i \in N : /\ (cur.selG[i] = 0 <=> OffG(i) = {}) /\ (cur.selG[i] # 0 => cur.selG[i] \in OffG(i))
                 /\ (cur.selR[i] = 0 <=> OffR(i) = {}) /\ (cur.selR[i] # 0 => cur.selR[i] \in OffR(i))
\* the offered sets are what the provider definitions give on the recorded matrices
Drift_Offered ==
  At("Drift_Offered") =>
    LET G == {RetOf(g) : g \in Gens} IN
    \A i \in N :
      /\ {RetOf(g) : g \in OffR(i)} = OfferedRM(UT, cur.maybe, G, i)
      /\ {RetOf(g) : g \in OffG(i)} = OfferedGM(UT, cur.dist, {"PrimitiveRequestEmpty"}, G, i)
=============================================================================

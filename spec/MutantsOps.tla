------------------------------ MODULE MutantsOps ------------------------------
(***************************************************************************)
(* Pure operators for C28 (component `Mutants`): the mutate-and-restore    *)
(* generators of pynguin.assertion.mutation_analysis, as coded.            *)
(*                                                                         *)
(* Abstraction of the syntax tree.  Nodes 1..N below the module root 0,    *)
(* numbered in pre-order; Parent[s] < s.  The reference held by the parent *)
(* to node s (a list position or a field) is the *slot* of s:              *)
(*     slot[s] = 0   the original node object                              *)
(*     slot[s] = j   the replacement built by the j-th visitor alternative *)
(*                   (`mutate_<Class>...`) applicable at s                 *)
(* Alt[s][j] is the operator class that owns alternative j.  A replacement *)
(* is opaque (a fresh object; nothing inside it is a mutation site).  All  *)
(* children of one node form one list (`_generic_visit_list`); a field     *)
(* holding a single node (`_generic_visit_real_node`) is a list of length  *)
(* one -- both copy the old value(s) first and write them back after the   *)
(* child has been visited, *after* the yield and not in a `finally`.       *)
(*                                                                         *)
(* A generator `MutationOperator.mutate(tree, module, only_mutation)` is a *)
(* stack of frames, one per active `visit(node)`:                          *)
(*   n     node visited                                                    *)
(*   j     last visitor alternative yielded at n (0: none yet)             *)
(*   p     0: still in the visitor loop of `visit`; >= 1: `_generic_visit` *)
(*         is at child position p (the child is being visited iff a frame  *)
(*         lies above this one)                                            *)
(*   snap  copy of the children's slots taken when `_generic_visit` began  *)
(***************************************************************************)
EXTENDS Naturals, Integers, Sequences, FiniteSets

CONSTANTS N,        \* number of nodes below the root
          Parent,   \* <<p_1, ..., p_N>>  with p_s \in 0..s-1
          Alt,      \* <<a_1, ..., a_N>>  a_s = sequence of operator ids
          OpSeq,    \* the mutator's operator list (sequence of operator ids)
          Deferred  \* operators scheduled last (`_TIMEOUT_PRONE_OPERATORS`)

Nodes == 1..N
Ids == [i \in 1..N |-> i]
Kids == [n \in 0..N |-> SelectSeq(Ids, LAMBDA c : Parent[c] = n)]   \* evaluated once by TLC
Children(n) == Kids[n]
AltOf(n) == IF n = 0 THEN <<>> ELSE Alt[n]
RECURSIVE Zeros(_)
Zeros(n) == IF n = 0 THEN <<>> ELSE Append(Zeros(n - 1), 0)
Pristine == Zeros(N)

RECURSIVE IsAnc(_, _)
IsAnc(a, s) == IF s = 0 THEN FALSE
               ELSE IF Parent[s] = a THEN TRUE ELSE IsAnc(a, Parent[s])
AncPairs == {<<a, s>> \in Nodes \X Nodes : IsAnc(a, s)}                  \* evaluated once by TLC
Anc(a, s) == <<a, s>> \in AncPairs        \* a is a proper ancestor of s

(* a mutation is <<node, alternative>>; `remove_bad_mutations`: same node or *)
(* one node among the descendants (`children`) of the other                  *)
OpOf(m) == Alt[m[1]][m[2]]
Conflict(m1, m2) == m1[1] = m2[1] \/ Anc(m1[1], m2[1]) \/ Anc(m2[1], m1[1])

MinOf(S) == CHOOSE x \in S : \A y \in S : x <= y
MaxOf(S) == CHOOSE x \in S : \A y \in S : x >= y
RECURSIVE Flatten(_)
Flatten(ss) == IF ss = <<>> THEN <<>> ELSE Head(ss) \o Flatten(Tail(ss))
RemoveAt(q, i) == SubSeq(q, 1, i - 1) \o SubSeq(q, i + 1, Len(q))
ElemsOf(q) == {q[i] : i \in 1..Len(q)}
Distinct(q) == \A i, k \in 1..Len(q) : i # k => q[i] # q[k]

(* ----------------------------------------------------------------------- *)
(* one generator: small-step semantics                                     *)
(* ----------------------------------------------------------------------- *)
Frame(n) == [n |-> n, j |-> 0, p |-> 0, snap |-> <<>>]
Fresh == <<Frame(0)>>
WalkGen(op) == [kind |-> "walk", op |-> op, tgt |-> <<0, 0>>]     \* op.mutate(tree, module)
OnlyGen(m)  == [kind |-> "only", op |-> "", tgt |-> m]            \* op.mutate(tree, module, m)

Match(g, n, j) == IF g.kind = "walk" THEN Alt[n][j] = g.op ELSE <<n, j>> = g.tgt

NextAlt(g, F) ==
  LET c == {j \in (F.j + 1)..Len(AltOf(F.n)) : Match(g, F.n, j)}
  IN IF c = {} THEN 0 ELSE MinOf(c)

(* the yield travels up through every enclosing `_generic_visit_*` frame; each *)
(* writes `mutated_node` into the slot of the child it is visiting: the        *)
(* replacement for the innermost one, the visited (snapshot) object above it   *)
\* (written with EXCEPT on tuples: TLC evaluates `[x \in S |-> e]` lazily, again at every use)
RECURSIVE YieldUp(_, _, _, _)
YieldUp(stack, slot, nj, i) ==
  IF i < 1 THEN slot
  ELSE YieldUp(stack,
               [slot EXCEPT ![stack[i + 1].n] =
                    IF i + 1 = Len(stack) THEN nj ELSE stack[i].snap[stack[i].p]],
               nj, i - 1)
YieldWrites(stack, slot, nj) == YieldUp(stack, slot, nj, Len(stack) - 1)

RECURSIVE SnapOf(_, _, _)
SnapOf(kids, slot, i) == IF i > Len(kids) THEN <<>> ELSE <<slot[kids[i]]>> \o SnapOf(kids, slot, i + 1)

Step(g, stack, slot) ==
  LET k == Len(stack)
      F == stack[k]
      kids == Children(F.n)
  IN
  IF F.p = 0 THEN
    LET nj == NextAlt(g, F) IN
    IF nj # 0
    THEN [stack |-> [stack EXCEPT ![k].j = nj], slot |-> YieldWrites(stack, slot, nj), out |-> "yield"]
    ELSE [stack |-> [stack EXCEPT ![k].p = 1,
                                  ![k].snap = SnapOf(kids, slot, 1)],
          slot |-> slot, out |-> "run"]
  ELSE IF F.p > Len(kids) THEN
    IF k = 1 THEN [stack |-> <<>>, slot |-> slot, out |-> "done"]
    ELSE LET P == stack[k - 1] IN       \* child finished: the parent writes the old value back
         [stack |-> [SubSeq(stack, 1, k - 1) EXCEPT ![k - 1].p = P.p + 1],
          slot |-> [slot EXCEPT ![F.n] = P.snap[P.p]], out |-> "run"]
  ELSE
    LET c == kids[F.p] IN
    \* descend into the child object found when the list was copied; `visit` returns at
    \* once for an `only_mutation` whose node is neither the child nor below it; a
    \* replacement left there by somebody else is opaque
    IF F.snap[F.p] = 0 /\ (g.kind = "walk" \/ c = g.tgt[1] \/ Anc(c, g.tgt[1]))
    THEN [stack |-> Append(stack, Frame(c)), slot |-> slot, out |-> "run"]
    ELSE [stack |-> [stack EXCEPT ![k].p = F.p + 1],
          slot |-> [slot EXCEPT ![c] = F.snap[F.p]], out |-> "run"]

(* next(generator): run to the next yield or to the end *)
RECURSIVE Run(_, _, _)
Run(g, stack, slot) ==
  LET r == Step(g, stack, slot) IN IF r.out = "run" THEN Run(g, r.stack, r.slot) ELSE r

Yielded(stack) == <<stack[Len(stack)].n, stack[Len(stack)].j>>

(* exhaust a generator, collecting what it yields *)
RECURSIVE Drain(_, _, _, _)
Drain(g, stack, slot, acc) ==
  LET r == Run(g, stack, slot) IN
  IF r.out = "done" THEN [muts |-> acc, slot |-> r.slot]
  ELSE Drain(g, r.stack, r.slot, Append(acc, Yielded(r.stack)))

(* [(op, [m for m, _ in op.mutate(tree, module)]) for op in operators] *)
RECURSIVE PerOp(_, _, _)
PerOp(i, slot, acc) ==
  IF i > Len(OpSeq) THEN [lists |-> acc, slot |-> slot]
  ELSE LET d == Drain(WalkGen(OpSeq[i]), Fresh, slot, <<>>)
       IN PerOp(i + 1, d.slot, Append(acc, d.muts))
\* on the untouched tree this is a constant (TLC evaluates it once)
PerOpPristine == PerOp(1, Pristine, <<>>)
PerOpAt(slot) == IF slot = Pristine THEN PerOpPristine ELSE PerOp(1, slot, <<>>)

(* what a `finally: <write the old value back>` around each yield would do when the *)
(* generator is closed at its yield (the suggested fix)                            *)
RECURSIVE UnwindFrom(_, _, _)
UnwindFrom(stack, slot, i) ==
  IF i < 1 THEN slot
  ELSE UnwindFrom(stack, [slot EXCEPT ![stack[i + 1].n] = stack[i].snap[stack[i].p]], i - 1)
Unwind(stack, slot) == UnwindFrom(stack, slot, Len(stack) - 1)

(* ----------------------------------------------------------------------- *)
(* FirstOrderMutator._select_mutations                                      *)
(* ----------------------------------------------------------------------- *)
RECURSIVE SumSeq(_)
SumSeq(q) == IF q = <<>> THEN 0 ELSE Head(q) + SumSeq(Tail(q))

(* `_stratified_counts`: largest-remainder rounding, ties in list order *)
Stratified(sizes, cap) ==
  LET total == SumSeq(sizes) IN
  IF total <= cap THEN sizes
  ELSE LET fl == [i \in 1..Len(sizes) |-> (sizes[i] * cap) \div total]
           fr == [i \in 1..Len(sizes) |-> (sizes[i] * cap) % total]
           rem == cap - SumSeq(fl)
           rank(i) == Cardinality({k \in 1..Len(sizes) : fr[k] > fr[i] \/ (fr[k] = fr[i] /\ k < i)})
       IN [i \in 1..Len(sizes) |-> fl[i] + (IF rank(i) < rem THEN 1 ELSE 0)]

RECURSIVE SortedSeq(_)
SortedSeq(S) == IF S = {} THEN <<>> ELSE <<MinOf(S)>> \o SortedSeq(S \ {MinOf(S)})
ByIndex(q, S) == LET ix == SortedSeq(S) IN [k \in 1..Len(ix) |-> q[ix[k]]]

(* all results `_sample` can produce (the seeded rng is a nondeterministic choice here) *)
RECURSIVE SampleLists(_, _, _)
SampleLists(lists, counts, i) ==
  IF i > Len(lists) THEN {<<>>}
  ELSE {<<ByIndex(lists[i], S)>> \o rest :
          S \in {T \in SUBSET (1..Len(lists[i])) : Cardinality(T) = counts[i]},
          rest \in SampleLists(lists, counts, i + 1)}
Samples(lists, cap) ==
  SampleLists(lists, Stratified([i \in 1..Len(lists) |-> Len(lists[i])], cap), 1)

(* `_round_robin` *)
RECURSIVE Row(_, _, _)
Row(lists, k, i) == IF k > Len(lists) THEN <<>>
                    ELSE (IF i <= Len(lists[k]) THEN <<lists[k][i]>> ELSE <<>>) \o Row(lists, k + 1, i)
RECURSIVE RRFrom(_, _)
RRFrom(lists, i) ==
  IF \A k \in 1..Len(lists) : i > Len(lists[k]) THEN <<>>
  ELSE Row(lists, 1, i) \o RRFrom(lists, i + 1)
RoundRobin(lists) == RRFrom(lists, 1)

OpIdx(keep(_)) == SelectSeq([i \in 1..Len(OpSeq) |-> i], keep)
Ordered(lists) ==
  LET reg == OpIdx(LAMBDA i : OpSeq[i] \notin Deferred)
      dfr == OpIdx(LAMBDA i : OpSeq[i] \in Deferred)
  IN RoundRobin([k \in 1..Len(reg) |-> lists[reg[k]]]) \o RoundRobin([k \in 1..Len(dfr) |-> lists[dfr[k]]])

Selections(lists, cap) ==
  IF cap >= 0 /\ Len(Flatten(lists)) > cap
  THEN {Ordered(s) : s \in Samples(lists, cap)}
  ELSE {Ordered(lists)}

(* ----------------------------------------------------------------------- *)
(* HOM strategies (deterministic ones): EachChoice, FirstToLast            *)
(* ----------------------------------------------------------------------- *)
RemoveBad(apply, avail) ==
  SelectSeq(avail, LAMBDA a : \A i \in 1..Len(apply) : ~Conflict(apply[i], a))

RECURSIVE Pick(_, _, _, _, _)
Pick(avail, apply, fromEnd, strat, order) ==
  IF Len(apply) >= order \/ avail = <<>> THEN apply
  ELSE LET ix == IF fromEnd THEN Len(avail) ELSE 1
           ap == Append(apply, avail[ix])
       IN Pick(RemoveBad(ap, RemoveAt(avail, ix)), ap, (strat = "ftl") /\ ~fromEnd, strat, order)

RECURSIVE Groups(_, _, _)
Groups(muts, strat, order) ==
  IF muts = <<>> THEN <<>>
  ELSE LET g == Pick(muts, <<>>, FALSE, strat, order)
       IN <<g>> \o Groups(SelectSeq(muts, LAMBDA m : m \notin ElemsOf(g)), strat, order)
=============================================================================

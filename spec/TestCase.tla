------------------------------- MODULE TestCase -------------------------------
(***************************************************************************)
(* Design model for C15: test cases under the variation operators.         *)
(*                                                                         *)
(* State: NObj test case objects (chromosomes' test cases).  Actions:      *)
(*  - the TestCase API as its users call it (guards SafeAdd/SafeInsert/... *)
(*    of TestCaseOps: the bound name comes from next_var_name, reads refer *)
(*    to variables bound before the position, removals are forward-closed) *)
(*  - the composite steps of TestFactory / TestCaseMutation / crossover /  *)
(*    local search, built from the API exactly in the order the code uses: *)
(*      InsertCall     insert_random_statement: nd dependency statements   *)
(*                     at the cursor, then the call, optionally a          *)
(*                     statement invoking the result (_maybe_invoke_result)*)
(*      ChangeStmt     change_random_call / change_statement_type /        *)
(*                     mutate_call / mutate_value / local-search value     *)
(*                     writes: dependencies before the position, then      *)
(*                     replace_statement keeping the bound variable        *)
(*      DeleteGracefully, Chop (TestCaseMutation.mutate with               *)
(*                     chop_max_length), RemoveUnused, CloneInto,          *)
(*                     AppendOther (append_test_case_from)                 *)
(*      MutationInsert TestCaseMutation._mutation_insert and               *)
(*                     RandomLengthTestCaseFactory: InsertCall under the   *)
(*                     guard  size < MaxLen  (InsertGuard = "as_coded") or *)
(*                     size + statements needed <= MaxLen ("room")         *)
(*      Crossover      splice_test_case_chromosomes: clone, cut the tail,  *)
(*                     append_test_case_from, accept iff size < MaxLen     *)
(*  - with Raw = TRUE additionally the API without guards (any statement,  *)
(*    any index): shows the guards are what keeps test cases well-formed.  *)
(*                                                                         *)
(* Properties: AllWF (C15 well-formedness), CounterOK, LenBound (crossover *)
(* and insertion never grow a test case beyond MaxLen), GuardsSuffice (for *)
(* every API call with every argument: guard => WF is preserved).          *)
(***************************************************************************)
EXTENDS TestCaseOps, TLC

CONSTANTS NObj,        \* number of test case objects
          Types,       \* recorded bound types
          MaxLen,      \* configuration.search_algorithm.chromosome_length
          MaxDeps,     \* dependency statements one insertion / change may add
          MaxUses,     \* variables a hand-built statement may read
          MaxStmts,    \* exploration bound on the length of a test case
          MaxCtr,      \* exploration bound on the variable counter
          MaxSteps,    \* exploration bound on the number of steps
          InsertGuard, \* "as_coded" | "room"
          Raw          \* TRUE: also unguarded API calls

VARIABLES obj,   \* object -> [st, reg, ctr]
          last,  \* [kind, o, pre]: kind of the last step, object it changed, its size before
          n      \* number of steps taken

vars == <<obj, last, n>>
Objs == 1..NObj
TyOpt == Types \cup {NoType}

SmallSubsets(S) == {U \in SUBSET S : Cardinality(U) <= MaxUses}
Size(o) == Len(obj[o].st)

Init == /\ obj = [o \in Objs |-> EmptyTC]
        /\ last = [kind |-> "init", o |-> 1, pre |-> 0]
        /\ n = 0

Set(o, t, kind) ==
  /\ obj' = [obj EXCEPT ![o] = t]
  /\ last' = [kind |-> kind, o |-> o, pre |-> Size(o)]
  /\ n' = n + 1

(* ------------------------------------------------------------ guarded API *)
\* a new statement for 0-based position pos, as the factory builds it: fresh name, reads earlier
NewStmts(t, pos) ==
  {Stmt(b, U, ty) : b \in {t.ctr, NoVar}, U \in SmallSubsets(BoundBefore(t.st, pos + 1)), ty \in TyOpt}
Fresh(t, s) == IF Binds(s) THEN AfterNextVar(t) ELSE t

ApiAdd(o) == \E s \in NewStmts(obj[o], Size(o)) : Set(o, Add(Fresh(obj[o], s), s), "api")
ApiInsert(o) == \E i \in 0..Size(o) : \E s \in NewStmts(obj[o], i) :
                  Set(o, Insert(Fresh(obj[o], s), i, s), "api")
ApiRemove(o) == \E i \in 0..(Size(o) - 1) : SafeRemove(obj[o], i) /\ Set(o, Remove(obj[o], i), "api")
ApiRemoveFwd(o) == \E i \in 0..(Size(o) - 1) : Set(o, RemoveWithFwd(obj[o], i), "api")
Chopping(o) == \E p \in (-1)..(Size(o) - 1) : Set(o, Chop(obj[o], p), "api")
Unused(o) == Set(o, RemoveUnused(obj[o]), "api")
CloneInto(o) == \E o2 \in Objs \ {o} :
                  /\ obj' = [obj EXCEPT ![o2] = Clone(obj[o])]
                  /\ last' = [kind |-> "api", o |-> o2, pre |-> Size(o2)]
                  /\ n' = n + 1
Choices == {<<0, 0>>, <<1, 0>>, <<0, 1>>}
\* the random choices only matter when a tail statement reads a variable of other's head
ChoicesFor(t2, start) ==
  IF \E j \in (start + 1)..Len(t2.st) : t2.st[j].uses \cap BoundBefore(t2.st, start + 1) # {}
  THEN Choices ELSE {<<0, 0>>}
AppendOther(o) == \E o2 \in Objs : \E start \in 0..Len(obj[o2].st) :
                    \E ch \in ChoicesFor(obj[o2], start) :
                      Set(o, AppendFrom(obj[o], obj[o2], start, ch), "api")

(* ------------------------------------------------------- composite steps *)
AddDeps(t, pos, nd, dty) ==
  LET F[k \in 0..nd] ==
        IF k = 0 THEN t
        ELSE Insert(AfterNextVar(F[k-1]), pos + k - 1, Stmt(F[k-1].ctr, {}, dty))
  IN F[nd]
DepVars(t, nd) == {t.ctr + k : k \in 0..(nd - 1)}

InsertCall(t, pos, nd, S, ty, inv) ==
  LET t1 == AddDeps(t, pos, nd, CHOOSE x \in Types : TRUE)
      call == Stmt(t1.ctr, DepVars(t, nd) \cup S, ty)
      t2 == Insert(AfterNextVar(t1), pos + nd, call)
  IN IF inv THEN Insert(AfterNextVar(t2), pos + nd + 1, Stmt(t2.ctr, {call.bv}, NoType)) ELSE t2
Needed(nd, inv) == nd + 1 + (IF inv THEN 1 ELSE 0)

\* arguments of one insertion: position, number of dependency statements, an earlier variable the
\* call reuses (none, or the one bound last before the position), recorded type, invoke-the-result
LastBefore(st, pos) ==
  LET B == {j \in 1..pos : Binds(st[j])} IN
  IF B = {} THEN {} ELSE {st[CHOOSE j \in B : \A k \in B : k <= j].bv}
InsertArgs(o) ==
  {<<pos, nd, S, ty, inv>> : pos \in 0..Size(o), nd \in 0..MaxDeps,
                              S \in {{}} \cup {LastBefore(obj[o].st, p) : p \in 0..Size(o)},
                              ty \in TyOpt, inv \in BOOLEAN}
InsertOK(o, a) == /\ a[3] \subseteq BoundBefore(obj[o].st, a[1] + 1)
                  /\ (a[5] => a[4] = NoType)      \* only possibly-callable results are invoked
Guarded(o, a) == IF InsertGuard = "as_coded" THEN Size(o) < MaxLen
                 ELSE Size(o) + Needed(a[2], a[5]) <= MaxLen
\* _mutation_insert / RandomLengthTestCaseFactory.get_test_case call insert_random_statement
\* under a length guard
MutationInsert(o) ==
  \E a \in InsertArgs(o) :
     /\ InsertOK(o, a) /\ Guarded(o, a)
     /\ Set(o, InsertCall(obj[o], a[1], a[2], a[3], a[4], a[5]), "insert")
\* the factory method itself has no length guard (append_generic_accessible of the random
\* algorithm, local search RANDOM_CALL); only the calls MutationInsert does not already cover
FactoryInsert(o) ==
  \E a \in InsertArgs(o) :
     /\ InsertOK(o, a) /\ ~Guarded(o, a)
     /\ Set(o, InsertCall(obj[o], a[1], a[2], a[3], a[4], a[5]), "change")

ChangeStmt(o) ==
  \E i \in 0..(Size(o) - 1), nd \in 0..MaxDeps, ty \in TyOpt :
   \E S \in {{}, LastBefore(obj[o].st, i)} :
     LET t == obj[o]
         old == t.st[i + 1]
         t1 == AddDeps(t, i, nd, CHOOSE x \in Types : TRUE)
         bv == IF Binds(old) THEN old.bv ELSE t1.ctr
         t2 == IF Binds(old) THEN t1 ELSE AfterNextVar(t1)
     IN Set(o, Replace(t2, i + nd, Stmt(bv, DepVars(t, nd) \cup S, ty)), "change")

DeleteGracefully(o) == ApiRemoveFwd(o)

Crossover(o) ==
  \E o2 \in Objs \ {o} : \E p1 \in 0..Size(o), p2 \in 0..Len(obj[o2].st) :
   \E ch \in ChoicesFor(obj[o2], p2) :
     LET head == RemoveBatch(Clone(obj[o]), p1..(Size(o) - 1))
         off == AppendFrom(head, Clone(obj[o2]), p2, ch)
     IN Set(o, IF Len(off.st) < MaxLen THEN off ELSE obj[o], "crossover")

NewTestCase(o) == Size(o) > 0 /\ Set(o, EmptyTC, "api")

(* ----------------------------------------------------- raw (unguarded) API *)
AnyStmts(t) ==
  {Stmt(b, U, ty) : b \in {NoVar} \cup 0..t.ctr, U \in SmallSubsets(0..(t.ctr - 1)), ty \in TyOpt}
RawStep(o) ==
  \/ \E s \in AnyStmts(obj[o]) : Set(o, Add(obj[o], s), "raw")
  \/ \E s \in AnyStmts(obj[o]), i \in 0..Size(o) : Set(o, Insert(obj[o], i, s), "raw")
  \/ \E i \in 0..(Size(o) - 1) : Set(o, Remove(obj[o], i), "raw")
  \/ \E s \in AnyStmts(obj[o]), i \in 0..(Size(o) - 1) : Set(o, Replace(obj[o], i, s), "raw")
  \/ \E S \in SUBSET (0..(Size(o) - 1)) : Set(o, RemoveBatch(obj[o], S), "raw")

\* Object 1 is the subject of every action; the other objects (the "other parent" of crossover /
\* append_test_case_from, the target of clone) are only built by additions and insertions.
Next ==
  /\ n < MaxSteps
  /\ \/ \E o \in Objs : ApiAdd(o) \/ MutationInsert(o)
     \/ LET o == 1 IN
          \/ ApiInsert(o) \/ ApiRemove(o) \/ ApiRemoveFwd(o) \/ Chopping(o) \/ Unused(o)
          \/ CloneInto(o) \/ AppendOther(o)
          \/ FactoryInsert(o) \/ ChangeStmt(o) \/ Crossover(o) \/ NewTestCase(o)
          \/ (Raw /\ RawStep(o))

Spec == Init /\ [][Next]_vars

Bounded == \A o \in Objs : Size(o) <= MaxStmts /\ obj[o].ctr <= MaxCtr

(* ------------------------------------------------------------- properties *)
AllWF == \A o \in Objs : WF(obj[o])
CounterOK == \A o \in Objs : CounterAhead(obj[o].st, obj[o].ctr)
LenBound == last.kind \in {"insert", "crossover"} => Size(last.o) <= Max(last.pre, MaxLen)
CrossoverLenBound == last.kind = "crossover" => Size(last.o) <= Max(last.pre, MaxLen)

(* which API calls preserve well-formedness: for EVERY argument, guard => WF afterwards *)
GuardsSuffice ==
  \A o \in {1} :
    LET t == obj[o] IN
    WF(t) =>
      /\ \A s \in AnyStmts(t) :
           /\ SafeAdd(t, s) => WF(Add(t, s))
           /\ \A i \in 0..(Len(t.st) + 1) : SafeInsert(t, i, s) => WF(Insert(t, i, s))
           /\ \A i \in 0..(Len(t.st) - 1) : SafeReplace(t, i, s) => WF(Replace(t, i, s))
      /\ \A i \in 0..(Len(t.st) - 1) :
           /\ SafeRemove(t, i) => WF(Remove(t, i))
           /\ WF(RemoveWithFwd(t, i))
      /\ \A S \in SUBSET (0..(Len(t.st) - 1)) : SafeRemoveBatch(t, S) => WF(RemoveBatch(t, S))
      /\ \A p \in (-1)..Len(t.st) : WF(Chop(t, p))
      /\ WF(RemoveUnused(t)) /\ WF(Clone(t))
      /\ \A o2 \in Objs : (WF(obj[o2]) /\ CounterAhead(t.st, t.ctr)) =>
           \A start \in 0..Len(obj[o2].st), ch \in Choices :
              LET r == AppendFrom(t, obj[o2], start, ch)
              IN WF(r) /\ CounterAhead(r.st, r.ctr) /\ Len(r.st) <= Len(t.st) + Len(obj[o2].st) - start
=============================================================================

CONSTANTS
  FF = {"f1", "f2"}
  CF = {"g1"}
  Faults <- NoFaults
  FactoryFF <- DefFactoryFF
  FFSeq <- DefFFSeq
  CFSeq <- DefCFSeq
  Ops <- AllOps
  Modes <- ModesDesign
  NT = 4
  NS = 2
  MaxV = 4
  MaxFuncs = 2
  MaxSuite = 2
  MaxDepth = 3
  MaxTop = 2
  ExtraT = 1
  ExtraC = 3
  ExtraM = 1
  Coarse = FALSE
SPECIFICATION Spec
INVARIANT TypeOK
INVARIANT Owns
PROPERTY Isolation
INVARIANT NeverStale
INVARIANT QueryTotal
INVARIANT CleanMeansCurrent
INVARIANT SuiteCleanMeansCurrent
CONSTRAINT Bound

SPECIFICATION Spec
INVARIANT ComputeSucceeds
INVARIANT WellFormed
INVARIANT CDGNodes
INVARIANT CDGSound
INVARIANT CDGPairsComplete
INVARIANT RootQuery
INVARIANT DepsQuery
INVARIANT RootOrBranch
INVARIANT CDGLabelsComplete

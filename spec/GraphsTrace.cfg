SPECIFICATION Spec
INVARIANT ComputeSucceeds
INVARIANT WellFormed
INVARIANT CDGSound
INVARIANT CDGPairsComplete
INVARIANT CDGLabelsComplete
INVARIANT CDGNodes
INVARIANT RootQuery
INVARIANT DepsQuery
INVARIANT RootOrBranch

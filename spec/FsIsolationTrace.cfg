SPECIFICATION Spec
INVARIANT PreExistingPreserved
INVARIANT CreatedGone
INVARIANT EndsWithExit
INVARIANT FsFollows
INVARIANT CrFollows
INVARIANT ResFollows

SPECIFICATION Spec
INVARIANT PreExistingPreserved
INVARIANT CreatedGone
INVARIANT EndsWithExit
INVARIANT StartsAtPre
INVARIANT FsFollows
INVARIANT CrFollows
INVARIANT ResFollows
PROPERTY Chained

\* the API without the callers' guards: well-formedness must be violated (expected counterexample)
CONSTANTS
  NObj = 2
  Types = {"A"}
  MaxLen = 3
  MaxDeps = 1
  MaxUses = 1
  MaxStmts = 3
  MaxCtr = 4
  MaxSteps = 2
  InsertGuard = "as_coded"
  Raw = TRUE
SPECIFICATION Spec
INVARIANT AllWF
CONSTRAINT Bounded

\* every crash / suppressed-exception / late-poll point of the child, up to MaxFaults faults
CONSTANTS
  Batches <- DesignBatches2
  Observers = {"trace"}
  M = 2
  Per = 1
  Faults <- AllFaults
  MaxFaults = 2
  Pickle = "ascoded"
SPECIFICATION Spec
INVARIANT TypeOK
INVARIANT SafeDegradation
INVARIANT TimeoutAgree
INVARIANT ExceptionsAgree
INVARIANT LinesAgree
INVARIANT AssertionAgree
INVARIANT VerificationAgree
INVARIANT NoOrphan
INVARIANT AtMostTwice
INVARIANT AllDelivered
PROPERTY AbsSpec
PROPERTY Returns

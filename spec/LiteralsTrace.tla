---------------------------- MODULE LiteralsTrace -----------------------------
(* Trace validation for C20 and C23: TLC evaluates the property formulas on what the real  *)
(* code did with the concrete representatives of the TLC-enumerated value terms.           *)
(*                                                                                         *)
(* C20 event (op "assert"): one rendered assertion in one export namespace:                *)
(*   case, pos    the value term and where it was observed                                 *)
(*   akinds       all <<kind, source>> assertions the real observer created for the value  *)
(*   ak, src      this assertion;  nctx  "plain" | "fixture"                               *)
(*   oc           "raise" rendering raised | "nocompile" | "pass" | "fail" | "error"       *)
(* C23 events: op "render" (literal_to_cst / parse_literal on a value), "gen" / "mut"      *)
(* (generate_literal / mutate_literal draws); v / back / back2 / parsed / seedv are exact  *)
(* value descriptors, compared with ~ (LiteralsOps!Same).  op "parse": a literal Pynguin    *)
(* did not render (integer literal tokens lit, stated by MC_Literals), given as source text *)
(* to parse_literal / get_literal_value / set_literal_value; xv / pv / gv / w_xv / wv are    *)
(* exact descriptors (sign + base-16 limbs), compared with LiteralsOps!LitValue(lit).       *)
EXTENDS LiteralsOps, TLC, TLCExt, Json, IOUtils

Traces == ndJsonDeserialize(IOEnv.TRACE_FILE)

(* q: every observed event is visited in several sub-steps and each property formula is       *)
(* evaluated in exactly one of them, so that one state violates at most one property formula  *)
(* (TLC reports one violated invariant per state): 1 = validity clauses, 2 = model             *)
(* conformance (drift), 3 = RoundTrip, 4 = ParseBackAgrees (3, 4 only for C23 events).         *)
(* want: for a parse-only input the value LiteralsOps states for its token sequence (computed once per event) *)
VARIABLES tid, l, cur, q, want
vars == <<tid, l, cur, q, want>>
NoEv == [op |-> "none"]
Last == IF l = 0 THEN 0 ELSE IF cur.op \in {"assert", "noassert", "observer_raised"} THEN 2 ELSE 4
Init == /\ tid \in 1..Len(Traces) /\ l = 0 /\ cur = NoEv /\ q = 0 /\ want = NoX
Next == IF q < Last
        THEN q' = q + 1 /\ UNCHANGED <<tid, l, cur, want>>
        ELSE /\ l < Len(Traces[tid].ev)
             /\ l' = l + 1
             /\ q' = 1
             /\ cur' = Traces[tid].ev[l + 1]
             /\ want' = IF cur'.op = "parse" THEN LitValue(cur'.lit) ELSE NoX
             /\ UNCHANGED tid
Spec == Init /\ [][Next]_vars

ToSet(sq) == {sq[i] : i \in DOMAIN sq}
At(n) == l > 0 /\ q = n
IsA == l > 0 /\ cur.op = "assert"
IsR == l > 0 /\ cur.op = "render"
IsG == l > 0 /\ cur.op \in {"gen", "mut"}
IsP == l > 0 /\ cur.op = "parse"

(* ------------------------------ C20 ------------------------------ *)
RenderNeverFails              == (At(1) /\ IsA) => cur.oc # "raise"
RenderedIsValidPython         == (At(1) /\ IsA /\ cur.oc # "raise") => cur.oc # "nocompile"
AssertionHoldsOnObservedValue == (At(1) /\ IsA /\ cur.oc \notin {"raise", "nocompile"}) => cur.oc = "pass"

(* model conformance (reported as drift, never as a violation): the real observer creates the *)
(* assertions of LiteralsOps!Observed, and the outcome is the one the as-coded model predicts   *)
ObserverTotal       == At(2) => cur.op # "observer_raised"
ObserverFollowsSpec == (At(2) /\ cur.op \in {"assert", "noassert"}) =>
                          ToSet(cur.akinds) = Observed(cur.case, cur.pos, AsCoded)
AssertedValue == IF cur.src = "self" /\ cur.pos # "var" THEN Leaf("obj", "o_plain")
                 ELSE IF cur.src = "field" /\ cur.pos = "var" THEN Leaf("float", "f_pos")
                 ELSE cur.case
OutcomeFollowsModel == (At(2) /\ IsA /\ cur.src # "sub") =>
                          cur.oc = (IF cur.ak = "object" /\ cur.src = "self" /\ cur.pos = "global" THEN "pass"
                                    ELSE Predict(AssertedValue, cur.ak, cur.nctx, AsCoded))

(* ------------------------------ C23 ------------------------------ *)
Dom == InLitDomain(cur.case)
RenderedLiteralIsValidPython == (At(1) /\ ((IsR /\ Dom) \/ IsG)) => (cur.raised = "" /\ cur.compiles)
EvaluatesToRequestedType ==
  /\ (At(1) /\ IsG /\ cur.raised = "" /\ cur.compiles) => (cur.evalok /\ cur.back.k = cur.req)
  /\ (At(1) /\ IsR /\ Dom /\ cur.raised = "" /\ cur.compiles) => (cur.evalok /\ cur.back.k = cur.case.k)
RoundTrip ==
  /\ (At(3) /\ IsR /\ Dom /\ cur.evalok) => Same(cur.v, cur.back)
  /\ (At(3) /\ IsG /\ cur.evalok) => /\ cur.rr_ok /\ Same(cur.back, cur.back2)
                            /\ (cur.seeded => Same(cur.seedv, cur.back))
  \* local search reads a literal it did not render and writes the value back: the new literal denotes it
  /\ (At(3) /\ IsP /\ cur.g_some) => /\ cur.w_raised = "" /\ cur.w_wrote
                                    /\ cur.w_evalok /\ XSame(cur.w_xv, want)
                                    /\ (cur.w_some => XSame(cur.wv, want))
(* weakened: parse_literal may answer "not parseable" (None); when it answers, it must agree *)
ParseBackAgrees ==
  /\ (At(4) /\ IsR /\ Dom) => (cur.p_raised = "" /\ (cur.p_some => Same(cur.parsed, cur.v)))
  /\ (At(4) /\ IsG /\ cur.evalok) => (cur.p_raised = "" /\ (cur.p_some => Same(cur.parsed, cur.back)))
  \* literals in any base, with either sign, with underscores: the value the token sequence denotes
  /\ (At(4) /\ IsP) => /\ cur.p_raised = "" /\ (cur.p_some => XSame(cur.pv, want))
                       /\ cur.g_raised = "" /\ (cur.g_some => XSame(cur.gv, want))

(* model conformance (drift only) *)
RaiseFollowsModel == (At(2) /\ IsR /\ Dom) => ((cur.raised # "") = HasRaise(RenderL(cur.case, AsCoded)))
ShapeFollowsModel == (At(2) /\ IsR /\ Dom /\ cur.m = 0 /\ cur.raised = "") => Same(cur.shape, RenderL(cur.case, AsCoded))
BackFollowsModel  == (At(2) /\ IsR /\ Dom /\ cur.m = 0 /\ cur.evalok) => Same(cur.backc, Eval(RenderL(cur.case, AsCoded)))
(* the source text of a parse-only input is Python and evaluates to the value LiteralsOps states for it: a *)
(* statement about specification and adapter, not about Pynguin (a violation is a machinery error)       *)
LitValueIsPythonValue == (At(2) /\ IsP) => (cur.compiles /\ cur.evalok /\ XSame(cur.xv, want))
(* values without a literal representation: documented fallback `None` *)
FallbackIsNone    == (At(2) /\ IsR /\ ~Dom /\ (cur.case.k \in {"none", "frozenset"} \/
                          (cur.case.k = "obj" /\ cur.case.c \notin {"o_floatsub", "o_intsub", "o_deeplist"})))
                        => (cur.raised = "" /\ cur.evalok /\ cur.back.k = "none")
=============================================================================

-------------------------- MODULE MasterWorkerTrace ---------------------------
(* Trace validation for C33.  Each event carries the state projected from what the real  *)
(* master and workers did: st = maximum_search_time of the task, restarts, delivered     *)
(* (a worker sent a real result), returned/rc (the command returned rc), hung (the outer *)
(* watchdog had to kill the command).                                                   *)
EXTENDS Naturals, Integers, Sequences, TLC, TLCExt, Json, IOUtils

Traces == ndJsonDeserialize(IOEnv.TRACE_FILE)

VARIABLES tid, l, cur
vars == <<tid, l, cur>>

Init == /\ tid \in 1..Len(Traces) /\ l = 0 /\ cur = Traces[tid].init
Next == /\ l < Len(Traces[tid].ev)
        /\ l' = l + 1
        /\ cur' = Traces[tid].ev[l + 1]
        /\ UNCHANGED tid
Spec == Init /\ [][Next]_vars

Max(a, b) == IF a > b THEN a ELSE b
AdjustedTime(t, e10) == IF t > 0 THEN Max(t * 10 - e10, 0) \div 10 ELSE t

(* ---- C33 clauses on the observed run ---- *)
Returns        == l = Len(Traces[tid].ev) => (cur.returned /\ ~cur.hung)
RestartGuard   == [][cur'.restarts > cur.restarts => cur'.st > 0]_vars
StrictDecrease == [][cur'.restarts > cur.restarts => cur'.st < cur.st]_vars
NoRestartUnlimited == [][cur.st <= 0 => cur'.restarts = cur.restarts]_vars
SuccessOnlyIfDelivered == (cur.returned /\ cur.rc = 0) => cur.delivered
(* a new worker is only ever started by a counted restart *)
StartsAreRestarts == [][cur'.inc > cur.inc => (cur'.inc = 1 \/ cur'.restarts = cur'.inc - 1)]_vars
(* assumption of the property made explicit: a crashed worker consumed wall time *)
ElapsedPositive == cur.ev = "Adjust" => cur.elapsed10 > 0
(* conformance with the design model (DRIFT when false, not a violation) *)
ConformAdjust  == [][(cur'.ev = "Adjust" /\ cur'.virtual) =>
                        cur'.pending = AdjustedTime(cur.st, cur'.elapsed10)]_vars
(* conformance: the master gives up only when no search time is left (not demanded by C33) *)
ConformGiveUp == (cur.ev = "Restart" /\ ~cur.decided) => cur.pending <= 0
=============================================================================

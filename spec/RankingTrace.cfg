SPECIFICATION Spec
INVARIANT Front0HasBestPerGoal
INVARIANT LaterFrontsAreNonDominatedLayers
INVARIANT CrowdingIn01
INVARIANT RankSelectionInRange
INVARIANT RankSelectionPrefersBetter
INVARIANT RankFollowsModel
INVARIANT RankAttrFollowsModel
INVARIANT CrowdFollowsModel
INVARIANT SelectFollowsModel
PROPERTY RankSelectionMonotone
PROPERTY DrawsAscending

---------------------------- MODULE PipelineTrace -----------------------------
(***************************************************************************)
(* Trace validation of end-to-end runs for the pipeline properties.        *)
(* Events (one trace per run, kinds mixed):                                *)
(*  "Asserted"  one per statement that carried assertions after assertion  *)
(*              generation/minimisation: found in the exported file?,      *)
(*              number attached / number exported right after it           *)
(*  "Minimize"  coverage per function before/after (ranks), statements     *)
(*              after that were not there before, asserted stmts dropped   *)
(*  "Test"      one per exported test function: xfail-marked?, pytest      *)
(*              outcome against the uninstrumented module                  *)
(*  "File"      pytest collection of the exported file                     *)
(*  "Reparse"   one per exported test function: hash of its code and of    *)
(*              the code rendered from the re-parsed test case (0 = none)  *)
(*  "Twin"      two runs with the same seed/config and different hash      *)
(*              seeds: hashes of exported files and of the event streams   *)
(***************************************************************************)
EXTENDS Naturals, Sequences, FiniteSets, TLC, TLCExt, Json, IOUtils

Traces == ndJsonDeserialize(IOEnv.TRACE_FILE)
VARIABLES tid, l, cur
vars == <<tid, l, cur>>
NoEv == [ev |-> "none"]
Init == /\ tid \in 1..Len(Traces) /\ l = 0 /\ cur = NoEv
Next == /\ l < Len(Traces[tid].ev) /\ l' = l + 1 /\ cur' = Traces[tid].ev[l + 1] /\ UNCHANGED tid
Spec == Init /\ [][Next]_vars

(* C19 *)
AssertionsKept == cur.ev = "Asserted" => (cur.found /\ cur.exported >= cur.attached)
(* C22 *)
CoveragePreserved == cur.ev = "Minimize" => \A i \in DOMAIN cur.cov_before : cur.cov_after[i] = cur.cov_before[i]
OnlyOriginalStatements == cur.ev = "Minimize" => cur.new_statements = 0
AssertedStatementsKept == cur.ev = "Minimize" => cur.asserted_dropped = 0
(* C18 *)
FileImportsCleanly == cur.ev = "File" => (cur.collected /\ ~cur.syntax_error)
TestVerdicts == cur.ev = "Test" =>
   /\ cur.outcome \in {"passed", "xfailed"}
   /\ (cur.outcome = "xfailed") = cur.xfail_marked
(* C24 *)
SeedRoundTrip == cur.ev = "Reparse" => (cur.h_reparsed = cur.h_exported)
(* C16 *)
SameSeedSameSuite == cur.ev = "Twin" => cur.h_file_a = cur.h_file_b
(* localisation only (DRIFT): the first diverging pipeline event of the two runs *)
ConformSameEvents == cur.ev = "Twin" => cur.first_divergence = 0
=============================================================================

CONSTANTS
  Depth = 7
  AllVias = TRUE
  Prune = TRUE
SPECIFICATION Spec

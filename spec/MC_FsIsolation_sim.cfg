CONSTANTS
  Depth = 7
  AllVias = TRUE
  LastAllVias = FALSE
  Prune = TRUE
  PruneLast = FALSE
  Repr = FALSE
SPECIFICATION Spec

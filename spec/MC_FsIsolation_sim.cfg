CONSTANTS
  Depth = 7
  AllVias = TRUE
  Prune = TRUE
  PruneLast = FALSE
SPECIFICATION Spec

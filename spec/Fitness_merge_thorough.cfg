CONSTANTS
  MaxPred = 1
  MaxBl = 1
  MaxLine = 1
  LinePred = 1
  LineBl = 1
  MaxCnt = 2
  MaxTests = 2
  Dists = {"Z", "P", "INF"}
  Shapes = {"own"}
  Diam = 2
SPECIFICATION Spec
INVARIANT TypeOK
INVARIANT TracesWF
INVARIANT MergedIsFold
INVARIANT FitnessFiniteNonNeg
INVARIANT CoverageIn01
INVARIANT FitnessZeroIffCovered
INVARIANT SuiteZeroIffCoverageOne
INVARIANT AddTestMonotone
INVARIANT MergeCommutative
INVARIANT MergeAssociative
INVARIANT MergeNeutral
INVARIANT AnalyzeResultsIsFold
PROPERTY AddTestMonotoneStep

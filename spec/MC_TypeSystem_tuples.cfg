CONSTANTS
  NUser = 2
  Level = 0
  MaxSteps = 0
  Deviations = {}
  Prov = "G"
  FixedRoots = FALSE
  Depth = 0
  EmitLevel = 3
SPECIFICATION MCSpec
INVARIANT Emit

CONSTANTS
  FF = {"f1", "f2"}
  CF = {"g1"}
  Faults <- NoFaults
  FactoryFF <- DefFactoryFF
SPECIFICATION Spec
INVARIANT NeverStale
INVARIANT QueryTotal
INVARIANT Isolated
INVARIANT ModelFollows

---------------------------- MODULE RankingTrace -----------------------------
(***************************************************************************)
(* Trace validation for C14: TLC evaluates the clauses of the property on  *)
(* what the real RankBasedPreferenceSorting / fast_epsilon_dominance_      *)
(* assignment / RankSelection returned.                                    *)
(*                                                                         *)
(* A "rank" trace: T.P the population (f, len per individual; ids are the  *)
(* positions in the `solutions` list), T.share; events                     *)
(*   rank   pop, goals, coins, rt, fronts (sequence of sequences of ids),  *)
(*          rk (the rank attribute of every individual), nb (coins used)   *)
(*   crowd  goals, cf (the lists passed), dt (tag of every distance:       *)
(*          "neg" "zero" "in01" "one" "gt1" "inf" "nan"), dn (distance *   *)
(*          Len(list) if that is an integer, else -1), rt                  *)
(* A "select" trace: T.n, T.bias, T.K; events in ascending order of the    *)
(* draw:  select  d (symbolic draw), rt ("int" or the exception), idx.     *)
(***************************************************************************)
EXTENDS RankingOps, TLC, TLCExt, Json, IOUtils

Traces == ndJsonDeserialize(IOEnv.TRACE_FILE)

VARIABLES tid, l, cur
vars == <<tid, l, cur>>

NoEv == [op |-> "none"]
\* From the start of a trace TLC may jump to any position (so that a violated clause is
\* reported with a two-state counterexample, however long the trace is); after that the
\* trace is walked event by event, which is what the action properties below look at.
Init == /\ tid \in 1..Len(Traces) /\ l = 0 /\ cur = NoEv
Next == /\ l < Len(Traces[tid].ev)
        /\ l' \in (IF l = 0 THEN 1..Len(Traces[tid].ev) ELSE {l + 1})
        /\ cur' = Traces[tid].ev[l']
        /\ UNCHANGED tid
Spec == Init /\ [][Next]_vars

T == Traces[tid]
IsRank == l > 0 /\ cur.op = "rank"
IsCrowd == l > 0 /\ cur.op = "crowd"
IsSelect == l > 0 /\ cur.op = "select"
UG == ElemsOf(cur.goals)

(* ------------------------------ C14 clauses ----------------------------- *)
Front0HasBestPerGoal ==
  IsRank => cur.rt = "ok" /\ Front0HasBest(T.P, UG, cur.fronts)

\* Open known findings (known_findings.d/C14.json) are masked in the bulk run and re-checked
\* unmasked on a sample; the classes are disjoint and defined here, not in the harness:
\*   REMAINDER  front 0 already fills the configured population (the code's else branch)
\*   TWINS      the population holds equal chromosomes (and front 0 does not fill it)
Masked(name) == name \in DOMAIN IOEnv /\ IOEnv[name] = "1"
ZeroFrontFills == Len(cur.fronts) >= 1 /\ Len(cur.fronts[1]) >= cur.pop
LaterFrontsAreNonDominatedLayers ==
  (/\ IsRank /\ cur.rt = "ok"
   /\ ~(ZeroFrontFills /\ Masked("C14_MASK_REMAINDER"))
   /\ ~(T.share /\ ~ZeroFrontFills /\ Masked("C14_MASK_TWINS")))
  => LaterFrontsAreLayers(T.P, UG, cur.fronts)

CrowdingIn01 ==
  IsCrowd => /\ cur.rt = "ok"
             /\ \A k \in DOMAIN cur.dt : \A m \in DOMAIN cur.dt[k] : cur.dt[k][m] \in {"zero", "in01"}

\* every bias of the enumeration is in the documented range [1.0, 2.0] or above it
BiasAtLeastOne(b) == b.kind = "ratio" => b.p >= b.q
RankSelectionInRange ==
  (IsSelect /\ BiasAtLeastOne(T.bias)) => cur.rt = "int" /\ SelInRange(T.n, cur.idx)

\* population sorted best first, draws ascending: a larger draw never yields a better index,
\* i.e. the draws mapped to one index form an interval ...
RankSelectionMonotone ==
  [][(IsSelect /\ cur'.op = "select" /\ cur.rt = "int" /\ cur'.rt = "int") => cur.idx <= cur'.idx]_vars

\* ... and on the uniform grid of draws a better index never gets fewer draws than a worse
\* one.  Tolerance 2: an interval of draws of length L holds floor(L*K) or ceil(L*K) grid points
\* (one point of discretisation), and a grid point that coincides with an interval boundary
\* (uniform selection with K a multiple of n) may fall to either side in floating point.
GridCount(i) == Cardinality({j \in DOMAIN T.ev : T.ev[j].d.kind = "grid" /\ T.ev[j].rt = "int"
                                                    /\ T.ev[j].idx = i})
RankSelectionPrefersBetter ==
  (IsSelect /\ l = Len(T.ev)) =>
     LET c == [i \in 0..(T.n - 1) |-> GridCount(i)]
     IN \A i, j \in 0..(T.n - 1) : i < j => c[i] + 2 >= c[j]

(* ------------- conformance with the design model (drift, not verdicts) -------------- *)
RankFollowsModel ==
  (IsRank /\ cur.rt = "ok" /\ ~T.share) =>
     LET zf == ZeroFront(T.P, cur.goals, cur.coins)
     IN /\ cur.nb = zf.u
        /\ \/ cur.fronts = FrontsFrom(T.P, UG, zf.z, cur.pop, TRUE)     \* the code as it is
           \/ Len(zf.z) >= cur.pop /\ cur.fronts = FrontsFrom(T.P, UG, zf.z, cur.pop, FALSE)
RankAttrFollowsModel ==
  (IsRank /\ cur.rt = "ok" /\ ~T.share) =>
     \A k \in DOMAIN cur.fronts : \A i \in ElemsOf(cur.fronts[k]) : cur.rk[i] = k - 1
CrowdFollowsModel ==
  (IsCrowd /\ cur.rt = "ok") =>
     \A k \in DOMAIN cur.cf : cur.dn[k] = CrowdNums(T.P, UG, cur.cf[k])
SelOnBoundary(n, p, q, k, K) == \E i \in 0..n : K * (p * i * n - (p - q) * i * i) = k * q * n * n
SelectFollowsModel ==
  (IsSelect /\ cur.rt = "int" /\ T.bias.kind = "ratio" /\ T.bias.p > T.bias.q /\ cur.d.kind = "grid") =>
     LET m == SelIndex(T.n, T.bias.p, T.bias.q, cur.d.k, T.K)
     IN \/ cur.idx = m
        \/ SelOnBoundary(T.n, T.bias.p, T.bias.q, cur.d.k, T.K) /\ cur.idx = m - 1

(* harness sanity: grid draws arrive in ascending order *)
DrawsAscending ==
  [][(IsSelect /\ cur'.op = "select" /\ cur.d.kind = "grid" /\ cur'.d.kind = "grid") => cur.d.k < cur'.d.k]_vars
=============================================================================

CONSTANTS
  InitTimes <- MCInitTimes
  Elapsed10 = {5, 10, 15, 30}
  MaxDeaths = 2
SPECIFICATION MCSpec
INVARIANT Emit

\* protocol scenarios: batches of up to 3 test cases over the time classes
CONSTANTS
  Batches <- ProtoBatches
  Observers = {"trace"}
  M = 2
  Per = 1
  Faults = {}
  MaxFaults = 0
  Pickle = "ascoded"
  Variant = "ascoded"
  MaxLen = 1
  MaxBatch = 3
SPECIFICATION MCSpec
INVARIANT Emit

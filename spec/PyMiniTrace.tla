----------------------------- MODULE PyMiniTrace ------------------------------
(***************************************************************************)
(* Trace validation for C01(c), C02, C03: one event per (program, decision  *)
(* vector) of the PyMini universe, holding                                  *)
(*   gt_*    what the interpreter did on the UNINSTRUMENTED module           *)
(*           (sys.monitoring LINE / BRANCH events, return value, exception,  *)
(*           side-effect markers)                                            *)
(*   py_*    what Pynguin's instrumented module did and what its trace       *)
(*           reports (covered lines, predicate outcomes per line, number of  *)
(*           registered predicates per line)                                 *)
(*   spec_*  what the PyMini semantics (PyMini.tla) predicts                 *)
(* Outcomes are lists of <<line, <<truth values taken>>>>.                   *)
(***************************************************************************)
EXTENDS Naturals, Integers, Sequences, FiniteSets, TLC, TLCExt, Json, IOUtils

Traces == ndJsonDeserialize(IOEnv.TRACE_FILE)
VARIABLES tid, l, cur
vars == <<tid, l, cur>>
NoEv == [ok |-> TRUE]
Init == /\ tid \in 1..Len(Traces) /\ l = 0 /\ cur = NoEv
Next == /\ l < Len(Traces[tid].ev) /\ l' = l + 1 /\ cur' = Traces[tid].ev[l + 1] /\ UNCHANGED tid
Spec == Init /\ [][Next]_vars
SetOf(q) == {q[i] : i \in DOMAIN q}
On == l > 0

(* C01: instrumenting succeeds and does not change behaviour *)
InstrumentationSucceeds == On => cur.ok
BehaviourPreserved == (On /\ cur.ok) => (cur.py_marks = cur.gt_marks /\ cur.py_exc = cur.gt_exc /\ cur.py_ret = cur.gt_ret)
(* C02: reported lines = executed coverable lines of the module, nothing foreign *)
ReportedLinesExact == (On /\ cur.ok) => SetOf(cur.py_lines) = SetOf(cur.gt_lines)
NoForeignLines == (On /\ cur.ok) => cur.py_foreign_lines = <<>>
(* C03: branch outcomes per deciding line; every conditional jump / for-loop is a predicate *)
BranchOutcomesExact == (On /\ cur.ok) => SetOf(cur.py_out) = SetOf(cur.gt_out)
PredicatesRegistered == (On /\ cur.ok) => SetOf(cur.py_npreds) = SetOf(cur.gt_njumps)
CodeObjectEntered == (On /\ cur.ok) => cur.py_entered
(* conformance of the PyMini semantics with the interpreter (DRIFT only: the spec would be wrong) *)
ConformLines == On => SetOf(cur.spec_lines) = SetOf(cur.gt_lines)
ConformOutcomes == On => SetOf(cur.spec_out) = SetOf(cur.gt_out)
ConformBehaviour == On => (cur.spec_marks = cur.gt_marks /\ cur.spec_exc = cur.gt_exc)
=============================================================================

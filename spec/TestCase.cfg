CONSTANTS
  NObj = 2
  Types = {"A", "B"}
  MaxLen = 3
  MaxDeps = 1
  MaxUses = 1
  MaxStmts = 3
  MaxCtr = 4
  MaxSteps = 3
  InsertGuard = "as_coded"
  Raw = FALSE
SPECIFICATION Spec
INVARIANT AllWF
INVARIANT CounterOK
INVARIANT CrossoverLenBound
CONSTRAINT Bounded

CONSTANTS
  Depth = 12
  DepthIgn = 12
  Shape = "full"
SPECIFICATION Spec

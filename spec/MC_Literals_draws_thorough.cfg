CONSTANTS
  Mode = "draws"
  Size = "thorough"
  Members = {0, 1, 2}
  Draws = {1, 2, 3, 4, 5, 6, 7, 8, 9, 10, 11, 12, 13, 14, 15, 16, 17, 18, 19, 20, 21, 22, 23, 24, 25, 26, 27, 28, 29, 30}
SPECIFICATION Spec
INVARIANT Emit

-------------------------- MODULE MC_GoalsManager ---------------------------
(* Coverage orders for the P2 replay of C07: the GoalsManager model run on the goal graphs  *)
(* exported from the real _BranchFitnessGraph (file GRAPHS_FILE, one graph per line:        *)
(* n goals 1..n, roots, edges).  A behaviour picks one graph and a sequence of updates;     *)
(* every update covers one current goal (so the search makes progress) and possibly one     *)
(* arbitrary further goal (covered "by accident", current or not), or only a non-current    *)
(* goal.  The adapter replays the sequence on the real _GoalsManager with stub solutions.   *)
EXTENDS GoalsManager, Json, IOUtils

RealGraphs == ndJsonDeserialize(IOEnv.GRAPHS_FILE)
SeqToSet(q) == {q[i] : i \in DOMAIN q}

VARIABLES gi, hist,
          pg, ph     \* the goals picked for the next update (0 = not yet / none)
mcvars == <<roots, edges, current, covered, objs, gi, hist, pg, ph>>

MCInit == /\ gi \in 1..Len(RealGraphs)
          /\ roots = SeqToSet(RealGraphs[gi].roots)
          /\ edges = SeqToSet(RealGraphs[gi].edges)
          /\ current = roots /\ covered = {} /\ objs = roots
          /\ hist = <<>> /\ pg = 0 /\ ph = 0

AllGoals == 1..RealGraphs[gi].n
\* The choice of an update is split into cheap steps (TLC's simulator computes every successor
\* before it picks one): pick a current goal (or -1: none), pick any further goal (or -1: none),
\* then do the update.
PickG == /\ current # {} /\ pg = 0
         /\ pg' \in current \cup {-1}
         /\ UNCHANGED <<roots, edges, current, covered, objs, gi, hist, ph>>
PickH == /\ pg # 0 /\ ph = 0
         /\ ph' \in IF pg = -1 THEN AllGoals \ current ELSE AllGoals \cup {-1}
         /\ UNCHANGED <<roots, edges, current, covered, objs, gi, hist, pg>>
DoUpdate == /\ pg # 0 /\ ph # 0
            /\ LET S == {pg, ph} \ {-1} IN Update(S) /\ hist' = Append(hist, S)
            /\ pg' = 0 /\ ph' = 0
            /\ UNCHANGED gi
MCNext == PickG \/ PickH \/ DoUpdate
MCSpec == MCInit /\ [][MCNext]_mcvars
=============================================================================

-------------------------- MODULE MC_GoalsManager ---------------------------
(* Coverage orders for the P2 replay of C07: the GoalsManager model run on the goal graphs  *)
(* exported from the real _BranchFitnessGraph (file GRAPHS_FILE, one graph per line:        *)
(* n goals 1..n, roots, edges).  A behaviour picks one graph and a sequence of updates;     *)
(* every update covers one current goal (so the search makes progress) and possibly one     *)
(* arbitrary further goal (covered "by accident", current or not), or only a non-current    *)
(* goal.  The adapter replays the sequence on the real _GoalsManager with stub solutions.   *)
EXTENDS GoalsManager, Json, IOUtils

RealGraphs == ndJsonDeserialize(IOEnv.GRAPHS_FILE)
SeqToSet(q) == {q[i] : i \in DOMAIN q}

VARIABLES gi, hist
mcvars == <<roots, edges, current, covered, objs, gi, hist>>

MCInit == /\ gi \in 1..Len(RealGraphs)
          /\ roots = SeqToSet(RealGraphs[gi].roots)
          /\ edges = SeqToSet(RealGraphs[gi].edges)
          /\ current = roots /\ covered = {} /\ objs = roots
          /\ hist = <<>>

AllGoals == 1..RealGraphs[gi].n
Choices == {{g, h} : g \in current, h \in AllGoals} \cup {{h} : h \in AllGoals \ current}

MCNext == /\ current # {}
          /\ \E S \in Choices :
               /\ Update(S)
               /\ hist' = Append(hist, S)
          /\ UNCHANGED gi
MCSpec == MCInit /\ [][MCNext]_mcvars
=============================================================================

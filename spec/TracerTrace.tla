----------------------------- MODULE TracerTrace ------------------------------
(* Trace validation for C04 (and the callback-level clauses of C01 and C05): each event is  *)
(* one evaluation observed on the real ExecutionTracer with concrete representatives:       *)
(* py = outcome of Python's own operator as a branch condition, dT/dF = abstract distances  *)
(* recorded for exactly this evaluation, raised, enabled_after, recorded_after,             *)
(* extra_calls = user dunder methods the tracer called that the original op did not call,   *)
(* consumed / consumed_orig = elements taken from one-shot iterators.                       *)
EXTENDS TracerOps, TLC, TLCExt, Json, IOUtils

Traces == ndJsonDeserialize(IOEnv.TRACE_FILE)

VARIABLES tid, l, cur
vars == <<tid, l, cur>>
NoEv == [kind |-> "none"]
Init == /\ tid \in 1..Len(Traces) /\ l = 0 /\ cur = NoEv
Next == /\ l < Len(Traces[tid].ev)
        /\ l' = l + 1
        /\ cur' = Traces[tid].ev[l + 1]
        /\ UNCHANGED tid
Spec == Init /\ [][Next]_vars

(* C04 *)
DistancesWellFormed  == l > 0 => WellFormed(cur)
OnlyRaisesIfOpRaises == l > 0 => RaisesOnlyIfOpRaises(cur)
RecordedOnce         == l > 0 => cur.cnt <= 1
(* C03 at callback level: the outcome Python takes is reported, and nothing is reported when   *)
(* the operator raises (no branch is taken)                                                    *)
EvaluationRecorded        == (l > 0 /\ cur.py \in {"T", "F"}) => cur.cnt = 1
NothingRecordedIfOpRaises == (l > 0 /\ cur.py = "Raise") => cur.cnt = 0
(* C01: instrumentation only observes *)
ObserveOnly == l > 0 => (cur.extra_calls = <<>> /\ cur.consumed <= cur.consumed_orig)
(* C05 *)
EnabledRestored == l > 0 => cur.enabled_after
StillRecording  == l > 0 => cur.recorded_after
=============================================================================

--------------------------- MODULE MC_SubprocessExec ---------------------------
(***************************************************************************)
(* Behaviour extraction for C31 (spec -> code replay).                     *)
(*                                                                         *)
(* Every emitted case is one call of execute_multiple run through the      *)
(* protocol model without faults: the batch, the attached observer, the    *)
(* protocol path the model takes (fork / polltimeout / eof / fallback /    *)
(* direct), the abstract results Expected(i) (= what the in-process        *)
(* executor delivers, Executor.tla) and the results the model of the       *)
(* subprocess executor delivers.                                           *)
(*                                                                         *)
(* "shapes"  batches of one test case over all statement kinds: call with  *)
(*           predicate true/false, object construction and mutation,       *)
(*           float / collection / enum values (assertion kinds), print,    *)
(*           raise at position k (builtin, SUT-defined, not rebuildable by *)
(*           pickle, SystemExit), crossed with the assertion attachments   *)
(*           that the verification observer distinguishes.                 *)
(* "proto"   batches over time classes: fast, raising, endless loop in     *)
(*           instrumented code, endless wait in uninstrumented code,       *)
(*           child-only crash; they exercise poll timeout, EOF and the     *)
(*           fallback to one process per test case.                        *)
(***************************************************************************)
EXTENDS SubprocessExec, Json

CONSTANTS MaxLen,      \* shapes: maximal number of statements
          MaxBatch     \* proto: maximal number of test cases in a batch

ShapeOps == {"lit", "recT", "recF", "obj", "mut", "flt", "coll", "enum", "prt",
             "exc", "excS", "excU", "exit"}
WellFormed(ops) == \A k \in DOMAIN ops : ops[k] = "mut" => \E j \in 1..(k - 1) : ops[j] = "obj"
OpSeqs == {s \in SeqsUpTo(ShapeOps, MaxLen) : WellFormed(s)}
MixAtts == <<"fail", "gen", "err", "xwrong">>
Mixed(ops, shift) == [k \in DOMAIN ops |-> St(ops[k], MixAtts[((k + shift) % 4) + 1])]
\* all attachment patterns for short test cases, two patterns for the longest ones
PatternsOf(s) == IF Len(s) <= 2 THEN {Uniform(s, a) : a \in Atts} \cup {Mixed(s, h) : h \in 0..3}
                 ELSE {Uniform(s, "none"), Mixed(s, 0)}
ShapePrograms == UNION {PatternsOf(s) : s \in OpSeqs}
ShapeBatches == {<<p>> : p \in ShapePrograms}

PF == Uniform(<<"lit", "lit", "recT">>, "none")      \* fast, generous timeout
PX == Uniform(<<"recF", "excS", "recT">>, "none")    \* raises at position 2
PS == Uniform(<<"spin">>, "none")                    \* endless loop in instrumented code
PN == Uniform(<<"nap">>, "none")                     \* endless wait in uninstrumented code
PD == Uniform(<<"recT", "die", "recT">>, "none")     \* kills the child that executes it
ProtoPrograms == {PF, PX, PS, PN, PD}
ProtoBatches == SeqsUpTo(ProtoPrograms, MaxBatch)

AllNone(p) == \A k \in DOMAIN p : p[k].att = "none"
\* the attachments only matter to the verification observer
Compatible == IF obs = "trace" THEN \A i \in 1..N : AllNone(tests[i])
              ELSE \A i \in 1..N : ~AllNone(tests[i])

MCInit == Init /\ Compatible
MCSpec == MCInit /\ [][Next]_vars

Proj(r) == [timeout |-> r.timeout, exc |-> r.exc, exct |-> r.exct,
            ran |-> {it[1] : it \in r.items}, atr |-> {a[1] : a \in r.atr}, vtr |-> r.vtr]
Emit == ppc = "done" =>
          PrintT(<<"HIST", ToJson([tests |-> tests, obs |-> obs, path |-> path,
                                   exp |-> [i \in 1..N |-> Proj(Expected(i))],
                                   res |-> [i \in 1..N |-> Proj(results[i])],
                                   det |-> [i \in 1..N |-> Det(tests[i])]])>>)
=============================================================================

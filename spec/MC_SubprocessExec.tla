--------------------------- MODULE MC_SubprocessExec ---------------------------
(***************************************************************************)
(* Behaviour extraction for C31 (spec -> code replay).                     *)
(*                                                                         *)
(* Every emitted case is one call of execute_multiple run through the      *)
(* protocol model without faults: the batch, the attached observer, the    *)
(* protocol path the model takes (fork / polltimeout / eof / fallback /    *)
(* direct), the abstract results Expected(i) (= what the in-process        *)
(* executor delivers, Executor.tla) and the results the model of the       *)
(* subprocess executor delivers.                                           *)
(*                                                                         *)
(* "shapes"  batches of one test case over all statement kinds: call with  *)
(*           predicate true/false, object construction and mutation,       *)
(*           float / collection / enum values (assertion kinds), print,    *)
(*           raise at position k (builtin, SUT-defined, not rebuildable by *)
(*           pickle, SystemExit, SUT exception with a custom __reduce__    *)
(*           carrying a SUT object with __getstate__/__setstate__), crossed *)
(*           with the binding patterns (assignments / expression           *)
(*           statements that bind no variable: first, last, every          *)
(*           statement) and the assertion attachments that the             *)
(*           verification observer distinguishes.                          *)
(* "proto"   batches over time classes: fast, raising, endless loop in     *)
(*           instrumented code, endless wait in uninstrumented code,       *)
(*           child-only crash; they exercise poll timeout, EOF and the     *)
(*           fallback to one process per test case.                        *)
(* "slow"    batches over test cases with statements that sleep SlowDur    *)
(*           units in uninstrumented code and then return (M = 24,         *)
(*           Per = 2, SlowDur = 3): slower than the time per statement but *)
(*           well inside TestBudget, or (two sleeps in two statements)     *)
(*           well beyond it - a deterministic timeout in every executor    *)
(*           that computes the budget of the test case as TestBudget.      *)
(***************************************************************************)
EXTENDS SubprocessExec, Json

CONSTANTS MaxLen,      \* shapes: maximal number of statements
          MaxBatch     \* proto: maximal number of test cases in a batch

ShapeOps == {"lit", "recT", "recF", "obj", "mut", "objR", "flt", "coll", "enum", "prt",
             "exc", "excS", "excU", "excR", "exit"}
OpSeqs == SeqsUpTo(ShapeOps, MaxLen)
MixAtts == <<"fail", "gen", "err", "xwrong">>
Mixed(ops, shift) == [k \in DOMAIN ops |-> St(ops[k], MixAtts[((k + shift) % 4) + 1])]
\* all attachment patterns for short test cases, two patterns for the longest ones
PatternsOf(s) == IF Len(s) <= 2 THEN {Uniform(s, a) : a \in Atts} \cup {Mixed(s, h) : h \in 0..3}
                 ELSE {Uniform(s, "none"), Mixed(s, 0)}
\* binding patterns: every statement an assignment; the last / the first / every statement an
\* expression statement
UnbAt(p, K) == [k \in DOMAIN p |-> IF k \in K THEN Unb(p[k]) ELSE p[k]]
BindingsOf(p) == {p, UnbAt(p, {Len(p)}), UnbAt(p, DOMAIN p)} \cup (IF Len(p) <= 2 THEN {UnbAt(p, {1})} ELSE {})
\* a mutation needs a variable that holds an object
WellFormed(p) == \A k \in DOMAIN p : p[k].op = "mut" => \E j \in 1..(k - 1) : p[j].op \in Objs /\ p[j].bnd
\* ... of one-statement test cases with every attachment pattern, of two-statement ones with the
\* patterns none / gen / first mixed one, of longer ones without attachments (last / every statement)
UnbPatternsOf(s) == IF Len(s) = 1 THEN PatternsOf(s)
                    ELSE IF Len(s) = 2 THEN {Uniform(s, "none"), Uniform(s, "gen"), Mixed(s, 0)}
                    ELSE {Uniform(s, "none")}
ShapePrograms == {q \in UNION {PatternsOf(s) \cup UNION {BindingsOf(p) : p \in UnbPatternsOf(s)} : s \in OpSeqs} :
                    WellFormed(q)}
ShapeBatches == {<<p>> : p \in ShapePrograms}

PF == Uniform(<<"lit", "lit", "recT">>, "none")      \* fast, generous timeout
PX == Uniform(<<"recF", "excS", "recT">>, "none")    \* raises at position 2
PS == Uniform(<<"spin">>, "none")                    \* endless loop in instrumented code
PN == Uniform(<<"nap">>, "none")                     \* endless wait in uninstrumented code
PD == Uniform(<<"recT", "die", "recT">>, "none")     \* kills the child that executes it
ProtoPrograms == {PF, PX, PS, PN, PD}
ProtoBatches == SeqsUpTo(ProtoPrograms, MaxBatch)

\* slow family (M = 24, Per = 2, SlowDur = 3): eight statements have a budget of 16
PW  == Uniform(<<"lit", "lit", "recT", "slow", "recF", "lit", "lit", "recT">>, "none")
\* ... ending in a raising expression statement
PWX == UnbAt(Uniform(<<"lit", "recT", "lit", "slow", "lit", "lit", "recF", "excS">>, "none"), {8})
\* two sleeps (6 units) in eight statements
PWW == UnbAt(Uniform(<<"slow", "lit", "recT", "lit", "lit", "recF", "slow", "lit">>, "none"), {7})
\* two sleeps in two statements: budget 4, still asleep when it runs out
PV  == Uniform(<<"slow", "slow">>, "none")
SlowPrograms == {PF, PW, PWX, PWW, PV}
SlowBatches == SeqsUpTo(SlowPrograms, MaxBatch)

AllNone(p) == \A k \in DOMAIN p : p[k].att = "none"
\* the attachments only matter to the verification observer
Compatible == IF obs = "trace" THEN \A i \in 1..N : AllNone(tests[i])
              ELSE \A i \in 1..N : ~AllNone(tests[i])

MCInit == Init /\ Compatible
MCSpec == MCInit /\ [][Next]_vars

Proj(r) == [timeout |-> r.timeout, exc |-> r.exc, exct |-> r.exct,
            ran |-> {it[1] : it \in r.items}, atr |-> {a[1] : a \in r.atr}, vtr |-> r.vtr]
Emit == ppc = "done" =>
          PrintT(<<"HIST", ToJson([tests |-> tests, obs |-> obs, path |-> path,
                                   exp |-> [i \in 1..N |-> Proj(Expected(i))],
                                   res |-> [i \in 1..N |-> Proj(results[i])],
                                   det |-> [i \in 1..N |-> Det(tests[i])],
                                   tm |-> <<M, Per, SlowDur>>,
                                   budget |-> [i \in 1..N |-> TestBudget(tests[i], M, Per)],
                                   dur |-> [i \in 1..N |-> Dur(tests[i])]])>>)
=============================================================================

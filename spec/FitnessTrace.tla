------------------------------ MODULE FitnessTrace ------------------------------
(***************************************************************************)
(* Trace validation for C10 / C11: TLC evaluates the clauses on values the *)
(* REAL functions returned (harness/adapters/fitness.py).                  *)
(*                                                                         *)
(* One event = one case:                                                   *)
(*   kind "eval"  : all fitness / coverage / goal functions on one trace   *)
(*                  (pre = post)                                           *)
(*   kind "add"   : suite level functions on a suite (pre) and on the      *)
(*                  suite with one test added (post); merged by the real   *)
(*                  analyze_results                                        *)
(*   kind "merge" : projections of a family of traces merged by the real   *)
(*                  ExecutionTrace.merge in every order and grouping       *)
(* Floats are order-embedded per event: a value is its rank among all      *)
(* floats of the event and -inf (rank 0), 0.0 (rank z), 1.0 (rank o),      *)
(* +inf (rank top); NaN = -1, "the call raised / returned no number" = -2. *)
(* fits[i] = [n name, lvl, cls, x index of exclusion in exs, v value,      *)
(*            c covered verdict "T"/"F"/"exc"/"na", m = 4*v if integral,   *)
(*            g goal]; covs[j] = [n, lvl, cls, v, q = <<num, den>>].       *)
(***************************************************************************)
EXTENDS FitnessOps, TLC, TLCExt, Json, IOUtils

Traces == ndJsonDeserialize(IOEnv.TRACE_FILE)

VARIABLES tid, l, cur
vars == <<tid, l, cur>>

NoEv == [kind |-> "none"]
Init == /\ tid \in 1..Len(Traces) /\ l = 0 /\ cur = NoEv
Next == /\ l < Len(Traces[tid].ev)
        /\ l' = l + 1
        /\ cur' = Traces[tid].ev[l + 1]
        /\ UNCHANGED tid
Spec == Init /\ [][Next]_vars

(* ---------------- observed values ---------------- *)
IsZero(v) == v = cur.z
IsOne(v) == v = cur.o
FiniteNonNeg(v) == v >= cur.z /\ v < cur.top
In01(v) == v >= cur.z /\ v <= cur.o
Le(a, b) == a >= 0 /\ b >= 0 /\ a <= b            \* both are numbers (not NaN, not raised)

Evals == IF l = 0 THEN {}
         ELSE IF cur.kind = "eval" THEN {cur.post}
         ELSE IF cur.kind = "add" THEN {cur.pre, cur.post} ELSE {}
Fits(e) == e.fits \o e.goals                   \* suite / test case level entries, goal level entries
Unrestricted(f) == LET e == cur.exs[f.x + 1] IN e.code = <<>> /\ e.tr = <<>> /\ e.fa = <<>>

(* ---------------- C10 ---------------- *)
FitnessFiniteNonNeg ==
  \A e \in Evals : \A i \in DOMAIN Fits(e) : FiniteNonNeg(Fits(e)[i].v)
CoverageIn01 ==
  \A e \in Evals : \A j \in DOMAIN e.covs : In01(e.covs[j].v)
(* "reported covered exactly when its fitness is zero", one clause per direction, function  *)
(* level and input class so that a violation names its call site                           *)
HasVerdict(f) == f.c # "na"
VerdictIsBool == \A e \in Evals : \A i \in DOMAIN Fits(e) : HasVerdict(Fits(e)[i]) => Fits(e)[i].c \in {"T", "F"}
CoveredImpliesZero ==
  \A e \in Evals : \A i \in DOMAIN Fits(e) : Fits(e)[i].c = "T" => IsZero(Fits(e)[i].v)
(* does the (restricted) branch fitness function consider at least one predicate branch? *)
ConsidersPredicate(f) == LET x == cur.exs[f.x + 1] IN Len(x.tr) < cur.reg.np \/ Len(x.fa) < cur.reg.np
ZeroImpliesCovered(Sel(_)) ==
  \A e \in Evals : \A i \in DOMAIN Fits(e) :
    (HasVerdict(Fits(e)[i]) /\ Sel(Fits(e)[i]) /\ IsZero(Fits(e)[i].v)) => Fits(e)[i].c = "T"
(* all three levels (pure function, suite class, test case class) end in                    *)
(* compute_branch_distance_fitness_is_covered; TLC reports only the first violated invariant *)
(* of a state, so this clause is listed last in the cfg                                      *)
ZeroImpliesCoveredBranchPred ==
  ZeroImpliesCovered(LAMBDA f : f.cls = "branch" /\ ConsidersPredicate(f))
ZeroImpliesCoveredBranchNoPred ==
  ZeroImpliesCovered(LAMBDA f : f.cls = "branch" /\ ~ConsidersPredicate(f))
ZeroImpliesCoveredLine == ZeroImpliesCovered(LAMBDA f : f.cls \in {"line", "checked"})
ZeroImpliesCoveredGoal == ZeroImpliesCovered(LAMBDA f : f.cls = "goal")
SuiteZeroIffCoverageOne ==
  \A e \in Evals : \A i \in DOMAIN e.fits : \A j \in DOMAIN e.covs :
    LET f == e.fits[i] c == e.covs[j] IN
      (f.cls = "branch" /\ c.cls = "branch" /\ f.lvl \in {"pure", "suite"} /\ c.lvl = f.lvl /\ Unrestricted(f))
        => (IsZero(f.v) <=> IsOne(c.v))

(* ---------------- C11 ---------------- *)
AddCoverageMonotone ==
  (l > 0 /\ cur.kind = "add") =>
    /\ Len(cur.pre.covs) = Len(cur.post.covs)
    /\ \A j \in DOMAIN cur.pre.covs : /\ cur.pre.covs[j].n = cur.post.covs[j].n
                                       /\ Le(cur.pre.covs[j].v, cur.post.covs[j].v)
AddFitnessMonotone ==
  (l > 0 /\ cur.kind = "add") =>
    /\ Len(cur.pre.fits) = Len(cur.post.fits)
    /\ \A i \in DOMAIN cur.pre.fits : /\ cur.pre.fits[i].n = cur.post.fits[i].n
                                       /\ cur.pre.fits[i].x = cur.post.fits[i].x
                                       /\ Le(cur.post.fits[i].v, cur.pre.fits[i].v)
MergeOrderIndependent ==
  (l > 0 /\ cur.kind = "merge") => \A i, j \in DOMAIN cur.projs : cur.projs[i] = cur.projs[j]
(* analysing cached results (analyze_results over the same result objects, repeatedly and in     *)
(* different orders) leaves every individual trace as it was                                     *)
MergeKeepsInputs == (l > 0 /\ cur.kind = "merge") => cur.inputs_kept

(* ---------------- conformance with FitnessOps (reported as drift, never a verdict) ------ *)
SetOf(s) == {s[i] : i \in DOMAIN s}
AbsReg(r) == [np |-> r.np, nl |-> r.nl, cos |-> SetOf(r.cos), own |-> r.own, diam |-> r.diam,
              cdg |-> SetOf(r.cdg)]
AbsTrace(t) == [cos |-> SetOf(t.cos), cnt |-> t.cnt, dT |-> t.dT, dF |-> t.dF,
                lines |-> SetOf(t.lines), chk |-> SetOf(t.chk)]
AbsEx(e) == [code |-> SetOf(e.code), tr |-> SetOf(e.tr), fa |-> SetOf(e.fa)]
AbsGoal(f) == [k |-> f.k, c |-> f.gc, p |-> f.gp, v |-> f.gb, l |-> f.gl]
Comparable(e) == e.exact /\ RegOK(AbsReg(cur.reg)) /\ WF(AbsTrace(e.tr), AbsReg(cur.reg))

ModelFit4(e, f) ==
  LET t == AbsTrace(e.tr) r == AbsReg(cur.reg) IN
  CASE f.cls = "branch" -> BranchFitness4(t, r, AbsEx(cur.exs[f.x + 1]))
    [] f.cls = "line" -> LineFitness4(t, r)
    [] f.cls = "checked" -> CheckedFitness4(t, r)
    [] f.cls = "goal" -> GoalFitness4(AbsGoal(f), t, r)
    [] OTHER -> f.m
ModelCovered(e, f) ==
  LET t == AbsTrace(e.tr) r == AbsReg(cur.reg) IN
  CASE f.cls = "branch" -> IsCoveredSuite(t, r, AbsEx(cur.exs[f.x + 1]))
    [] f.cls = "line" -> LineIsCovered(t, r)
    [] f.cls = "checked" -> CheckedIsCovered(t, r)
    [] f.cls = "goal" -> GoalCovered(AbsGoal(f), t, r)
    [] OTHER -> f.c = "T"
ModelCov(e, c) ==
  LET t == AbsTrace(e.tr) r == AbsReg(cur.reg) IN
  CASE c.cls = "branch" -> BranchCoverage(t, r)
    [] c.cls = "line" -> LineCoverage(t, r)
    [] c.cls = "checked" -> CheckedCoverage(t, r)
    [] OTHER -> <<c.q[1], c.q[2]>>
RatEq(q, m) == LET n == CovNorm(m) IN q[1] * n[2] = n[1] * q[2]

ObservedTraceWF == \A e \in Evals : e.tr.ok => (RegOK(AbsReg(cur.reg)) /\ WF(AbsTrace(e.tr), AbsReg(cur.reg)))
ConformsFitness == \A e \in Evals : Comparable(e) => \A i \in DOMAIN Fits(e) : Fits(e)[i].m = ModelFit4(e, Fits(e)[i])
ConformsCovered == \A e \in Evals : Comparable(e) =>
                     \A i \in DOMAIN Fits(e) : Fits(e)[i].c # "na" => ((Fits(e)[i].c = "T") <=> ModelCovered(e, Fits(e)[i]))
ConformsCoverage == \A e \in Evals : Comparable(e) => \A j \in DOMAIN e.covs : RatEq(e.covs[j].q, ModelCov(e, e.covs[j]))
ConformsMerge == (l > 0 /\ cur.kind = "add" /\ Comparable(cur.pre) /\ Comparable(cur.post) /\ cur.added.ok) =>
                   AbsTrace(cur.post.tr) = Merge(AbsTrace(cur.pre.tr), AbsTrace(cur.added))
=============================================================================

CONSTANTS MaxA = 3
SPECIFICATION Spec
INVARIANT Emit
CHECK_DEADLOCK FALSE

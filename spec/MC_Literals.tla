------------------------------ MODULE MC_Literals ------------------------------
(* Case enumeration for C20 / C23: TLC enumerates the value grammar of LiteralsOps up to   *)
(* depth 2 (Modes "assert" / "render": every value x observation position x member index) and the      *)
(* (requested type x configuration flag combination x draw index) cases of literal         *)
(* generation and mutation (Mode "draws"), there also the parse-only literal inputs         *)
(* (integer literal tokens of every base / sign / underscore placement, alone, as complex   *)
(* components and in containers) from which a mutation chain starts.                        *)
(* Every case is emitted once as JSON.                                                      *)
EXTENDS LiteralsOps, TLC, Json

CONSTANTS Mode,      \* "assert" (C20 cases) | "render" (C23 a) | "draws" (C23 b)
          Size,      \* "quick" | "thorough": how many classes take part in pairs and nesting
          Members,   \* member indices of the leaf classes (0 = the canonical representative)
          Draws      \* draw indices per (type, flags)

VARIABLES case

(* ---------------- the value grammar ---------------- *)
CplxParts == {"f_nan", "f_inf", "f_ninf", "f_negzero", "f_zero", "f_neg", "f_pos"}
Atoms == LeavesOf(LeafKinds) \cup {Cplx(a, b) : a, b \in CplxParts}
HAtoms == {x \in Atoms : Hashable(x)}

PairCoreQ == {Leaf("int", "i_neg"), Leaf("int", "i_pos"), Leaf("bool", "b_true"), Leaf("none", "n_none"),
              Leaf("float", "f_nan"), Leaf("float", "f_negzero"), Leaf("str", "s_both"),
              Leaf("bytes", "y_high"), Leaf("enum", "e_top"), Leaf("enum", "e_nested"),
              Cplx("f_pos", "f_negzero"), Leaf("obj", "o_plain")}
PairCoreT == PairCoreQ \cup {Leaf("int", "i_zero"), Leaf("int", "i_digits"), Leaf("bool", "b_false"),
              Leaf("float", "f_zero"), Leaf("float", "f_inf"), Leaf("str", "s_surrogate"),
              Leaf("bytes", "y_both"), Leaf("enum", "e_int"), Leaf("enum", "e_str"),
              Leaf("enum", "e_flagcombo"), Leaf("enum", "e_foreign"), Cplx("f_nan", "f_ninf"),
              Leaf("obj", "o_dict_keys")}
PairCore == IF Size = "quick" THEN PairCoreQ ELSE PairCoreT
NestCore == PairCore \cup {Leaf("float", "f_pos"), Leaf("str", "s_squote"), Leaf("int", "i_neghuge"),
                         Leaf("int", "i_digits"), Leaf("int", "i_negdigits")}

(* values that are equal and hash alike collapse inside sets / as dict keys: not enumerated together *)
NumGroup(x) == CASE x.c \in {"i_zero", "f_zero", "f_negzero", "b_false"} -> 1
                 [] x.c \in {"i_pos", "e_int"} -> 2 [] x.c \in {"i_neg", "e_negint"} -> 3
                 [] x.c \in {"i_one", "b_true"} -> 4 [] OTHER -> 0
Collide(a, b) == a # b /\ NumGroup(a) # 0 /\ NumGroup(a) = NumGroup(b)

Seqs(S, P) == {<<>>} \cup {<<a>> : a \in S} \cup {<<a, b>> : a, b \in P}
HSeqs(S, P) == {<<>>} \cup {<<a>> : a \in {x \in S : Hashable(x)}}
                 \cup {<<a, b>> : a, b \in {x \in P : Hashable(x)}}
Dicts(S, P) ==
  {Node("dict", "", <<>>)}
    \cup {Node("dict", "", <<Pair(a, Leaf("int", "i_pos"))>>) : a \in {x \in S : Hashable(x)}}
    \cup {Node("dict", "", <<Pair(Leaf("str", "s_plain"), b)>>) : b \in S}
    \cup {Node("dict", "", <<Pair(a, b), Pair(b, a)>>) : a, b \in {x \in P : Hashable(x)}}
Conts(S, P) ==
  {Node(k, "", es) : k \in {"list", "tuple"}, es \in Seqs(S, P)}
    \cup {Node(k, "", es) : k \in {"set", "frozenset"}, es \in HSeqs(S, P)}
    \cup Dicts(S, P)
NoCollision(v) == \/ v.k \notin {"set", "frozenset", "dict"}
                  \/ Len(v.es) < 2
                  \/ (v.k = "dict" /\ ~Collide(v.es[1].es[1], v.es[2].es[1]) /\ v.es[1].es[1] # v.es[2].es[1])
                  \/ (v.k # "dict" /\ ~Collide(v.es[1], v.es[2]))

D1 == {v \in Conts(Atoms, PairCore) : NoCollision(v)}
Inner == {v \in Conts(NestCore, {}) : TRUE}                       \* containers with <= 1 element
D2 == {v \in Conts(Inner, {}) : v.es # <<>>}                      \* one container inside a container
       \cup {Node(k, "", <<a, c>>) : k \in {"list", "tuple"}, a \in PairCoreQ, c \in {x \in Inner : Len(x.es) = 1 /\ x.k \in {"list", "dict"}}}
Values == Atoms \cup D1 \cup D2

(* C20 positions: field of a watched object for every value; bound variable, module global and  *)
(* class-static field for atoms and containers with at most one element (a builtin container   *)
(* bound to a variable gets no assertion at all)                                               *)
PosOf(v) == IF v \in Atoms \/ (v \in D1 /\ Len(v.es) <= 1) THEN Positions ELSE {"field"}

(* ---------------- literal generation / mutation draws ---------------- *)
ReqTypes == {"bool", "int", "float", "complex", "str", "bytes", "list", "tuple", "set", "dict"}
Flags == [seeding : {"off", "always"}, sizes : {"default", "tiny", "large"}, pool : {"none", "refs"},
          perturb : {"never", "always"}, assembly : {"off", "on"}]
Relevant(t, f) == /\ (f.pool = "refs" => t \in {"list", "tuple", "set", "dict"})
                  /\ (f.assembly = "on" => t \in {"str", "dict", "list", "tuple", "set"} /\ f.seeding = "always")
StartFlags == {f \in Flags : f.seeding = "off" /\ f.pool = "none" /\ f.assembly = "off" /\ f.perturb = "never"
                              /\ f.sizes \in {"default", "large"}}
StartAtoms == {v \in Atoms : InLitDomain(v)}
NoTerm == Leaf("-", "")
NoFlags == [seeding |-> "-", sizes |-> "-", pool |-> "-", perturb |-> "-", assembly |-> "-"]

(* ---------------- parse-only literal inputs ---------------- *)
(* digit sequences are stated here, member m of a pattern; the adapter only writes them as text *)
Gen(base, n, m) == [i \in 1..n |-> IF i = 1 THEN 1 + (m % (base - 1)) ELSE ((i * 7919 + m * 104729) % 1009) % base]
PatLen(pat, base) ==
  CASE pat = "multi" -> 4
    [] pat = "w33"   -> (CASE base = 2 -> 34 [] base = 8 -> 12 [] base = 10 -> 11 [] OTHER -> 9)       \* > 2^32
    [] pat = "big"   -> (CASE base = 2 -> 75 [] base = 8 -> 27 [] base = 10 -> 25 [] OTHER -> 20)      \* > 2^64
    [] pat = "huge"  -> (CASE base = 2 -> 14800 [] base = 8 -> 4934 [] OTHER -> 3700)                  \* >= 10^4300
PatDigits(pat, base, m) ==
  CASE pat = "zero" -> <<0>>
    [] pat = "one" -> <<1>>
    [] pat = "maxd" -> <<base - 1>>
    [] pat = "lead0" -> IF base = 10 THEN <<0, 0>> ELSE <<0, 0>> \o Gen(base, 3, m)
    [] OTHER -> Gen(base, PatLen(pat, base), m)
WithUS(ds, mode) ==
  LET n == Len(ds) IN
  CASE mode = "group"  -> [i \in 1..(n + (n - 1) \div 3) |-> IF i % 4 = 0 THEN US ELSE ds[i - i \div 4]]   \* 123_456_7
    [] mode = "each"   -> [i \in 1..(2 * n - 1) |-> IF i % 2 = 0 THEN US ELSE ds[(i + 1) \div 2]]          \* 1_2_3
    [] mode = "prefix" -> <<US>> \o ds                                                                    \* 0x_ff
    [] OTHER -> ds
Bases == {10, 16, 2, 8}
HugeBases == IF Size = "quick" THEN {16} ELSE {16, 2, 8}
Pats(base) == {"zero", "one", "maxd", "multi", "lead0", "w33", "big"} \cup (IF base \in HugeBases THEN {"huge"} ELSE {})
USModes(pat, base) == {"none"} \cup (IF pat \in {"multi", "lead0", "w33", "big", "huge"} THEN {"group"} ELSE {})
                               \cup (IF pat \in {"multi", "lead0"} THEN {"each"} ELSE {})
                               \cup (IF base # 10 /\ pat \in {"one", "multi", "big"} THEN {"prefix"} ELSE {})
Ups(pat, base, us) == IF base # 10 /\ pat \in {"multi", "big"} /\ us \in {"none", "prefix"} THEN {FALSE, TRUE} ELSE {FALSE}
Tok(sg, base, pat, us, up, m) == IntTok(sg, base, WithUS(PatDigits(pat, base, m), us), up)
PName(sg, base, pat, us, up) == [sg |-> sg, base |-> base, pat |-> pat, us |-> us, up |-> up]
(* a literal alone, for every sign / base / pattern / underscore placement / letter case *)
BareLits(m) ==
  UNION {UNION {UNION {{<<PName(sg, b, pat, us, up), LInt(Tok(sg, b, pat, us, up, m))>> :
                          sg \in {"", "-"}, up \in Ups(pat, b, us)} : us \in USModes(pat, b)} : pat \in Pats(b)} : b \in Bases}
    \cup {<<PName("+", b, pat, "none", FALSE), LInt(Tok("+", b, pat, "none", FALSE, m))>> :
            b \in Bases, pat \in {"one", "multi"}}
(* as complex components and inside containers: a core of tokens *)
Two == LInt(IntTok("", 10, <<2>>, FALSE))
CoreToks(pats, uss, m) ==
  UNION {UNION {{<<PName(sg, b, pat, us, FALSE), LInt(Tok(sg, b, pat, us, FALSE, m))>> :
                   sg \in {"", "-"}, us \in USModes(pat, b) \cap uss} : pat \in pats \cap Pats(b)} : b \in Bases}
CplxCtxs == {"cre", "cim"}
ContCtxs == {"list", "tuple", "set", "dictkey", "dictval", "pair", "nested"}
InCtx(c, x) == CASE c = "cre" -> LCont("Complex", <<x, Two>>)
                 [] c = "cim" -> LCont("Complex", <<Two, x>>)
                 [] c = "list" -> LCont("List", <<x>>)
                 [] c = "tuple" -> LCont("Tuple", <<x>>)
                 [] c = "set" -> LCont("Set", <<x>>)
                 [] c = "dictkey" -> LCont("Dict", <<LCont("DictElem", <<x, Two>>)>>)
                 [] c = "dictval" -> LCont("Dict", <<LCont("DictElem", <<Two, x>>)>>)
                 [] c = "pair" -> LCont("List", <<x, Two, x>>)
                 [] c = "nested" -> LCont("List", <<LCont("Tuple", <<x>>), LCont("Dict", <<LCont("DictElem", <<x, LCont("Set", <<x>>)>>)>>)>>)
(* float(int) is exact below 2^53 and raises OverflowError above 2^1024: complex components stay small *)
ParseLits(m) == {<<"bare", x[1], x[2]>> : x \in BareLits(m)}
                  \cup {<<c, x[1], InCtx(c, x[2])>> : c \in CplxCtxs, x \in CoreToks({"zero", "multi"}, {"none", "group"}, m)}
                  \cup {<<c, x[1], InCtx(c, x[2])>> : c \in ContCtxs, x \in CoreToks({"multi", "huge"}, {"none"}, m)}
PDraws(ctx) == {d \in Draws : d <= (IF ctx = "bare" THEN 2 ELSE 1)}     \* mutation chains per literal
PFlags == [seeding |-> "off", sizes |-> "default", pool |-> "none", perturb |-> "never", assembly |-> "off"]
PCase(ctx, name, lit, m, i) == [op |-> "parse", ctx |-> ctx, name |-> name, lit |-> lit, m |-> m,
                                req |-> LitType(lit), flags |-> PFlags, i |-> i]
RECURSIVE LitWF(_)
LitWF(t) == (t.k = "Int" => TokWF(t.tok)) /\ \A i \in DOMAIN t.es : LitWF(t.es[i])
(* self-check of the specification: every enumerated literal is well-formed; the two ways of stating the *)
(* magnitude of a base 2 / 8 / 16 literal agree (on all but the huge ones: Horner is quadratic)          *)
ASSUME Mode = "draws" => \A m \in Members : \A x \in BareLits(m) :
          /\ LitWF(x[2])
          /\ (x[1].pat # "huge" => HornerMag(Digs(x[2].tok.ds), x[2].tok.base) = Mag(x[2].tok))

Case(op, v, p, m, t, f, i, s) == [op |-> op, v |-> v, pos |-> p, m |-> m, req |-> t, flags |-> f, i |-> i, start |-> s]

Init == case = Case("none", NoTerm, "-", 0, "-", NoFlags, 0, NoTerm)
Next ==
  /\ case.op = "none"
  /\ IF Mode = "assert"
     THEN \E v \in Values, m \in Members : \E p \in PosOf(v) :
            case' = Case("assert", v, p, m, "-", NoFlags, 0, NoTerm)
     ELSE IF Mode = "render"
     THEN \E v \in Values, m \in Members :
            /\ (~ContainsKind(v, {"enum", "obj"}) \/ v \in Atoms \/ Len(v.es) <= 1)
            /\ case' = Case("render", v, "-", m, "-", NoFlags, 0, NoTerm)
     ELSE \/ \E t \in ReqTypes, f \in Flags, i \in Draws :
               Relevant(t, f) /\ case' = Case("draw", NoTerm, "-", 0, t, f, i, NoTerm)
          \/ \E s \in StartAtoms, f \in StartFlags, i \in Draws :
               case' = Case("start", NoTerm, "-", 0, s.k, f, i, s)
          \/ \E m \in Members : \E x \in ParseLits(m) : \E i \in PDraws(x[1]) :
               /\ (m = 0 \/ PatDigits(x[2].pat, x[2].base, m) # PatDigits(x[2].pat, x[2].base, 0))   \* a new member
               /\ case' = PCase(x[1], x[2], x[3], m, i)
Spec == Init /\ [][Next]_case
Emit == case.op # "none" => PrintT(<<"HIST", ToJson(case)>>)
=============================================================================

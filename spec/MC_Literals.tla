------------------------------ MODULE MC_Literals ------------------------------
(* Case enumeration for C20 / C23: TLC enumerates the value grammar of LiteralsOps up to   *)
(* depth 2 (Modes "assert" / "render": every value x observation position x member index) and the      *)
(* (requested type x configuration flag combination x draw index) cases of literal         *)
(* generation and mutation (Mode "draws").  Every case is emitted once as JSON.            *)
EXTENDS LiteralsOps, TLC, Json

CONSTANTS Mode,      \* "assert" (C20 cases) | "render" (C23 a) | "draws" (C23 b)
          Size,      \* "quick" | "thorough": how many classes take part in pairs and nesting
          Members,   \* member indices of the leaf classes (0 = the canonical representative)
          Draws      \* draw indices per (type, flags)

VARIABLES case

(* ---------------- the value grammar ---------------- *)
CplxParts == {"f_nan", "f_inf", "f_ninf", "f_negzero", "f_zero", "f_neg", "f_pos"}
Atoms == LeavesOf(LeafKinds) \cup {Cplx(a, b) : a, b \in CplxParts}
HAtoms == {x \in Atoms : Hashable(x)}

PairCoreQ == {Leaf("int", "i_neg"), Leaf("int", "i_pos"), Leaf("bool", "b_true"), Leaf("none", "n_none"),
              Leaf("float", "f_nan"), Leaf("float", "f_negzero"), Leaf("str", "s_both"),
              Leaf("bytes", "y_high"), Leaf("enum", "e_top"), Leaf("enum", "e_nested"),
              Cplx("f_pos", "f_negzero"), Leaf("obj", "o_plain")}
PairCoreT == PairCoreQ \cup {Leaf("int", "i_zero"), Leaf("int", "i_digits"), Leaf("bool", "b_false"),
              Leaf("float", "f_zero"), Leaf("float", "f_inf"), Leaf("str", "s_surrogate"),
              Leaf("bytes", "y_both"), Leaf("enum", "e_int"), Leaf("enum", "e_str"),
              Leaf("enum", "e_flagcombo"), Leaf("enum", "e_foreign"), Cplx("f_nan", "f_ninf"),
              Leaf("obj", "o_dict_keys")}
PairCore == IF Size = "quick" THEN PairCoreQ ELSE PairCoreT
NestCore == PairCore \cup {Leaf("float", "f_pos"), Leaf("str", "s_squote"), Leaf("int", "i_neghuge")}

(* values that are equal and hash alike collapse inside sets / as dict keys: not enumerated together *)
NumGroup(x) == CASE x.c \in {"i_zero", "f_zero", "f_negzero", "b_false"} -> 1
                 [] x.c \in {"i_pos", "e_int"} -> 2 [] x.c \in {"i_neg", "e_negint"} -> 3
                 [] x.c \in {"i_one", "b_true"} -> 4 [] OTHER -> 0
Collide(a, b) == a # b /\ NumGroup(a) # 0 /\ NumGroup(a) = NumGroup(b)

Seqs(S, P) == {<<>>} \cup {<<a>> : a \in S} \cup {<<a, b>> : a, b \in P}
HSeqs(S, P) == {<<>>} \cup {<<a>> : a \in {x \in S : Hashable(x)}}
                 \cup {<<a, b>> : a, b \in {x \in P : Hashable(x)}}
Dicts(S, P) ==
  {Node("dict", "", <<>>)}
    \cup {Node("dict", "", <<Pair(a, Leaf("int", "i_pos"))>>) : a \in {x \in S : Hashable(x)}}
    \cup {Node("dict", "", <<Pair(Leaf("str", "s_plain"), b)>>) : b \in S}
    \cup {Node("dict", "", <<Pair(a, b), Pair(b, a)>>) : a, b \in {x \in P : Hashable(x)}}
Conts(S, P) ==
  {Node(k, "", es) : k \in {"list", "tuple"}, es \in Seqs(S, P)}
    \cup {Node(k, "", es) : k \in {"set", "frozenset"}, es \in HSeqs(S, P)}
    \cup Dicts(S, P)
NoCollision(v) == \/ v.k \notin {"set", "frozenset", "dict"}
                  \/ Len(v.es) < 2
                  \/ (v.k = "dict" /\ ~Collide(v.es[1].es[1], v.es[2].es[1]) /\ v.es[1].es[1] # v.es[2].es[1])
                  \/ (v.k # "dict" /\ ~Collide(v.es[1], v.es[2]))

D1 == {v \in Conts(Atoms, PairCore) : NoCollision(v)}
Inner == {v \in Conts(NestCore, {}) : TRUE}                       \* containers with <= 1 element
D2 == {v \in Conts(Inner, {}) : v.es # <<>>}                      \* one container inside a container
       \cup {Node(k, "", <<a, c>>) : k \in {"list", "tuple"}, a \in PairCoreQ, c \in {x \in Inner : Len(x.es) = 1 /\ x.k \in {"list", "dict"}}}
Values == Atoms \cup D1 \cup D2

(* C20 positions: field of a watched object for every value; bound variable, module global and  *)
(* class-static field for atoms and containers with at most one element (a builtin container   *)
(* bound to a variable gets no assertion at all)                                               *)
PosOf(v) == IF v \in Atoms \/ (v \in D1 /\ Len(v.es) <= 1) THEN Positions ELSE {"field"}

(* ---------------- literal generation / mutation draws ---------------- *)
ReqTypes == {"bool", "int", "float", "complex", "str", "bytes", "list", "tuple", "set", "dict"}
Flags == [seeding : {"off", "always"}, sizes : {"default", "tiny", "large"}, pool : {"none", "refs"},
          perturb : {"never", "always"}, assembly : {"off", "on"}]
Relevant(t, f) == /\ (f.pool = "refs" => t \in {"list", "tuple", "set", "dict"})
                  /\ (f.assembly = "on" => t \in {"str", "dict", "list", "tuple", "set"} /\ f.seeding = "always")
StartFlags == {f \in Flags : f.seeding = "off" /\ f.pool = "none" /\ f.assembly = "off" /\ f.perturb = "never"
                              /\ f.sizes \in {"default", "large"}}
StartAtoms == {v \in Atoms : InLitDomain(v) /\ v.c # "i_digits"}
NoTerm == Leaf("-", "")
NoFlags == [seeding |-> "-", sizes |-> "-", pool |-> "-", perturb |-> "-", assembly |-> "-"]

Case(op, v, p, m, t, f, i, s) == [op |-> op, v |-> v, pos |-> p, m |-> m, req |-> t, flags |-> f, i |-> i, start |-> s]

Init == case = Case("none", NoTerm, "-", 0, "-", NoFlags, 0, NoTerm)
Next ==
  /\ case.op = "none"
  /\ IF Mode = "assert"
     THEN \E v \in Values, m \in Members : \E p \in PosOf(v) :
            case' = Case("assert", v, p, m, "-", NoFlags, 0, NoTerm)
     ELSE IF Mode = "render"
     THEN \E v \in Values, m \in Members :
            /\ (~ContainsKind(v, {"enum", "obj"}) \/ v \in Atoms \/ Len(v.es) <= 1)
            /\ case' = Case("render", v, "-", m, "-", NoFlags, 0, NoTerm)
     ELSE \/ \E t \in ReqTypes, f \in Flags, i \in Draws :
               Relevant(t, f) /\ case' = Case("draw", NoTerm, "-", 0, t, f, i, NoTerm)
          \/ \E s \in StartAtoms, f \in StartFlags, i \in Draws :
               case' = Case("start", NoTerm, "-", 0, s.k, f, i, s)
Spec == Init /\ [][Next]_case
Emit == case.op # "none" => PrintT(<<"HIST", ToJson(case)>>)
=============================================================================

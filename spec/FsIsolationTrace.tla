--------------------------- MODULE FsIsolationTrace ----------------------------
(***************************************************************************)
(* Trace validation for C29.  A trace is one execution of code under test  *)
(* inside the real `with FilesystemIsolation():` in a real sandbox tree:   *)
(*   pre     snapshot of the tree before __enter__                         *)
(*   ev[i]   one call: arguments, outcome, snapshot after the call (fs1),  *)
(*           the wrapper's `_created` after it (cr1), paths found outside  *)
(*           the modelled tree (x1); the last event is __exit__            *)
(*           (op = "Exit", r1 = sandbox root still exists).                *)
(* Snapshot entries: k kind, t content as token sequence, c interned id of *)
(* the raw content (equal ids <=> equal bytes).  The state before a call   *)
(* is the state after the previous one (operator prev).                    *)
(*                                                                         *)
(* Verdict clauses (C29), evaluated on the real snapshots only:            *)
(*   PreExistingPreserved, CreatedGone   (after the Exit event; one        *)
(*   checking state per clause so that both are always evaluated)          *)
(* Conformance of the code with the design model (DRIFT, never a verdict): *)
(*   FsFollows, CrFollows, ResFollows    (FsIsolationOps!Eff, code as is)  *)
(***************************************************************************)
EXTENDS FsIsolationOps, TLCExt, Json, IOUtils

Traces == ndJsonDeserialize(IOEnv.TRACE_FILE)

VARIABLES tid, l, chk      \* trace, number of consumed events, verdict clause being checked
vars == <<tid, l, chk>>

(* the state is only a position: everything observed is read from the trace *)
Pre == Traces[tid].pre
cur == Traces[tid].ev[l]                                     \* the last consumed event (l > 0)
After(e) == [fs |-> e.fs1, cr |-> e.cr1, x |-> e.x1]
prev == IF l = 1 THEN [fs |-> Pre, cr |-> <<>>, x |-> <<>>]  \* observed state before cur
        ELSE After(Traces[tid].ev[l - 1])

Proj(f) == [x \in Paths |-> [k |-> f[x].k, t |-> f[x].t]]
SetOf(s) == {s[i] : i \in DOMAIN s}
Observed(e) == [fs |-> Proj(e.fs1), cr |-> SetOf(e.cr1), res |-> e.res]
Modelled(b, e) == /\ b.x = <<>> /\ e.x1 = <<>>
                  /\ \A p \in Paths : b.fs[p].k \in {"absent", "file", "dir"}
                  /\ InScope(e, Proj(b.fs))
\* what the design model (code as is) predicts for cur: [fs, cr, res]
Model(b, e) == IF Modelled(b, e) THEN Eff(e, Proj(b.fs), SetOf(b.cr), AsIs) ELSE Observed(e)

Init == /\ tid \in 1..Len(Traces) /\ l = 0 /\ chk = 0
Consume == /\ l < Len(Traces[tid].ev)
           /\ l' = l + 1
           /\ UNCHANGED <<tid, chk>>
Check == /\ l = Len(Traces[tid].ev) /\ l > 0 /\ chk < 2
         /\ chk' = chk + 1
         /\ UNCHANGED <<tid, l>>
Next == Consume \/ Check
Spec == Init /\ [][Next]_vars

AtExit == l > 0 /\ cur.op = "Exit"

(* ---- C29: verdict from the real before/after snapshots ---- *)
PreExistingPreserved ==
  (chk = 1 /\ AtExit) =>
     /\ cur.r1
     /\ \A p \in Paths : Pre[p].k # "absent" => (cur.fs1[p].k = Pre[p].k /\ cur.fs1[p].c = Pre[p].c)
CreatedGone ==
  (chk = 2 /\ AtExit) =>
     /\ \A p \in Paths : Pre[p].k = "absent" => cur.fs1[p].k = "absent"
     /\ cur.x1 = <<>>

(* ---- harness sanity ---- *)
EndsWithExit == (chk > 0) => AtExit

(* ---- conformance with the design model (code as it is): DRIFT only ---- *)
Applies == l > 0 /\ chk = 0
FsFollows  == Applies => Proj(cur.fs1) = Model(prev, cur).fs
CrFollows  == Applies => SetOf(cur.cr1) = Model(prev, cur).cr
ResFollows == Applies => cur.res = Model(prev, cur).res
=============================================================================

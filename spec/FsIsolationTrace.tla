--------------------------- MODULE FsIsolationTrace ----------------------------
(***************************************************************************)
(* Trace validation for C29.  A trace is one execution of code under test  *)
(* inside the real `with FilesystemIsolation():` in a real sandbox tree:   *)
(*   pre     snapshot of the tree before __enter__                         *)
(*   ev[i]   one call: arguments, outcome, snapshot before (fs0) / after   *)
(*           (fs1), the wrapper's `_created` before / after (cr0, cr1),    *)
(*           paths outside the modelled tree (x0, x1); the last event is   *)
(*           __exit__ (op = "Exit", r1 = sandbox root still exists).       *)
(* Snapshot entries: k kind, t content as token sequence, c interned id of *)
(* the raw content (equal ids <=> equal bytes).                            *)
(*                                                                         *)
(* Verdict clauses (C29), evaluated on the real snapshots only:            *)
(*   PreExistingPreserved, CreatedGone   (after the Exit event; one        *)
(*   checking state per clause so that both are always evaluated)          *)
(* Conformance of the code with the design model (DRIFT, never a verdict): *)
(*   FsFollows, CrFollows, ResFollows    (FsIsolationOps!Eff, code as is)  *)
(***************************************************************************)
EXTENDS FsIsolationOps, TLCExt, Json, IOUtils

Traces == ndJsonDeserialize(IOEnv.TRACE_FILE)

VARIABLES tid, l, cur, chk
vars == <<tid, l, cur, chk>>

NoEv == [op |-> "none"]
Init == /\ tid \in 1..Len(Traces) /\ l = 0 /\ cur = NoEv /\ chk = 0
Consume == /\ l < Len(Traces[tid].ev)
           /\ l' = l + 1
           /\ cur' = Traces[tid].ev[l + 1]
           /\ UNCHANGED <<tid, chk>>
Check == /\ l = Len(Traces[tid].ev) /\ l > 0 /\ chk < 2
         /\ chk' = chk + 1
         /\ UNCHANGED <<tid, l, cur>>
Next == Consume \/ Check
Spec == Init /\ [][Next]_vars

Pre == Traces[tid].pre
AtExit == l > 0 /\ cur.op = "Exit"

(* ---- C29: verdict from the real before/after snapshots ---- *)
PreExistingPreserved ==
  (chk = 1 /\ AtExit) =>
     /\ cur.r1
     /\ \A p \in Paths : Pre[p].k # "absent" => (cur.fs1[p].k = Pre[p].k /\ cur.fs1[p].c = Pre[p].c)
CreatedGone ==
  (chk = 2 /\ AtExit) =>
     /\ \A p \in Paths : Pre[p].k = "absent" => cur.fs1[p].k = "absent"
     /\ cur.x1 = <<>>

(* ---- harness sanity ---- *)
EndsWithExit == (chk > 0) => AtExit
Chained == [][(l > 0 /\ l' = l + 1) => (cur'.fs0 = cur.fs1 /\ cur'.cr0 = cur.cr1)]_vars
StartsAtPre == (l = 1) => cur.fs0 = Pre

(* ---- conformance with the design model (code as it is) ---- *)
Proj(f) == [x \in Paths |-> [k |-> f[x].k, t |-> f[x].t]]
SetOf(s) == {s[i] : i \in DOMAIN s}
Modelled(e) == /\ e.x0 = <<>> /\ e.x1 = <<>>
               /\ \A p \in Paths : e.fs0[p].k \in {"absent", "file", "dir"}
               /\ InScope(e, Proj(e.fs0))
Model(e) == Eff(e, Proj(e.fs0), SetOf(e.cr0), AsIs)
Applies == l > 0 /\ chk = 0 /\ Modelled(cur)
FsFollows  == Applies => Proj(cur.fs1) = Model(cur).fs
CrFollows  == Applies => SetOf(cur.cr1) = Model(cur).cr
ResFollows == Applies => cur.res = Model(cur).res
=============================================================================

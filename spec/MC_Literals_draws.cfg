CONSTANTS
  Mode = "draws"
  Size = "quick"
  Members = {0}
  Draws = {1, 2, 3}
SPECIFICATION Spec
INVARIANT Emit

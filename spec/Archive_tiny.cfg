CONSTANTS
  NG = 2
  Sizes = {1, 2}
  ResKinds = {"ok", "exc"}
  Copies = 1
  FitsCov = {1, 1000001}
  FitsMio = {1, 1000000, 1000001}
  FitsPop = {0, 1, 2, 1000001}
  MaxLenCov = 2
  MaxLenMio = 1
  Cap0 = 2
  MaxSteps = 1
  Modes = {"mio"}
SPECIFICATION Spec
CONSTRAINT Bound
VIEW StateView
INVARIANT TypeOK
INVARIANT PopsSorted
INVARIANT ArchivedCovers
INVARIANT MIOCap
INVARIANT MIOCoveredOne
INVARIANT CoveredConsistent
PROPERTY CoveredGrows
PROPERTY ReplaceRule
PROPERTY MIOStaysCovered
PROPERTY RecordsCoverage

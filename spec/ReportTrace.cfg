SPECIFICATION Spec
INVARIANT TotalsEqualTracked
INVARIANT TotalsEqualRecomputed
INVARIANT AnnotationsSumToTotals
INVARIANT LineShownCoveredIffCovered
INVARIANT XmlHitsFollowAnnotations

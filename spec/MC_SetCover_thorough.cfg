CONSTANTS
  MaxA = 4
  MaxM = 4
  WA = 2
  WM = 2
  MaxCount = 5
  Modes = {"map", "tuple", "wide", "crit"}
SPECIFICATION Spec
INVARIANT Emit

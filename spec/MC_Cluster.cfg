CONSTANTS
  Depth = 3
  DepthIgn = 2
  Shape = "small"
SPECIFICATION Spec
INVARIANT Emit

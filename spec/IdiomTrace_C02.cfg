SPECIFICATION Spec
INVARIANT InstrumentationSucceeds
INVARIANT ReportedLinesExact
INVARIANT NoForeignLines
INVARIANT SuiteAnalysisKeepsLines
INVARIANT MergedLinesAreUnion
CHECK_DEADLOCK FALSE

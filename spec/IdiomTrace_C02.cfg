SPECIFICATION Spec
INVARIANT InstrumentationSucceeds
INVARIANT ReportedLinesExact
INVARIANT NoForeignLines
CHECK_DEADLOCK FALSE

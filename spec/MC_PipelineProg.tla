--------------------------- MODULE MC_PipelineProg ----------------------------
(***************************************************************************)
(* Behaviour extraction for the pipeline replay (C19, C22): every          *)
(* well-formed test case of up to MaxLen statements over the subject        *)
(* harness/sut/pp_sut.py, starting with a constructor call.  A statement is *)
(* [k, o, a]: kind, index of the statement that created the receiver (0 =   *)
(* none), index of the int statement used as argument (0 = none).           *)
(*   ctor   var = Switch()           flip    var = obj.flip()   (no branch) *)
(*   toggle var = obj.toggle()  (branch on the state)                       *)
(*   get    var = obj.get()          int     var = 3                        *)
(*   add    var = obj.add(intvar)    total   var = obj.total   (property)   *)
(*   mark   var = obj.mark()   (returns an instance of a nested class)      *)
(*   mode   var = mod.mode_of(obj)   (returns an enum member)               *)
(*   boom   var = obj.boom()   (raises; only as the last statement)         *)
(*   note   var = obj.note()   (changes a nested list of the object in place)*)
(* The abstract pipeline itself is Pipeline.tla; here TLC only enumerates   *)
(* the inputs that are replayed through the real assertion generation,      *)
(* statement minimisation (every strategy and direction) and export.        *)
(***************************************************************************)
EXTENDS Naturals, Sequences, FiniteSets, TLC, Json

CONSTANTS MaxLen, Kinds   \* Kinds: the receiver-taking statement kinds in use

VARIABLES prog, done
vars == <<prog, done>>

Ctors(p) == {i \in DOMAIN p : p[i].k = "ctor"}
Ints(p)  == {i \in DOMAIN p : p[i].k = "int"}
St(k, o, a) == [k |-> k, o |-> o, a |-> a]

Candidates(p) ==
  {St("ctor", 0, 0), St("int", 0, 0)}
  \cup {St(k, o, 0) : k \in Kinds, o \in Ctors(p)}
  \cup {St("add", o, a) : o \in Ctors(p), a \in Ints(p)}

Init == prog = <<St("ctor", 0, 0)>> /\ done = FALSE
Extend == /\ ~done /\ Len(prog) < MaxLen /\ prog[Len(prog)].k # "boom"
          /\ \E s \in Candidates(prog) : prog' = Append(prog, s) /\ done' = FALSE
Finish == ~done /\ Len(prog) > 1 /\ done' = TRUE /\ UNCHANGED prog
Next == Extend \/ Finish
Spec == Init /\ [][Next]_vars

Emit == done => PrintT(<<"HIST", ToJson([prog |-> prog])>>)
=============================================================================

------------------------- MODULE TypeSystemHistTrace --------------------------
(***************************************************************************)
(* Trace validation for the cache part of C26.                             *)
(*                                                                         *)
(* One trace = one history of add_subclass_edge / add_generator /          *)
(* update_return_type / queries executed on a real ModuleTestCluster, then *)
(* every asked query asked again on the same instance (cached answer) and  *)
(* on a fresh cluster that received the same updates (recomputation on the *)
(* final type graph).                                                      *)
(*                                                                         *)
(* The variables of the design model TypeSystem.tla follow the log: every  *)
(* event fires the model action of the same name (Deviations = the known   *)
(* deviations of the code as it is), so the real trace is checked to be a  *)
(* behaviour of the cache machine (clauses Drift_*, no verdict).  The      *)
(* verdict clauses are evaluated on the recorded answers only:             *)
(*   CachedEqualsRecomputed_*  : cached answer at the end = recomputation. *)
(* The one known deviation left (after bee086b, 42ab0b5) is                *)
(* NoProviderClearOnAddEdge: add_subclass_edge clears the caches of the    *)
(* TypeSystem, the provider caches survive.  A stale answer is attributed  *)
(* to it (clause ..._KnownNoClearOnAddEdge, the name is the signature of   *)
(* known_findings.d) when it is read from a cache entry that was in the    *)
(* cache while an edge was added (`upd`, Deps) -- in the cache machine     *)
(* only provider entries can be --, everything else is _Other: a stale     *)
(* TypeSystem answer and an offered set that misses an added generator     *)
(* alarm.                                                                  *)
(*   OfferedCompatibleHist  : along the history, every generator in an     *)
(* offered set (answer of a query when it was asked, cached answer at the  *)
(* end) returns NOW -- generated_type() recorded from the real generator   *)
(* after that step -- a type that may be a subtype of the requested type   *)
(* (declarative MaybeSub on the graph that received the recorded edges).   *)
(* It holds under the known deviation as well: an offered set that         *)
(* survives an edge only misses generators.  update_return_type is the     *)
(* call that can break it: Any -> {c} narrows what a generator is good     *)
(* for, and the providers judge the KEYS of the generator table, so the    *)
(* registration under the old type has to go.                              *)
(* Every event carries the generator table after the call (`tab`: one      *)
(* record per registration with the key type it is registered under and    *)
(* the type the generator generates now); Drift_Table compares it with     *)
(* the table of the design model after every step.                         *)
(* One phase per clause (TLC reports one violated invariant per state).    *)
(***************************************************************************)
EXTENDS TypeSystem, TLCExt, Json, IOUtils

Traces == ndJsonDeserialize(IOEnv.TRACE_FILE)

VARIABLES tid, l, ph,
          prov,    \* provider of this trace
          upd      \* cache entry -> kinds of updates that happened since it entered the cache
tvars == <<tid, l, ph, prov, upd, hier, extra, h, rel, gens, ret, tab, memo, steps>>

\* clauses evaluated after an event of the given kind, one phase each
PhasesOf(kind) ==
  CASE kind = "final" -> <<"CachedEqualsRecomputed_KnownNoClearOnAddEdge",
                           "CachedEqualsRecomputed_Other", "OfferedCompatibleHist",
                           "Drift_Final", "Drift_Table">>
    [] kind = "query" -> <<"OfferedCompatibleHist", "Drift_Answer", "Drift_Table">>
    [] kind = "update_ret" -> <<"Drift_ReturnType", "Drift_Table">>
    [] kind = "init" -> <<"Drift_Generators", "Drift_Table">>
    [] OTHER -> <<"Drift_Table">>

ev == Traces[tid].ev[l]
At(name) == l > 0 /\ PhasesOf(ev.k)[ph] = name
ToSetOf(q) == {q[i] : i \in DOMAIN q}
ObsAns(a) == Ans(a.b, a.n, ToSetOf(a.s))
St == [h |-> h, reg |-> Reg, prov |-> prov]
AllRoots == [i \in 1..NUser |-> [ub |-> {}, bb |-> "object"]]
H0 == HOf(AllRoots, {})       \* constant: computed once for all traces
\* upd follows the memo: new entries start empty, surviving entries get the update marked.
\* (While add_subclass_edge left the TypeSystem caches alone a new entry could be computed from
\* stale nested entries and inherited their marks; now every entry that depends on the graph
\* and survives an edge is a provider entry, and no cached call reads its answer from one.)
Follow(m2, kinds) ==
  [k \in DOMAIN m2 |-> IF k \in DOMAIN upd THEN upd[k] \cup kinds ELSE {}]

TInit == /\ tid \in 1..Len(Traces) /\ l = 0 /\ ph = 1
         /\ prov = "G" /\ upd = [k \in {} |-> {}]
         /\ hier = AllRoots /\ extra = {} /\ h = H0 /\ rel = NoRel
         /\ gens = {} /\ ret = [g \in {} |-> AnyT] /\ tab = {} /\ memo = EmptyMemo /\ steps = 0

Consume(e) ==
  CASE e.k = "init" ->
         /\ prov' = e.prov
         /\ gens' = {e.gens[i].g : i \in DOMAIN e.gens}
         /\ ret' = [g \in {e.gens[i].g : i \in DOMAIN e.gens} |->
                      e.gens[CHOOSE i \in DOMAIN e.gens : e.gens[i].g = g].ret]
         /\ tab' = {<<e.gens[i].ret, e.gens[i].g>> : i \in DOMAIN e.gens}
         /\ UNCHANGED <<upd, extra, h, memo>>
    [] e.k = "add_edge" ->
         /\ extra' = extra \cup {<<e.x, e.y>>}
         /\ h' = HOf(hier, extra \cup {<<e.x, e.y>>})
         /\ memo' = MemoAfterAddEdge(memo)
         /\ upd' = Follow(MemoAfterAddEdge(memo), {"add_edge"})
         /\ UNCHANGED <<prov, gens, ret, tab>>
    [] e.k = "add_gen" ->
         /\ gens' = gens \cup {e.g}
         /\ ret' = [g \in (DOMAIN ret) \cup {e.g} |-> IF g = e.g THEN e.ret ELSE ret[g]]
         /\ tab' = IF Registered(e.ret) THEN tab \cup {<<e.ret, e.g>>} ELSE tab
         /\ memo' = MemoAfterAddGenerator(memo)
         /\ upd' = Follow(MemoAfterAddGenerator(memo), {"add_gen"})
         /\ UNCHANGED <<prov, extra, h>>
    [] e.k = "update_ret" ->
         LET new == AddOrMakeUnion(ret[e.g], e.c) IN
           IF new = ret[e.g] THEN UNCHANGED <<prov, upd, extra, h, gens, ret, tab, memo>>
           ELSE /\ ret' = [ret EXCEPT ![e.g] = new]
                /\ tab' = (tab \ {<<ret[e.g], e.g>>}) \cup {<<new, e.g>>}
                /\ memo' = MemoAfterUpdateReturnType(memo)
                /\ upd' = Follow(MemoAfterUpdateReturnType(memo), {"update_ret"})
                /\ UNCHANGED <<prov, extra, h, gens>>
    [] e.k = "query" ->
         /\ memo' = AfterQuery(St, memo, e.key)
         /\ upd' = Follow(AfterQuery(St, memo, e.key), {})
         /\ UNCHANGED <<prov, extra, h, gens, ret, tab>>
    [] e.k = "final" -> UNCHANGED <<prov, upd, extra, h, gens, ret, tab, memo>>

TNext == /\ UNCHANGED <<tid, hier, rel, steps>>
         /\ IF l > 0 /\ ph < Len(PhasesOf(ev.k))
            THEN ph' = ph + 1 /\ UNCHANGED <<l, prov, upd, extra, h, gens, ret, tab, memo>>
            ELSE /\ l < Len(Traces[tid].ev)
                 /\ l' = l + 1 /\ ph' = 1
                 /\ Consume(Traces[tid].ev[l + 1])
TSpec == TInit /\ [][TNext]_tvars

(* ------------------------------------------------------------------- C26 *)
Final == ev.k = "final"
Asked == {ev.asked[i] : i \in DOMAIN ev.asked}
Stale(a) == a.cached # a.fresh
\* the cache entries the final answer is read from, and what happened since they were filled
EdgeSince(a) == \E k \in Deps(St, memo, a.key) : k.q \in ProviderQueries /\ "add_edge" \in upd[k]

CachedEqualsRecomputed_KnownNoClearOnAddEdge ==
  (At("CachedEqualsRecomputed_KnownNoClearOnAddEdge") /\ Final) =>
    \A a \in Asked : Stale(a) => ~EdgeSince(a)
CachedEqualsRecomputed_Other ==
  (At("CachedEqualsRecomputed_Other") /\ Final) =>
    \A a \in Asked : Stale(a) => EdgeSince(a)

\* "every generator Pynguin may pick returns a type that may be a subtype of the requested
\* type": the offered set is the recorded answer of the real provider, the return type is
\* generated_type() of the real generator after this step (ev.tab), the graph is the analysed
\* one plus the recorded edges
CompatibleNow(g, t) == \A i \in DOMAIN ev.tab : ev.tab[i].g = g => MaybeSub(h, ev.tab[i].ret, t)
OfferedCompatibleHist ==
  At("OfferedCompatibleHist") =>
    IF ev.k = "query"
    THEN ev.key.q = "offered" => \A g \in ToSetOf(ev.ans.s) : CompatibleNow(g, ev.key.l)
    ELSE \A a \in Asked : a.key.q = "offered" => \A g \in ToSetOf(a.cached.s) : CompatibleNow(g, a.key.l)

(* the real trace is a behaviour of the cache machine with the known deviations *)
\* the generator table after every call: registrations (key type, generator) as in the design
\* model, and every generator generates the type the model has for it
Drift_Table ==
  At("Drift_Table") =>
    /\ {<<ev.tab[i].key, ev.tab[i].g>> : i \in DOMAIN ev.tab} = tab
    /\ \A i \in DOMAIN ev.tab : ev.tab[i].g \in gens /\ ev.tab[i].ret = ret[ev.tab[i].g]
Drift_Answer == (At("Drift_Answer") /\ ev.k = "query") => ObsAns(ev.ans) = memo[ev.key]
Drift_ReturnType == (At("Drift_ReturnType") /\ ev.k = "update_ret") => ev.ret = ret[ev.g]
Drift_Generators ==
  (At("Drift_Generators") /\ ev.k = "init" /\ Len(ev.user) = NUser) =>
    \A g \in gens : g \in DOMAIN InitRet => ret[g] = InitRet[g]
Drift_Final ==
  (At("Drift_Final") /\ Final) =>
    \A a \in Asked : ObsAns(a.cached) = Val(St, memo, a.key)
                     /\ ObsAns(a.fresh) = Raw(St, EmptyMemo, a.key)
=============================================================================

------------------------------ MODULE TypeSystemOps ------------------------------
(***************************************************************************)
(* Pynguin's type system (pynguin.analyses.typesystem.TypeSystem) and the  *)
(* generator providers (pynguin.analyses.generator), declaratively.        *)
(*                                                                         *)
(*  * a class graph: direct subclass edges <<super, sub>> over class names *)
(*    (what TypeSystem._graph holds: edges from __bases__ found by the     *)
(*    module analysis + the numeric tower bool <: int <: float <: complex) *)
(*  * proper types  Any | None | Inst(c, args) | Tuple(args) | Union(items)*)
(*    as records [k, c, a]                                                 *)
(*  * Sub / MaybeSub (is_subtype / is_maybe_subtype), Dist                 *)
(*    (subtype_distance), Offered (GeneratorProvider /                     *)
(*    RandomGeneratorProvider._get_generators_for)                         *)
(*  * the laws of C25 / C26 as operators over *relation matrices*; the     *)
(*    design model applies them to the declarative relations, the trace    *)
(*    specification applies the very same operators to the matrices        *)
(*    recorded from the real code.                                         *)
(*                                                                         *)
(* `Dev` is the set of KNOWN DEVIATIONS of the code as it is from the       *)
(* intended design (DESIGN.md section 2): with Dev = {} all laws hold;     *)
(* with a deviation enabled the operators describe what the code does.     *)
(* State of the code: after the fixes bee086b..1991def (add_subclass_edge  *)
(* clears the TypeSystem caches, add_generator clears the provider caches, *)
(* subtype_distance(None, None) = 0 and unions below None / tuples, class  *)
(* path required between generic instances).  What is left:                *)
(*   DistCovariantArgs   subtype_distance of two generic instances adds    *)
(*       the distances of the type arguments covariantly (list[A] ->       *)
(*       list[B] is 1 for B a subclass of A) although is_subtype /         *)
(*       is_maybe_subtype treat list/set/dict as invariant                 *)
(*   DistUndefinedForAnyBelowNoneOrTuple   an Any subtype has no distance  *)
(*       to a None / tuple supertype (it has any_distance to an instance)  *)
(*   PrimitiveRequestEmpty   GeneratorProvider offers nothing for a        *)
(*       primitive request                                                 *)
(*   NoProviderClearOnAddEdge   add_subclass_edge leaves the provider      *)
(*       caches (_get_generators_for, _get_for_type) untouched             *)
(***************************************************************************)
EXTENDS Naturals, Integers, Sequences, FiniteSets, TLC

Undef == -1      \* "no distance" (Python None)

AllDeviations == {"DistCovariantArgs", "DistUndefinedForAnyBelowNoneOrTuple",
                  "PrimitiveRequestEmpty", "NoProviderClearOnAddEdge"}

(* ------------------------------------------------------------------ classes *)
BuiltinClasses == {"object", "bool", "int", "float", "complex", "str", "list", "set", "dict"}
\* edges found from __bases__ of the builtins that the analysis always includes
BuiltinEdges == {<<"object", c>> : c \in {"int", "float", "complex", "str", "list", "set", "dict"}}
                  \cup {<<"int", "bool">>}
\* TypeSystem.enable_numeric_tower (PEP 484): int <: float <: complex (bool <: int is a real base)
TowerEdges == {<<"int", "bool">>, <<"float", "int">>, <<"complex", "float">>}
\* TypeInfo.num_hardcoded_generic_parameters (0 stands for None)
Arity(c) == IF c \in {"list", "set"} THEN 1 ELSE IF c = "dict" THEN 2 ELSE 0
\* _PrimitiveTypeVisitor.Primitives (bytes and type are not in the universes used here)
PrimitiveClasses == {"int", "str", "bool", "float", "complex", "bytes", "type"}

Succ(E, S) == S \cup {e[2] : e \in {f \in E : f[1] \in S}}
RECURSIVE ReachFrom(_, _)
ReachFrom(E, S) == LET T == Succ(E, S) IN IF T = S THEN S ELSE ReachFrom(E, T)
Desc(E, a) == ReachFrom(E, {a})                 \* get_subclasses(a): descendants and a itself
Anc(E, a) == ReachFrom({<<e[2], e[1]>> : e \in E}, {a})   \* get_superclasses(a)
\* shortest number of subclass steps from a down to b (nx.shortest_path_length), Undef if none
RECURSIVE Bfs(_, _, _, _)
Bfs(E, seen, b, n) ==
  IF b \in seen THEN n
  ELSE LET nx == Succ(E, seen) IN IF nx = seen THEN Undef ELSE Bfs(E, nx, b, n + 1)
PathLen(E, a, b) == Bfs(E, {a}, b, 0)

(* A hierarchy in closed form: everything Sub/Dist need, computed once (TLCEval makes   *)
(* TLC tabulate the functions instead of re-evaluating their bodies at every lookup).  *)
MkH(Cls, E, anyd) ==
  [cls  |-> Cls,
   desc |-> TLCEval([c \in Cls |-> Desc(E, c) \cap Cls]),
   plen |-> TLCEval([a \in Cls |-> TLCEval([b \in Cls |-> PathLen(E, a, b)])]),
   anyd |-> anyd]          \* configuration.generator_selection.generator_any_distance
IsSubclass(H, a, b) == a \in H.desc[b]         \* TypeSystem.is_subclass(a, b)

(* -------------------------------------------------------------------- types *)
AnyT == [k |-> "any", c |-> "", a |-> <<>>]
NoneT == [k |-> "none", c |-> "", a |-> <<>>]
Inst(c, args) == [k |-> "inst", c |-> c, a |-> args]
Cl(c) == Inst(c, <<>>)
Tup(args) == [k |-> "tuple", c |-> "", a |-> args]
Uni(items) == [k |-> "union", c |-> "", a |-> items]

RECURSIVE AnyFree(_)
AnyFree(t) == t.k # "any" /\ \A i \in DOMAIN t.a : AnyFree(t.a[i])
IsPrimitive(t) == t.k = "inst" /\ t.c \in PrimitiveClasses
MinI(x, y) == IF x < y THEN x ELSE y

(* is_subtype (strict = TRUE) / is_maybe_subtype (strict = FALSE): left `l`, right `r`.      *)
(* Any is consistent with everything in both directions (PEP 483 gradual typing); generic   *)
(* list/set/dict are invariant in their arguments; tuples are covariant and of fixed size;  *)
(* a union on the right needs one member, a union on the left all (strict) / one (maybe).   *)
RECURSIVE SubR(_, _, _, _)
SubR(H, strict, l, r) ==
  IF r.k = "any" THEN TRUE
  ELSE IF r.k = "union" /\ l.k # "union" THEN \E i \in DOMAIN r.a : SubR(H, strict, l, r.a[i])
  ELSE CASE l.k = "any"   -> TRUE
         [] l.k = "none"  -> r.k = "none"
         [] l.k = "inst"  ->
              /\ r.k = "inst"
              /\ IsSubclass(H, l.c, r.c)
              /\ (Arity(l.c) = Arity(r.c) /\ Arity(l.c) > 0) =>
                   \A i \in DOMAIN l.a : SubR(H, strict, l.a[i], r.a[i]) /\ SubR(H, strict, r.a[i], l.a[i])
         [] l.k = "tuple" ->
              /\ r.k = "tuple"
              /\ Len(l.a) = Len(r.a)
              /\ \A i \in DOMAIN l.a : SubR(H, strict, l.a[i], r.a[i])
         [] l.k = "union" ->
              IF strict THEN \A i \in DOMAIN l.a : SubR(H, strict, l.a[i], r)
              ELSE \E i \in DOMAIN l.a : SubR(H, strict, l.a[i], r)
Sub(H, l, r) == SubR(H, TRUE, l, r)
MaybeSub(H, l, r) == SubR(H, FALSE, l, r)

RECURSIVE SumSeq(_)
SumSeq(q) == IF q = <<>> THEN 0 ELSE Head(q) + SumSeq(Tail(q))
SumDef(q) ==     \* sum, Undef if a summand is Undef
  IF \E i \in DOMAIN q : q[i] = Undef THEN Undef ELSE SumSeq(q)
MinDef(q) ==     \* minimum of the defined entries, Undef if there is none
  LET S == {q[i] : i \in DOMAIN q} \ {Undef}
  IN IF S = {} THEN Undef ELSE CHOOSE m \in S : \A x \in S : m <= x

(* subtype_distance(supertype t, subtype s).  Intended design (Dev = {}): defined exactly    *)
(* when MaybeSub(s, t), number of subclass steps, summed over arguments, minimum over union  *)
(* members, anyd from/to Any.  The code (_SubtypeDistanceVisitor) differs in two places:     *)
(* visit_none_type / visit_tuple_type know None / tuple and union subtypes but not an Any    *)
(* subtype, and visit_instance on two generic instances requires a path between the classes  *)
(* and adds the distances of the type arguments pairwise, i.e. covariantly.                  *)
RECURSIVE DistR(_, _, _, _)
DistR(H, Dev, t, s) ==
  CASE t.k = "any" -> H.anyd
    [] t.k = "union" -> MinDef([i \in DOMAIN t.a |-> DistR(H, Dev, t.a[i], s)])
    [] t.k = "none" ->
         CASE s.k = "none" -> 0
           [] s.k = "any" ->    \* visit_none_type: falls through to `return None`
                IF "DistUndefinedForAnyBelowNoneOrTuple" \in Dev THEN Undef ELSE H.anyd
           [] s.k = "union" -> MinDef([j \in DOMAIN s.a |-> DistR(H, Dev, t, s.a[j])])
           [] OTHER -> Undef
    [] t.k = "tuple" ->
         CASE s.k = "tuple" ->
                IF Len(s.a) = Len(t.a)
                THEN SumDef([i \in DOMAIN t.a |-> DistR(H, Dev, t.a[i], s.a[i])]) ELSE Undef
           [] s.k = "any" ->    \* visit_tuple_type: falls through to `return None`
                IF "DistUndefinedForAnyBelowNoneOrTuple" \in Dev THEN Undef ELSE H.anyd
           [] s.k = "union" -> MinDef([j \in DOMAIN s.a |-> DistR(H, Dev, t, s.a[j])])
           [] OTHER -> Undef
    [] t.k = "inst" ->
         CASE s.k = "inst" ->
                IF Len(t.a) > 0 /\ Len(s.a) > 0
                THEN \* both carry type arguments
                     IF "DistCovariantArgs" \in Dev
                     THEN \* the code: class distance (must exist) + sum over the zipped arguments
                          LET p == H.plen[t.c][s.c]
                              q == SumDef([i \in 1..MinI(Len(t.a), Len(s.a)) |-> DistR(H, Dev, t.a[i], s.a[i])])
                          IN IF p = Undef \/ q = Undef THEN Undef ELSE p + q
                     ELSE \* intended: classes and invariance count
                          IF MaybeSub(H, s, t)
                          THEN SumDef([i \in 1..MinI(Len(t.a), Len(s.a)) |-> DistR(H, Dev, t.a[i], s.a[i])])
                          ELSE Undef
                ELSE H.plen[t.c][s.c]
           [] s.k = "union" -> MinDef([j \in DOMAIN s.a |-> DistR(H, Dev, t, s.a[j])])
           [] s.k = "any" -> H.anyd
           [] OTHER -> Undef
Dist(H, t, s) == DistR(H, {}, t, s)

(* ---------------------------------------------------------------- generators *)
\* GeneratorProvider.add keeps a generator unless it returns None or a primitive
Registered(ret) == ret.k # "none" /\ ~IsPrimitive(ret)
\* Offered sets over matrices: G = indices of the generated types, request = UT[i].
\* RandomGeneratorProvider._get_generators_for: everything for Any, else is_maybe_subtype
OfferedRM(UT, maybe, G, i) ==
  IF UT[i].k = "any" THEN G ELSE {g \in G : maybe[g][i]}
\* GeneratorProvider._get_generators_for: everything for Any, else a distance must exist
OfferedGM(UT, dist, Dev, G, i) ==
  IF UT[i].k = "any" THEN G
  ELSE IF IsPrimitive(UT[i]) /\ "PrimitiveRequestEmpty" \in Dev THEN {}
  ELSE {g \in G : dist[i][g] # Undef}

(* ----------------------------------------------------- laws over matrices *)
(* UT : sequence of proper types (the universe); sub, maybe : N x N booleans with            *)
(* sub[i][j] <=> UT[i] is a subtype of UT[j]; dist[i][j] = distance from supertype UT[i]     *)
(* to subtype UT[j].                                                                         *)
Idx(UT, t) == CHOOSE i \in DOMAIN UT : UT[i] = t

LawRefl(UT, sub) == \A i \in DOMAIN UT : sub[i][i]
\* Any is consistent with every type in both directions, so chains through a type that
\* contains Any prove nothing (PEP 483): the middle type must be fully static.
LawTrans(UT, sub) ==
  LET mid == {j \in DOMAIN UT : AnyFree(UT[j])}
  IN \A j \in mid : \A i \in DOMAIN UT : sub[i][j] => \A k \in DOMAIN UT : sub[j][k] => sub[i][k]
LawAnyTop(UT, rel) == \A j \in DOMAIN UT : UT[j].k = "any" => \A i \in DOMAIN UT : rel[i][j]
LawUnionAll(UT, sub) ==
  \A i \in DOMAIN UT : UT[i].k = "union" =>
    LET ms == {Idx(UT, UT[i].a[m]) : m \in DOMAIN UT[i].a} IN
      \A j \in DOMAIN UT : sub[i][j] <=> \A m \in ms : sub[m][j]
\* "consistent with the class hierarchy": plain instance types follow is_subclass
LawInstFollowsClass(UT, sub, CS, subc) ==
  LET plain == {i \in DOMAIN UT : UT[i].k = "inst" /\ UT[i].a = <<>>}
      cidx == TLCEval([i \in plain |-> CHOOSE x \in DOMAIN CS : CS[x] = UT[i].c])
  IN \A i \in plain : \A j \in plain : sub[i][j] <=> subc[cidx[i]][cidx[j]]
\* is_subclass = reflexive transitive closure of (Python issubclass + numeric tower)
LawAgreesWithIssubclass(CS, subc, issub) ==
  LET n == Len(CS)
      \* edges super -> sub: Python's issubclass and the tower
      E == {p \in (1..n) \X (1..n) : issub[p[2]][p[1]] \/ <<CS[p[1]], CS[p[2]]>> \in TowerEdges}
      below == TLCEval([j \in 1..n |-> Desc(E, j)])
  IN \A i \in 1..n : \A j \in 1..n : subc[i][j] <=> i \in below[j]
\* a pair (supertype i, subtype j) with a distance although j cannot be a subtype of i
DistWithoutMaybe(UT, dist, maybe, i, j) == dist[i][j] # Undef /\ ~maybe[j][i]
LawDistOnlyWhenMaybeSub(UT, dist, maybe) ==
  \A i \in DOMAIN UT : \A j \in DOMAIN UT : ~DistWithoutMaybe(UT, dist, maybe, i, j)
\* Any is at distance anyd from everything including itself (documented), so identity
\* means zero for fully static types
LawDistZeroOnIdentity(UT, dist) == \A i \in DOMAIN UT : AnyFree(UT[i]) => dist[i][i] = 0

(* declarative matrices for a universe *)
SubMatrix(H, strict, UT) == [i \in DOMAIN UT |-> [j \in DOMAIN UT |-> SubR(H, strict, UT[i], UT[j])]]
DistMatrix(H, Dev, UT) == [i \in DOMAIN UT |-> [j \in DOMAIN UT |-> DistR(H, Dev, UT[i], UT[j])]]
=============================================================================

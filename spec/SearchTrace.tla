----------------------------- MODULE SearchTrace ------------------------------
(* Trace validation for C17: LoopTest / FirstIter / IterEnd / SearchEnd events of real search  *)
(* runs with the stopping conditions' own counters (iters, execs, stmts and their limits;      *)
(* limit 0 = not configured).  `started` is derived here: an iteration starts at the first     *)
(* loop test that succeeds after the previous iteration ended.                                *)
EXTENDS Naturals, Integers, Sequences, TLC, TLCExt, Json, IOUtils

Traces == ndJsonDeserialize(IOEnv.TRACE_FILE)
VARIABLES tid, l, cur, open, okstart
vars == <<tid, l, cur, open, okstart>>

Reached(e) == \/ (e.itlim > 0 /\ e.iters >= e.itlim)
              \/ (e.exlim > 0 /\ e.execs >= e.exlim)
              \/ (e.stlim > 0 /\ e.stmts >= e.stlim)

Init == /\ tid \in 1..Len(Traces) /\ l = 0 /\ cur = Traces[tid].init
        /\ open = FALSE /\ okstart = TRUE
Next == /\ l < Len(Traces[tid].ev)
        /\ l' = l + 1
        /\ cur' = Traces[tid].ev[l + 1]
        /\ LET e == Traces[tid].ev[l + 1] IN
             /\ open' = IF e.ev = "IterEnd" THEN FALSE
                        ELSE IF e.ev = "LoopTest" /\ ~open THEN e.res ELSE open
             /\ okstart' = IF e.ev = "LoopTest" /\ ~open /\ e.res THEN ~Reached(e)
                           ELSE IF e.ev = "IterEnd" /\ ~open THEN FALSE   \* iteration without a successful loop test
                           ELSE okstart
        /\ UNCHANGED tid
Spec == Init /\ [][Next]_vars

(* ---- C17 ---- *)
IterBound == cur.itlim > 0 => cur.iters <= cur.itlim
NoIterationAfterBudget == okstart
(* every pass through the loop counts: a successful loop test is followed by an iteration end (or the *)
(* end of the search) before the conditions are consulted again                                      *)
EveryPassIsAnIteration == [][(cur.ev = "LoopTest" /\ cur.res) => cur'.ev # "LoopTest"]_vars
(* every configured budget is enforced by a stopping condition of the algorithm *)
ConfiguredBudgetsEnforced ==
  /\ (cur.itlim > 0 => cur.has_it) /\ (cur.exlim > 0 => cur.has_ex) /\ (cur.stlim > 0 => cur.has_st)
(* the run ended: no LoopTest is pending when the search returns *)
SearchReturns == l = Len(Traces[tid].ev) => cur.ev = "SearchEnd"
=============================================================================

\* shapes, quick: test cases of up to 2 statements
CONSTANTS
  Batches <- ShapeBatches
  Observers <- ObsModes
  M = 2
  Per = 1
  Faults = {}
  MaxFaults = 0
  Pickle = "ascoded"
  Variant = "ascoded"
  MaxLen = 2
  MaxBatch = 1
SPECIFICATION MCSpec
INVARIANT Emit

CONSTANTS
  MaxPred = 2
  MaxBl = 2
  MaxLine = 3
  LinePred = 1
  LineBl = 1
  MaxCnt = 2
  MaxTests = 0
  Dists = {"Z", "P", "Q", "INF"}
  Shapes = {"own", "nested", "seq"}
  Diam = 2
SPECIFICATION Spec
INVARIANT TypeOK
INVARIANT TracesWF
INVARIANT MergedIsFold
INVARIANT FitnessFiniteNonNeg
INVARIANT CoverageIn01
INVARIANT FitnessZeroIffCovered
INVARIANT SuiteZeroIffCoverageOne
INVARIANT MergeNeutral

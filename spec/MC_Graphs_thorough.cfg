CONSTANTS
  MinB = 3
  MaxB = 3
  MaxOut = 3
  ExitAug = TRUE
  Repr = "triples"
SPECIFICATION MCSpec
INVARIANT Emit

CONSTANTS
  N = 3
  NG = 2
  MaxVal = 1
  MaxLen = 2
  PopCfgs = {1, 2, 3, 4}
  SelNs = {1, 2, 3, 4, 5, 7, 8, 12, 16}
  Biases <- BiasesDefault
  KnownDeviations = {}
SPECIFICATION Spec
INVARIANT TypeOK
INVARIANT Front0HasBestPerGoal
INVARIANT LaterFrontsAreNonDominatedLayers
INVARIANT CrowdingIn01
INVARIANT RankSelectionInRange
INVARIANT RankSelectionMonotone
INVARIANT RankSelectionPrefersBetter
INVARIANT FrontsPartition
INVARIANT RankedEnough
INVARIANT Front0OnlyPreferred
INVARIANT LayerMembersIncomparable

SPECIFICATION Spec
INVARIANT Returns
INVARIANT SuccessOnlyIfDelivered
INVARIANT ElapsedPositive
PROPERTY RestartGuard
PROPERTY StrictDecrease
PROPERTY NoRestartUnlimited
PROPERTY StartsAreRestarts
PROPERTY ConformAdjust
INVARIANT ConformGiveUp

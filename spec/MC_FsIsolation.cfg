CONSTANTS
  Depth = 1
  AllVias = TRUE
  Prune = TRUE
SPECIFICATION Spec
INVARIANT Emit

CONSTANTS
  Depth = 1
  AllVias = TRUE
  LastAllVias = FALSE
  Prune = TRUE
  PruneLast = FALSE
  Repr = FALSE
SPECIFICATION Spec
INVARIANT Emit

CONSTANTS
  Depth = 1
  AllVias = TRUE
  Prune = TRUE
  PruneLast = FALSE
SPECIFICATION Spec
INVARIANT Emit

------------------------------ MODULE FsIsolation ------------------------------
(***************************************************************************)
(* Design model for C29: one execution of code under test inside           *)
(* `with FilesystemIsolation():`.  The code under test performs any        *)
(* sequence of calls (FsIsolationOps!Calls); then __exit__ cleans up.      *)
(*                                                                         *)
(* Dev = {}    the intended design: C29 must hold (Isolation).             *)
(* Dev = AsIs  the code as it is: C29 is violated; every violation must be *)
(*             attributable to a call on which the enabled deviations      *)
(*             change the outcome (Attributed) -- nothing else in the      *)
(*             design loses a pre-existing path or leaves a created one.   *)
(***************************************************************************)
EXTENDS FsIsolationOps

CONSTANTS Dev,        \* enabled deviations (subset of AsIs)
          MaxSteps,   \* bound on the number of calls of the code under test
          AllVias     \* TRUE: every API variant of a call; FALSE: one canonical variant

VARIABLES fs, cr, pre, phase, steps, blame
vars == <<fs, cr, pre, phase, steps, blame>>

Kinds == {"absent", "file", "dir"}
TypeOK == /\ \A p \in Paths : fs[p].k \in Kinds /\ (fs[p].k # "file" => fs[p].t = <<>>)
          /\ cr \subseteq Paths
          /\ phase \in {"run", "done"}
          /\ steps \in 0..MaxSteps

Init == /\ fs = Tree0 /\ pre = Tree0 /\ cr = {} /\ phase = "run" /\ steps = 0 /\ blame = {}

Do(o) == LET r == Eff(o, fs, cr, Dev)
             ideal == Eff(o, fs, cr, {})
         IN /\ fs' = r.fs
            /\ cr' = r.cr
            /\ blame' = IF r # ideal THEN blame \cup {o.op} ELSE blame

SutCall == /\ phase = "run" /\ steps < MaxSteps
           /\ \E o \in Calls(fs, AllVias) : Do(o)
           /\ steps' = steps + 1
           /\ UNCHANGED <<pre, phase>>

Exit == /\ phase = "run"
        /\ Do([op |-> "Exit", p |-> "", q |-> "", kw |-> FALSE, fl |-> "", eo |-> FALSE, via |-> "none"])
        /\ phase' = "done"
        /\ UNCHANGED <<pre, steps>>

Next == SutCall \/ Exit
Spec == Init /\ [][Next]_vars

(* ---- C29 ---- *)
Isolation == phase = "done" => Preserved(pre, fs) /\ Gone(pre, fs)

(* bookkeeping invariants of the intended design that make Isolation inductive *)
CreatedIsNew == phase = "run" => \A p \in cr : pre[p].k = "absent"
NewIsOwned == phase = "run" => \A p \in Paths : (pre[p].k = "absent" /\ Exists(fs, p)) => Owned(cr, p)
PreUntouched == phase = "run" => Preserved(pre, fs)

(* code as it is: every loss is explained by a deviating call *)
Attributed == (phase = "done" /\ ~(Preserved(pre, fs) /\ Gone(pre, fs))) => blame # {}
=============================================================================

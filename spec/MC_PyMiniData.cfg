CONSTANTS
  SkSet <- QuickSkeletons
  Alpha = "full"
  InputSet <- QuickInputs
  Chain = TRUE
SPECIFICATION Spec
INVARIANT WellFormed
INVARIANT NoRuntimeError
INVARIANT SpecSliceExecuted
INVARIANT SpecSliceHasCriterion
INVARIANT StrictContainsSlice
INVARIANT DefLineInSlice
INVARIANT Emit

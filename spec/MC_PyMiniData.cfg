CONSTANTS
  Families <- QuickFamilies
  InputSet <- QuickInputs
SPECIFICATION Spec
INVARIANT WellFormed
INVARIANT NoRuntimeError
INVARIANT SpecSliceExecuted
INVARIANT SpecSliceHasCriterion
INVARIANT StrictContainsSlice
INVARIANT DefLineInSlice
INVARIANT Emit

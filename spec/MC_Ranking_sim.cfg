CONSTANTS
  N = 64
  NG = 3
  MaxVal = 3
  MaxLen = 3
  LenN = 64
  Depth = 2
  PopCfgs = {1, 2, 3, 5, 10, 50, 100}
  SelNs = {}
SPECIFICATION Spec

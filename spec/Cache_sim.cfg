CONSTANTS
  FF = {"f1", "f2"}
  CF = {"g1"}
  Faults <- NoFaults
  FactoryFF <- DefFactoryFF
  FFSeq <- DefFFSeq
  CFSeq <- DefCFSeq
  Ops <- AllOps
  Modes <- ModesSim
  NT = 5
  NS = 2
  MaxV = 40
  MaxFuncs = 2
  MaxSuite = 3
  MaxDepth = 1000
  MaxTop = 4
  ExtraT = 0
  ExtraC = 0
  ExtraM = 0
  Coarse = FALSE
SPECIFICATION Spec
INVARIANT TypeOK
INVARIANT NeverStale
INVARIANT QueryTotal
INVARIANT CleanMeansCurrent
INVARIANT SuiteCleanMeansCurrent
CONSTRAINT Bound

\* slow family: batches of up to 2 test cases with sleeping statements; the two settings differ
CONSTANTS
  Batches <- SlowBatches
  Observers = {"trace"}
  M = 24
  Per = 2
  Faults = {}
  MaxFaults = 0
  Pickle = "ascoded"
  Variant = "ascoded"
  MaxLen = 1
  MaxBatch = 2
SPECIFICATION MCSpec
INVARIANT Emit
INVARIANT ChildBudgetAgree

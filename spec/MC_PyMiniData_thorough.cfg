CONSTANTS
  SkSet <- ThoroughSkeletons
  Alpha = "core"
  InputSet <- ThoroughInputs
  Chain = TRUE
SPECIFICATION Spec
INVARIANT WellFormed
INVARIANT NoRuntimeError
INVARIANT SpecSliceExecuted
INVARIANT SpecSliceHasCriterion
INVARIANT StrictContainsSlice
INVARIANT DefLineInSlice
INVARIANT Emit

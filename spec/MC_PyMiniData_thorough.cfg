CONSTANTS
  Families <- ThoroughFamilies
  InputSet <- ThoroughInputs
SPECIFICATION Spec
INVARIANT WellFormed
INVARIANT NoRuntimeError
INVARIANT SpecSliceExecuted
INVARIANT SpecSliceHasCriterion
INVARIANT StrictContainsSlice
INVARIANT DefLineInSlice
INVARIANT Emit

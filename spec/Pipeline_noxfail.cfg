CONSTANTS
  MaxLen = 3
  Goals = {1, 2}
  KeepAssertedBinding = TRUE
  ProtectCarriers = TRUE
  NoXfail = TRUE
SPECIFICATION Spec
INVARIANT KeepAsserts
INVARIANT MinKeeps
INVARIANT ExportVerdict

CONSTANTS
  Depth = 2
  AllVias = FALSE
  Prune = TRUE
SPECIFICATION Spec
INVARIANT Emit

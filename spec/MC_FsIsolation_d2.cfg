CONSTANTS
  Depth = 2
  AllVias = FALSE
  LastAllVias = FALSE
  Prune = TRUE
  PruneLast = FALSE
  Repr = FALSE
SPECIFICATION Spec
INVARIANT Emit

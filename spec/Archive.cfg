CONSTANTS
  NG = 2
  Sizes = {1, 2}
  ResKinds = {"ok", "exc"}
  Copies = 2
  FitsCov = {1, 4}
  FitsMio = {1, 2, 4}
  FitsPop = {0, 1, 2, 4}
  MaxLenCov = 2
  MaxLenMio = 1
  Cap0 = 2
  MaxSteps = 3
  Modes = {"cov", "mio", "pop"}
SPECIFICATION Spec
CONSTRAINT Bound
INVARIANT TypeOK
INVARIANT PopsSorted
INVARIANT PopsHMatch
INVARIANT ArchivedCovers
INVARIANT MIOCap
INVARIANT MIOCoveredOne
INVARIANT CoveredConsistent
PROPERTY CoveredGrows
PROPERTY ReplaceRule
PROPERTY MIOStaysCovered
PROPERTY RecordsCoverage

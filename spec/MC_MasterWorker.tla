--------------------------- MODULE MC_MasterWorker ----------------------------
(* Behaviour extraction for C33: every fault plan (which incarnation dies or raises in  *)
(* which phase, and how much wall time the master then observes) of the design model.   *)
EXTENDS MasterWorker, Json

VARIABLES hist, st0
mcvars == <<vars, hist, st0>>

MCInitTimes == {Unlimited, 1, 2, 3, 5}

MCInit == Init /\ hist = <<>> /\ st0 = st

Fault(mode, e) == [inc |-> inc, phase |-> Phases[phase], mode |-> mode, elapsed10 |-> e]

MCNext ==
  \/ (Start \/ WorkerAdvance \/ WorkerSend \/ MasterRecvResult) /\ UNCHANGED <<hist, st0>>
  \/ /\ phase <= NPh /\ WorkerDies
     /\ hist' = Append(hist, Fault(IF inc % 2 = 0 THEN "kill" ELSE "exit", 0))
     /\ UNCHANGED st0
  \/ /\ WorkerRaises /\ hist' = Append(hist, Fault("raise", 0)) /\ UNCHANGED st0
  \/ \E e \in Elapsed10 :
       /\ MasterRecvEOF(e)
       /\ hist' = [hist EXCEPT ![Len(hist)].elapsed10 = e]
       /\ UNCHANGED st0

MCSpec == MCInit /\ [][MCNext]_mcvars

Emit == mst = "returned" =>
          PrintT(<<"HIST", ToJson([init_time |-> st0, plan |-> hist,
                                    expect |-> [outcome |-> outcome, restarts |-> restarts,
                                                st |-> st]])>>)
=============================================================================

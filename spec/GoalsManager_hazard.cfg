CONSTANTS
  NG = 2
  AssumeReachable = FALSE
  Acyclic = FALSE
SPECIFICATION Spec
INVARIANT Complete

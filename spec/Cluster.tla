------------------------------- MODULE Cluster --------------------------------
(***************************************************************************)
(* Design model of the module analysis that fills the test cluster         *)
(* (pynguin.analyses.module: analyse_module / __resolve_dependencies /     *)
(* __analyse_included_classes / __analyse_class / __analyse_method /       *)
(* __analyse_included_functions / __analyse_function).                     *)
(*                                                                         *)
(* Phase "build": a module (sequence of member records, ClusterOps) and an *)
(* ignore_modules setting are chosen.  Then the analysis runs as coded: a  *)
(* wait list of modules starting with the module under test; per module    *)
(* first the classes bound in its namespace (work list, base classes are   *)
(* appended, fixed point via `seenC`), every class decides its constructor *)
(* and its function members; then the functions of the namespace           *)
(* (`seenF`); then the imported module objects are queued.  The control    *)
(* flow does not depend on element_visibility, so the three visibility     *)
(* settings are run in lock step: ut[v] / gen[v] are the sets              *)
(* accessible_objects_under_test / generators under setting v.             *)
(*                                                                         *)
(* Quirks = FALSE: the intended decision procedure; all invariants hold.   *)
(* Quirks = TRUE : the procedure exactly as coded; TLC must find C27       *)
(*                 violated (the harness runs it with expect_ok = False).  *)
(***************************************************************************)
EXTENDS ClusterOps, TLC

CONSTANTS MaxSteps,   \* builder steps
          Shape,      \* "small" / "full" (ClusterOps!NextModules)
          Quirks      \* BOOLEAN

VARIABLES M, modign, steps,      \* input: module, ignore_modules, builder step counter
          pc,                    \* "build" | "next" | "classes" | "functions" | "done"
          queue, curmod, seenMods,
          work,                  \* class work list (indices into M)
          todo,                  \* functions of the current namespace not yet visited
          seenC, seenF,
          ut, gen                \* [Visibilities -> SUBSET DOMAIN M]

vars == <<M, modign, steps, pc, queue, curmod, seenMods, work, todo, seenC, seenF, ut, gen>>

None == [v \in Visibilities |-> {}]

Init == /\ M = <<>> /\ modign \in ModIgns /\ steps = 0 /\ pc = "build"
        /\ queue = <<>> /\ curmod = "none" /\ seenMods = {}
        /\ work = <<>> /\ todo = {} /\ seenC = {} /\ seenF = {}
        /\ ut = None /\ gen = None

Input == <<M, modign, steps>>
Analysis == <<queue, curmod, seenMods, work, todo, seenC, seenF, ut, gen>>

Build == /\ pc = "build" /\ steps < MaxSteps
         /\ \E N \in NextModules(M, Shape) : M' = N
         /\ steps' = steps + 1
         /\ UNCHANGED <<modign, pc, Analysis>>

Freeze == /\ pc = "build" /\ steps >= 1
          /\ pc' = "next" /\ queue' = <<"sut">>
          /\ UNCHANGED <<Input, curmod, seenMods, work, todo, seenC, seenF, ut, gen>>

(* vars(module).values(): objects bound in the namespace of a module *)
Namespace(m) ==
  IF m = "sut" THEN {i \in DOMAIN M : M[i].bound}
  ELSE {i \in DOMAIN M : M[i].owner = 0 /\ M[i].def = "other"}
ModBlacklisted(m) == (m = "sut" /\ modign = "sut") \/ (m = "helper" /\ modign = "helper")
DefMod(i) == IF M[i].def = "sut" THEN "sut" ELSE "helper"

StartModule ==
  /\ pc = "next" /\ queue # <<>>
  /\ LET m == Head(queue) IN
       /\ queue' = Tail(queue)
       /\ IF m \in seenMods \/ ModBlacklisted(m)
          THEN UNCHANGED <<pc, curmod, work, todo>>
          ELSE /\ pc' = "classes" /\ curmod' = m
               /\ work' = SelectSeq(Idx(M), LAMBDA i : i \in Namespace(m) /\ M[i].kind \in ClassLike
                                                        /\ ~ModBlacklisted(DefMod(i)))
               /\ todo' = {i \in Namespace(m) : M[i].kind \in FuncKinds}
  /\ UNCHANGED <<Input, seenMods, seenC, seenF, ut, gen>>

(* what a non-SUT class / function contributes to the generators: public names only *)
GenInclude(i, v) ==
  IF M[i].def = "sut" THEN CodeInclude(M, i, v, modign, Quirks)
  ELSE /\ M[i].inh = "own" /\ M[i].kind \notin {"asyncfunc", "property", "classmethod", "borrowed",
                                                  "nestedmethod", "nestedclass", "abstractclass"}
       /\ (M[i].kind \in ClassLike \/ ~VisSkip(M[i].nc, "PUBLIC"))

AnalyseClass ==
  /\ pc = "classes" /\ work # <<>>
  /\ LET c == Head(work) IN
       IF c \in seenC
       THEN /\ work' = Tail(work) /\ UNCHANGED <<seenC, ut, gen>>
       ELSE LET addToTest == M[c].def = "sut"     \* current.__module__ == root_module_name
                members == {j \in DOMAIN M : M[j].owner = c /\ M[j].kind \notin ClassLike}
            IN /\ seenC' = seenC \cup {c}
               /\ gen' = [v \in Visibilities |->
                            gen[v] \cup {j \in members \cup {c} : GenInclude(j, v)}]
               /\ ut' = [v \in Visibilities |->
                            ut[v] \cup (IF addToTest
                                        THEN {j \in members \cup {c} : CodeInclude(M, j, v, modign, Quirks)}
                                        ELSE {})]
               /\ work' = Tail(work) \o (IF M[c].basei = 0 THEN <<>> ELSE <<M[c].basei>>)
  /\ UNCHANGED <<Input, pc, queue, curmod, seenMods, todo, seenF>>

EndClasses ==
  /\ pc = "classes" /\ work = <<>>
  /\ pc' = "functions"
  /\ UNCHANGED <<Input, queue, curmod, seenMods, work, todo, seenC, seenF, ut, gen>>

AnalyseFunction ==
  /\ pc = "functions"
  /\ \E f \in todo :
       /\ todo' = todo \ {f}
       /\ IF f \in seenF \/ FuncBlacklisted(M[f], modign, Quirks)
          THEN UNCHANGED <<seenF, ut, gen>>
          ELSE /\ seenF' = seenF \cup {f}
               /\ gen' = [v \in Visibilities |-> gen[v] \cup (IF GenInclude(f, v) THEN {f} ELSE {})]
               /\ ut' = [v \in Visibilities |->
                           ut[v] \cup (IF M[f].def = "sut" /\ CodeInclude(M, f, v, modign, Quirks)
                                       THEN {f} ELSE {})]
  /\ UNCHANGED <<Input, pc, queue, curmod, seenMods, work, seenC>>

(* imported module objects found in the namespace are queued *)
EndFunctions ==
  /\ pc = "functions" /\ todo = {}
  /\ seenMods' = seenMods \cup {curmod}
  /\ queue' = queue \o (IF curmod = "sut" /\ \E i \in DOMAIN M : M[i].imp = "mod"
                        THEN <<"helper">> ELSE <<>>)
  /\ pc' = "next"
  /\ UNCHANGED <<Input, curmod, work, todo, seenC, seenF, ut, gen>>

Finish == /\ pc = "next" /\ queue = <<>> /\ pc' = "done"
          /\ UNCHANGED <<Input, Analysis>>

Next == Build \/ Freeze \/ StartModule \/ AnalyseClass \/ EndClasses \/ AnalyseFunction
        \/ EndFunctions \/ Finish

Spec == Init /\ [][Next]_vars

(* ---------------------------------------------------------------- invariants *)
TypeOK ==
  /\ pc \in {"build", "next", "classes", "functions", "done"}
  /\ modign \in ModIgns /\ steps \in 0..MaxSteps
  /\ \A v \in Visibilities : ut[v] \subseteq DOMAIN M /\ gen[v] \subseteq DOMAIN M
  /\ seenC \subseteq DOMAIN M /\ seenF \subseteq DOMAIN M /\ todo \subseteq DOMAIN M
BuilderWellFormed == WellFormed(M)

(* C27, second half: nothing defined in another module is under test -- at every moment *)
NothingForeignUnderTest == \A v \in Visibilities : \A i \in ut[v] : ~Foreign(M, i)
(* C27: an inherited, not overridden member (method, static method, class method, property  *)
(* of a base class of the SUT or of another module) is never under test via the inheriting  *)
(* class: __analyse_method keeps only what get_class_that_defined_method attributes to the  *)
(* analysed class itself                                                                     *)
ViewsNeverUnderTest == \A v \in Visibilities : \A i \in ut[v] : ~IsView(M, i)
(* ... while a member of a SUT base class is under test via that base class, which is       *)
(* reached through the work list even if only the subclass were bound in the namespace      *)
BaseMembersViaBase ==
  pc = "done" => \A v \in Visibilities : \A i \in DOMAIN M :
     (M[i].inh = "sut" /\ CodeInclude(M, M[i].src, v, modign, Quirks)) => M[i].src \in ut[v]
(* ignored by configuration => never under test *)
IgnoredNeverUnderTest == \A v \in Visibilities : \A i \in ut[v] : ~Ignored(M, i, modign)
(* relaxing the visibility never removes anything *)
MonotoneInVisibility == ut["PUBLIC"] \subseteq ut["PROTECTED"] /\ ut["PROTECTED"] \subseteq ut["ALL"]
(* everything under test is also available as a generator / callable of the cluster *)
UnderTestAreGenerators == \A v \in Visibilities : ut[v] \subseteq gen[v]
(* the relaxed visibility only applies to the module under test *)
VisibilityOnlyForSut ==
  \A i \in DOMAIN M : M[i].def = "other" => (i \in gen["PUBLIC"]) = (i \in gen["ALL"])
(* C27, first half, when the analysis has finished *)
UnderTestSubsetOfEligible ==
  \A v \in Visibilities : \A i \in ut[v] : May(M, i, v, modign)
EligibleSubsetOfUnderTest ==
  pc = "done" => \A v \in Visibilities : \A i \in DOMAIN M : Must(M, i, v, modign) => i \in ut[v]
(* the transition system computes exactly the declarative decision *)
AnalysisComputesDecision ==
  pc = "done" => \A v \in Visibilities :
                   ut[v] = {i \in DOMAIN M : CodeInclude(M, i, v, modign, Quirks)}
(* the declarative sandwich is consistent *)
MustImpliesMay ==
  \A v \in Visibilities : \A i \in DOMAIN M : Must(M, i, v, modign) => May(M, i, v, modign)
=============================================================================

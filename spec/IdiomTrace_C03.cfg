SPECIFICATION Spec
INVARIANT InstrumentationSucceeds
INVARIANT BranchOutcomesExact
INVARIANT PredicatesRegistered
INVARIANT SuiteAnalysisKeepsOutcomes
CHECK_DEADLOCK FALSE

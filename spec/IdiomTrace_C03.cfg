SPECIFICATION Spec
INVARIANT InstrumentationSucceeds
INVARIANT BranchOutcomesExact
INVARIANT PredicatesRegistered
CHECK_DEADLOCK FALSE

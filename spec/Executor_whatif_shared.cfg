CONSTANTS
  N = 2
  Programs <- DesignPrograms
  TraceIsThreadLocal = FALSE
  CheckOnCallback = TRUE
  Controlled = FALSE
SPECIFICATION Spec
INVARIANT NoPollution

------------------------------ MODULE GraphsOps ------------------------------
(***************************************************************************)
(* Control-flow graphs, post-dominance, control dependence (Ferrante,      *)
(* Ottenstein, Warren 1987) and the DynaMOSA goal graph derived from it    *)
(* (pynguin.instrumentation.controlflow: CFG, ControlDependenceGraph;      *)
(* pynguin.ga.algorithms.dynamosaalgorithm: _BranchFitnessGraph).          *)
(*                                                                         *)
(* A CFG is a record [N, E, entry, exit]:                                  *)
(*   N      finite set of nodes (positive integers; 0 is reserved)         *)
(*   E      set of labelled edges <<u, v, lab>>, lab \in {"T","F","N"};    *)
(*          "T"/"F" = networkx edge attribute branch_value True/False,     *)
(*          "N" = no branch_value.  `lab` is a function of the pair (u,v)  *)
(*          (the code keeps edges in an nx.DiGraph): clause EdgeFunctional.*)
(*   entry  ArtificialNode.ENTRY,  exit  ArtificialNode.EXIT               *)
(*                                                                         *)
(* What "single exit" means in CFG.from_bytecode (_insert_dummy_nodes):    *)
(* EXIT is the only node without out-edges; it gets an unlabelled edge     *)
(* from every block without successor (return / raise), from every block   *)
(* that contains a yield, and from the entry block of every cycle that     *)
(* cannot reach one of those (`while True`).  A block of the last two      *)
(* kinds may end in a conditional jump: a branch node therefore has        *)
(* exactly one "T" and one "F" out-edge and possibly a third, unlabelled,  *)
(* out-edge that goes to EXIT (ExitAugmented); StrictBranches excludes it. *)
(***************************************************************************)
EXTENDS Naturals, Integers, Sequences, FiniteSets, TLC

\* TLC note: [x \in S |-> e] is a lazy value whose body is re-evaluated at every application;
\* TLCEval forces it into an explicit table once.  It does not change the meaning.

Labels == {"T", "F", "N"}
Aug == 0        \* ArtificialNode.AUGMENTED_ENTRY of the control-dependence graph

(* ------------------------------------------------------------------ *)
(* elementary graph operators                                          *)
(* ------------------------------------------------------------------ *)
OutE(g, n) == {e \in g.E : e[1] = n}
InE(g, n)  == {e \in g.E : e[2] = n}
SuccMap(g) == TLCEval([n \in g.N |-> {e[2] : e \in OutE(g, n)}])
PredMap(g) == TLCEval([n \in g.N |-> {e[1] : e \in InE(g, n)}])

\* least set containing `frontier` (and `done`) closed under the map nxt, never entering `avoid`
RECURSIVE Closure(_, _, _, _)
Closure(nxt, avoid, done, frontier) ==
  IF frontier = {} THEN done
  ELSE LET new == (UNION {nxt[v] : v \in frontier}) \ (done \cup avoid)
       IN Closure(nxt, avoid, done \cup new, new)

ReachFrom(g, n) == Closure(SuccMap(g), {}, {n}, {n})          \* n and everything reachable from n
CanReach(g, n)  == Closure(PredMap(g), {}, {n}, {n})          \* n and everything that reaches n

(* ------------------------------------------------------------------ *)
(* well-formedness of a control-flow graph (first half of C06)         *)
(* ------------------------------------------------------------------ *)
EdgeTyped(g)      == \A e \in g.E : e[1] \in g.N /\ e[2] \in g.N /\ e[3] \in Labels
EdgeFunctional(g) == \A e, f \in g.E : (e[1] = f[1] /\ e[2] = f[2]) => e = f
SingleEntry(g) ==
  /\ g.entry \in g.N
  /\ InE(g, g.entry) = {}
  /\ \A n \in g.N \ {g.entry} : InE(g, n) # {}
  /\ Cardinality(OutE(g, g.entry)) = 1
  /\ \A e \in OutE(g, g.entry) : e[3] = "N"
SingleExit(g) ==
  /\ g.exit \in g.N /\ g.exit # g.entry
  /\ OutE(g, g.exit) = {}
  /\ \A n \in g.N \ {g.exit} : OutE(g, n) # {}
AllReachable(g)    == ReachFrom(g, g.entry) = g.N
ExitFromAll(g)     == CanReach(g, g.exit) = g.N
IsBranch(g, n)     == \E e \in OutE(g, n) : e[3] # "N"
\* a branch node has exactly one T and one F out-edge; a further out-edge is unlabelled and
\* goes to EXIT (yield / endless-loop exit); StrictBranches: no such third edge
BranchesOK(g) ==
  \A n \in g.N : IsBranch(g, n) =>
    /\ Cardinality({e \in OutE(g, n) : e[3] = "T"}) = 1
    /\ Cardinality({e \in OutE(g, n) : e[3] = "F"}) = 1
    /\ \A e \in OutE(g, n) : e[3] = "N" => e[2] = g.exit
StrictBranches(g) == \A n \in g.N : IsBranch(g, n) => Cardinality(OutE(g, n)) = 2

WellFormedCFG(g) ==
  /\ Aug \notin g.N
  /\ EdgeTyped(g) /\ EdgeFunctional(g)
  /\ SingleEntry(g) /\ SingleExit(g)
  /\ AllReachable(g) /\ ExitFromAll(g)
  /\ BranchesOK(g)

(* ------------------------------------------------------------------ *)
(* post-dominance                                                      *)
(* d post-dominates n  iff  every path from n to exit contains d       *)
(* (reflexive).  Two independent formulations.                         *)
(* ------------------------------------------------------------------ *)
\* (1) by paths: d # n post-dominates n iff n cannot reach exit once d is removed
PostDomByPaths(g) ==
  LET pm == PredMap(g)
      \* nodes that still reach exit when d is removed
      alive == TLCEval([d \in g.N |-> IF d = g.exit THEN {} ELSE Closure(pm, {d}, {g.exit}, {g.exit})])
  IN TLCEval([n \in g.N |-> {d \in g.N : d = n \/ n \notin alive[d]}])

\* (2) greatest fixpoint of  PD(exit) = {exit},  PD(n) = {n} \cup INTERSECTION of PD(s), s successor
RECURSIVE RefinePD(_, _, _)
RefinePD(g, sm, pd) ==
  LET nxt == TLCEval([n \in g.N |->
               IF n = g.exit THEN {g.exit}
               ELSE {n} \cup {d \in g.N : \A s \in sm[n] : d \in pd[s]}])
  IN IF nxt = pd THEN pd ELSE RefinePD(g, sm, nxt)
PostDomByFixpoint(g) == RefinePD(g, SuccMap(g), TLCEval([n \in g.N |-> g.N]))

PostDom(g) == PostDomByPaths(g)

(* ------------------------------------------------------------------ *)
(* control dependence                                                  *)
(* ------------------------------------------------------------------ *)
\* the augmented graph of ControlDependenceGraph._create_augmented_graph
Augment(g) == [N |-> g.N \cup {Aug},
               E |-> g.E \cup {<<Aug, g.entry, "N">>, <<Aug, g.exit, "N">>},
               entry |-> Aug, exit |-> g.exit]

\* Ferrante et al.: B is control dependent on A with outcome v iff A has an out-edge labelled v to
\* some S such that B post-dominates S and B does not strictly post-dominate A.
\* ENTRY and EXIT are dropped from the result (compute() removes them).
\* Literal transcription (small graphs only):
FerranteDecl(g) ==
  LET a  == Augment(g)
      pd == PostDomByFixpoint(a)
      keep == a.N \ {g.entry, g.exit}
  IN {t \in keep \X keep \X Labels :
        \E e \in a.E : /\ e[1] = t[1] /\ e[3] = t[3]
                       /\ t[2] \in pd[e[2]]
                       /\ ~(t[2] \in pd[t[1]] /\ t[2] # t[1])}

\* same thing written to be cheap for TLC: one pass over edges x nodes
FerranteCDG(g) ==
  LET a  == Augment(g)
      pd == PostDom(a)
      keep == a.N \ {g.entry, g.exit}
  IN UNION {{<<e[1], b, e[3]>> : b \in {x \in pd[e[2]] \cap keep : ~(x \in pd[e[1]] /\ x # e[1])}}
            : e \in {x \in a.E : x[1] \in keep}}

CDGPairs(C) == {<<t[1], t[2]>> : t \in C}

(* The construction as coded in ControlDependenceGraph.compute: immediate post-dominator tree *)
(* of the augmented graph; for every edge (A,S) whose target is not a tree ancestor of A walk  *)
(* from S up to (excluding) L = lowest common ancestor of A and S; A itself is marked when     *)
(* L = A.  Edges are collected as labelled triples.                                           *)
IPDom(pd, n) ==   \* the strict post-dominator of n that all other strict post-dominators post-dominate
  CHOOSE d \in pd[n] \ {n} : \A x \in pd[n] \ {n} : x \in pd[d]
\* edges of the augmented graph that compute() walks: target is not a proper tree ancestor of source
WalkEdges(g) ==
  LET a == Augment(g)
      pd == PostDom(a)
  IN {e \in a.E : e[2] \notin (pd[e[1]] \ {e[1]})}
\* nodes that compute() makes dependent on e[1] (with the label of e) while handling edge e
EdgeMarks(g, e) ==
  LET a == Augment(g)
      pd == PostDom(a)
      ipd == TLCEval([n \in a.N \ {a.exit} |-> IPDom(pd, n)])
      \* lowest common ancestor of x and y in the tree (a node is an ancestor of itself)
      L == CHOOSE c \in pd[e[1]] \cap pd[e[2]] : \A z \in pd[e[1]] \cap pd[e[2]] : z \in pd[c]
      RECURSIVE walk(_)
      walk(cur) == IF cur = L THEN {} ELSE {cur} \cup walk(ipd[cur])
  IN walk(e[2]) \cup (IF L = e[1] THEN {e[1]} ELSE {})
DropEntryExit(g, C) == {t \in C : t[1] \notin {g.entry, g.exit} /\ t[2] \notin {g.entry, g.exit}}
TreeWalkCDG(g) ==
  DropEntryExit(g, UNION {{<<e[1], b, e[3]>> : b \in EdgeMarks(g, e)} : e \in WalkEdges(g)})

(* What an nx.DiGraph can hold: one label per (A,B).  When B depends on A under both outcomes  *)
(* the second add_edge overwrites the first label.                                             *)
LabelFunctional(C) == \A s, t \in C : (s[1] = t[1] /\ s[2] = t[2]) => s = t

(* ------------------------------------------------------------------ *)
(* queries on a control-dependence graph C (set of triples, root Aug)  *)
(* ------------------------------------------------------------------ *)
\* nodes from which n is reached over unlabelled CDG edges only (n included)
UnlabPredMap(C, Nodes) == TLCEval([n \in Nodes |-> {t[1] : t \in {x \in C : x[2] = n /\ x[3] = "N"}}])
UnlabClosure(C, Nodes, n) == Closure(UnlabPredMap(C, Nodes), {}, {n}, {n})

\* ControlDependenceGraph.is_control_dependent_on_root
RootDependent(C, Nodes, n) == Aug \in UnlabClosure(C, Nodes, n)
\* ControlDependenceGraph.get_control_dependencies: the (branch node, outcome) pairs guarding n
Deps(C, Nodes, n) ==
  LET cl == UnlabClosure(C, Nodes, n)
  IN {<<t[1], t[3]>> : t \in {x \in C : x[3] # "N" /\ x[2] \in cl}}

\* The same two queries for all nodes at once (one closure per edge target instead of one per
\* node); Graphs.tla checks that they agree with the per-node definitions.
UnlabSuccMap(C, Nodes) == TLCEval([n \in Nodes |-> {t[2] : t \in {x \in C : x[1] = n /\ x[3] = "N"}}])
RootDependentSet(C, Nodes) == Closure(UnlabSuccMap(C, Nodes), {}, {Aug}, {Aug}) \ {Aug}
DepsAll(C, Nodes) ==     \* triples <<n, branch node, outcome>>
  LET sm == UnlabSuccMap(C, Nodes)
      below == TLCEval([x \in {t[2] : t \in {y \in C : y[3] # "N"}} |-> Closure(sm, {}, {x}, {x})])
  IN UNION {{<<n, t[1], t[3]>> : n \in below[t[2]]} : t \in {y \in C : y[3] # "N"}}

\* every node hangs below the root (sanity theorem of the definition)
AllBelowRoot(C, Nodes) ==
  LET sm == TLCEval([n \in Nodes |-> {t[2] : t \in {x \in C : x[1] = n}}])
  IN Closure(sm, {}, {Aug}, {Aug}) = Nodes

(* ------------------------------------------------------------------ *)
(* DynaMOSA goal graph of one code object (_BranchFitnessGraph)        *)
(* goal = <<predicate node, outcome>>; P = nodes with a registered     *)
(* predicate                                                           *)
(* ------------------------------------------------------------------ *)
Outcomes == {"T", "F"}
GoalsOf(P) == P \X Outcomes
GoalRoots(C, Nodes, P) == {gl \in GoalsOf(P) : RootDependent(C, Nodes, gl[1])}
GoalEdges(C, Nodes, P) ==
  UNION {{<<d, <<p, v>>>> : d \in Deps(C, Nodes, p), v \in Outcomes} : p \in P}
GoalGraph(C, Nodes, P) == [goals |-> GoalsOf(P), roots |-> GoalRoots(C, Nodes, P),
                           edges |-> GoalEdges(C, Nodes, P)]
\* the same edges from one DepsAll pass (Graphs.tla checks GoalEdgesFast = GoalEdges)
GoalEdgesFast(C, Nodes, P) ==
  UNION {{<<<<t[2], t[3]>>, <<t[1], v>>>> : v \in Outcomes} : t \in {x \in DepsAll(C, Nodes) : x[1] \in P}}
GoalRootsFast(C, Nodes, P) == (RootDependentSet(C, Nodes) \cap P) \X Outcomes
DependenciesResolve(C, Nodes, P) == \A p \in P : \A d \in Deps(C, Nodes, p) : d[1] \in P

\* goals reachable from the roots of a goal graph given as (roots, edges over arbitrary goal ids)
ReachableGoals(goals, roots, edges) ==
  LET sm == TLCEval([x \in goals |-> {e[2] : e \in {y \in edges : y[1] = x}}])
  IN Closure(sm, {}, roots, roots)
AllGoalsReachableFromRoots(goals, roots, edges) == ReachableGoals(goals, roots, edges) = goals
ParentsOf(edges, x) == {e[1] : e \in {y \in edges : y[2] = x}}
=============================================================================

CONSTANT Clauses <- C26Clauses
SPECIFICATION Spec
INVARIANT Total
INVARIANT SameGenerators
INVARIANT OfferedCompatible_Random
INVARIANT OfferedCompatible_KnownGenericArgsOnly
INVARIANT OfferedCompatible_Other
INVARIANT OfferedCompatibleSpec_Random
INVARIANT OfferedCompatibleSpec_KnownGenericArgsOnly
INVARIANT OfferedCompatibleSpec_Other
INVARIANT ProvidersAgree_KnownPrimitiveRequestEmpty
INVARIANT ProvidersAgree_KnownUndefinedForNoneOrTuple
INVARIANT ProvidersAgree_KnownGenericArgsOnly
INVARIANT ProvidersAgree_Other
INVARIANT Drift_Selected
INVARIANT Drift_Offered

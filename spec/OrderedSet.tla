------------------------------ MODULE OrderedSet ------------------------------
(***************************************************************************)
(* Design model for C34: the sequence semantics of OrderedSetOps           *)
(* implements "a mathematical set iterated in first-insertion order".      *)
(* Ghost variables m (the set) and stamp (time an element became a member) *)
(* are updated with set algebra only, independently of Post/Res.           *)
(***************************************************************************)
EXTENDS OrderedSetOps

CONSTANTS U,        \* universe of elements (small naturals)
          MaxArg,   \* maximal length of an iterable argument
          MaxSteps  \* bound on the number of calls explored

VARIABLES s,      \* the ordered set
          m,      \* ghost: the mathematical set it must denote
          stamp,  \* ghost: element -> time at which it (last) became a member
          now     \* ghost: logical clock

vars == <<s, m, stamp, now>>

Args == UNION {[1..n -> U] : n \in 0..MaxArg}

TypeOK == /\ s \in Seq(U) /\ m \subseteq U /\ now \in Nat

Init == /\ s = <<>> /\ m = {} /\ stamp = [u \in U |-> 0] /\ now = 1

(* ghost semantics, stated with sets only -- independent of Post above *)
GhostSet(op, x, a) ==
  CASE op = "add" -> m \cup {x}
    [] op \in {"update", "ior"} -> m \cup Elems(a)
    [] op \in {"discard", "remove"} -> m \ {x}
    [] op = "clear" -> {}
    [] op = "difference_update" -> m \ Elems(a)
    [] op = "intersection_update" -> m \cap Elems(a)
    [] op = "symmetric_difference_update" -> (m \ Elems(a)) \cup (Elems(a) \ m)
    [] OTHER -> m

\* first position of u in the flattened insertion stream of this call
FirstIn(a, u) == PosOf(a, u)

Do(op, x, i, a) ==
  /\ s' = Post(op, s, x, i, a)
  /\ m' = GhostSet(op, x, a)
  /\ LET stream == IF op = "add" THEN <<x>> ELSE a
     IN stamp' = [u \in U |->
          IF u \in m' /\ u \notin m THEN now + FirstIn(stream, u)
          ELSE IF u \in m' THEN stamp[u] ELSE 0]
  /\ now' = now + MaxArg + 1

Next ==
  \E op \in Ops :
    \/ op \in TakesIter /\ \E a \in Args : Do(op, 0, 0, a)
    \/ op \in TakesElem /\ \E x \in U : Do(op, x, 0, <<>>)
    \/ op \in TakesIdx /\ \E i \in (-(Cardinality(U) + 1))..(Cardinality(U) + 1) : Do(op, 0, i, <<>>)
    \/ op \notin (TakesIter \cup TakesElem \cup TakesIdx) /\ Do(op, 0, 0, <<>>)

Spec == Init /\ [][Next]_vars

(* ---- what "insertion ordered set" means (C34) ---- *)
IsSet == NoDup(s) /\ Elems(s) = m
InsertionOrdered == \A p, q \in DOMAIN s : p < q => stamp[s[p]] < stamp[s[q]]
Bound == now <= 1 + MaxSteps * (MaxArg + 1)
(* sequence protocol is consistent with iteration order, negative indices included *)
SeqProtocol ==
  \A i \in (-(Len(s) + 1))..(Len(s) + 1) :
    LET r == Res("getitem", s, 0, i, <<>>) IN
      /\ (i >= 0 /\ i < Len(s)) => r = IntRes(s[i + 1])
      /\ (i < 0 /\ -i <= Len(s)) => r = IntRes(Rev(s)[-i])
      /\ (i >= Len(s) \/ -i > Len(s)) => r.rt = "IndexError"
(* set algebra of the non-mutating operations *)
Algebra ==
  \A a \in Args :
    /\ Elems(Res("union", s, 0, 0, a).rs) = m \cup Elems(a)
    /\ Elems(Res("intersection", s, 0, 0, a).rs) = m \cap Elems(a)
    /\ Elems(Res("difference", s, 0, 0, a).rs) = m \ Elems(a)
    /\ Elems(Res("symmetric_difference", s, 0, 0, a).rs) = (m \ Elems(a)) \cup (Elems(a) \ m)
    /\ NoDup(Res("union", s, 0, 0, a).rs) /\ NoDup(Res("symmetric_difference", s, 0, 0, a).rs)
    /\ IsPrefix(s, Res("union", s, 0, 0, a).rs)
    /\ Res("issubset", s, 0, 0, a).rb = (m \subseteq Elems(a))
    /\ Res("issuperset", s, 0, 0, a).rb = (Elems(a) \subseteq m)
=============================================================================

CONSTANTS
  U = {1, 2, 3}
  MaxArg = 2
  Depth = 6
  Classes = {"OrderedSet", "FrozenOrderedSet", "OrderedTypeSet"}
  Kinds = {"list", "set", "same", "iter"}
SPECIFICATION Spec

CONSTANTS
  N = 3
  NG = 2
  MaxVal = 2
  MaxLen = 2
  LenN = 2
  Depth = 0
  PopCfgs = {1, 2, 3, 5}
  SelNs = {1, 2, 3, 5, 8, 16, 33, 64}
SPECIFICATION Spec
INVARIANT Emit

--------------------------- MODULE PyMiniExclTrace ----------------------------
(* Trace validation for C08: one event per (program, marker placement, scope configuration).  *)
(*   want_lines / want_pred_lines   goals predicted by PyMini!LineGoals / PredGoals,           *)
(*                                  restricted to lines the compiler emits code for            *)
(*   excl_lines                     lines inside excluded code                                 *)
(*   py_line_goals / py_pred_lines  what Pynguin registered for f                              *)
(*   g_* meth_* main_* tc_*         goals registered inside the other code objects / blocks    *)
EXTENDS Naturals, Sequences, FiniteSets, TLC, TLCExt, Json, IOUtils
Traces == ndJsonDeserialize(IOEnv.TRACE_FILE)
VARIABLES tid, l, cur
vars == <<tid, l, cur>>
NoEv == [ok |-> TRUE]
Init == /\ tid \in 1..Len(Traces) /\ l = 0 /\ cur = NoEv
Next == /\ l < Len(Traces[tid].ev) /\ l' = l + 1 /\ cur' = Traces[tid].ev[l + 1] /\ UNCHANGED tid
Spec == Init /\ [][Next]_vars
SetOf(q) == {q[i] : i \in DOMAIN q}
On == l > 0 /\ cur.ok

InstrumentationSucceeds == l > 0 => cur.ok
(* no goal inside excluded code *)
NoGoalInExcludedCode ==
  On => /\ SetOf(cur.py_line_goals) \cap SetOf(cur.excl_lines) = {}
        /\ SetOf(cur.py_pred_lines) \cap SetOf(cur.excl_lines) = {}
        /\ (~cur.gcov => (cur.g_goals = 0 /\ cur.g_preds = 0 /\ ~cur.g_code_object))
        /\ (~cur.methcov => (cur.meth_goals = 0 /\ cur.meth_preds = 0 /\ ~cur.meth_code_object))
        /\ (~cur.deepcov => (cur.deep_goals = 0 /\ cur.deep_preds = 0 /\ ~cur.deep_code_object))
        /\ (~cur.fcov => (cur.py_line_goals = <<>> /\ cur.py_pred_lines = <<>> /\ ~cur.f_code_object))
        /\ cur.main_goals = 0 /\ cur.main_preds = 0 /\ cur.tc_goals = 0 /\ cur.tc_preds = 0
(* every executable line outside excluded code (inside only-cover scopes) is a line goal *)
AllOtherLinesAreGoals ==
  On => /\ SetOf(cur.want_lines) \subseteq SetOf(cur.py_line_goals)
        /\ (cur.gcov => cur.g_goals = cur.g_exec)
        /\ (cur.methcov => cur.meth_goals = cur.meth_exec)
        /\ (cur.deepcov => cur.deep_goals = cur.deep_exec)
(* conformance with the clause semantics of the model (DRIFT only) *)
ConformPreds == On => SetOf(cur.py_pred_lines) = SetOf(cur.want_pred_lines)
ConformLines == On => SetOf(cur.py_line_goals) = SetOf(cur.want_lines)
=============================================================================

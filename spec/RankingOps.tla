------------------------------ MODULE RankingOps ------------------------------
(***************************************************************************)
(* Ranking, crowding distance and rank selection of the MOSA family        *)
(* (pynguin.ga.operators.ranking / comparator / selection).                *)
(*                                                                         *)
(* A population P is a sequence of individuals [f |-> <<v_1..v_G>>,        *)
(* len |-> k]; individual ids are the positions 1..Len(P) (the order of    *)
(* the `solutions` list).  f[g] is the (minimising) fitness for goal g.    *)
(* Declarative part: BestFor, Dominates, NonDominated -- what the property *)
(* (C14) talks about.  Operational part: the fronts / distances / index    *)
(* that the code computes, as functions of its inputs (ties are resolved   *)
(* by a stream of coin flips = randomness.next_bool()).                    *)
(***************************************************************************)
EXTENDS Naturals, Integers, Sequences, FiniteSets, SequencesExt

Ids(P) == 1..Len(P)
ElemsOf(q) == {q[i] : i \in DOMAIN q}
NoDupSeq(q) == \A i, j \in DOMAIN q : q[i] = q[j] => i = j
Asc(S) == SetToSortSeq(S, LAMBDA a, b : a < b)
UnionOfFronts(fr, k) == UNION {ElemsOf(fr[j]) : j \in 1..k}      \* members of fronts 1..k

(* ------------------------------------------------------------------------ *)
(* Declarative definitions                                                  *)
(* ------------------------------------------------------------------------ *)
Fit(P, i, g) == P[i].f[g]

MinOf(S) == CHOOSE m \in S : \A x \in S : m <= x
\* the individuals with the minimal fitness for goal g
BestFor(P, g) ==
  IF P = <<>> THEN {}
  ELSE LET mn == MinOf({Fit(P, j, g) : j \in Ids(P)}) IN {i \in Ids(P) : Fit(P, i, g) = mn}

\* Pareto dominance w.r.t. the goal set U (DominanceComparator.compare = -1)
Dominates(P, U, i, j) ==
  /\ \A g \in U : Fit(P, i, g) <= Fit(P, j, g)
  /\ \E g \in U : Fit(P, i, g) < Fit(P, j, g)

NonDominated(P, U, S) == {i \in S : \A j \in S : ~Dominates(P, U, j, i)}

(* DominanceComparator.compare as the code computes it (early `return 0`) *)
DomCmp(P, U, i, j) ==
  IF Dominates(P, U, i, j) THEN -1 ELSE IF Dominates(P, U, j, i) THEN 1 ELSE 0

(* PreferenceSortingComparator: fitness for the goal, then length *)
PrefLess(P, g, i, j) ==
  \/ Fit(P, i, g) < Fit(P, j, g)
  \/ Fit(P, i, g) = Fit(P, j, g) /\ P[i].len < P[j].len
PrefBest(P, g) == {i \in Ids(P) : \A j \in Ids(P) : ~PrefLess(P, g, j, i)}

(* ------------------------------------------------------------------------ *)
(* C14 clauses on a result `fr` (sequence of fronts, each a sequence of ids)*)
(* ------------------------------------------------------------------------ *)
\* the first front holds a best individual for every uncovered goal
Front0HasBest(P, U, fr) ==
  (P # <<>> /\ U # {}) => /\ Len(fr) >= 1
                          /\ \A g \in U : ElemsOf(fr[1]) \cap BestFor(P, g) # {}

\* each later front is exactly the non-dominated set of the not-yet-ranked individuals
LaterFrontsAreLayers(P, U, fr) ==
  \A k \in 2..Len(fr) :
    ElemsOf(fr[k]) = NonDominated(P, U, Ids(P) \ UnionOfFronts(fr, k - 1))

(* ------------------------------------------------------------------------ *)
(* What RankBasedPreferenceSorting.compute_ranking_assignment computes      *)
(* ------------------------------------------------------------------------ *)
\* _get_zero_front: for every goal (in order) scan the population, keep the preferred
\* individual, flip a coin on exact ties (coins is cycled); OrderedSet of the winners.
ZeroFront(P, Useq, coins) ==
  LET nC == Len(coins)
      Scan(g, used0) ==
        LET F[k \in 0..Len(P)] ==
              IF k = 0 THEN [b |-> 0, u |-> used0]
              ELSE LET pv == F[k - 1] IN
                IF pv.b = 0 THEN [b |-> k, u |-> pv.u]
                ELSE IF PrefLess(P, g, k, pv.b) THEN [b |-> k, u |-> pv.u]
                ELSE IF PrefLess(P, g, pv.b, k) THEN pv
                ELSE [b |-> IF coins[(pv.u % nC) + 1] THEN k ELSE pv.b, u |-> pv.u + 1]
        IN F[Len(P)]
      G[j \in 0..Len(Useq)] ==
        IF j = 0 THEN [z |-> <<>>, u |-> 0]
        ELSE LET r == Scan(Useq[j], G[j - 1].u) IN
          [z |-> IF r.b \in ElemsOf(G[j - 1].z) THEN G[j - 1].z ELSE Append(G[j - 1].z, r.b),
           u |-> r.u]
  IN G[Len(Useq)]           \* .z the front, .u the number of coins consumed

\* fast non-dominated sorting of the set S while the budget (population - ranked) lasts;
\* a front lists its members in population order (survivors of the scan keep their order)
RECURSIVE Layers(_, _, _, _)
Layers(P, U, S, budget) ==
  IF S = {} \/ budget <= 0 THEN <<>>
  ELSE LET F == NonDominated(P, U, S)
       IN <<Asc(F)>> \o Layers(P, U, S \ F, budget - Cardinality(F))

\* the fronts of the intended design (oneFront = FALSE) and of the code as it is
\* (oneFront = TRUE: when front 0 already fills the configured population size the
\* remaining individuals are put, unsorted, into a single front)
FrontsFrom(P, U, z, pop, oneFront) ==
  LET rest == Ids(P) \ ElemsOf(z)
  IN IF Len(z) < pop \/ ~oneFront THEN <<z>> \o Layers(P, U, rest, pop - Len(z))
     ELSE <<z, Asc(rest)>>
Fronts(P, Useq, pop, coins, oneFront) ==
  IF P = <<>> THEN <<>>
  ELSE FrontsFrom(P, ElemsOf(Useq), ZeroFront(P, Useq, coins).z, pop, oneFront)

(* ------------------------------------------------------------------------ *)
(* fast_epsilon_dominance_assignment: distance(i) = CrowdNum / Len(F)       *)
(* ------------------------------------------------------------------------ *)
FitsIn(P, F, g) == {Fit(P, j, g) : j \in ElemsOf(F)}
ArgMin(P, F, g) == LET mn == MinOf(FitsIn(P, F, g)) IN {i \in ElemsOf(F) : Fit(P, i, g) = mn}
Spread(P, F, g) == Cardinality(FitsIn(P, F, g)) > 1          \* maximum # minimum
MaxOf(S) == IF S = {} THEN 0 ELSE CHOOSE m \in S : \A x \in S : x <= m
\* numerators of the distances of all members of the list F (denominator Len(F)):
\* a member that is minimal for a goal with spread gets Len(F) - #minimal, the best of these
CrowdNums(P, U, F) ==
  LET S == {g \in U : Spread(P, F, g)}
      A == [g \in S |-> ArgMin(P, F, g)]
      C == [g \in S |-> Len(F) - Cardinality(A[g])]
  IN [m \in DOMAIN F |-> MaxOf({C[g] : g \in {h \in S : F[m] \in A[h]}})]
\* numerator of the distance of individual i, a member of F
CrowdNum(P, U, F, i) == CrowdNums(P, U, F)[CHOOSE m \in DOMAIN F : F[m] = i]
\* the contract: a distance num/den is in [0, 1)
In01(num, den) == den > 0 /\ 0 <= num /\ num < den

(* ------------------------------------------------------------------------ *)
(* RankSelection.get_index in exact arithmetic                              *)
(* bias b = p/q >= 1, draw r = k/K in [0,1), population size n.             *)
(* index = floor(n * x) where x is the smaller root of b x - (b-1) x^2 = r, *)
(* i.e. the largest i with i/n on the increasing branch and h(i/n) <= r.    *)
(* b = 1 is uniform selection (x = r).                                      *)
(* ------------------------------------------------------------------------ *)
SelLeq(n, p, q, k, K, i) ==
  /\ 2 * (p - q) * i <= p * n                              \* i/n <= b / (2 (b-1))
  /\ K * (p * i * n - (p - q) * i * i) <= k * q * n * n     \* h(i/n) <= k/K
SelIndex(n, p, q, k, K) ==
  CHOOSE i \in 0..n : SelLeq(n, p, q, k, K, i) /\ \A j \in (i + 1)..n : ~SelLeq(n, p, q, k, K, j)

SelInRange(n, idx) == 0 <= idx /\ idx < n
=============================================================================

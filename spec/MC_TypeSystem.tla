---------------------------- MODULE MC_TypeSystem -----------------------------
(* Behaviour extraction for the replay on the real code (C25, C26).              *)
(*  Depth = 0 : every class hierarchy within the bounds, with the type universe  *)
(*              of EmitLevel (one case of C25 / of the static part of C26).      *)
(*  Depth > 0 : every history of Depth calls AddSubclassEdge / AddGenerator /    *)
(*              UpdateReturnType / Query after the analysis (cache part of C26). *)
(* `out` carries the JSON description of the behaviour so far, so that both the  *)
(* exhaustive run (Emit prints it) and -simulate (last state) deliver it.        *)
EXTENDS TypeSystem, Json

CONSTANTS Depth, EmitLevel

VARIABLES hist, out
mcvars == <<hier, extra, h, rel, gens, ret, tab, memo, steps, hist, out>>

NoKey == Key("-", NoT, NoT, 0)
Act(op, x, y, key) == [op |-> op, x |-> x, y |-> y, key |-> key]

Describe(hr, hs) ==
  ToJson([user    |-> [i \in DOMAIN hr |-> User[i]],
          hier    |-> [i \in DOMAIN hr |-> [ub |-> hr[i].ub, bb |-> hr[i].bb]],
          classes |-> Classes,
          edges   |-> EdgesOf(hr, {}),
          anyd    |-> AnyDistance,
          types   |-> IF Len(hr) = NUser THEN UniverseAt(EmitLevel) ELSE <<>>,
          extra   |-> [g \in ExtraGens |-> InitRet[g]],
          hist    |-> hs])

MCInit == Init /\ hist = <<>> /\ out = ""

MCNext ==
  \/ /\ \E ch \in HierChoices(Len(hier) + 1) : Declare(ch)
     /\ UNCHANGED hist
     /\ out' = Describe(hier', hist)
  \/ /\ Complete /\ Len(hist) < Depth
     /\ steps' = steps + 1
     /\ \/ \E a \in UserSet, b \in UserSet :
             AddSubclassEdge(a, b) /\ hist' = Append(hist, Act("add_edge", a, b, NoKey))
        \/ \E g \in ExtraGens :
             AddGenerator(g) /\ hist' = Append(hist, Act("add_gen", g, "", NoKey))
        \/ \E g \in gens, c \in UserSet :
             UpdateReturnType(g, c) /\ hist' = Append(hist, Act("update_ret", g, c, NoKey))
        \/ \E k \in Queries :
             Query(k) /\ hist' = Append(hist, Act("query", "", "", k))
     /\ out' = Describe(hier, hist')

MCSpec == MCInit /\ [][MCNext]_mcvars

Emit == (Complete /\ Len(hist) = Depth) => PrintT(<<"HIST", out>>)
=============================================================================

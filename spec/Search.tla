-------------------------------- MODULE Search --------------------------------
(***************************************************************************)
(* Search loop and stopping conditions (C17):                              *)
(* pynguin.ga.algorithms.*.generate_tests + ga.stoppingcondition.          *)
(*                                                                         *)
(* All algorithms share the shape                                          *)
(*     before_search_start; initial population (executes tests);           *)
(*     before_first_search_iteration;                                      *)
(*     while resources_left() /\ <goals left>: evolve (executes tests;     *)
(*        some algorithms consult resources_left() again inside);          *)
(*        after_search_iteration                                           *)
(* Counters: iterations (incremented by after_search_iteration), test      *)
(* executions and executed statements (incremented by the executor's       *)
(* observers).  A condition with limit L is fulfilled when counter >= L.   *)
(* LoopConsults = FALSE models a loop that forgets to consult the          *)
(* conditions; StrictGE = FALSE a condition that tests > instead of >=.    *)
(***************************************************************************)
EXTENDS Naturals, Integers, TLC

CONSTANTS MaxIter, MaxExec,     \* limits; 0 = condition not configured
          ExecPerIter,          \* possible numbers of executions inside one iteration
          InitExecs,            \* executions of the initial population
          LoopConsults, StrictGE

VARIABLES phase,   \* "init" | "test" | "evolve" | "done"
          iter, execs, started
vars == <<phase, iter, execs, started>>

Fulfilled(cnt, lim) == lim > 0 /\ (IF StrictGE THEN cnt >= lim ELSE cnt > lim)
ResourcesLeft == ~Fulfilled(iter, MaxIter) /\ ~Fulfilled(execs, MaxExec)
BudgetReached == (MaxIter > 0 /\ iter >= MaxIter) \/ (MaxExec > 0 /\ execs >= MaxExec)

Init == phase = "init" /\ iter = 0 /\ execs = 0 /\ started = 0

InitialPopulation == /\ phase = "init" /\ execs' = execs + InitExecs /\ phase' = "test"
                     /\ UNCHANGED <<iter, started>>
(* the loop header *)
LoopTest == /\ phase = "test"
            /\ IF (~LoopConsults) \/ ResourcesLeft
               THEN phase' = "evolve" /\ started' = started + 1
               ELSE phase' = "done" /\ UNCHANGED started
            /\ UNCHANGED <<iter, execs>>
(* goals exhausted: the loop may also stop early *)
GoalsCovered == phase = "test" /\ phase' = "done" /\ UNCHANGED <<iter, execs, started>>
Evolve(k) == /\ phase = "evolve" /\ execs' = execs + k /\ iter' = iter + 1 /\ phase' = "test"
             /\ UNCHANGED started
Next == InitialPopulation \/ LoopTest \/ GoalsCovered \/ \E k \in ExecPerIter : Evolve(k)
Spec == Init /\ [][Next]_vars /\ WF_vars(Next)

(* ---- C17 ---- *)
IterBound == MaxIter > 0 => iter <= MaxIter
NoIterationAfterBudget == [][(phase = "test" /\ phase' = "evolve") => ~BudgetReached]_vars
Terminates == (MaxIter > 0) => <>(phase = "done")
Bounded == iter <= MaxIter + 2 /\ execs <= 60
=============================================================================

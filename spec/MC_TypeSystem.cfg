CONSTANTS
  NUser = 3
  Level = 0
  MaxSteps = 0
  Deviations = {}
  Prov = "G"
  FixedRoots = FALSE
  Depth = 0
  EmitLevel = 2
SPECIFICATION MCSpec
INVARIANT Emit

CONSTANTS
  NUser = 2
  Level = 2
  MaxSteps = 0
  Deviations = {"DistCovariantArgs", "DistUndefinedForAnyBelowNoneOrTuple", "PrimitiveRequestEmpty"}
  Prov = "G"
  FixedRoots = TRUE
SPECIFICATION Spec
INVARIANT ReportViolated

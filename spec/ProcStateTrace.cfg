SPECIFICATION Spec
INVARIANT StreamsRestored
INVARIANT LoggingRestored
INVARIANT OwnRandomUntouched
INVARIANT OrderIndependent
INVARIANT NoTimeout

------------------------------ MODULE TracerOps -------------------------------
(***************************************************************************)
(* Branch-distance bookkeeping of pynguin.instrumentation.tracer           *)
(* (ExecutionTracer.executed_compare_predicate / executed_bool_predicate / *)
(* executed_exception_match / executed_in_presence_predicate,              *)
(* ExecutionTrace.update_predicate_distances) over an ABSTRACT distance    *)
(* domain: a distance is one of                                            *)
(*   "Z" zero, "P" positive finite, "INF" +infinity                         *)
(* and anything else a float can be is an ill-formed distance:             *)
(*   "NAN", "NEG" (negative, incl. -inf), "NONE" (nothing recorded).       *)
(***************************************************************************)
EXTENDS Naturals, Sequences, FiniteSets

Dist == {"Z", "P", "INF"}
BadDist == {"NAN", "NEG", "NONE"}

(* order of the abstract distances (for min-merging); P vs P is not decided abstractly *)
DLeq(a, b) == \/ a = "Z" \/ b = "INF" \/ (a = "P" /\ b = "P")
DMin(a, b) == IF a = "Z" \/ b = "Z" THEN "Z"
              ELSE IF a = "INF" THEN b ELSE IF b = "INF" THEN a ELSE "P"

CmpOps == {"LT", "LE", "EQ", "NE", "GT", "GE", "IN", "NOT_IN", "IS", "IS_NOT"}
AllKinds == CmpOps \cup {"BOOL", "EXC_MATCH", "IN_PRESENCE"}

(* C04: one evaluation e = [py, dT, dF, raised]                                         *)
(*   py      outcome of Python's own operator used as a branch condition: "T","F","Raise" *)
(*   dT, dF  distances recorded for this evaluation                                      *)
(*   raised  the tracer callback raised                                                  *)
WellFormed(e) ==                                 \* "each RECORDED evaluation yields ..."
  (e.py \in {"T", "F"} /\ e.cnt > 0) =>
    /\ e.dT \in Dist /\ e.dF \in Dist           \* non-negative, not NaN, recorded
    /\ (e.dT = "Z") # (e.dF = "Z")              \* exactly one is zero
    /\ (e.dT = "Z") = (e.py = "T")              \* the zero one is the outcome taken
RaisesOnlyIfOpRaises(e) == e.raised => e.py = "Raise"
(* an auxiliary membership distance (container[key]) is only guidance: same well-formedness *)
=============================================================================

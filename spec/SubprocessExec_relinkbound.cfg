\* what-if: _fix_assertion_trace re-adds only the positions that bind a variable: the ExceptionAssertion of a raising expression statement is lost, AssertionAgree fails
CONSTANTS
  Batches <- DesignBatches2
  Observers <- ObsModes
  M = 4
  Per = 2
  Faults = {}
  MaxFaults = 0
  Pickle = "ascoded"
  Variant = "relinkbound"
SPECIFICATION Spec
INVARIANT TypeOK
INVARIANT NoOrphan
INVARIANT AssertionAgree

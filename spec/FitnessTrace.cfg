SPECIFICATION Spec
INVARIANT FitnessFiniteNonNeg
INVARIANT CoverageIn01
INVARIANT VerdictIsBool
INVARIANT CoveredImpliesZero
INVARIANT ZeroImpliesCoveredBranchNoPred
INVARIANT ZeroImpliesCoveredLine
INVARIANT ZeroImpliesCoveredGoal
INVARIANT SuiteZeroIffCoverageOne
INVARIANT ObservedTraceWF
INVARIANT ZeroImpliesCoveredBranchPred
INVARIANT ConformsFitness
INVARIANT ConformsCoverage
INVARIANT ConformsCovered

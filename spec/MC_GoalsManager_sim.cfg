CONSTANTS
  NG = 0
  AssumeReachable = FALSE
  Acyclic = FALSE
SPECIFICATION MCSpec

--------------------------- MODULE TracerProgTrace ----------------------------
(* Trace validation for C05 at test-case level: one event per executed statement, observed   *)
(* on the real TestCaseExecutor: enabled flag of the executing thread's tracer at the start  *)
(* and the end of the statement, lines/predicates that the statement executes AFTER the      *)
(* exception was caught, and what the result reports as covered.                             *)
EXTENDS Naturals, Sequences, FiniteSets, TLC, TLCExt, Json, IOUtils

Traces == ndJsonDeserialize(IOEnv.TRACE_FILE)
VARIABLES tid, l, cur
vars == <<tid, l, cur>>
NoEv == [k |-> "init"]
Init == /\ tid \in 1..Len(Traces) /\ l = 0 /\ cur = NoEv
Next == /\ l < Len(Traces[tid].ev) /\ l' = l + 1 /\ cur' = Traces[tid].ev[l + 1] /\ UNCHANGED tid
Spec == Init /\ [][Next]_vars
SetOf(q) == {q[i] : i \in DOMAIN q}

(* C05 *)
EnabledRestoredPerStatement == l > 0 => cur.en_end = cur.en_start
StillRecordingAfterCatch ==
  (l > 0 /\ cur.executed) =>
     /\ SetOf(cur.after_lines) \subseteq SetOf(cur.covered)
     /\ SetOf(cur.after_pred_lines) \subseteq SetOf(cur.covered_pred_lines)
(* an exception the SUT did not catch is reported at this statement and nowhere else *)
ExceptionReported == l > 0 => (cur.exc_reported = (cur.executed /\ cur.escapes))
NoTimeout == l > 0 => ~cur.timeout
=============================================================================

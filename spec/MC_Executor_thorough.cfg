CONSTANTS
  N = 3
  Programs <- DesignPrograms
  TraceIsThreadLocal = TRUE
  CheckOnCallback = TRUE
  Controlled = TRUE
SPECIFICATION MCSpec
INVARIANT Emit

---------------------------- MODULE MC_PyMiniExcl -----------------------------
(* Case enumeration for C08: every PyMini program x every placement of <= MaxMarkers exclusion  *)
(* markers x scope configuration for the other code objects of the rendered module.             *)
EXTENDS PyMini, Json

CONSTANTS MaxMarkers, ScopeCfgs

(* the rendered module also holds a function g, a class K with a method meth, an            *)
(* `if __name__ == "__main__":` block and an `if TYPE_CHECKING:` block; scope configurations *)
(* name what --no-cover / --only-cover say                                                   *)
(* (and a method `deep` of a class nested in a class: Outer.Inner.deep, three levels)         *)
FCov(sc) == sc \in {"none", "no_g", "only_f", "no_meth", "no_K", "no_deep", "no_Inner"}
GCov(sc) == sc \in {"none", "no_meth", "no_K", "no_deep", "no_Inner"}
MethCov(sc) == sc \in {"none", "no_g", "only_K", "no_deep", "no_Inner"}
DeepCov(sc) == sc \in {"none", "no_g", "no_meth", "no_K", "only_deep"}

VARIABLES case
Init == case = [prog |-> <<>>]
Next == /\ case.prog = <<>>
        /\ \E p \in Progs1, sc \in ScopeCfgs :
             \E M \in {S \in SUBSET Sites(p) : Cardinality(S) <= MaxMarkers /\ Cardinality(S) >= 0} :
               case' = [prog |-> p, markers |-> M, scope |-> sc,
                        goals |-> IF FCov(sc) THEN LineGoals(p, M) ELSE {},
                        preds |-> IF FCov(sc) THEN PredGoals(p, M) ELSE {},
                        excluded |-> Excluded(p, M), fcov |-> FCov(sc), gcov |-> GCov(sc), methcov |-> MethCov(sc),
                        deepcov |-> DeepCov(sc)]
Spec == Init /\ [][Next]_case
Emit == case.prog # <<>> => PrintT(<<"HIST", ToJson(case)>>)
=============================================================================

------------------------------ MODULE MC_Mutants ------------------------------
(* Behaviour extraction for C28: every consumer schedule of Depth actions over the  *)
(* life cycle of the enumeration object (the design model Mutants.tla abstracted to *)
(* "is there a generator that may be suspended"), for every mutator configuration   *)
(* and route (MutationController / mutator).  `next k` = k calls of next().  Count   *)
(* and Start are only scheduled while no enumeration is live (the property talks     *)
(* about one enumeration at a time).  Each = TRUE restricts to the family            *)
(* start, next k, close|abandon, count  -- an early exit at every yield.             *)
EXTENDS Naturals, Sequences, TLC, Json

CONSTANTS Cfgs, Routes, Depth, MaxK, SmallK, Each

VARIABLES hist, live, cfg, route
vars == <<hist, live, cfg, route>>

Act(op, k) == [op |-> op, k |-> k]
Init == /\ hist = <<>> /\ live = FALSE /\ cfg \in Cfgs /\ route \in Routes
LastOp == IF hist = <<>> THEN "none" ELSE hist[Len(hist)].op
Do(a, lv) == /\ hist' = Append(hist, a) /\ live' = lv /\ UNCHANGED <<cfg, route>>

Next ==
  /\ Len(hist) < Depth
  /\ \/ ~live /\ (Each => Len(hist) = 0) /\ Do(Act("start", 0), TRUE)
     \/ ~live /\ (Each => Len(hist) = 3) /\ Do(Act("count", 0), FALSE)
     \/ live /\ (Each => Len(hist) = 1)
             /\ \E k \in 1..MaxK : (k <= SmallK \/ LastOp = "start") /\ Do(Act("next", k), TRUE)
     \/ live /\ ~Each /\ Do(Act("exhaust", 0), FALSE)
     \/ live /\ (Each => Len(hist) = 2) /\ Do(Act("close", 0), FALSE)
     \/ live /\ (Each => Len(hist) = 2) /\ Do(Act("abandon", 0), FALSE)

Spec == Init /\ [][Next]_vars

Emit == Len(hist) = Depth => PrintT(<<"HIST", ToJson([cfg |-> cfg, route |-> route, hist |-> hist])>>)
=============================================================================

------------------------------ MODULE Literals ------------------------------
(***************************************************************************)
(* Design model for C20 and C23: the life of one literal slot of a test    *)
(* case and of the assertions generated for the value it produces.         *)
(*                                                                         *)
(*   Generate(v)     generate_literal: a literal of the requested type is  *)
(*                   rendered for a value v (random or seeded)             *)
(*   Adopt(s)        the slot holds a literal Pynguin did not render (a    *)
(*                   seeded / parsed test case): an integer literal in any *)
(*                   base, with or without a minus in front of it          *)
(*   Mutate(w)       mutate_literal: the slot is re-rendered for a value w *)
(*                   of the same type                                      *)
(*   LocalSearch(w)  parse_literal(slot) -> perturb -> literal_to_cst      *)
(*   Execute         the slot is evaluated; the statement binds the result *)
(*   Return(v, p)    or: the SUT produces an arbitrary value at position p *)
(*   Observe         RemoteAssertionTraceObserver decides the assertions   *)
(*   Export          every assertion is rendered and runs in the exported  *)
(*                   test file (with or without the pytest import)         *)
(*                                                                         *)
(* D = deviations switched on.  Literals.cfg checks D = {} (the intended   *)
(* design: every invariant holds); Literals_ascoded.cfg checks D = AsCoded *)
(* and TLC must report the violations the real tree shows.                 *)
(***************************************************************************)
EXTENDS LiteralsOps, TLC

CONSTANTS Dev,         \* "intended" | "ascoded"
          Scope        \* "small" | "medium" | "full": size of the value universe
D == IF Dev = "ascoded" THEN AsCoded ELSE Intended

VARIABLES phase,   \* "empty" | "literal" | "executed" | "asserted" | "exported"
          req,     \* requested kind of the slot
          expr,    \* rendered syntax in the slot
          val,     \* ghost: the value the slot was rendered for
          obs,     \* the value observed after execution
          pos,     \* where it was observed
          asserts, \* set of <<assertion kind, source>>
          verdicts \* set of <<assertion kind, source, namespace context, outcome>>
vars == <<phase, req, expr, val, obs, pos, asserts, verdicts>>

ComplexVals == {Cplx(a, b) : a, b \in {"f_nan", "f_negzero", "f_zero", "f_neg", "f_pos", "f_ninf"}}
AllAtoms == LeavesOf(LeafKinds) \cup ComplexVals
SmallAtoms == {Leaf("int", "i_neg"), Leaf("int", "i_digits"), Leaf("none", "n_none"), Leaf("bool", "b_true"),
               Leaf("float", "f_negzero"), Leaf("float", "f_nan"), Leaf("float", "f_pos"), Leaf("float", "f_ninf"),
               Leaf("str", "s_both"), Leaf("bytes", "y_high"),
               Leaf("enum", "e_top"), Leaf("enum", "e_int"), Leaf("enum", "e_nested"), Leaf("enum", "e_str"),
               Leaf("enum", "e_flagcombo"), Leaf("enum", "e_foreign"),
               Leaf("obj", "o_plain"), Leaf("obj", "o_local"), Leaf("obj", "o_dynamic"), Leaf("obj", "o_dict_keys"),
               Leaf("obj", "o_holder_float"), Leaf("obj", "o_decimal"),
               Cplx("f_negzero", "f_nan"), Cplx("f_pos", "f_neg")}
Atoms == IF Scope = "small" THEN SmallAtoms ELSE AllAtoms
Core == {Leaf("int", "i_neg"), Leaf("int", "i_digits"), Leaf("none", "n_none"),
         Leaf("float", "f_negzero"), Leaf("float", "f_nan"), Leaf("str", "s_both"),
         Leaf("enum", "e_top"), Leaf("enum", "e_nested"), Leaf("enum", "e_foreign"),
         Cplx("f_negzero", "f_nan"), Cplx("f_pos", "f_neg"), Leaf("obj", "o_plain")}
Tiny == {Leaf("int", "i_neg"), Leaf("float", "f_negzero"), Leaf("enum", "e_nested"), Cplx("f_pos", "f_neg")}
Elts == IF Scope = "full" THEN Core ELSE Tiny
HElts == {x \in Elts : Hashable(x)}
Cont1 == {Node(k, "", es) : k \in {"list", "tuple"}, es \in {<<>>} \cup {<<a>> : a \in Elts}}
         \cup {Node("list", "", <<a, b>>) : a, b \in IF Scope = "full" THEN Tiny ELSE {}}
         \cup {Node(k, "", es) : k \in {"set", "frozenset"}, es \in {<<>>} \cup {<<a>> : a \in HElts}}
         \cup {Node("dict", "", es) : es \in {<<>>} \cup {<<Pair(a, b)>> : a \in HElts, b \in Tiny}}
Cont2 == IF Scope = "small" THEN {}
         ELSE {Node(k, "", <<c>>) : k \in {"list", "tuple"}, c \in {x \in Cont1 : Len(x.es) = 1 /\ x.k \in {"list", "dict"}}}
Universe == Atoms \cup Cont1 \cup Cont2
PosFor(v) == IF v \in Atoms THEN Positions ELSE {"field"}
LitUniverse == {v \in Universe : InLitDomain(v)}

Init == /\ phase = "empty" /\ req = "-" /\ expr = Syn("-", "") /\ val = Leaf("-", "")
        /\ obs = Leaf("-", "") /\ pos = "-" /\ asserts = {} /\ verdicts = {}

Generate(v) ==
  /\ phase = "empty"
  /\ phase' = "literal" /\ req' = v.k /\ expr' = RenderL(v, D) /\ val' = v
  /\ UNCHANGED <<obs, pos, asserts, verdicts>>

(* integer literals as they can be written by hand: every base for every magnitude (a decimal literal  *)
(* beyond the digit limit is not Python), negative values with a minus in front of the literal        *)
AdoptMagnitudes == {"i_zero", "i_one", "i_pos", "i_huge", "i_digits"}
AdoptSyntax == LET lits == {Syn(k, c) : k \in IntSynKinds, c \in AdoptMagnitudes} \ {Syn("Int", "i_digits")}
               IN lits \cup {Neg(x) : x \in lits}
Adopt(s) ==
  /\ phase = "empty"
  /\ phase' = "literal" /\ req' = "int" /\ expr' = s /\ val' = Eval(s)
  /\ UNCHANGED <<obs, pos, asserts, verdicts>>

Mutate(w) ==
  /\ phase = "literal" /\ w.k = req
  /\ expr' = RenderL(w, D) /\ val' = w
  /\ UNCHANGED <<phase, req, obs, pos, asserts, verdicts>>

Parsed == CASE req = "int" -> ParseInt(expr) [] req = "float" -> ParseFloat(expr) [] OTHER -> NotParsed
LocalSearch(w) ==
  /\ phase = "literal" /\ req \in {"int", "float"} /\ ~HasRaise(expr)
  /\ Parsed # NotParsed            \* an unparseable slot is left alone
  /\ w.k = req
  /\ expr' = RenderL(w, D) /\ val' = w
  /\ UNCHANGED <<phase, req, obs, pos, asserts, verdicts>>

Execute ==
  /\ phase = "literal" /\ ~HasRaise(expr) /\ ~IsErr(Eval(expr))
  /\ phase' = "executed" /\ obs' = Eval(expr) /\ pos' = "var"
  /\ UNCHANGED <<req, expr, val, asserts, verdicts>>

Return(v, p) ==
  /\ phase = "empty"
  /\ phase' = "executed" /\ obs' = v /\ pos' = p
  /\ UNCHANGED <<req, expr, val, asserts, verdicts>>

Observe ==
  /\ phase = "executed"
  /\ phase' = "asserted" /\ asserts' = Observed(obs, pos, D)
  /\ UNCHANGED <<req, expr, val, obs, pos, verdicts>>

\* the value an assertion with source src is about
Asserted(src) == IF src = "self" /\ pos # "var" THEN Leaf("obj", "o_plain")   \* the holder object / 1
                 ELSE IF src = "field" /\ pos = "var" THEN Leaf("float", "f_pos") \* o_holder_float.field
                 ELSE obs
Export ==
  /\ phase = "asserted"
  /\ phase' = "exported"
  /\ verdicts' = {<<a[1], a[2], n, IF a[1] = "object" /\ a[2] = "self" /\ pos = "global" THEN "pass"
                                   ELSE Predict(Asserted(a[2]), a[1], n, D)>> : a \in asserts, n \in NsContexts}
  /\ UNCHANGED <<req, expr, val, obs, pos, asserts>>

Reset == /\ phase \in {"exported", "literal"} /\ phase' = "empty"
         /\ req' = "-" /\ expr' = Syn("-", "") /\ val' = Leaf("-", "") /\ obs' = Leaf("-", "")
         /\ pos' = "-" /\ asserts' = {} /\ verdicts' = {}

Next == \/ \E v \in LitUniverse : Generate(v) \/ Mutate(v) \/ LocalSearch(v)
        \/ \E s \in AdoptSyntax : Adopt(s)
        \/ \E v \in Universe : \E p \in PosFor(v) : Return(v, p)
        \/ Execute \/ Observe \/ Export \/ Reset
Spec == Init /\ [][Next]_vars

(* ---------------- C23 ---------------- *)
RenderedLiteralIsValidPython == phase = "literal" => ~HasRaise(expr) /\ Eval(expr).k # "error"
EvaluatesToRequestedType     == (phase = "literal" /\ ~HasRaise(expr)) => Eval(expr).k = req
RoundTrip                    == (phase = "literal" /\ ~HasRaise(expr)) => Same(Eval(expr), val)
ParseBackAgrees              == (phase = "literal" /\ ~HasRaise(expr) /\ Parsed # NotParsed) => Same(Parsed, val)
(* every integer literal, rendered or adopted, can be read by local search / delta mutation *)
IntLiteralIsParseable        == (phase = "literal" /\ req = "int" /\ ~HasRaise(expr)) => Parsed # NotParsed
(* ---------------- C20 ---------------- *)
RenderNeverFails              == \A x \in verdicts : x[4] # "raise"
AssertionHoldsOnObservedValue == \A x \in verdicts : x[4] \in {"pass", "raise"}
(* a value that is executed keeps its identity up to ~ (the slot denotes what was generated) *)
ExecutionObservesTheLiteral   == (phase = "executed" /\ val.k # "-") => Same(obs, val)
=============================================================================

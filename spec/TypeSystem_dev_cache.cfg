CONSTANTS
  NUser = 2
  Level = 0
  MaxSteps = 2
  Deviations = {"NoProviderClearOnAddEdge"}
  Prov = "G"
  FixedRoots = TRUE
SPECIFICATION Spec
INVARIANT CacheCoherent

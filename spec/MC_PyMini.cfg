CONSTANTS
  Depth2 = FALSE
  DLen = 3
SPECIFICATION Spec
INVARIANT Emit

------------------------------- MODULE Pipeline -------------------------------
(***************************************************************************)
(* Post-search pipeline of pynguin.generator._run over ONE test case:      *)
(*   assertion generation -> [assertion minimisation] -> statement         *)
(*   minimisation (ga.postprocess) -> unused-variable removal              *)
(*   (TestCase.remove_unused_variables) -> export (testcase.export)        *)
(* A statement is [id, bv (binds a variable), uses (ids of earlier         *)
(* statements whose variable it reads), asserts (number of reference       *)
(* assertions on its variable), about (ids of EARLIER statements whose     *)
(* object state is asserted right after this statement: assertion          *)
(* generation attaches `assert var_0.on is True` to the call that changed  *)
(* var_0, not to the statement that created it), raises ("none" |          *)
(* "expected" | "unexpected"), covers (goals only this statement reaches)].*)
(* Properties: C19 KeepAsserts, C22 MinKeeps, C18 export decision table.   *)
(* KeepAssertedBinding = FALSE models remove_unused_variables as it was    *)
(* before commit 1355a01 (must violate KeepAsserts).                        *)
(* ProtectCarriers = FALSE models statement minimisation as it was before  *)
(* commit b1928d7: only the variables that assertions read (and what they  *)
(* depend on) were protected, not the statements that carry assertions     *)
(* (must violate KeepAsserts as well).                                     *)
(***************************************************************************)
EXTENDS Naturals, Sequences, FiniteSets, TLC

CONSTANTS MaxLen, Goals, KeepAssertedBinding, NoXfail, ProtectCarriers

Raises == {"none", "expected", "unexpected"}
StmtIds == 1..MaxLen

VARIABLES tc,        \* sequence of statements
          phase,     \* "build" | "gen" | "asserted" | "minimized" | "cleaned" | "exported"
          asserts0,  \* id -> number of assertions right after assertion generation/minimisation
          cov0,      \* goals covered before statement minimisation
          ids0,      \* statement ids before statement minimisation
          file       \* exported function: [lines: seq of [id, bound, nassert, wrapped], xfail]
vars == <<tc, phase, asserts0, cov0, ids0, file>>

Stmt(i, bv, uses, a, ab, r, c) ==
  [id |-> i, bv |-> bv, uses |-> uses, asserts |-> a, about |-> ab, raises |-> r, covers |-> c]
Carried(s) == s.asserts + Cardinality(s.about)       \* assertions attached to the statement
Ids(t) == {t[k].id : k \in DOMAIN t}
Cov(t) == UNION {t[k].covers : k \in DOMAIN t}
UsedLater(t, k) == \E j \in (k+1)..Len(t) : t[k].id \in t[j].uses
NoFile == [lines |-> <<>>, xfail |-> FALSE]

(* all well-formed test cases up to MaxLen: a statement only uses earlier bound statements; *)
(* assertions only on bound statements; only the last executed statement may raise           *)
WellFormed(t) ==
  /\ \A k \in DOMAIN t : t[k].id = k
  /\ \A k \in DOMAIN t : t[k].uses \subseteq {j \in 1..(k-1) : t[j].bv}
  /\ \A k \in DOMAIN t : (t[k].asserts > 0 => t[k].bv) /\ (t[k].raises # "none" => (k = Len(t) /\ Carried(t[k]) = 0))
  /\ \A k \in DOMAIN t : t[k].about \subseteq t[k].uses

Init ==
  /\ phase = "build" /\ asserts0 = [i \in StmtIds |-> 0] /\ cov0 = {} /\ ids0 = {} /\ file = NoFile
  /\ tc = <<>>

(* the search + assertion generation produce some well-formed test case, one statement at a time *)
AddStmt ==
  /\ phase = "build" /\ Len(tc) < MaxLen
  /\ (IF tc = <<>> THEN TRUE ELSE tc[Len(tc)].raises = "none")
  /\ \E bv \in BOOLEAN, a \in 0..1, r \in Raises, c \in SUBSET Goals,
        uses \in SUBSET {j \in DOMAIN tc : tc[j].bv} :
        \E ab \in SUBSET uses :          \* the state of a receiver/argument may be asserted afterwards
        /\ (a > 0 => bv) /\ (r # "none" => (a = 0 /\ ab = {}))
        /\ tc' = Append(tc, Stmt(Len(tc) + 1, bv, uses, a, ab, r, c))
  /\ UNCHANGED <<phase, asserts0, cov0, ids0, file>>
BuildDone == phase = "build" /\ tc # <<>> /\ phase' = "gen" /\ UNCHANGED <<tc, asserts0, cov0, ids0, file>>

(* tc already carries the assertions of assertion generation / minimisation *)
Snapshot ==
  /\ phase = "gen" /\ phase' = "asserted"
  /\ asserts0' = [i \in StmtIds |-> IF i \in Ids(tc) THEN Carried(tc[i]) ELSE 0]
  /\ cov0' = Cov(tc) /\ ids0' = Ids(tc)
  /\ UNCHANGED <<tc, file>>

(* statement minimisation: remove one statement if nothing later uses it, coverage stays,  *)
(* and its variable is not read by an assertion (directly, or as the object whose state a  *)
(* later statement asserts); with ProtectCarriers also if it carries assertions itself     *)
ReadByAssertion(t, k) == t[k].asserts > 0 \/ \E j \in DOMAIN t : t[k].id \in t[j].about
Removable(t, k) == ~UsedLater(t, k) /\ Cov(SubSeq(t, 1, k-1) \o SubSeq(t, k+1, Len(t))) = Cov(t)
                   /\ ~ReadByAssertion(t, k) /\ t[k].raises = "none"
                   /\ (ProtectCarriers => Carried(t[k]) = 0)
MinimizeStep ==
  /\ phase = "asserted"
  /\ \E k \in DOMAIN tc : Removable(tc, k) /\ tc' = SubSeq(tc, 1, k-1) \o SubSeq(tc, k+1, Len(tc))
  /\ UNCHANGED <<phase, asserts0, cov0, ids0, file>>
MinimizeDone == phase = "asserted" /\ phase' = "minimized" /\ UNCHANGED <<tc, asserts0, cov0, ids0, file>>

(* remove_unused_variables: an unused binding becomes an expression statement *)
Clean ==
  /\ phase = "minimized" /\ phase' = "cleaned"
  /\ tc' = [k \in DOMAIN tc |->
              IF tc[k].bv /\ ~UsedLater(tc, k) /\ ~(KeepAssertedBinding /\ tc[k].asserts > 0)
              THEN [tc[k] EXCEPT !.bv = FALSE, !.asserts = IF KeepAssertedBinding THEN @ ELSE 0]
              ELSE tc[k]]
  /\ UNCHANGED <<asserts0, cov0, ids0, file>>

(* export: one line per statement followed by its assertions; raising statements are wrapped *)
(* in pytest.raises when expected (or NoXfail), otherwise the function is marked xfail       *)
Export ==
  /\ phase = "cleaned" /\ phase' = "exported"
  /\ file' = [lines |-> [k \in DOMAIN tc |->
                           [id |-> tc[k].id, bound |-> tc[k].bv, nassert |-> Carried(tc[k]),
                            wrapped |-> tc[k].raises = "expected" \/ (NoXfail /\ tc[k].raises = "unexpected")]],
              xfail |-> \E k \in DOMAIN tc : tc[k].raises = "unexpected" /\ ~NoXfail]
  /\ UNCHANGED <<tc, asserts0, cov0, ids0>>

Next == AddStmt \/ BuildDone \/ Snapshot \/ MinimizeStep \/ MinimizeDone \/ Clean \/ Export
Spec == Init /\ [][Next]_vars

(* ---- C19 ---- *)
KeepAsserts ==
  phase = "exported" =>
    \A i \in StmtIds : asserts0[i] > 0 =>
      \E k \in DOMAIN file.lines : /\ file.lines[k].id = i /\ file.lines[k].nassert = asserts0[i]
                                   \* an assertion on the statement's own variable needs the binding
                                   /\ (\E j \in DOMAIN tc : tc[j].id = i /\ tc[j].asserts > 0) => file.lines[k].bound
(* ---- C22 ---- *)
MinKeeps ==
  phase \in {"minimized", "cleaned", "exported"} =>
    /\ Cov(tc) = cov0 /\ Ids(tc) \subseteq ids0
    /\ \A i \in StmtIds : asserts0[i] > 0 => i \in Ids(tc)
(* ---- C18: what pytest must say about the exported function ---- *)
Verdict(f, t) ==
  IF \E k \in DOMAIN t : t[k].raises # "none" /\ ~f.lines[k].wrapped THEN "fails" ELSE "passes"
ExportVerdict ==
  phase = "exported" => ((Verdict(file, tc) = "fails") = file.xfail)
=============================================================================

CONSTANTS
  NUser = 2
  Level = 0
  MaxSteps = 2
  Deviations = {}
  Prov = "R"
  FixedRoots = TRUE
SPECIFICATION Spec
INVARIANT TypeOK
INVARIANT CacheCoherent
INVARIANT OfferedNowCompatible

CONSTANTS
  MaxLen = 3
  Goals = {1, 2}
  KeepAssertedBinding = TRUE
  ProtectCarriers = FALSE
  NoXfail = FALSE
SPECIFICATION Spec
INVARIANT KeepAsserts
INVARIANT MinKeeps
INVARIANT ExportVerdict

------------------------------- MODULE Archive --------------------------------
(***************************************************************************)
(* Design model for C13: the archives of pynguin (CoverageArchive used by  *)
(* MOSA/DynaMOSA/whole suite, MIOPopulation and MIOArchive used by MIO) as *)
(* state machines with one action per public call, over a finite pool of   *)
(* solution objects.  The transition functions are the pure operators of   *)
(* ArchiveOps; this module checks that they imply the clauses of C13.      *)
(* One behaviour stays in one mode (one archive object).                   *)
(***************************************************************************)
EXTENDS ArchiveOps, TLC

CONSTANTS NG,        \* number of goals
          Sizes,     \* test-case lengths
          ResKinds,  \* subset of {"ok","exc","to","none"}
          Copies,    \* distinct objects per shape
          FitsCov,   \* fitness classes used with the coverage archive, e.g. {1, HOne+1}
          FitsMio,   \* fitness classes used with the MIO archive, e.g. {1, 2, HOne+1}
          FitsPop,   \* fitness classes used with a bare MIOPopulation, e.g. {0, 1, 2, HOne+1}
          MaxLenCov, \* longest solution list of one CoverageArchive.update
          MaxLenMio, \* longest solution list of one MIOArchive.update
          Cap0,      \* initial population size of MIO
          MaxSteps,  \* bound on the number of calls in the MIO modes
          Modes      \* subset of {"cov","mio","pop"}

VARIABLES mode, v, last, steps,
          capn       \* the capacity announced to the MIO archive / population: initial size, then the n of
                     \* the last shrink (MIOAlgorithm._update_parameters lowers n at any fill level)
vars == <<mode, v, last, steps, capn>>

Goal == 1..NG
RIdx(r) == CASE r = "ok" -> 0 [] r = "exc" -> 1 [] r = "to" -> 2 [] OTHER -> 3
RECURSIVE FitCode(_, _)
FitCode(fit, g) == IF g > NG THEN 0
                   ELSE (IF fit[g] >= HOne THEN fit[g] - HOne + 3 ELSE fit[g]) + 5 * FitCode(fit, g + 1)
MkSol(fit, sz, r, c) ==
  [id |-> c + Copies * (RIdx(r) + 4 * (sz + 8 * FitCode(fit, 1))),
   size |-> sz, res |-> r, epos |-> IF r = "exc" THEN Max2(0, sz - 2) ELSE 0, fit |-> fit]
PoolOf(F, R) == {MkSol(fit, sz, r, c) : fit \in [Goal -> F], sz \in Sizes, r \in R, c \in 1..Copies}
PoolCov == PoolOf(FitsCov, ResKinds)
\* class HOne ("tiny": h rounds to 1.0 although the fitness is > 0) is outside the design
\* assumption "h = 1.0 iff fitness = 0.0"; it is only used by behaviour generation, sparsely
TinyOK(s) == \A g \in Goal : s.fit[g] = HOne =>
               (s.size = 1 /\ s.res = "ok" /\ \A k \in Goal \ {g} : s.fit[k] = 1)
\* MIOArchive.update asserts that an execution result exists
PoolMio == {s \in PoolOf(FitsMio, ResKinds \ {"none"}) : TinyOK(s)}
PoolPop == {s \in PoolOf(FitsPop, ResKinds) : \A g \in Goal : g > 1 => s.fit[g] = 1}
SeqsUpTo(S, n) == UNION {[1..k -> S] : k \in 0..n}
GoalSeqs == {q \in SeqsUpTo(Goal, NG) : \A i, j \in DOMAIN q : i # j => q[i] # q[j]}

EmptyPop(c) == [cap |-> c, counter |-> 0, covd |-> FALSE, sols |-> <<>>]
View0(objs, c) == [objs |-> objs, unc |-> ToSet(objs), cov |-> [g \in Goal |-> NoSol],
                   pops |-> [g \in Goal |-> EmptyPop(c)]]
Act(op, offered, gs, n) == [op |-> op, offered |-> offered, gs |-> gs, n |-> n]
NoAct == Act("init", <<>>, <<>>, 0)

Init ==
  /\ mode \in Modes
  /\ steps = 0
  /\ last = NoAct
  /\ IF mode = "cov"
     THEN (\E objs \in {<<>>, [g \in Goal |-> g]} : v = View0(objs, 0)) /\ capn = 0   \* DynaMOSA | MOSA
     ELSE \E c \in 1..Cap0 : v = View0(<<>>, c) /\ capn = c

Tick == /\ steps' = (IF mode = "cov" THEN 0 ELSE steps + 1)
        /\ UNCHANGED mode

(* ---- CoverageArchive ---- *)
CovUpdateA == /\ mode = "cov"
              /\ \E sols \in SeqsUpTo(PoolCov, MaxLenCov) :
                   /\ v' = CovUpdate(v, sols).st
                   /\ last' = Act("update", sols, <<>>, 0)
              /\ Tick /\ UNCHANGED capn
AddGoalsA == /\ mode = "cov"
             /\ \E gs \in GoalSeqs : v' = AddGoals(v, gs) /\ last' = Act("add_goals", <<>>, gs, 0)
             /\ Tick /\ UNCHANGED capn
ResetA == /\ mode = "cov"
          /\ v' = Reset(v) /\ last' = Act("reset", <<>>, <<>>, 0)
          /\ Tick /\ UNCHANGED capn

(* ---- MIOArchive ---- *)
MioUpdateA == /\ mode = "mio"
              /\ \E sols \in SeqsUpTo(PoolMio, MaxLenMio) :
                   /\ v' = MioUpdate(v, sols).st
                   /\ last' = Act("mio_update", sols, <<>>, 0)
              /\ Tick /\ UNCHANGED capn
MioShrinkA == /\ mode = "mio"
              /\ \E n \in 1..Cap0 : v' = MioShrink(v, n) /\ last' = Act("shrink", <<>>, <<>>, n) /\ capn' = n
              /\ Tick
MioGetSolA == /\ mode = "mio"
              /\ v' \in MioGetSolPosts(v) /\ last' = Act("getsol", <<>>, <<>>, 0)
              /\ Tick /\ UNCHANGED capn

(* ---- a single MIOPopulation (goal 1), called directly with h = h(fit[1]), 0.0 included ---- *)
PopAddA == /\ mode = "pop"
           /\ \E s \in PoolPop :
                /\ v' = [v EXCEPT !.pops[1] = PopAdd(@, HOf(s.fit[1]), AsCov(s)).pop]
                /\ last' = Act("pop_add", <<s>>, <<>>, 0)
           /\ Tick /\ UNCHANGED capn
PopShrinkA == /\ mode = "pop"
              /\ \E n \in 1..Cap0 : /\ v' = [v EXCEPT !.pops[1] = PopShrink(@, n)]
                                    /\ last' = Act("pop_shrink", <<>>, <<>>, n) /\ capn' = n
              /\ Tick
PopSampleA == /\ mode = "pop"
              /\ v' = [v EXCEPT !.pops[1] = PopSample(@)]
              /\ last' = Act("pop_sample", <<>>, <<>>, 0)
              /\ Tick /\ UNCHANGED capn

Next == \/ CovUpdateA \/ AddGoalsA \/ ResetA
        \/ MioUpdateA \/ MioShrinkA \/ MioGetSolA
        \/ PopAddA \/ PopShrinkA \/ PopSampleA

Spec == Init /\ [][Next]_vars
Bound == steps <= MaxSteps
\* `last` only carries the arguments of the call into the action properties; two states that
\* differ in `last` alone have the same future (TLC checks action properties on every
\* generated transition, also those into states it has already seen)
StateView == <<mode, v, steps, capn>>

(* ---- sanity of the model ---- *)
ASolOK(s) == s = NoSol \/ (s.id > 0 /\ s.size >= 1 /\ s.covers \subseteq Goal)
TypeOK ==
  /\ mode \in Modes /\ capn \in 0..Cap0
  /\ ToSet(v.objs) \subseteq Goal /\ v.unc \subseteq Goal
  /\ \A g \in Goal : ASolOK(v.cov[g])
  /\ \A g \in Goal : /\ v.pops[g].cap \in 0..Cap0 /\ v.pops[g].counter \in Nat
                     /\ v.pops[g].covd = PopCov(v.pops[g])
                     /\ \A i \in DOMAIN v.pops[g].sols : ASolOK(v.pops[g].sols[i].sol)
PopsSorted == \A g \in Goal : SortedDesc(v.pops[g].sols)
\* an archived solution is archived for g with the h it has for g (MIOArchive)
PopsHMatch == mode \in {"mio", "pop"} =>
  \A g \in Goal : \A i \in DOMAIN v.pops[g].sols :
     (v.pops[g].sols[i].h = HOne) <=> (g \in v.pops[g].sols[i].sol.covers)

(* ---- C13 ---- *)
CoveredGrows      == [][CoveredGrowsP(v, v', last'.op = "reset")]_vars
ArchivedCovers    == ArchivedCoversP(v)
ReplaceRule       == [][ReplaceRuleP(v, v', last'.offered)]_vars
MIOCap            == MIOCapP(v) /\ (mode \in {"mio", "pop"} => MIOCapNP(v, capn))
MIOCoveredOne     == MIOCoveredOneP(v)
MIOStaysCovered   == [][MIOStaysP(v, v')]_vars
CoveredConsistent == CoveredConsistentP(v)
\* beyond the statement, true of the design: an offered covering solution gets its goal recorded
RecordsCoverage   == [][last'.op = "update" =>
                        \A g \in ToSet(v.objs) :
                          (\E i \in DOMAIN last'.offered : g \in FitCovers(last'.offered[i].fit))
                             => g \in CovSet(v')]_vars
=============================================================================

CONSTANTS
  Mode = "assert"
  Size = "quick"
  Members = {0}
  Draws = {1}
SPECIFICATION Spec
INVARIANT Emit

------------------------------ MODULE CacheOps ------------------------------
(***************************************************************************)
(* Pure semantics of pynguin's demand-driven computation cache (C12).      *)
(*                                                                         *)
(* World  W == [t |-> [TestId -> TRec], s |-> [SuiteId -> SRec], clk]      *)
(*   TRec : one TestCaseChromosome                                         *)
(*     alive, owner (0 = held by the caller, n = member of suite n),       *)
(*     c    content version of the wrapped test case (0 = no statement),   *)
(*     sut  TestFactory.has_call_on_sut(test_case),                        *)
(*     chg  Chromosome.changed,                                            *)
(*     res  content version under which _last_execution_result was made    *)
(*          (None = no result),                                            *)
(*     ff, cf   registered fitness / coverage functions (lists),           *)
(*     fit, isc, cov : function -> None or the content version from which  *)
(*          the cached value was computed (ComputationCache._*_cache).     *)
(*   SRec : one TestSuiteChromosome: alive, mem (list of test ids), chg,   *)
(*     ff, cf, fit/isc/cov : function -> NoneS or the SET of member        *)
(*     content versions from which the cached value was computed.          *)
(*                                                                         *)
(* The value of a function on a test is an injective image of the content  *)
(* version of the execution result it was computed from; on a suite it is  *)
(* an injective image of the set of non-empty member versions.  So         *)
(* "returned value = value recomputed from scratch" is "cached version =   *)
(* current content version".                                               *)
(*                                                                         *)
(* Faults: the code paths of the pinned tree that break C12.  With         *)
(* Faults = {} the operators describe the intended design (the suggested   *)
(* repairs), with all four faults they describe the code as it is.         *)
(*   "size_check"     _check_cache decides by len(cache) # len(funcs)      *)
(*   "agg_over_cache" get_fitness/get_coverage aggregate all cached values *)
(*   "flag_reset"     _check_cache clears `changed` although nothing ran   *)
(*   "silent_restore" TestCaseMutation.mutate ignores the result of the    *)
(*                    _mutation_insert after restoring the backup          *)
(***************************************************************************)
EXTENDS Integers, Sequences, FiniteSets

CONSTANTS FF,        \* fitness function ids (strings)
          CF,        \* coverage function ids (strings)
          Faults,    \* subset of AllFaults
          FactoryFF  \* functions the test case chromosome factory registers (a sequence)

AllFaults == {"size_check", "agg_over_cache", "flag_reset", "silent_restore"}

None   == -1
NoneS  == {-1}
EmptyV == 0

SeqToSet(q) == {q[i] : i \in DOMAIN q}
MaxOf(S) == CHOOSE x \in S : \A y \in S : y <= x
MinOf(S) == CHOOSE x \in S : \A y \in S : x <= y

Keys(m, N)   == {k \in DOMAIN m : m[k] # N}
Wipe(m, N)   == [k \in DOMAIN m |-> N]
Put(m, ks, v) == [k \in DOMAIN m |-> IF k \in ks THEN v ELSE m[k]]

NoFit  == [k \in FF |-> None]
NoCov  == [k \in CF |-> None]
NoFitS == [k \in FF |-> NoneS]
NoCovS == [k \in CF |-> NoneS]

DeadT == [alive |-> FALSE, owner |-> 0, c |-> 0, sut |-> FALSE, chg |-> FALSE, res |-> None,
          ff |-> <<>>, cf |-> <<>>, fit |-> NoFit, isc |-> NoFit, cov |-> NoCov]
DeadS == [alive |-> FALSE, mem |-> <<>>, chg |-> FALSE, ff |-> <<>>, cf |-> <<>>,
          fit |-> NoFitS, isc |-> NoFitS, cov |-> NoCovS]

\* a chromosome as the constructors make it: changed, nothing executed, nothing cached
NewT(c, sut, ff, cf, owner) ==
  [alive |-> TRUE, owner |-> owner, c |-> c, sut |-> sut, chg |-> TRUE, res |-> None,
   ff |-> ff, cf |-> cf, fit |-> NoFit, isc |-> NoFit, cov |-> NoCov]
NewS(mem, ff, cf) ==
  [alive |-> TRUE, mem |-> mem, chg |-> TRUE, ff |-> ff, cf |-> cf,
   fit |-> NoFitS, isc |-> NoFitS, cov |-> NoCovS]

TIdsOf(W) == DOMAIN W.t
SIdsOf(W) == DOMAIN W.s
FreeT(W) == {i \in TIdsOf(W) : ~W.t[i].alive}
FreeS(W) == {i \in SIdsOf(W) : ~W.s[i].alive}

\* the n smallest free test slots, ascending (n <= Cardinality(FreeT(W)))
RECURSIVE Smallest(_, _)
Smallest(S, n) == IF n = 0 THEN <<>> ELSE LET m == MinOf(S) IN <<m>> \o Smallest(S \ {m}, n - 1)
Slots(W, n) == Smallest(FreeT(W), n)

(***************************************************************************)
(* Queries: ComputationCache._check_cache + _compute_* + the getters.      *)
(* kind: "fit" get_fitness_for(f)   "isc" get_is_covered(f)                *)
(*       "cov" get_coverage_for(f)  "fitsum" get_fitness()  "covmean"      *)
(*       get_coverage()                                                    *)
(***************************************************************************)
Kinds == {"fit", "isc", "cov", "fitsum", "covmean"}
Single(kind) == kind \in {"fit", "isc", "cov"}
OnCov(kind)  == kind \in {"cov", "covmean"}
Funcs(x, kind)    == IF OnCov(kind) THEN x.cf ELSE x.ff
CacheFor(x, kind) == IF OnCov(kind) THEN x.cov ELSE IF kind = "isc" THEN x.isc ELSE x.fit
Targets(x, kind, f) == IF Single(kind) THEN {f} ELSE SeqToSet(Funcs(x, kind))
FuncArgs(kind) == IF Single(kind) THEN (IF OnCov(kind) THEN CF ELSE FF) ELSE {""}

\* _check_cache: which entries get computed
Plan(x, kind, f, N) ==
  LET inv    == x.chg
      cache0 == IF inv THEN Wipe(CacheFor(x, kind), N) ELSE CacheFor(x, kind)
      need   == IF inv THEN TRUE
                ELSE IF "size_check" \in Faults
                     THEN Cardinality(Keys(cache0, N)) # Len(Funcs(x, kind))
                     ELSE TRUE      \* repaired: always let _compute_* fill what is missing
      miss   == IF need THEN {k \in Targets(x, kind, f) : cache0[k] = N} ELSE {}
  IN [inv |-> inv, miss |-> miss]

WipeT(t) == [t EXCEPT !.fit = NoFit, !.isc = NoFit, !.cov = NoCov]
WipeS(x) == [x EXCEPT !.fit = NoFitS, !.isc = NoFitS, !.cov = NoCovS]

\* what the getter reports for a cache `c2` when the chromosome's current value is `cur`
Verdict(kind, f, c2, regset, cur, N) ==
  LET raised == IF Single(kind) THEN c2[f] = N                      \* KeyError
                ELSE kind = "covmean" /\ Keys(c2, N) = {}            \* statistics.mean([])
      ok     == IF Single(kind) THEN c2[f] = cur
                ELSE IF "agg_over_cache" \in Faults
                     THEN \A k \in DOMAIN c2 : c2[k] = (IF k \in regset THEN cur ELSE N)
                     ELSE \A k \in regset : c2[k] = cur
      reg    == IF Single(kind) THEN f \in regset
                ELSE (kind = "fitsum" \/ regset # {})
  IN [reg |-> reg, raised |-> raised, stale |-> (~raised /\ ~ok)]

\* test case chromosome: TestCaseChromosomeComputation._run_test_case_chromosome executes
\* only if changed or no result yet
TQueryT(t, kind, f) ==
  LET p    == Plan(t, kind, f, None)
      t1   == IF p.inv THEN WipeT(t) ELSE t
      exec == p.miss # {} /\ (t1.chg \/ t1.res = None)
      res1 == IF exec THEN t1.c ELSE t1.res
      chg1 == IF exec THEN FALSE
              ELSE IF p.inv /\ "flag_reset" \in Faults THEN FALSE
              ELSE t1.chg
  IN [t1 EXCEPT !.res = res1, !.chg = chg1,
                !.fit = IF kind \in {"fit", "fitsum"} THEN Put(@, p.miss, res1) ELSE @,
                !.isc = IF kind \in {"fit", "fitsum", "isc"} THEN Put(@, p.miss, res1) ELSE @,
                !.cov = IF OnCov(kind) THEN Put(@, p.miss, res1) ELSE @]

TQuery(W, a, kind, f) ==
  LET t2 == TQueryT(W.t[a], kind, f)
  IN [W |-> [W EXCEPT !.t[a] = t2],
      v |-> Verdict(kind, f, CacheFor(t2, kind), SeqToSet(Funcs(t2, kind)), t2.c, None)]

\* TestSuiteChromosomeComputation._run_test_suite_chromosome
RunSuite(W, s) ==
  LET mem == SeqToSet(W.s[s].mem)
      t1  == [m \in DOMAIN W.t |->
                IF m \in mem /\ (W.t[m].chg \/ W.t[m].res = None)
                THEN [WipeT(W.t[m]) EXCEPT !.res = W.t[m].c, !.chg = FALSE]
                ELSE W.t[m]]
  IN [t |-> t1, v |-> {t1[m].res : m \in mem} \ {EmptyV}]

SuiteValue(W, s) == {W.t[m].c : m \in SeqToSet(W.s[s].mem)} \ {EmptyV}

SQuery(W, s, kind, f) ==
  LET x    == W.s[s]
      p    == Plan(x, kind, f, NoneS)
      x1   == IF p.inv THEN WipeS(x) ELSE x
      exec == p.miss # {}
      run  == RunSuite(W, s)
      chg1 == IF p.inv /\ (exec \/ "flag_reset" \in Faults) THEN FALSE ELSE x1.chg
      x2   == [x1 EXCEPT !.chg = chg1,
                 !.fit = IF kind \in {"fit", "fitsum"} THEN Put(@, p.miss, run.v) ELSE @,
                 !.isc = IF kind \in {"fit", "fitsum", "isc"} THEN Put(@, p.miss, run.v) ELSE @,
                 !.cov = IF OnCov(kind) THEN Put(@, p.miss, run.v) ELSE @]
      W2   == [W EXCEPT !.t = IF exec THEN run.t ELSE @, !.s[s] = x2]
  IN [W |-> W2,
      v |-> Verdict(kind, f, CacheFor(x2, kind), SeqToSet(Funcs(x2, kind)), SuiteValue(W2, s), NoneS)]

(***************************************************************************)
(* Deterministic edits of the cache bookkeeping                            *)
(***************************************************************************)
TAddF(W, a, f) == [W EXCEPT !.t[a].ff = Append(@, f)]
TAddC(W, a, f) == [W EXCEPT !.t[a].cf = Append(@, f)]
SAddF(W, s, f) == [W EXCEPT !.s[s].ff = Append(@, f)]
SAddC(W, s, f) == [W EXCEPT !.s[s].cf = Append(@, f)]
TInv(W, a) == [W EXCEPT !.t[a] = WipeT(@)]
SInv(W, s) == [W EXCEPT !.s[s] = WipeS(@)]

\* Chromosome(orig=...): everything is copied, including changed flag, result and caches
TClone(W, a, b) == [W EXCEPT !.t[b] = [W.t[a] EXCEPT !.owner = 0]]

SClone(W, s, b) ==
  LET mem == W.s[s].mem
      sl  == Slots(W, Len(mem))
  IN [W EXCEPT !.s[b] = [W.s[s] EXCEPT !.mem = sl],
               !.t = [m \in DOMAIN W.t |->
                        IF \E i \in DOMAIN sl : sl[i] = m
                        THEN [W.t[mem[CHOOSE i \in DOMAIN sl : sl[i] = m]] EXCEPT !.owner = b]
                        ELSE W.t[m]]]

(***************************************************************************)
(* Suite edits                                                             *)
(***************************************************************************)
SAdd(W, s, a) == [W EXCEPT !.s[s].mem = Append(@, a), !.s[s].chg = TRUE, !.t[a].owner = s]

\* list.remove(test): the first member that compares equal (same code) is removed
SDelVictim(W, s, a) ==
  LET mem == W.s[s].mem
      eq  == {i \in DOMAIN mem : mem[i] = a \/ W.t[mem[i]].c = W.t[a].c}
  IN IF eq = {} THEN 0 ELSE MinOf(eq)

RemoveAt(q, i) == SubSeq(q, 1, i - 1) \o SubSeq(q, i + 1, Len(q))

SDel(W, s, a) ==
  LET i == SDelVictim(W, s, a)
  IN IF i = 0 THEN W
     ELSE [W EXCEPT !.s[s].mem = RemoveAt(@, i), !.s[s].chg = TRUE, !.t[W.s[s].mem[i]] = DeadT]

SSet(W, s, i, a) ==
  LET old == W.s[s].mem[i]
  IN [W EXCEPT !.s[s].mem[i] = a, !.s[s].chg = TRUE,
               !.t = [[W.t EXCEPT ![old] = DeadT] EXCEPT ![a].owner = s]]

\* splice_test_suite_chromosomes(parent, other, p, q): parent[:p] + clones of other[q:]
SXoverNeed(W, s2, q) == Len(W.s[s2].mem) - q
SXover(W, s, s2, p, q) ==
  LET mem  == W.s[s].mem
      keep == SubSeq(mem, 1, p)
      tail == SubSeq(W.s[s2].mem, q + 1, Len(W.s[s2].mem))
      sl   == Slots(W, Len(tail))
      drop == {mem[i] : i \in (p + 1)..Len(mem)}
  IN [W EXCEPT !.s[s].mem = keep \o sl, !.s[s].chg = TRUE,
               !.t = [m \in DOMAIN W.t |->
                        IF \E i \in DOMAIN sl : sl[i] = m
                        THEN [W.t[tail[CHOOSE i \in DOMAIN sl : sl[i] = m]] EXCEPT !.owner = s]
                        ELSE IF m \in drop THEN DeadT ELSE W.t[m]]]

(***************************************************************************)
(* Search operators.  What they do to the statements is decided by the     *)
(* random test factory; the outcome `o` = [id, c, chg, sut, did] gives the *)
(* content version, changed flag and SUT-call flag after the call.  The    *)
(* predicates say which outcomes the operator code admits.                 *)
(***************************************************************************)
\* TestCaseMutation.mutate: `changed` is set iff one of delete/change/insert reported an edit;
\* the insert after restoring the backup (no call on the SUT left) is not reported.
TMutOK(t, o) ==
  /\ (t.chg => o.chg)
  /\ (o.c = t.c => o.sut = t.sut)
  /\ (o.c = EmptyV => ~o.sut)
  /\ ((o.c # t.c /\ ~o.chg) => ("silent_restore" \in Faults /\ ~t.sut))

\* splice_test_case_chromosomes: either nothing is assigned or the offspring is taken and
\* changed is set
TXoOK(t, o) ==
  /\ (t.chg => o.chg)
  /\ (o.c = t.c => o.sut = t.sut)
  /\ (o.c = EmptyV => ~o.sut)
  /\ (~o.chg => o.c = t.c)

TSet(W, o) == [W EXCEPT !.t[o.id].c = o.c, !.t[o.id].chg = o.chg, !.t[o.id].sut = o.sut]

\* TestSuiteMutation.mutate: members are mutated (did), tests from the factory appended
\* (added: sequence of [c, sut]), members without statements dropped, changed set iff a
\* mutated member says changed or a test was added.
SMutOK(W, s, ts, added) ==
  LET mem == W.s[s].mem
  IN /\ Len(ts) = Len(mem)
     /\ \A i \in DOMAIN ts :
          /\ ts[i].id = mem[i]
          /\ IF ts[i].did THEN TMutOK(W.t[mem[i]], ts[i])
             ELSE /\ ts[i].c = W.t[mem[i]].c /\ ts[i].chg = W.t[mem[i]].chg
                  /\ ts[i].sut = W.t[mem[i]].sut
     /\ \A j \in DOMAIN added : (added[j].c = EmptyV => ~added[j].sut)

RECURSIVE ApplyOuts(_, _)
ApplyOuts(W, ts) == IF ts = <<>> THEN W ELSE ApplyOuts(TSet(W, Head(ts)), Tail(ts))

SMut(W, s, ts, added) ==
  LET W1   == ApplyOuts(W, ts)
      sl   == Slots(W, Len(added))
      W2   == [W1 EXCEPT !.t = [m \in DOMAIN W1.t |->
                 IF \E j \in DOMAIN sl : sl[j] = m
                 THEN LET j == CHOOSE j \in DOMAIN sl : sl[j] = m
                      IN NewT(added[j].c, added[j].sut, FactoryFF, <<>>, s)
                 ELSE W1.t[m]]]
      all  == W.s[s].mem \o sl
      kept == SelectSeq(all, LAMBDA m : W2.t[m].c # EmptyV)
      gone == SeqToSet(all) \ SeqToSet(kept)
      flag == (\E i \in DOMAIN ts : ts[i].did /\ ts[i].chg) \/ added # <<>>
  IN [W2 EXCEPT !.s[s].mem = kept, !.s[s].chg = (@ \/ flag),
                !.t = [m \in DOMAIN W2.t |-> IF m \in gone THEN DeadT ELSE W2.t[m]]]

(***************************************************************************)
(* One call = one step.  act = [op, a, b, p, q, f, k]; out = [ts, added]   *)
(***************************************************************************)
NoOut == [ts |-> <<>>, added |-> <<>>]
NoV   == [reg |-> FALSE, raised |-> FALSE, stale |-> FALSE]
IsQuery(act) == act.op \in {"tq", "sq"}

\* StepV = [W |-> next world, v |-> what the call reports]
StepV(W, act, out) ==
  CASE act.op = "tq"     -> TQuery(W, act.a, act.k, act.f)
    [] act.op = "sq"     -> SQuery(W, act.a, act.k, act.f)
    [] act.op = "taddf"  -> [W |-> TAddF(W, act.a, act.f), v |-> NoV]
    [] act.op = "taddc"  -> [W |-> TAddC(W, act.a, act.f), v |-> NoV]
    [] act.op = "saddf"  -> [W |-> SAddF(W, act.a, act.f), v |-> NoV]
    [] act.op = "saddc"  -> [W |-> SAddC(W, act.a, act.f), v |-> NoV]
    [] act.op = "tinv"   -> [W |-> TInv(W, act.a), v |-> NoV]
    [] act.op = "sinv"   -> [W |-> SInv(W, act.a), v |-> NoV]
    [] act.op = "tclone" -> [W |-> TClone(W, act.a, act.b), v |-> NoV]
    [] act.op = "sclone" -> [W |-> SClone(W, act.a, act.b), v |-> NoV]
    [] act.op = "tmut"   -> [W |-> TSet(W, out.ts[1]), v |-> NoV]
    [] act.op = "txo"    -> [W |-> TSet(W, out.ts[1]), v |-> NoV]
    [] act.op = "sadd"   -> [W |-> SAdd(W, act.a, act.b), v |-> NoV]
    [] act.op = "sadds"  -> [W |-> SAdd(W, act.a, act.b), v |-> NoV]   \* add_test_case_chromosomes([t])
    [] act.op = "sdel"   -> [W |-> SDel(W, act.a, act.b), v |-> NoV]
    [] act.op = "sset"   -> [W |-> SSet(W, act.a, act.p, act.b), v |-> NoV]
    [] act.op = "sxo"    -> [W |-> SXover(W, act.a, act.b, act.p, act.q), v |-> NoV]
    [] act.op = "smut"   -> [W |-> SMut(W, act.a, out.ts, out.added), v |-> NoV]
    [] OTHER             -> [W |-> W, v |-> NoV]

Step(W, act, out) == StepV(W, act, out).W
VerdictOf(W, act) == StepV(W, act, NoOut).v

OutOK(W, act, out) ==
  CASE act.op = "tmut" -> Len(out.ts) = 1 /\ out.ts[1].id = act.a /\ TMutOK(W.t[act.a], out.ts[1])
    [] act.op = "txo"  -> Len(out.ts) = 1 /\ out.ts[1].id = act.a /\ TXoOK(W.t[act.a], out.ts[1])
    [] act.op = "smut" -> SMutOK(W, act.a, out.ts, out.added)
    [] OTHER           -> out = NoOut

\* is the call admissible in W (arguments denote live objects, slots suffice)
TopT(W, a) == a \in TIdsOf(W) /\ W.t[a].alive /\ W.t[a].owner = 0
LiveT(W, a) == a \in TIdsOf(W) /\ W.t[a].alive
LiveS(W, s) == s \in SIdsOf(W) /\ W.s[s].alive

Enabled(W, act) ==
  CASE act.op = "tq"     -> LiveT(W, act.a) /\ act.k \in Kinds /\ act.f \in FuncArgs(act.k)
    [] act.op = "sq"     -> LiveS(W, act.a) /\ act.k \in Kinds /\ act.f \in FuncArgs(act.k)
    [] act.op = "taddf"  -> LiveT(W, act.a) /\ act.f \in FF
    [] act.op = "taddc"  -> LiveT(W, act.a) /\ act.f \in CF
    [] act.op = "saddf"  -> LiveS(W, act.a) /\ act.f \in FF
    [] act.op = "saddc"  -> LiveS(W, act.a) /\ act.f \in CF
    [] act.op = "tinv"   -> LiveT(W, act.a)
    [] act.op = "sinv"   -> LiveS(W, act.a)
    [] act.op = "tclone" -> LiveT(W, act.a) /\ FreeT(W) # {} /\ act.b = MinOf(FreeT(W))
    [] act.op = "sclone" -> /\ LiveS(W, act.a) /\ FreeS(W) # {} /\ act.b = MinOf(FreeS(W))
                            /\ Cardinality(FreeT(W)) >= Len(W.s[act.a].mem)
    [] act.op = "tmut"   -> TopT(W, act.a)
    [] act.op = "txo"    -> TopT(W, act.a) /\ TopT(W, act.b) /\ act.a # act.b
    [] act.op = "sadd"   -> LiveS(W, act.a) /\ TopT(W, act.b)
    [] act.op = "sadds"  -> LiveS(W, act.a) /\ TopT(W, act.b)
    [] act.op = "sdel"   -> LiveS(W, act.a) /\ LiveT(W, act.b)
                            /\ (W.t[act.b].owner = 0 \/ W.t[act.b].owner = act.a)
    [] act.op = "sset"   -> LiveS(W, act.a) /\ TopT(W, act.b) /\ act.p \in DOMAIN W.s[act.a].mem
    [] act.op = "sxo"    -> /\ LiveS(W, act.a) /\ LiveS(W, act.b) /\ act.a # act.b
                            /\ act.p \in 0..Len(W.s[act.a].mem) /\ act.q \in 0..Len(W.s[act.b].mem)
                            /\ Cardinality(FreeT(W)) >= SXoverNeed(W, act.b, act.q)
    [] act.op = "smut"   -> LiveS(W, act.a)
    [] OTHER             -> FALSE

(***************************************************************************)
(* Ownership: a chromosome owns its test cases.  The inputs of the cached  *)
(* values of a suite are its member list and the content versions of its   *)
(* members; of a test held by the caller its content version.  A call made *)
(* on chromosome x (for cross_over: the receiver, the other parent is only *)
(* read) never changes the inputs of any other chromosome.                 *)
(***************************************************************************)
OwnedP(W) ==
  \A s \in SIdsOf(W) : W.s[s].alive =>
     /\ \A i \in DOMAIN W.s[s].mem : LiveT(W, W.s[s].mem[i]) /\ W.t[W.s[s].mem[i]].owner = s
     /\ \A i, j \in DOMAIN W.s[s].mem : i # j => W.s[s].mem[i] # W.s[s].mem[j]
     /\ \A s2 \in SIdsOf(W) : (s2 # s /\ W.s[s2].alive) => SeqToSet(W.s[s].mem) \cap SeqToSet(W.s[s2].mem) = {}

SuiteInputs(W, s) == [i \in DOMAIN W.s[s].mem |-> IF W.s[s].mem[i] \in TIdsOf(W) THEN W.t[W.s[s].mem[i]].c ELSE None]
SuiteCalls == {"sq", "saddf", "saddc", "sinv", "sadd", "sadds", "sdel", "sset", "sxo", "smut"}
TestEdits  == {"tmut", "txo"}
IsolatedP(W0, W1, act) ==
  /\ \A s \in SIdsOf(W0) :
        (W0.s[s].alive /\ W1.s[s].alive /\ ~(act.op \in SuiteCalls /\ act.a = s))
           => SuiteInputs(W1, s) = SuiteInputs(W0, s)
  /\ \A a \in TIdsOf(W0) :
        (W0.t[a].alive /\ W1.t[a].alive /\ W0.t[a].owner = 0 /\ W1.t[a].owner = 0
         /\ ~(act.op \in TestEdits /\ act.a = a))
           => W1.t[a].c = W0.t[a].c

(***************************************************************************)
(* Structural sanity of a world                                            *)
(***************************************************************************)
WorldOK(W) ==
  /\ \A s \in SIdsOf(W) : W.s[s].alive =>
        /\ \A i \in DOMAIN W.s[s].mem : LiveT(W, W.s[s].mem[i]) /\ W.t[W.s[s].mem[i]].owner = s
        /\ \A i, j \in DOMAIN W.s[s].mem : i # j => W.s[s].mem[i] # W.s[s].mem[j]
  /\ \A a \in TIdsOf(W) : (W.t[a].alive /\ W.t[a].owner # 0) =>
        /\ LiveS(W, W.t[a].owner) /\ \E i \in DOMAIN W.s[W.t[a].owner].mem : W.s[W.t[a].owner].mem[i] = a
  /\ \A a \in TIdsOf(W) : W.t[a].alive => (W.t[a].c = EmptyV => ~W.t[a].sut)
=============================================================================

------------------------------ MODULE ClusterOps ------------------------------
(***************************************************************************)
(* Test cluster of a module under test (pynguin.analyses.module:           *)
(* generate_test_cluster -> ModuleTestCluster.accessible_objects_under_    *)
(* test).  Pure operators, no variables.                                   *)
(*                                                                         *)
(* A module under test is a flat sequence M of member records              *)
(*   kind   what the member is (see *Kinds below)                          *)
(*   nc     name class of its own name                                     *)
(*   def    "sut" / "other": module whose source really contains the       *)
(*          callable (for an inherited view: where the method is written)  *)
(*   owner  0 = module level, else index in M of the owning class          *)
(*   inh    "own"      written in the body of the owner (also: a member    *)
(*                     of the owner that overrides a base-class member,    *)
(*                     src # 0)                                            *)
(*          "other"    view: inherited, not overridden, from a base class  *)
(*                     of another module (method, static method, class     *)
(*                     method, property, lambda attribute)                 *)
(*          "sut"      view: inherited, not overridden, from a base class  *)
(*                     of the SUT                                          *)
(*          "borrowed" a function of another module bound as class attr    *)
(*   bound  the object is bound to a name in the SUT module namespace      *)
(*   imp    how a foreign top-level object reaches the SUT: "from" (from   *)
(*          helper import x), "as" (... import x as y), "mod" (only the    *)
(*          helper module object is imported), "none"                      *)
(*   ig     "exact": `<module>.<qualname>` is listed in ignore_methods;    *)
(*          "near": only near-miss entries are listed; "no"                *)
(*   basei  class records: index of the base class in M (0 = none)         *)
(*   src    views / overrides: index of the base-class member (0 = none)   *)
(*                                                                         *)
(* Part 1: the property C27 as a sandwich  Must <= UnderTest <= May.       *)
(* Part 2: CodeInclude, the decision procedure of the implementation       *)
(*         (Quirks = TRUE: exactly as coded, FALSE: as intended).          *)
(* Part 3: the module builder shared by the design model and by the        *)
(*         behaviour extraction (cases replayed on the real code).         *)
(***************************************************************************)
EXTENDS Naturals, Sequences, FiniteSets

Visibilities == {"PUBLIC", "PROTECTED", "ALL"}      \* configuration.ElementVisibility
VisRank(v) == CASE v = "PUBLIC" -> 1 [] v = "PROTECTED" -> 2 [] v = "ALL" -> 3
ModIgns == {"none", "helper", "sut", "unrelated"}  \* content of ignore_modules

FuncKinds  == {"function", "lambda", "cachedfunc", "asyncfunc", "closure"}
ClassKinds == {"class", "enumclass", "abstractclass"}
ClassLike  == ClassKinds \cup {"nestedclass"}
MemKinds   == {"method", "staticmethod", "classmethod", "property", "lambdaattr",
               "abstractmethod", "nestedmethod", "borrowed"}
Kinds      == FuncKinds \cup ClassLike \cup MemKinds \cup {"unexpected"}

(* name classes: public `f`, prot `_f`, priv `__f` (name-mangled to `_C__f` inside a class),   *)
(* dunder `__f__`, manglike `_k__f` at module level (single leading underscore but matches   *)
(* the shape of a mangled name), pubus: public class name containing an underscore `C_1`,     *)
(* mainpfx `mainly_f`, mainconv `main`, testpfx `testify_f`, testconv `test_f`.              *)
NameClasses == {"public", "prot", "priv", "dunder", "manglike", "pubus",
                "mainpfx", "mainconv", "testpfx", "testconv"}

R(kind, nc, def, owner, inh, bound, imp, ig, basei, src) ==
  [kind |-> kind, nc |-> nc, def |-> def, owner |-> owner, inh |-> inh, bound |-> bound,
   imp |-> imp, ig |-> ig, basei |-> basei, src |-> src]

WellTyped(r) ==
  /\ r.kind \in Kinds /\ r.nc \in NameClasses /\ r.def \in {"sut", "other"}
  /\ r.owner \in Nat /\ r.inh \in {"own", "other", "sut", "borrowed"} /\ r.bound \in BOOLEAN
  /\ r.imp \in {"none", "from", "as", "mod"} /\ r.ig \in {"no", "exact", "near"}
  /\ r.basei \in Nat /\ r.src \in Nat

(* ------------------------------------------------------------------------ *)
(* Part 1.  C27: "the callables under test are exactly the functions,       *)
(* constructors and methods defined in that module whose names are          *)
(* eligible under the visibility setting and not ignored by configuration;  *)
(* nothing defined in another module is marked as under test".              *)
(* ------------------------------------------------------------------------ *)

(* ElementVisibility documentation: PUBLIC only public elements; PROTECTED also a single    *)
(* leading underscore; ALL also private (double leading underscore, incl. name-mangled).    *)
(* StrictName: the name is certainly eligible.  LaxName: it is not certainly ineligible     *)
(* (dunder names, `main`/`test*` names and mangled-looking protected names are not          *)
(* classified by the documentation: both answers are accepted for them).                    *)
StrictName(nc, v) ==
  CASE nc \in {"public", "pubus", "mainpfx"} -> TRUE
    [] nc = "prot" -> v \in {"PROTECTED", "ALL"}
    [] nc \in {"priv", "manglike"} -> v = "ALL"
    [] OTHER -> FALSE
LaxName(nc, v) ==
  CASE nc \in {"public", "pubus", "mainpfx", "mainconv", "testpfx", "testconv", "dunder"} -> TRUE
    [] nc \in {"prot", "manglike"} -> v # "PUBLIC"
    [] nc = "priv" -> v = "ALL"
    [] OTHER -> FALSE

(* ignored by configuration: listed in ignore_methods, or its module is in ignore_modules *)
Ignored(M, i, g) == M[i].ig = "exact" \/ (g = "sut" /\ M[i].def = "sut")

(* Members the statement certainly demands: plain (or cache-decorated) module-level         *)
(* functions, constructors of concrete top-level classes, and methods / static methods /    *)
(* class methods written in the body of a top-level class of the SUT (ordinary or enum),    *)
(* all names on the path strictly eligible.                                                 *)
Must(M, i, v, g) ==
  LET r == M[i] IN
  /\ r.def = "sut" /\ r.inh = "own" /\ ~Ignored(M, i, g) /\ StrictName(r.nc, v)
  /\ \/ r.kind \in {"function", "cachedfunc"} /\ r.owner = 0 /\ r.bound
     \/ r.kind = "class" /\ r.owner = 0 /\ r.bound
     \/ /\ r.kind \in {"method", "staticmethod", "classmethod"} /\ r.owner # 0
        /\ LET o == M[r.owner] IN
             /\ o.kind \in {"class", "enumclass"} /\ o.owner = 0 /\ o.bound /\ o.def = "sut"
             /\ StrictName(o.nc, v)

(* Members that may be under test without contradicting the statement: written in the SUT,  *)
(* not ignored, name not certainly ineligible.  A member is "defined in" the module whose   *)
(* source contains it: an inherited, not overridden member (view) whose base class belongs  *)
(* to another module is defined in another module (def = "other", inh = "other") and may    *)
(* never be under test via the inheriting class.  A view of a member of a base class of the *)
(* SUT (inh = "sut") is written in the module under test; the code lists it once, via the   *)
(* base class (design model: ViewsNeverUnderTest), but the statement does not say via which *)
(* class a callable of the module is reached: listing it again under the subclass is        *)
(* accepted, never demanded.  Class                                                         *)
(* names are not filtered (the pinned tree's own tests expect `_ProtectedClass.__init__`    *)
(* under PUBLIC; the statement read strictly says otherwise: both are accepted).  Kinds on  *)
(* which the statement is silent (lambdas, coroutines, closures, enum / abstract / nested   *)
(* classes and their members, properties, dunder methods) are allowed, never demanded.      *)
May(M, i, v, g) ==
  LET r == M[i] IN
  /\ r.kind # "unexpected"
  /\ r.def = "sut" /\ r.inh \in {"own", "sut"} /\ ~Ignored(M, i, g)
  /\ (r.kind \in ClassLike \/ LaxName(r.nc, v))

(* the view of an inherited, not overridden base-class member *)
IsView(M, i) == M[i].inh \in {"other", "sut"}

Foreign(M, i) == M[i].def # "sut"

(* ------------------------------------------------------------------------ *)
(* Part 2.  What the implementation decides for member i (add_to_test and   *)
(* the filters of __analyse_function / __analyse_class / __analyse_method / *)
(* _is_blacklisted).  Q = TRUE reproduces the code as written, including    *)
(* its known deviations from Part 1; Q = FALSE is the intended procedure.   *)
(* ------------------------------------------------------------------------ *)

(* __should_skip_by_visibility applied to the run-time name (`__m` in a class is `_C__m`) *)
VisSkip(nc, v) ==
  CASE v = "ALL" -> FALSE
    [] v = "PROTECTED" -> nc \in {"priv", "manglike"}
    [] OTHER -> nc \in {"prot", "priv", "manglike"}

(* _is_blacklisted for module-level functions: module, qualname prefix main/test, ignore_methods *)
FuncBlacklisted(r, g, Q) ==
  \/ (g = "sut" /\ r.def = "sut") \/ (g = "helper" /\ r.def = "other")
  \/ r.nc \in {"mainconv", "testpfx", "testconv"}
  \/ (Q /\ r.nc = "mainpfx")
  \/ r.ig = "exact"

CodeInclude(M, i, v, g, Q) ==
  LET r == M[i] IN
  IF r.kind \in FuncKinds THEN
    /\ r.owner = 0 /\ r.bound /\ r.def = "sut"          \* in vars(sut), __module__ == root
    /\ ~FuncBlacklisted(r, g, Q)
    /\ r.kind # "asyncfunc"                              \* coroutines are skipped
    /\ IF Q /\ r.kind = "lambda" THEN TRUE               \* visibility tested on "<lambda>"
       ELSE ~VisSkip(r.nc, v)
  ELSE IF r.kind \in ClassLike THEN
    /\ r.bound /\ r.def = "sut" /\ g # "sut"             \* class names are never filtered
    /\ r.kind # "abstractclass"                          \* no constructor for abstract classes
  ELSE IF r.kind = "unexpected" \/ r.owner = 0 THEN FALSE
  ELSE
    LET o == M[r.owner] IN
    /\ o.def = "sut" /\ o.bound /\ g # "sut" /\ o.kind \in ClassKinds
    /\ r.def = "sut" /\ r.inh = "own"                    \* defined in this very class
    /\ r.kind \in {"method", "staticmethod", "lambdaattr", "abstractmethod"}
                  \cup (IF Q THEN {} ELSE {"classmethod"})   \* getmembers(isfunction)
    /\ (Q => o.kind # "enumclass")                       \* dir(EnumClass) hides methods
    /\ IF Q /\ o.nc = "pubus" /\ r.nc = "priv" /\ v = "PROTECTED"
       THEN TRUE                                         \* `_C_1__m` not recognised as mangled
       ELSE ~VisSkip(r.nc, v)
    /\ (~Q => r.ig # "exact")                            \* ignore_methods not consulted for methods

(* ------------------------------------------------------------------------ *)
(* Part 3.  Module builder: the modules on which design model and real code *)
(* are exercised.  One builder step appends one item (plus implied records). *)
(* ------------------------------------------------------------------------ *)
Idx(M) == [k \in 1..Len(M) |-> k]
HasSub(M, c) == \E j \in DOMAIN M : M[j].basei = c
OwnAdded(M, c) == {j \in DOMAIN M : M[j].owner = c /\ M[j].inh \in {"own", "borrowed"}
                                     /\ M[j].src = 0 /\ M[j].kind # "abstractmethod"}

TopF(kind, nc, ig) == <<R(kind, nc, "sut", 0, "own", TRUE, "none", ig, 0, 0)>>
TopC(kind, nc)     == <<R(kind, nc, "sut", 0, "own", TRUE, "none", "no", 0, 0)>>
TopO(kind, nc, imp) == <<R(kind, nc, "other", 0, "own", imp # "mod", imp, "no", 0, 0)>>

(* sequences of records a top-level step may append *)
TopItems(M) ==
     {TopF("function", nc, ig) :
        nc \in {"public", "prot", "priv", "dunder", "manglike", "mainpfx", "testpfx", "testconv"},
        ig \in {"no", "exact", "near"}}
  \cup (IF \E j \in DOMAIN M : M[j].nc = "mainconv" THEN {}
        ELSE {TopF("function", "mainconv", ig) : ig \in {"no", "exact"}})
  \cup {TopF("lambda", nc, "no") : nc \in {"public", "prot", "priv"}}
  \cup {TopF("cachedfunc", nc, ig) : nc \in {"public", "prot"}, ig \in {"no", "exact"}}
  \cup {TopF("asyncfunc", "public", "no")}
  \cup {TopF("closure", nc, "no") : nc \in {"public", "prot"}}
  \cup {TopC("class", nc) : nc \in {"public", "prot", "priv", "pubus"}}
  \cup {TopC("enumclass", nc) : nc \in {"public", "prot"}}
  \cup {TopC("abstractclass", "public")
          \o <<R("abstractmethod", "public", "sut", Len(M) + 1, "own", FALSE, "none", "no", 0, 0)>>}
  \cup {TopO("function", nc, imp) : nc \in {"public", "prot", "priv"}, imp \in {"from", "as", "mod"}}
  \cup {TopO("lambda", "public", "from")}
  \cup {TopO("class", nc, imp) : nc \in {"public", "prot"}, imp \in {"from", "as", "mod"}}
  \cup {TopO("enumclass", "public", "from")}

MemR(kind, nc, def, c, ig) == R(kind, nc, def, c, "own", FALSE, "none", ig, 0, 0)

(* records a member step may append to class c (index in M) *)
MemItems(M, c) ==
  LET o == M[c] n == Len(M) + 1 IN
  IF o.def = "other" THEN
       {<<MemR("method", nc, "other", c, "no")>> : nc \in {"public", "prot"}}
       \cup {<<MemR("staticmethod", "public", "other", c, "no")>>}
       \cup {<<MemR("classmethod", nc, "other", c, "no")>> : nc \in {"public", "prot"}}
       \cup {<<MemR("property", "public", "other", c, "no")>>}
  ELSE
       {<<MemR("method", nc, "sut", c, ig)>> :
          nc \in {"public", "prot", "priv", "dunder"}, ig \in {"no", "exact", "near"}}
  \cup {<<MemR(k, nc, "sut", c, ig)>> :
          k \in {"staticmethod", "classmethod"}, nc \in {"public", "prot"}, ig \in {"no", "exact"}}
  \cup {<<MemR("property", "public", "sut", c, "no")>>}
  \cup {<<MemR("lambdaattr", nc, "sut", c, "no")>> : nc \in {"public", "prot"}}
  \cup (IF o.kind # "class" THEN {} ELSE
          {<<R("nestedclass", "public", "sut", c, "own", b, "none", "no", 0, 0),
             MemR("nestedmethod", "public", "sut", n, "no")>> : b \in BOOLEAN}
          \cup {<<R("borrowed", "public", "other", c, "borrowed", FALSE, "none", "no", 0, 0)>>})

MemTargets(M) == {c \in DOMAIN M : M[c].kind \in ClassKinds /\ M[c].owner = 0 /\ ~HasSub(M, c)}

(* a SUT class deriving from class b (b: a class of the SUT, or a class of the other module  *)
(* reached by `from helper import B`, `... import B as A` or `helper.B`).  Every function    *)
(* member and every property of b -- written in b or itself only inherited by b -- becomes   *)
(* either a view of the new class (inherited, not overridden: nothing is written in the SUT  *)
(* subclass) or an overriding member of the same kind written in the body of the new class.  *)
(* ovr = "none": nothing is overridden; "methods": plain methods are overridden, static      *)
(* methods, class methods, properties and lambda attributes stay inherited; "all": methods,  *)
(* static methods, class methods and properties are overridden.  (`__m` of a subclass is     *)
(* mangled to another name than `__m` of the base class: private names never override.)      *)
Viewable == {"method", "staticmethod", "classmethod", "property", "lambdaattr"}
Overrides == {"none", "methods", "all"}
Overridden(r, ovr) ==
  /\ r.nc # "priv"
  /\ r.kind \in (CASE ovr = "none" -> {}
                  [] ovr = "methods" -> {"method"}
                  [] OTHER -> {"method", "staticmethod", "classmethod", "property"})
Derived(M, b, nc, ovr) ==
  LET d == Len(M) + 1
      mem == SelectSeq(Idx(M), LAMBDA j : M[j].owner = b /\ M[j].kind \in Viewable)
      View(j) ==
        IF Overridden(M[j], ovr)
        THEN R(M[j].kind, M[j].nc, "sut", d, "own", FALSE, "none", "no", 0, j)
        ELSE R(M[j].kind, M[j].nc, M[j].def, d,
               IF M[j].def = "other" THEN "other" ELSE "sut", FALSE, "none", M[j].ig, 0, j)
  IN <<R("class", nc, "sut", 0, "own", TRUE, "none", "no", b, 0)>>
       \o [k \in 1..Len(mem) |-> View(mem[k])]

DerivedItems(M) ==
  {Derived(M, b, nc, ovr) :
     b \in {c \in DOMAIN M : M[c].kind = "class" /\ M[c].owner = 0},
     nc \in {"public", "prot"}, ovr \in Overrides}

(* Shape "small": a top-level item only as first step, at most one added member per class; *)
(* shape "full": anything.                                                                 *)
NextModules(M, shape) ==
     {M \o it : it \in (IF shape = "full" \/ M = <<>> THEN TopItems(M) ELSE {})}
  \cup UNION {{M \o it : it \in MemItems(M, c)} :
                c \in {cc \in MemTargets(M) : shape = "full" \/ OwnAdded(M, cc) = {}}}
  \cup {M \o it : it \in DerivedItems(M)}

(* structural sanity of a built module *)
WellFormed(M) ==
  \A i \in DOMAIN M :
    LET r == M[i] IN
    /\ WellTyped(r)
    /\ r.owner < i /\ r.basei < i /\ r.src < i
    /\ (r.owner # 0 => M[r.owner].kind \in ClassLike)
    /\ (r.basei # 0 => r.kind = "class" /\ M[r.basei].kind = "class")
    /\ (r.inh \in {"other", "borrowed"} => r.def = "other")
    /\ (r.inh = "sut" => r.def = "sut" /\ r.src # 0)
    /\ (r.inh = "other" => r.src # 0)
    /\ (r.src # 0 => r.kind = M[r.src].kind /\ r.nc = M[r.src].nc /\ r.kind \in Viewable)
    /\ (r.src # 0 /\ r.inh \in {"other", "sut"} =>
          r.def = M[r.src].def /\ r.inh = (IF r.def = "sut" THEN "sut" ELSE "other"))
    /\ (r.src # 0 => M[r.owner].basei = M[r.src].owner)
=============================================================================

------------------------------ MODULE LiteralsOps ------------------------------
(***************************************************************************)
(* Values, their rendering into source text and back (component Literals:   *)
(* pynguin.testcase.literalgen, pynguin.assertion.assertion_to_ast,         *)
(* pynguin.utils.type_utils.is_assertable,                                  *)
(* RemoteAssertionTraceObserver._handle/_check_value).                      *)
(*                                                                         *)
(* A VALUE is a term [k, c, es]:                                            *)
(*   leaves     k in int/bool/none/float/str/bytes/enum/obj, c = class name *)
(*   complex    es = <<real part, imaginary part>> (float leaves)           *)
(*   list/tuple/set/frozenset   es = elements                               *)
(*   dict       es = <<pair nodes>>, pair.es = <<key, value>>               *)
(* The same record shape is used for the descriptors of values observed on *)
(* the real code (c = exact canonical key), so Same works on both.         *)
(*                                                                         *)
(* RENDERED SYNTAX is a term of the same shape with k in Int/Float/Neg/... *)
(* D is the set of deviations from the intended design that are switched   *)
(* on; AsCoded is what the pinned tree does.  With D = {} every property   *)
(* of Literals.tla holds; with D = AsCoded the model exhibits exactly the  *)
(* violations observed on the real code.                                   *)
(***************************************************************************)
EXTENDS Naturals, Integers, Sequences, FiniteSets

Node(k, c, es) == [k |-> k, c |-> c, es |-> es]
Leaf(k, c) == Node(k, c, <<>>)
Pair(a, b) == Node("pair", "", <<a, b>>)
Cplx(a, b) == Node("complex", "", <<Leaf("float", a), Leaf("float", b)>>)
Elems(v) == {v.es[i] : i \in DOMAIN v.es}

(* ------------------------------ value classes ------------------------------ *)
IntC   == {"i_neg", "i_negone", "i_zero", "i_one", "i_pos", "i_huge", "i_neghuge", "i_digits", "i_negdigits"}
DigitsC == {"i_digits", "i_negdigits"}     \* |value| >= 10^4300: no decimal string (sys.int_max_str_digits)
BoolC  == {"b_true", "b_false"}
NoneC  == {"n_none"}
FloatC == {"f_nan", "f_inf", "f_ninf", "f_negzero", "f_zero", "f_neg", "f_pos", "f_negfrac", "f_frac", "f_integral",
           "f_exp", "f_smallexp", "f_sub", "f_max", "f_negmax"}
StrC   == {"s_plain", "s_squote", "s_dquote", "s_both", "s_backslash", "s_newline", "s_nonascii",
           "s_surrogate", "s_empty"}
BytesC == {"y_plain", "y_squote", "y_dquote", "y_both", "y_backslash", "y_newline", "y_high", "y_empty"}
EnumC  == {"e_top", "e_int", "e_negint", "e_str", "e_strquote", "e_flag", "e_flagcombo", "e_flagzero",
           "e_nested", "e_private", "e_foreign"}
ObjC   == {"o_plain", "o_nested", "o_private", "o_local", "o_dynamic", "o_foreign", "o_decimal",
           "o_sized", "o_sized_raises", "o_bytearray", "o_range", "o_dict_keys", "o_function",
           "o_generator", "o_module", "o_type", "o_deeplist", "o_floatsub", "o_intsub", "o_holder_float",
           "o_foreign_nested"}
ClassesOf(k) == CASE k = "int" -> IntC [] k = "bool" -> BoolC [] k = "none" -> NoneC
                  [] k = "float" -> FloatC [] k = "str" -> StrC [] k = "bytes" -> BytesC
                  [] k = "enum" -> EnumC [] k = "obj" -> ObjC [] OTHER -> {}
LeafKinds == {"int", "bool", "none", "float", "str", "bytes", "enum", "obj"}
SeqKinds == {"list", "tuple", "set", "frozenset"}
ContainerKinds == SeqKinds \cup {"dict"}
LeavesOf(kinds) == UNION {{Leaf(k, c) : c \in ClassesOf(k)} : k \in kinds}

(* sign structure of the numeric classes: the representatives are symmetric *)
Negative == {"i_neg", "i_negone", "i_neghuge", "i_negdigits", "f_neg", "f_negfrac", "f_ninf", "f_negmax"}
AbsClass(c) == CASE c = "i_neg" -> "i_pos" [] c = "i_neghuge" -> "i_huge" [] c = "f_neg" -> "f_pos"
                 [] c = "i_negdigits" -> "i_digits"
                 [] c = "i_negone" -> "i_one" [] c = "f_negfrac" -> "f_frac"
                 [] c = "f_ninf" -> "f_inf" [] c = "f_negmax" -> "f_max" [] c = "f_negzero" -> "f_zero"
                 [] OTHER -> c
NegClass(c) == CASE c = "i_pos" -> "i_neg" [] c = "i_huge" -> "i_neghuge" [] c = "f_pos" -> "f_neg"
                 [] c = "i_digits" -> "i_negdigits" [] c = "i_negdigits" -> "i_digits"
                 [] c = "i_one" -> "i_negone" [] c = "i_negone" -> "i_one"
                 [] c = "f_frac" -> "f_negfrac" [] c = "f_negfrac" -> "f_frac"
                 [] c = "f_inf" -> "f_ninf" [] c = "f_max" -> "f_negmax" [] c = "f_zero" -> "f_negzero"
                 [] c = "i_neg" -> "i_pos" [] c = "i_neghuge" -> "i_huge" [] c = "f_neg" -> "f_pos"
                 [] c = "f_ninf" -> "f_inf" [] c = "f_negmax" -> "f_max" [] c = "f_negzero" -> "f_zero"
                 [] c \in {"i_zero", "f_nan"} -> c
                 [] OTHER -> "?"

(* ------------------------------ "same value" ------------------------------ *)
(* v ~ w: same type, equal, sign of zero preserved, NaN matches NaN.  On class terms a class   *)
(* name denotes one value; on observed descriptors c is the exact canonical key (hex float,   *)
(* "nan" for every NaN).  Sets and dicts ignore the order of their elements.                  *)
RECURSIVE Same(_, _)
Same(v, w) ==
  /\ v.k = w.k
  /\ v.c = w.c
  /\ IF v.k \in {"set", "frozenset", "dict", "Set", "Dict"}
       THEN /\ \A a \in Elems(v) : \E b \in Elems(w) : Same(a, b)
            /\ \A b \in Elems(w) : \E a \in Elems(v) : Same(a, b)
       ELSE /\ Len(v.es) = Len(w.es)
            /\ \A i \in DOMAIN v.es : Same(v.es[i], w.es[i])

RECURSIVE ContainsNaN(_)
ContainsNaN(v) == (v.k = "float" /\ v.c \in {"f_nan", "nan"}) \/ \E e \in Elems(v) : ContainsNaN(e)
RECURSIVE ContainsClass(_, _)
ContainsClass(v, S) == (v.c \in S) \/ \E e \in Elems(v) : ContainsClass(e, S)
RECURSIVE ContainsKind(_, _)
ContainsKind(v, K) == (v.k \in K) \/ \E e \in Elems(v) : ContainsKind(e, K)
UnhashableObj == {"o_bytearray", "o_dict_keys", "o_deeplist"}
RECURSIVE Hashable(_)
Hashable(v) == CASE v.k \in {"list", "set", "dict", "pair"} -> FALSE
                 [] v.k = "obj" -> v.c \notin UnhashableObj
                 [] v.k \in {"tuple", "frozenset"} -> \A e \in Elems(v) : Hashable(e)
                 [] OTHER -> TRUE

(* ------------------------------ deviations ------------------------------ *)
AsCoded == {"A_nan",            \* `x == pytest.approx(float('nan'))` / `==` on NaN-carrying complex is false
            "A_enum_scope"}     \* enum rendered as bare `Class.MEMBER`: nested / private / foreign classes
            \* repaired in /repo (see known_findings.json): L_negzero ffed585, L_digits b45bb32, A_digits 028f153,
            \* A_negzero 38b16ce, A_complex 6572709, A_strenum 7a724a9, A_flagname 35c93d9,
            \* A_local_class / A_dynamic_class / A_unnamed_builtin 166de42, X_no_pytest 1355a01
Intended == {}

(* ------------------------------ rendered syntax ------------------------------ *)
Syn(k, c) == Node(k, c, <<>>)
Neg(s) == Node("Neg", "", <<s>>)
Raise(exc) == Node("Raise", exc, <<>>)
RECURSIVE HasRaise(_)
HasRaise(s) == s.k = "Raise" \/ \E e \in Elems(s) : HasRaise(e)

(* integer literal syntax: decimal, or with a base prefix (0x / 0b / 0o); the sign is never part of it *)
IntSynKinds == {"Int", "HexInt", "BinInt", "OctInt"}

(* literalgen._int_to_cst / assertion_to_ast._value_to_cst(int): the magnitude as a decimal literal,  *)
(* in hexadecimal when it has no decimal string; a negative value is Neg(<literal of the magnitude>)  *)
RenderInt(c, digitsDev) ==
  IF c \in DigitsC /\ digitsDev THEN Raise("ValueError")
  ELSE LET a == AbsClass(c)
           lit == Syn(IF a \in DigitsC THEN "HexInt" ELSE "Int", a)
       IN IF c \in Negative THEN Neg(lit) ELSE lit

(* literalgen._float_to_cst *)
RenderFloatL(c, D) ==
  LET a == AbsClass(c)
      inner == IF a \in {"f_nan", "f_inf"} THEN Syn("FloatCall", a) ELSE Syn("Float", a)
      minus == c \in Negative \/ (c = "f_negzero" /\ "L_negzero" \notin D)
  IN IF minus THEN Neg(inner) ELSE inner

(* assertion_to_ast._make_float_literal *)
RenderFloatA(c, D) ==
  IF c = "f_nan" THEN Syn("FloatCall", "f_nan")
  ELSE IF c \in {"f_inf", "f_ninf"} THEN Syn("FloatCall", c)
  ELSE IF c = "f_negzero" THEN (IF "A_negzero" \in D THEN Raise("CSTValidationError")
                                ELSE Neg(Syn("Float", "f_zero")))
  ELSE IF c \in Negative THEN Neg(Syn("Float", AbsClass(c)))
  ELSE Syn("Float", c)

(* literalgen.literal_to_cst *)
RECURSIVE RenderL(_, _)
RenderL(v, D) ==
  CASE v.k = "bool" -> Syn("Name", IF v.c = "b_true" THEN "True" ELSE "False")
    [] v.k = "int" -> RenderInt(v.c, "L_digits" \in D)
    [] v.k = "float" -> RenderFloatL(v.c, D)
    [] v.k = "complex" -> Node("ComplexCall", "", <<RenderFloatL(v.es[1].c, D), RenderFloatL(v.es[2].c, D)>>)
    [] v.k = "str" -> Syn("Str", v.c)
    [] v.k = "bytes" -> Syn("Bytes", v.c)
    [] v.k = "list" -> Node("List", "", [i \in DOMAIN v.es |-> RenderL(v.es[i], D)])
    [] v.k = "tuple" -> Node("Tuple", "", [i \in DOMAIN v.es |-> RenderL(v.es[i], D)])
    [] v.k = "set" -> IF v.es = <<>> THEN Syn("SetCall", "")
                      ELSE Node("Set", "", [i \in DOMAIN v.es |-> RenderL(v.es[i], D)])
    [] v.k = "dict" -> Node("Dict", "", [i \in DOMAIN v.es |->
                          Node("DictElem", "", <<RenderL(v.es[i].es[1], D), RenderL(v.es[i].es[2], D)>>)])
    [] OTHER -> Syn("Name", "None")     \* documented fallback: no literal representation

(* values literal_to_cst has a representation for (literalgen.LITERAL_TYPES, recursively) *)
LiteralKinds == {"bool", "int", "float", "complex", "str", "bytes", "list", "tuple", "set", "dict"}
RECURSIVE InLitDomain(_)
InLitDomain(v) == /\ v.k \in LiteralKinds \cup {"pair"}
                  /\ \A e \in Elems(v) : InLitDomain(e)

(* enums: where the class of the member lives *)
PublicTopEnum == {"e_top", "e_int", "e_negint", "e_str", "e_strquote", "e_flag", "e_flagcombo", "e_flagzero"}
SutEnum == EnumC \ {"e_foreign"}
RenderEnumA(c, D) ==
  CASE c = "e_int" -> Syn("Int", "i_pos")              \* IntEnum: isinstance(value, int) comes first
    [] c = "e_negint" -> Neg(Syn("Int", "i_pos"))
    [] c \in {"e_str", "e_strquote"} /\ "A_strenum" \in D -> Raise("CSTValidationError")
    [] c = "e_flagcombo" /\ "A_flagname" \in D -> Raise("CSTValidationError")
    [] c = "e_flagzero" /\ "A_flagname" \in D -> Raise("TypeError")
    [] OTHER -> Node("Attr", IF "A_enum_scope" \in D THEN "bare" ELSE "qualified", <<Leaf("enum", c)>>)

(* assertion_to_ast._value_to_cst *)
RECURSIVE RenderA(_, _)
RenderA(v, D) ==
  CASE v.k = "none" -> Syn("Name", "None")
    [] v.k = "bool" -> Syn("Name", IF v.c = "b_true" THEN "True" ELSE "False")
    [] v.k = "int" -> RenderInt(v.c, "A_digits" \in D)
    [] v.k = "float" -> RenderFloatA(v.c, D)
    [] v.k = "str" -> Syn("Str", v.c)
    [] v.k = "bytes" -> Syn("Bytes", v.c)
    [] v.k = "complex" -> IF "A_complex" \in D THEN Raise("CSTValidationError")
                          ELSE Node("ComplexCall", "", <<RenderFloatA(v.es[1].c, D), RenderFloatA(v.es[2].c, D)>>)
    [] v.k = "enum" -> RenderEnumA(v.c, D)
    [] v.k = "list" -> Node("List", "", [i \in DOMAIN v.es |-> RenderA(v.es[i], D)])
    [] v.k = "tuple" -> Node("Tuple", "", [i \in DOMAIN v.es |-> RenderA(v.es[i], D)])
    [] v.k = "set" -> IF v.es = <<>> THEN Syn("SetCall", "")
                      ELSE Node("Set", "", [i \in DOMAIN v.es |-> RenderA(v.es[i], D)])
    [] v.k = "dict" -> Node("Dict", "", [i \in DOMAIN v.es |->
                          Node("DictElem", "", <<RenderA(v.es[i].es[1], D), RenderA(v.es[i].es[2], D)>>)])
    [] OTHER -> Syn("Str", "repr")      \* not reachable from the observer (not assertable)

(* ------------------------------ evaluation of rendered syntax ------------------------------ *)
Err(e) == Node("error", e, <<>>)
IsErr(v) == v.k = "error"
NegV(x) == IF x.k \in {"int", "float"} THEN Leaf(x.k, NegClass(x.c)) ELSE IF IsErr(x) THEN x ELSE Err("TypeError")
FirstErr(vs) == IF \E i \in DOMAIN vs : IsErr(vs[i])
                THEN vs[CHOOSE i \in DOMAIN vs : IsErr(vs[i]) /\ \A j \in 1..(i-1) : ~IsErr(vs[j])]
                ELSE Err("none")
Build(k, vs) == IF \E i \in DOMAIN vs : IsErr(vs[i]) THEN FirstErr(vs) ELSE Node(k, "", vs)

(* Eval in the namespace of the exported test file: builtins, the SUT's public names, the alias *)
RECURSIVE Eval(_)
Eval(s) ==
  CASE s.k = "Int" -> IF s.c \in DigitsC THEN Err("SyntaxError")      \* decimal literal beyond the digit limit
                     ELSE Leaf("int", s.c)
    [] s.k \in IntSynKinds \ {"Int"} -> Leaf("int", s.c)              \* power-of-two bases have no limit
    [] s.k = "Float" -> Leaf("float", s.c)
    [] s.k = "FloatCall" -> Leaf("float", s.c)
    [] s.k = "Neg" -> NegV(Eval(s.es[1]))
    [] s.k = "Str" -> Leaf("str", s.c)
    [] s.k = "Bytes" -> Leaf("bytes", s.c)
    [] s.k = "Name" -> CASE s.c = "None" -> Leaf("none", "n_none") [] s.c = "True" -> Leaf("bool", "b_true")
                         [] s.c = "False" -> Leaf("bool", "b_false") [] OTHER -> Err("NameError")
    [] s.k = "Attr" -> LET e == s.es[1] IN
                         IF s.c = "bare" THEN (IF e.c \in PublicTopEnum THEN e ELSE Err("NameError"))
                         ELSE (IF e.c \in SutEnum THEN e ELSE Err("NameError"))
    [] s.k = "ComplexCall" -> Build("complex", <<Eval(s.es[1]), Eval(s.es[2])>>)
    [] s.k = "SetCall" -> Node("set", "", <<>>)
    [] s.k = "List" -> Build("list", [i \in DOMAIN s.es |-> Eval(s.es[i])])
    [] s.k = "Tuple" -> Build("tuple", [i \in DOMAIN s.es |-> Eval(s.es[i])])
    [] s.k = "Set" -> Build("set", [i \in DOMAIN s.es |-> Eval(s.es[i])])
    [] s.k = "Dict" -> Build("dict", [i \in DOMAIN s.es |->
                           Build("pair", <<Eval(s.es[i].es[1]), Eval(s.es[i].es[2])>>)])
    [] OTHER -> Err("SyntaxError")

(* literalgen.parse_literal for the scalar types: the value, or "none" when not parseable *)
NotParsed == Node("-", "", <<>>)
ParseFloat(s) == CASE s.k = "Float" -> Leaf("float", s.c)
                   [] s.k = "Neg" /\ s.es[1].k = "Float" -> NegV(Leaf("float", s.es[1].c))
                   [] OTHER -> NotParsed
(* _parse_int: the literal may be written in any base, with or without a minus in front of it *)
ParseInt(s) == CASE s.k \in IntSynKinds -> Leaf("int", s.c)
                 [] s.k = "Neg" /\ s.es[1].k \in IntSynKinds -> NegV(Leaf("int", s.es[1].c))
                 [] OTHER -> NotParsed

(* ------------------------------ integer literal tokens (parse-only inputs) ------------------------------ *)
(* Literals a test case can carry without Pynguin having rendered them (seeded / parsed test cases):        *)
(*   ["-" | "+"] (decinteger | hexinteger | bininteger | octinteger)   of the Python grammar.                 *)
(* A token is [sg, base, ds, up]: ds = the digits after the base prefix, most significant first, US = "_";   *)
(* up = prefix and digits in upper case.  Its value is stated here as sign and magnitude, the magnitude as    *)
(* base-16 limbs (most significant first, no leading zero, <<>> = 0): TLC integers have 32 bits.              *)
US == 16
IntTok(sg, base, ds, up) == [sg |-> sg, base |-> base, ds |-> ds, up |-> up]
NoTok == IntTok("", 0, <<>>, FALSE)
TokWF(t) == LET n == Len(t.ds) IN
  /\ t.sg \in {"", "-", "+"} /\ t.base \in {10, 16, 2, 8}
  /\ n > 0 /\ \A i \in 1..n : t.ds[i] = US \/ t.ds[i] \in 0..(t.base - 1)
  /\ t.ds[n] # US /\ \A i \in 1..(n - 1) : ~(t.ds[i] = US /\ t.ds[i + 1] = US)
  /\ (t.base = 10 => /\ t.ds[1] # US                                       \* "_1" is a name
                     /\ (t.ds[1] = 0 => \A i \in 1..n : t.ds[i] \in {0, US})  \* no leading zeros but in 0, 00, 0_0
                     /\ ~t.up)

Digs(ds) == SelectSeq(ds, LAMBDA d : d # US)               \* underscores do not contribute
Strip0(s) == IF \A i \in DOMAIN s : s[i] = 0 THEN <<>>
             ELSE LET f == CHOOSE i \in DOMAIN s : s[i] # 0 /\ \A j \in 1..(i - 1) : s[j] = 0
                  IN SubSeq(s, f, Len(s))
RevSeq(s) == [i \in 1..Len(s) |-> s[Len(s) + 1 - i]]
(* any base: Horner on little-endian limbs; acc * m + c *)
RECURSIVE MulAdd(_, _, _)
MulAdd(acc, m, c) == IF acc = <<>> THEN (IF c = 0 THEN <<>> ELSE <<c % 16>> \o MulAdd(<<>>, m, c \div 16))
                     ELSE LET t == Head(acc) * m + c IN <<t % 16>> \o MulAdd(Tail(acc), m, t \div 16)
RECURSIVE Horner(_, _, _)
Horner(d, m, acc) == IF d = <<>> THEN acc ELSE Horner(Tail(d), m, MulAdd(acc, m, Head(d)))
HornerMag(d, base) == RevSeq(Horner(d, base, <<>>))
(* bases 2, 8, 16 (w bits per digit): regrouping of bits, linear in the number of digits *)
Pow2(k) == CASE k = 0 -> 1 [] k = 1 -> 2 [] k = 2 -> 4 [] OTHER -> 8
BitAt(d, w, p) == LET i == Len(d) - (p \div w) IN IF i < 1 THEN 0 ELSE (d[i] \div Pow2(p % w)) % 2
LimbAt(d, w, j) == BitAt(d, w, 4 * j) + 2 * BitAt(d, w, 4 * j + 1) + 4 * BitAt(d, w, 4 * j + 2) + 8 * BitAt(d, w, 4 * j + 3)
RegroupMag(d, w) == LET nl == (Len(d) * w + 3) \div 4 IN Strip0([j \in 1..nl |-> LimbAt(d, w, nl - j)])
BitsPerDigit(base) == CASE base = 2 -> 1 [] base = 8 -> 3 [] OTHER -> 4
(* (the digits are bound by a quantifier so that TLC computes Digs once, not at every use) *)
Mag(t) == CHOOSE r \in {IF t.base = 10 THEN HornerMag(d, 10) ELSE RegroupMag(d, BitsPerDigit(t.base)) : d \in {Digs(t.ds)}} : TRUE
IntVal(t) == CHOOSE r \in {[sg |-> IF m = <<>> THEN 0 ELSE IF t.sg = "-" THEN -1 ELSE 1, hx |-> m] : m \in {Mag(t)}} : TRUE

(* exact values [k, sg, hx, es]: int = sign and limbs; float = an integral float given like the int it equals *)
(* (sg = -1 with hx = <<>> is -0.0; sg = 2: not integral / not finite / another type); containers as above.   *)
XN(k, sg, hx, es) == [k |-> k, sg |-> sg, hx |-> hx, es |-> es]
XC(k, es) == XN(k, 0, <<>>, es)
RECURSIVE XSame(_, _)
XSame(v, w) ==
  /\ v.k = w.k /\ v.sg = w.sg /\ v.hx = w.hx
  /\ IF v.k \in {"set", "dict"}
       THEN /\ \A a \in Elems(v) : \E b \in Elems(w) : XSame(a, b)
            /\ \A b \in Elems(w) : \E a \in Elems(v) : XSame(a, b)
       ELSE /\ Len(v.es) = Len(w.es)
            /\ \A i \in DOMAIN v.es : XSame(v.es[i], w.es[i])

(* literal expressions built from the tokens: [k, tok, es], k in Int / Complex / List / Tuple / Set / Dict /   *)
(* DictElem; complex(<int literal>, <int literal>) is what _parse_complex accepts besides float arguments     *)
NoX == XN("-", 2, <<>>, <<>>)
LN(k, tok, es) == [k |-> k, tok |-> tok, es |-> es]
LInt(t) == LN("Int", t, <<>>)
LCont(k, es) == LN(k, NoTok, es)
AsFloat(x) == IF x.k = "int" THEN XN("float", x.sg, x.hx, <<>>) ELSE x        \* float(int), exact below 2^53
RECURSIVE LitValue(_)
LitValue(t) ==
  CASE t.k = "Int" -> CHOOSE r \in {XN("int", v.sg, v.hx, <<>>) : v \in {IntVal(t.tok)}} : TRUE
    [] t.k = "Complex" -> XC("complex", <<AsFloat(LitValue(t.es[1])), AsFloat(LitValue(t.es[2]))>>)
    [] t.k = "List" -> XC("list", [i \in DOMAIN t.es |-> LitValue(t.es[i])])
    [] t.k = "Tuple" -> XC("tuple", [i \in DOMAIN t.es |-> LitValue(t.es[i])])
    [] t.k = "Set" -> XC("set", [i \in DOMAIN t.es |-> LitValue(t.es[i])])
    [] t.k = "Dict" -> XC("dict", [i \in DOMAIN t.es |->
                          XC("pair", <<LitValue(t.es[i].es[1]), LitValue(t.es[i].es[2])>>)])
    [] OTHER -> XN("error", 2, <<>>, <<>>)
LitType(t) == CASE t.k = "Int" -> "int" [] t.k = "Complex" -> "complex" [] t.k = "List" -> "list"
                [] t.k = "Tuple" -> "tuple" [] t.k = "Set" -> "set" [] t.k = "Dict" -> "dict" [] OTHER -> "?"

(* ------------------------------ which assertions exist (C20) ------------------------------ *)
IsFloat(v) == v.k = "float" \/ (v.k = "obj" /\ v.c \in {"o_floatsub"})
SutClassObj == {"o_plain", "o_nested", "o_private", "o_local", "o_dynamic", "o_sized", "o_sized_raises",
                "o_holder_float"}
BuiltinObj == {"o_bytearray", "o_range", "o_dict_keys", "o_function", "o_generator", "o_module", "o_type",
               "o_deeplist"}
UnnamedBuiltin == {"o_dict_keys", "o_generator", "o_function", "o_module"}
SizedObj == {"o_sized", "o_bytearray", "o_range", "o_dict_keys", "o_deeplist"}
IgnoredAsField(v) == v.k = "obj" /\ v.c \in {"o_function", "o_module", "o_type"}   \* callable / module

(* type_utils.is_assertable.  In the intended design a value is only asserted by `==` against a  *)
(* literal when the literal can denote it in the exported file and `==` is reflexive on it.      *)
RECURSIVE Assertable(_, _, _)
Assertable(v, d, D) ==
  IF d > 4 THEN FALSE
  ELSE CASE v.k = "float" -> FALSE
         [] v.k \in {"int", "bool", "none", "str", "bytes"} -> TRUE
         [] v.k = "complex" -> "A_nan" \in D \/ ~ContainsNaN(v)
         [] v.k = "enum" -> "A_enum_scope" \in D \/ v.c \in SutEnum
         [] v.k \in {"list", "tuple", "set"} -> \A e \in Elems(v) : Assertable(e, d + 1, D)
         [] v.k = "dict" -> \A p \in Elems(v) : Assertable(p.es[1], d + 1, D) /\ Assertable(p.es[2], d + 1, D)
         [] OTHER -> FALSE

(* isinstance (importable: builtins or SUT module) or type-name comparison *)
TypeAssertion(v, D) ==
  CASE v.k \in ContainerKinds \/ v.k \in {"none", "float"} -> "isinstance"
    [] v.k = "enum" -> IF v.c \in SutEnum THEN "isinstance" ELSE "typename"
    [] v.k = "obj" /\ v.c \in SutClassObj ->
         IF (v.c = "o_local" /\ "A_local_class" \notin D) \/ (v.c = "o_dynamic" /\ "A_dynamic_class" \notin D)
         THEN "typename" ELSE "isinstance"
    [] v.k = "obj" /\ v.c \in BuiltinObj ->
         IF v.c \in UnnamedBuiltin /\ "A_unnamed_builtin" \notin D THEN "typename" ELSE "isinstance"
    [] OTHER -> "typename"
HasLen(v) == v.k \in ContainerKinds \/ (v.k = "obj" /\ v.c \in SizedObj)

(* RemoteAssertionTraceObserver._check_value at one source (without the field recursion) *)
CheckValue(v, src, D) ==
  IF IsFloat(v) THEN {<<"float", src>>}
  ELSE IF Assertable(v, 0, D) THEN {<<"object", src>>}
  ELSE {<<TypeAssertion(v, D), src>>} \cup (IF HasLen(v) THEN {<<"len", src>>} ELSE {})
FieldAssertions(v) == IF v.k = "obj" /\ v.c = "o_holder_float" THEN {<<"float", "field">>} ELSE {}
Primitive(v) == v.k \in {"int", "str", "bytes", "bool", "float", "complex"}
BuiltinTyped(v) == v.k \in ContainerKinds \cup {"none"} \/ (v.k = "obj" /\ v.c \in BuiltinObj)

Positions == {"var", "field", "global", "static"}
(* RemoteAssertionTraceObserver._handle after `var_0 = ...`: assertions on var_0, on the public   *)
(* fields of watched objects, on module globals and on class-static fields (sources relative to  *)
(* the position; assertions on the static fields of the value's own class are not listed).       *)
Observed(v, pos, D) ==
  CASE pos = "var" -> IF Primitive(v) THEN CheckValue(v, "self", D)
                      ELSE IF BuiltinTyped(v) THEN {}
                      ELSE CheckValue(v, "self", D) \cup FieldAssertions(v)
    [] pos = "field" -> {<<"isinstance", "self">>}
                          \cup (IF IgnoredAsField(v) THEN {} ELSE CheckValue(v, "field", D))
    [] pos = "global" -> {<<"object", "self">>}
                          \cup (IF IgnoredAsField(v) THEN {} ELSE CheckValue(v, "global", D))
    [] pos = "static" -> {<<"isinstance", "self">>}
                          \cup (IF IgnoredAsField(v) THEN {} ELSE CheckValue(v, "static", D))

(* ------------------------------ outcome of a rendered assertion (C20) ------------------------------ *)
(* "raise" rendering raised | "pass" | "fail" AssertionError | "error" another exception          *)
NsContexts == {"plain", "fixture"}     \* plain: the file has no pytest.raises and no seed fixture
PredictFloat(c, nctx, D) ==
  IF c = "f_negzero" /\ "A_negzero" \in D THEN "raise"
  ELSE IF nctx = "plain" /\ "X_no_pytest" \in D THEN "error"
  ELSE IF c = "f_nan" /\ "A_nan" \in D THEN "fail"
  ELSE "pass"
(* Python's == identifies an IntEnum member with its int value *)
RECURSIVE PyNorm(_)
PyNorm(v) == IF v.k = "enum" /\ v.c = "e_int" THEN Leaf("int", "i_pos")
             ELSE IF v.k = "enum" /\ v.c = "e_negint" THEN Leaf("int", "i_neg")
             ELSE Node(v.k, v.c, [i \in DOMAIN v.es |-> PyNorm(v.es[i])])
PredictObject(v, D) ==
  LET r == RenderA(v, D) IN
    IF HasRaise(r) THEN "raise"
    ELSE LET e == Eval(r) IN
           IF IsErr(e) THEN "error"
           ELSE IF Same(PyNorm(e), PyNorm(v)) /\ ~ContainsNaN(v) THEN "pass" ELSE "fail"
PredictIsInstance(v, D) ==
  IF v.k = "obj" /\ v.c = "o_local" /\ "A_local_class" \in D THEN "raise"
  ELSE IF v.k = "obj" /\ v.c = "o_dynamic" /\ "A_dynamic_class" \in D THEN "error"
  ELSE IF v.k = "obj" /\ v.c \in UnnamedBuiltin /\ "A_unnamed_builtin" \in D THEN "error"
  ELSE "pass"
Predict(v, ak, nctx, D) ==
  CASE ak = "float" -> PredictFloat(IF v.k = "float" THEN v.c ELSE "f_pos", nctx, D)
    [] ak = "object" -> PredictObject(v, D)
    [] ak = "isinstance" -> PredictIsInstance(v, D)
    [] OTHER -> "pass"
=============================================================================

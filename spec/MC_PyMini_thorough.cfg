CONSTANTS
  Depth2 = TRUE
  DLen = 4
SPECIFICATION Spec
INVARIANT Emit

SPECIFICATION Spec
INVARIANT InstrumentationSucceeds
INVARIANT BehaviourPreserved
CHECK_DEADLOCK FALSE

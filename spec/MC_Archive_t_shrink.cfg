CONSTANTS
  NG = 1
  Sizes = {1}
  ResKinds = {"ok"}
  Copies = 1
  FitsCov = {1}
  FitsMio = {1, 2, 1000001}
  FitsPop = {1}
  MaxLenCov = 1
  MaxLenMio = 1
  Cap0 = 3
  MaxSteps = 99
  Depth = 4
  Modes = {"mio"}
SPECIFICATION MCSpec
INVARIANT Emit

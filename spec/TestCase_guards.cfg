\* for every reachable test case, every API call and every argument: guard => WF afterwards
CONSTANTS
  NObj = 2
  Types = {"A", "B"}
  MaxLen = 3
  MaxDeps = 1
  MaxUses = 1
  MaxStmts = 3
  MaxCtr = 3
  MaxSteps = 2
  InsertGuard = "as_coded"
  Raw = FALSE
SPECIFICATION Spec
INVARIANT GuardsSuffice
CONSTRAINT Bounded

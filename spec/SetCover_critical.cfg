CONSTANTS
  MaxA = 3
  MaxM = 3
  Statuses = {"run", "timeout"}
  WithExc = FALSE
  MaxCount = 5
  UseCritical = TRUE
  Hazard = "none"
SPECIFICATION Spec
INVARIANT TypeOK
INVARIANT Subset
INVARIANT KillsPreserved
INVARIANT GreedyInv
INVARIANT GreedyCovers
INVARIANT KeepOnlyKillers
INVARIANT ResultIrredundant
INVARIANT ResultIsSelect
INVARIANT ScorePreserved
INVARIANT ScoreIn01
INVARIANT ScoreIgnores

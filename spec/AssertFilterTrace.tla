-------------------------- MODULE AssertFilterTrace ---------------------------
(* Trace validation for the filtering pass (C21 part 1): one event per case of MC_AssertFilter,  *)
(* holding the outcome vector of every statement and the indices of the assertions the real      *)
(* AssertionGenerator.__remove_non_holding_assertions left on it.                                *)
EXTENDS Naturals, Sequences, FiniteSets, TLC, TLCExt, Json, IOUtils

Traces == ndJsonDeserialize(IOEnv.TRACE_FILE)
VARIABLES tid, l, cur
vars == <<tid, l, cur>>
NoEv == [ok |-> TRUE]
Init == /\ tid \in 1..Len(Traces) /\ l = 0 /\ cur = NoEv
Next == /\ l < Len(Traces[tid].ev) /\ l' = l + 1 /\ cur' = Traces[tid].ev[l + 1] /\ UNCHANGED tid
Spec == Init /\ [][Next]_vars
SetOf(q) == {q[i] : i \in DOMAIN q}
Holding(v) == {i \in DOMAIN v : v[i] = "h"}

FilterKeepsExactlyHolding ==
  l > 0 => /\ cur.ok
           /\ SetOf(cur.kept1) = Holding(cur.s1)
           /\ SetOf(cur.kept2) = Holding(cur.s2)
=============================================================================

CONSTANTS
  Depth = 2
  DepthIgn = 1
  Shape = "full"
SPECIFICATION Spec
INVARIANT Emit

CONSTANTS
  Depth = 2
  DepthIgn = 2
  Shape = "full"
SPECIFICATION Spec
INVARIANT Emit

CONSTANTS
  FF = {"f1", "f2"}
  CF = {"g1"}
  Faults <- CodeFaults
  FactoryFF <- DefFactoryFF
SPECIFICATION Spec
INVARIANT NeverStale
INVARIANT QueryTotal
INVARIANT Isolated
INVARIANT ModelFollows

----------------------------- MODULE MutantsTrace -----------------------------
(***************************************************************************)
(* Trace validation for C28.  One trace = one consumer schedule replayed   *)
(* on the real FirstOrderMutator / HighOrderMutator / MutationController   *)
(* over one module.  TLC evaluates the C28 clauses on what was recorded:   *)
(*   trace:  kind ("plain" | "select" | "hom"), cap,                        *)
(*           full = descriptors of the full first-order enumeration,       *)
(*           ref  = the mutants (descriptor groups) the un-truncated        *)
(*                  enumeration of this mutator yields                      *)
(*   event:  op, was/st (generator state before/after), pre/post (interned  *)
(*           `ast.dump` of the shared tree, 0 = as parsed), base (tree when *)
(*           this enumeration / count began), rt, muts (descriptors of the  *)
(*           yielded mutant), mpaths (positions of its mutated nodes),      *)
(*           dpaths (top-most positions where it differs from the           *)
(*           original), n (reported count), seen (all descriptors yielded   *)
(*           by the enumeration, recorded when it stops).                   *)
(***************************************************************************)
EXTENDS Naturals, Integers, Sequences, FiniteSets, TLC, TLCExt, Json, IOUtils

Traces == ndJsonDeserialize(IOEnv.TRACE_FILE)

VARIABLES tid, l, cur
vars == <<tid, l, cur>>

NoEv == [op |-> "none"]
Init == /\ tid \in 1..Len(Traces) /\ l = 0 /\ cur = NoEv
Next == /\ l < Len(Traces[tid].ev)
        /\ l' = l + 1
        /\ cur' = Traces[tid].ev[l + 1]
        /\ UNCHANGED tid
Spec == Init /\ [][Next]_vars

T == Traces[tid]
ElemsOf(q) == {q[i] : i \in 1..Len(q)}
NoDup(q) == \A i, k \in 1..Len(q) : i # k => q[i] # q[k]
IsPrefixOf(p, q) == Len(p) <= Len(q) /\ \A i \in 1..Len(p) : p[i] = q[i]
FullSet == ElemsOf(T.full)

(* the enumeration is quiescent unless its generator is suspended at a yield:  *)
(* not started, finished, raised, closed, or abandoned and collected           *)
OriginalIntact ==
  (l > 0 /\ cur.op \notin {"reset", "skip"} /\ cur.st # "susp") => cur.post = cur.base

MutantDiffersOnlyAtMutatedNodes ==
  (l > 0 /\ cur.rt = "mutant" /\ cur.base = 0) =>
     \A i \in 1..Len(cur.dpaths) :
        \E j \in 1..Len(cur.mpaths) : IsPrefixOf(cur.mpaths[j], cur.dpaths[i])

SampledSubsetOfFull ==
  l > 0 =>
    /\ cur.rt = "mutant" => \A i \in 1..Len(cur.muts) : cur.muts[i] \in FullSet
    /\ (cur.rt = "stop" /\ cur.base = 0 /\ T.kind \in {"plain", "select"}) => NoDup(cur.seen)
    /\ (cur.rt = "stop" /\ cur.base = 0 /\ T.kind \in {"plain", "select"}
          /\ (T.cap < 0 \/ T.cap >= Len(T.full)))
         => ElemsOf(cur.seen) = FullSet

CountEqualsFull ==
  (l > 0 /\ cur.op = "count" /\ cur.pre = 0) => (cur.rt = "count" /\ cur.n = Len(T.ref))

(* harness sanity: consecutive events act on the same tree *)
Chained == [][l > 0 => cur'.pre = cur.post]_vars
=============================================================================

CONSTANTS
  Dev = {}
  MaxSteps = 3
  AllVias = FALSE
SPECIFICATION Spec
INVARIANT TypeOK
INVARIANT Isolation
INVARIANT CreatedIsNew
INVARIANT NewIsOwned
INVARIANT PreUntouched

CONSTANTS
  MinB = 3
  MaxB = 5
  MaxOut = 2
  ExitAug = TRUE
  Repr = "triples"
SPECIFICATION MCSpec

SPECIFICATION Spec
INVARIANT CoveredGrows
INVARIANT ArchivedCovers
INVARIANT ReplaceRule
INVARIANT MIOCap
INVARIANT MIOCoveredOne
INVARIANT CoveredConsistent
INVARIANT ArchiveOwns
INVARIANT Follows

CONSTANT Clauses <- C25Clauses
SPECIFICATION Spec
INVARIANT Total
INVARIANT Refl
INVARIANT Trans
INVARIANT AnyTop
INVARIANT UnionAll
INVARIANT InstFollowsClass
INVARIANT AgreesWithIssubclass
INVARIANT DistDefinedOnlyWhenMaybeSub_KnownGenericArgsOnly
INVARIANT DistDefinedOnlyWhenMaybeSub_Other
INVARIANT DistZeroOnIdentity_Other
INVARIANT Drift_Sub
INVARIANT Drift_Maybe
INVARIANT Drift_Dist
INVARIANT Drift_Subclass
INVARIANT Drift_StrictImpliesMaybe

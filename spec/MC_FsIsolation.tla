---------------------------- MODULE MC_FsIsolation ----------------------------
(* Behaviour extraction for C29: every history of Depth calls of the code under test     *)
(* (from the sandbox Tree0, isolation active, code as it is) is emitted once as JSON.    *)
(*                                                                                       *)
(* Prune      calls that change neither the file system nor the bookkeeping are only     *)
(*            kept as the last call of a history (elsewhere they are stuttering steps)   *)
(* PruneLast  not even there (the shorter history covers the case), except for probes:   *)
(*            destructive calls that the wrapper must refuse on an existing path, and    *)
(*            calls on an isolated path that pass the wrapper's check and then fail      *)
(* Repr       non-final calls: one representative call per resulting model state         *)
EXTENDS FsIsolationOps, Json

CONSTANTS Depth,        \* number of calls per history
          AllVias,      \* every API variant of every call (else one canonical variant)
          LastAllVias,  \* every API variant of the last call
          Prune, PruneLast, Repr

VARIABLES fs, cr, hist
vars == <<fs, cr, hist>>

Init == /\ fs = Tree0 /\ cr = {} /\ hist = <<>>

Changes(r) == r.fs # fs \/ r.cr # cr
\* a destructive call on an existing path that the wrapper must refuse (one probe per call kind)
RefusedProbe(o, r) == /\ r.res = "PermissionError" /\ Exists(fs, o.p)
                      /\ \/ o.op \in OnePathOps
                         \/ ~o.kw /\ o.q = (IF o.p = "an" THEN "n" ELSE "an")
\* a call on an isolated path that passes the wrapper's check and then fails in the library
FailsOnCreated(o, r) == /\ r.res \notin {"ok", "PermissionError"} /\ o.p \in cr /\ ~o.kw
                        /\ o.op \in {"Remove", "Rmdir", "Rmtree", "Rename", "Replace", "Move"}

Last == Len(hist) + 1 = Depth
Do(o, r) == /\ fs' = r.fs /\ cr' = r.cr /\ hist' = Append(hist, o)

Next ==
  /\ Len(hist) < Depth
  /\ LET cs == Calls(fs, AllVias \/ (LastAllVias /\ Last))
         post(o) == Eff(o, fs, cr, AsIs)
     IN IF Repr /\ ~Last
        THEN \E st \in {<<post(o).fs, post(o).cr>> : o \in cs} \ {<<fs, cr>>} :
               LET o == CHOOSE o \in cs : <<post(o).fs, post(o).cr>> = st IN Do(o, post(o))
        ELSE \E o \in cs :
               LET r == post(o) IN
               /\ (Prune /\ ~Last) => Changes(r)
               /\ (Prune /\ PruneLast /\ Last) => (Changes(r) \/ RefusedProbe(o, r) \/ FailsOnCreated(o, r))
               /\ Do(o, r)

Spec == Init /\ [][Next]_vars

\* OnlyStale (overridden in MC_FsIsolation_stale*.cfg): emit only histories after which the
\* bookkeeping holds a stale entry (recorded, but no longer there: the directory above it was
\* renamed or removed) next to another recorded path that still exists -- the situation in
\* which __exit__ has to survive a failing removal and carry on.
OnlyStale == FALSE
StaleOn == TRUE
Stale == \E p \in cr : ~Exists(fs, p) /\ \E q \in cr \ {p} : Exists(fs, q)
Emit == (Len(hist) = Depth /\ (OnlyStale => Stale)) => PrintT(<<"HIST", ToJson([hist |-> hist])>>)
=============================================================================

---------------------------- MODULE MC_FsIsolation ----------------------------
(* Behaviour extraction for C29: every history of Depth calls of the code under test     *)
(* (from the sandbox Tree0, isolation active, code as it is) is emitted once as JSON.    *)
(* With Prune, calls that change neither the file system nor the bookkeeping are only    *)
(* kept as the last call of a history (elsewhere they are stuttering steps); with         *)
(* PruneLast not even there (then the shorter history covers the case).                  *)
EXTENDS FsIsolationOps, Json

CONSTANTS Depth, AllVias, Prune, PruneLast

VARIABLES fs, cr, hist
vars == <<fs, cr, hist>>

Init == /\ fs = Tree0 /\ cr = {} /\ hist = <<>>

Next == /\ Len(hist) < Depth
        /\ \E o \in Calls(fs, AllVias) :
             LET r == Eff(o, fs, cr, AsIs) IN
             /\ (Prune /\ (PruneLast \/ Len(hist) + 1 < Depth)) => (r.fs # fs \/ r.cr # cr)
             /\ fs' = r.fs
             /\ cr' = r.cr
             /\ hist' = Append(hist, o)

Spec == Init /\ [][Next]_vars

Emit == Len(hist) = Depth => PrintT(<<"HIST", ToJson([hist |-> hist])>>)
=============================================================================

---------------------------- MODULE MC_FsIsolation ----------------------------
(* Behaviour extraction for C29: every history of Depth calls of the code under test     *)
(* (from the sandbox Tree0, isolation active, code as it is) is emitted once as JSON.    *)
(* With Prune, calls that change neither the file system nor the bookkeeping are only    *)
(* kept as the last call of a history (elsewhere they are stuttering steps); with         *)
(* PruneLast not even there (the shorter history covers the case), except for calls that  *)
(* the wrapper must refuse on an existing path.                                           *)
EXTENDS FsIsolationOps, Json

CONSTANTS Depth, AllVias, Prune, PruneLast

VARIABLES fs, cr, hist
vars == <<fs, cr, hist>>

Init == /\ fs = Tree0 /\ cr = {} /\ hist = <<>>

Changes(r) == r.fs # fs \/ r.cr # cr
\* a destructive call on an existing path that the wrapper must refuse (one probe per call kind)
RefusedProbe(o, r) == /\ r.res = "PermissionError" /\ Exists(fs, o.p)
                      /\ \/ o.op \in OnePathOps
                         \/ ~o.kw /\ o.q = (IF o.p = "an" THEN "n" ELSE "an")

\* a call on an isolated path that passes the wrapper's check and then fails in the library
FailsOnCreated(o, r) == /\ r.res \notin {"ok", "PermissionError"} /\ o.p \in cr /\ ~o.kw
                        /\ o.op \in {"Remove", "Rmdir", "Rmtree", "Rename", "Replace", "Move"}

Next == /\ Len(hist) < Depth
        /\ \E o \in Calls(fs, AllVias) :
             LET r == Eff(o, fs, cr, AsIs) IN
             /\ (Prune /\ Len(hist) + 1 < Depth) => Changes(r)
             /\ (Prune /\ PruneLast /\ Len(hist) + 1 = Depth) =>
                    (Changes(r) \/ RefusedProbe(o, r) \/ FailsOnCreated(o, r))
             /\ fs' = r.fs
             /\ cr' = r.cr
             /\ hist' = Append(hist, o)

Spec == Init /\ [][Next]_vars

Emit == Len(hist) = Depth => PrintT(<<"HIST", ToJson([hist |-> hist])>>)
=============================================================================

------------------------------ MODULE MC_Tracer -------------------------------
(* Case enumeration for C04 / C01(b) / C05: every comparison kind over every pair of value *)
(* classes (one representative each), truthiness of every class, exception matching.       *)
EXTENDS TracerOps, TLC, Json

CONSTANTS Values,    \* names of value-class representatives
          ExcLeft,   \* raised exceptions / exception types
          ExcRight   \* handler expressions

VARIABLES case
Init == case = [kind |-> "none", a |-> "-", b |-> "-", same |-> FALSE]
Next ==
  /\ case.kind = "none"
  /\ \/ \E k \in CmpOps \cup {"IN_PRESENCE"}, a \in Values, b \in Values :
          case' = [kind |-> k, a |-> a, b |-> b, same |-> FALSE]
     \/ \E k \in {"EQ", "NE", "IS", "IS_NOT", "LE", "LT"}, a \in Values :   \* the very same object
          case' = [kind |-> k, a |-> a, b |-> a, same |-> TRUE]
     \/ \E a \in Values : case' = [kind |-> "BOOL", a |-> a, b |-> "-", same |-> FALSE]
     \/ \E a \in ExcLeft, b \in ExcRight : case' = [kind |-> "EXC_MATCH", a |-> a, b |-> b, same |-> FALSE]
Spec == Init /\ [][Next]_case
Emit == case.kind # "none" => PrintT(<<"HIST", ToJson(case)>>)
=============================================================================

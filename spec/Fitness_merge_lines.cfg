CONSTANTS
  MaxPred = 0
  MaxBl = 0
  MaxLine = 2
  LinePred = 0
  LineBl = 0
  MaxCnt = 2
  MaxTests = 2
  Dists = {"Z", "P", "INF"}
  Shapes = {"own"}
  Diam = 2
SPECIFICATION Spec
INVARIANT TypeOK
INVARIANT TracesWF
INVARIANT MergedIsFold
INVARIANT FitnessFiniteNonNeg
INVARIANT CoverageIn01
INVARIANT FitnessZeroIffCovered
INVARIANT SuiteZeroIffCoverageOne
INVARIANT AddTestMonotone
INVARIANT MergeCommutative
INVARIANT MergeAssociative
INVARIANT MergeNeutral
INVARIANT AnalyzeResultsIsFold
PROPERTY AddTestMonotoneStep

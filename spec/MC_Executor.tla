----------------------------- MODULE MC_Executor ------------------------------
(* Behaviour extraction for C32: schedules a harness can reproduce deterministically  *)
(* (Controlled = TRUE).  hist holds the environment's choices (Spawn with a program,   *)
(* Release of a blocked call) and the observable events in the order they happen.      *)
EXTENDS Executor, Json

VARIABLES hist
mcvars == <<vars, hist>>

Ev(e, i) == [e |-> e, i |-> i, prog |-> <<>>]

(* no other thread is in the middle of running: replay is race free *)
Quiet(except) == \A a \in T \ except : Alive(a) => Stuck(a)

MCInit == Init /\ hist = <<>>

MCNext ==
  \/ \E p \in Programs : Spawn(p) /\ Quiet({}) /\ hist' = Append(hist, [e |-> "Spawn", i |-> mi + 1, prog |-> p])
  \/ Finish /\ Quiet({}) /\ hist' = Append(hist, Ev("End", 0))
  \/ JoinOk /\ Quiet({}) /\ hist' = Append(hist, Ev("Result", mi))
  \/ JoinTimeout /\ Quiet({}) /\ hist' = Append(hist, Ev("Timeout", mi))
  \/ SecondJoin /\ Quiet({}) /\ hist' = Append(hist, Ev("Result", mi))
  \/ \E i \in T :
       \/ (InitTrace(i) \/ EnterCtx(i) \/ ExitCtx(i)) /\ UNCHANGED hist
       \/ Step(i) /\ hist' = IF parked'[i] /\ ~parked[i] THEN Append(hist, Ev("Park", i)) ELSE hist
       \/ (Put(i) \/ Unwind(i)) /\ hist' = Append(hist, Ev("Dead", i))
       \/ Release(i) /\ Quiet({i}) /\ hist' = Append(hist, Ev("Release", i))

MCSpec == MCInit /\ [][MCNext]_mcvars

Expect == [j \in T |-> [timeout |-> result[j].timeout, nitems |-> Cardinality(result[j].items),
                        exc |-> result[j].exc # 0]]

Emit == (mpc = "end" /\ Quiet({})) =>
          PrintT(<<"HIST", ToJson([hist |-> hist, expect |-> Expect])>>)
=============================================================================

--------------------------- MODULE MC_TypeSystemRet ---------------------------
(* Behaviour extraction for C26, return-type family: histories in which            *)
(* update_return_type changes what a generator is good for, interleaved with the   *)
(* offered-set queries of the provider.                                            *)
(*                                                                                 *)
(* Every history starts with add_generator(xa) -- the function without annotation, *)
(* return type Any -- and continues with Depth - 1 calls out of                    *)
(*   update_return_type(g, c)   g a registered function (m1 -> C_n, xa -> Any),    *)
(*                              c a user class:  Any -> {c} narrows the return     *)
(*                              type, T -> T | c widens it, {c1} -> {c1, c2} too   *)
(*   offered(c)                 c a user class: compatible with the old return     *)
(*                              type only, with the new one only, with both        *)
(*   add_subclass_edge(a, b)    only if WithEdges                                  *)
(* A history is emitted when it contains an update and ends with a query (every    *)
(* prefix with that shape is emitted as well, so Depth is an upper bound).         *)
EXTENDS MC_TypeSystem

CONSTANT WithEdges

RetQueries == {Key("offered", Cl(x), NoT, 0) : x \in UserSet}

RetNext ==
  \/ /\ \E ch \in HierChoices(Len(hier) + 1) : Declare(ch)
     /\ UNCHANGED hist
     /\ out' = Describe(hier', hist)
  \/ /\ Complete /\ Len(hist) < Depth
     /\ steps' = steps + 1
     /\ IF hist = <<>>
        THEN AddGenerator("xa") /\ hist' = <<Act("add_gen", "xa", "", NoKey)>>
        ELSE \/ \E g \in gens \cap FuncGens, c \in UserSet :
                  UpdateReturnType(g, c) /\ hist' = Append(hist, Act("update_ret", g, c, NoKey))
             \/ \E k \in RetQueries :
                  Query(k) /\ hist' = Append(hist, Act("query", "", "", k))
             \/ /\ WithEdges
                /\ \E a \in UserSet, b \in UserSet :
                     AddSubclassEdge(a, b) /\ hist' = Append(hist, Act("add_edge", a, b, NoKey))
     /\ out' = Describe(hier, hist')

RetSpec == MCInit /\ [][RetNext]_mcvars

RetEmit ==
  (/\ Complete /\ hist # <<>>
   /\ hist[Len(hist)].op = "query"
   /\ \E i \in DOMAIN hist : hist[i].op = "update_ret")
    => PrintT(<<"HIST", out>>)
=============================================================================

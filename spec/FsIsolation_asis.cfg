CONSTANTS
  Dev = {"RecordExisting", "NoCheckOnWrite", "KwDstIsSrc"}
  MaxSteps = 2
  AllVias = FALSE
SPECIFICATION Spec
INVARIANT TypeOK
INVARIANT Attributed

SPECIFICATION Spec
INVARIANT FilterKeepsExactlyHolding
CHECK_DEADLOCK FALSE

\* shapes, thorough: test cases of up to 3 statements
CONSTANTS
  Batches <- ShapeBatches
  Observers <- ObsModes
  M = 2
  Per = 1
  Faults = {}
  MaxFaults = 0
  Pickle = "ascoded"
  Variant = "ascoded"
  MaxLen = 3
  MaxBatch = 1
SPECIFICATION MCSpec
INVARIANT Emit

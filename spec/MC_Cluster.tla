----------------------------- MODULE MC_Cluster ------------------------------
(* Behaviour extraction for C27: every module the builder of ClusterOps can    *)
(* produce in at most Depth steps (DepthIgn steps when ignore_modules is not   *)
(* empty) is emitted once, together with the ignore_modules setting, as JSON.  *)
(* The harness renders each as a real package and runs generate_test_cluster   *)
(* under PUBLIC, PROTECTED and ALL.                                            *)
EXTENDS ClusterOps, TLC, Json

CONSTANTS Depth, DepthIgn, Shape

VARIABLES hist,     \* the module built so far (sequence of member records)
          modign, steps
vars == <<hist, modign, steps>>

Init == hist = <<>> /\ modign \in ModIgns /\ steps = 0

Next == /\ steps < (IF modign = "none" THEN Depth ELSE DepthIgn)
        /\ \E N \in NextModules(hist, Shape) : hist' = N
        /\ steps' = steps + 1
        /\ UNCHANGED modign

Spec == Init /\ [][Next]_vars

Emit == steps >= 1 => PrintT(<<"HIST", ToJson([modign |-> modign, steps |-> steps, M |-> hist])>>)
=============================================================================

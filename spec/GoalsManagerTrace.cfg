SPECIFICATION Spec
INVARIANT InitialGoals
INVARIANT GoalReachable
INVARIANT GoalReachableStructural
INVARIANT Disjoint
INVARIANT NoGoalLost
INVARIANT CoveredGrows
INVARIANT OnlyCovered
INVARIANT Tracked
INVARIANT Complete
INVARIANT AsModel

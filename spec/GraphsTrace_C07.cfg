SPECIFICATION Spec
INVARIANT BuildSucceeds
INVARIANT AllGoalsReachable
INVARIANT DepsResolve
INVARIANT OrphansAreRoots
INVARIANT StructureHonoured
INVARIANT GoalGraphAsModel

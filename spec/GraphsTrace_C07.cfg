SPECIFICATION Spec
INVARIANT BuildSucceeds
INVARIANT AllGoalsReachable
INVARIANT DepsResolve
INVARIANT OrphansAreRoots
INVARIANT GoalGraphAsModel

SPECIFICATION Spec
INVARIANT StateFollows
INVARIANT ResultFollows
INVARIANT StaysASet
PROPERTY Chained

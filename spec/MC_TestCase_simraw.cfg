CONSTANTS
  Depth = 8
  Types = {"A", "B"}
  MaxUses = 2
  RawToo = TRUE
  SeedIds = {0, 1, 2, 3, 4}
SPECIFICATION Spec
CONSTRAINT Small

CONSTANTS
  Dev = {"RecordExisting", "NoCheckOnWrite", "KwDstIsSrc"}
  MaxSteps = 1
  AllVias = TRUE
SPECIFICATION Spec
INVARIANT TypeOK
INVARIANT Attributed

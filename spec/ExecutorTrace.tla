---------------------------- MODULE ExecutorTrace -----------------------------
(* Trace validation for C32: one event per executed test case of a replayed schedule,   *)
(* holding what the real TestCaseExecutor returned (timeout flag, covered lines, lines  *)
(* of executed predicates, exceptions) and what the test case's own code can produce    *)
(* (`own` = lines of its own function + import-time lines).                             *)
EXTENDS Naturals, Sequences, FiniteSets, TLC, TLCExt, Json, IOUtils

Traces == ndJsonDeserialize(IOEnv.TRACE_FILE)

VARIABLES tid, l, cur
vars == <<tid, l, cur>>

NoEv == [e |-> "none"]
Init == /\ tid \in 1..Len(Traces) /\ l = 0 /\ cur = NoEv
Next == /\ l < Len(Traces[tid].ev)
        /\ l' = l + 1
        /\ cur' = Traces[tid].ev[l + 1]
        /\ UNCHANGED tid
Spec == Init /\ [][Next]_vars

SetOf(q) == {q[k] : k \in DOMAIN q}

(* ---- C32 ---- *)
NoPollution ==
  l > 0 => /\ SetOf(cur.lines) \subseteq SetOf(cur.own)
           /\ SetOf(cur.pred_lines) \subseteq SetOf(cur.own)
           /\ (cur.exc => cur.may_raise)
TimeoutReported == (l > 0 /\ cur.nonterm) => (cur.timeout /\ ~cur.late /\ ~cur.hung)
ExecuteReturns  == l > 0 => ~cur.hung
(* a test case whose execution timed out is not started again by the same execute() call (the    *)
(* type-tracing executor runs terminating test cases twice): a second run of a non-terminating  *)
(* test needs at least another full timeout, whatever the load of the machine                   *)
NoReexecutionAfterTimeout == (l > 0 /\ cur.timeout) => cur.starts <= 1
(* ---- beyond the list: conformance with the design model (DRIFT only) ---- *)
ConformTimeoutFlag == l > 0 => cur.timeout = cur.expect_timeout
=============================================================================

------------------------------ MODULE CacheTrace ------------------------------
(***************************************************************************)
(* Trace validation for C12.  Every event is one call made on real         *)
(* TestCaseChromosome / TestSuiteChromosome objects: the call, for a query *)
(* what it returned (ret), what a from-scratch computation on pristine     *)
(* chromosomes with the current statements returns (fresh), whether it     *)
(* raised and whether the function was registered; for the random search   *)
(* operators the observed outcome; and the observable state of every       *)
(* chromosome that changed (tp, sp).                                       *)
(*                                                                         *)
(* NeverStale and QueryTotal are the C12 clauses, evaluated on what the    *)
(* real code returned.  ModelFollows binds the design model to the code:   *)
(* a shadow world is advanced with CacheOps.Step from the recorded calls   *)
(* and outcomes, and must agree with the observed state after every call   *)
(* (flags, results, registered lists, keys of the three caches, verdict of *)
(* the query).  A disagreement is model drift, not a verdict on the code.  *)
(***************************************************************************)
EXTENDS CacheOps, TLC, TLCExt, Json, IOUtils

Traces == ndJsonDeserialize(IOEnv.TRACE_FILE)

VARIABLES tid, l, W, st,
          O,           \* who holds which test with which content, as observed on the real objects
          iso          \* did the call just made leave the inputs of all other chromosomes alone
vars == <<tid, l, W, st, O, iso>>

CodeFaults == AllFaults
NoFaults == {}
DefFactoryFF == <<"f1", "f2">>

NoEv == [op |-> "none"]
cur == IF l = 0 THEN NoEv ELSE Traces[tid].ev[l]     \* the call just made

\* observed record -> model record (nothing cached: the initial chromosomes are pristine)
LiftT(o) == [alive |-> o.al, owner |-> o.ow, c |-> o.c, sut |-> o.sut, chg |-> o.chg, res |-> o.res,
             ff |-> o.ff, cf |-> o.cf, fit |-> NoFit, isc |-> NoFit, cov |-> NoCov]
LiftS(o) == [alive |-> o.al, mem |-> o.mem, chg |-> o.chg, ff |-> o.ff, cf |-> o.cf,
             fit |-> NoFitS, isc |-> NoFitS, cov |-> NoCovS]
\* w0 lists the live chromosomes only: [nt, ns, t |-> <<[id, r]>>, s |-> <<[id, r]>>]
Pick(ds, i) == ds[CHOOSE n \in DOMAIN ds : ds[n].id = i].r
Has(ds, i) == \E n \in DOMAIN ds : ds[n].id = i
Lift(w) == [t |-> [i \in 1..w.nt |-> IF Has(w.t, i) THEN LiftT(Pick(w.t, i)) ELSE DeadT],
            s |-> [j \in 1..w.ns |-> IF Has(w.s, j) THEN LiftS(Pick(w.s, j)) ELSE DeadS],
            clk |-> 0]

SameT(m, o) ==
  /\ m.alive = o.al
  /\ m.alive => /\ m.owner = o.ow /\ m.c = o.c /\ m.sut = o.sut /\ m.chg = o.chg /\ m.res = o.res
                /\ m.ff = o.ff /\ m.cf = o.cf
                /\ Keys(m.fit, None) = SeqToSet(o.fk) /\ Keys(m.isc, None) = SeqToSet(o.ik)
                /\ Keys(m.cov, None) = SeqToSet(o.ck)
SameS(m, o) ==
  /\ m.alive = o.al
  /\ m.alive => /\ m.mem = o.mem /\ m.chg = o.chg /\ m.ff = o.ff /\ m.cf = o.cf
                /\ Keys(m.fit, NoneS) = SeqToSet(o.fk) /\ Keys(m.isc, NoneS) = SeqToSet(o.ik)
                /\ Keys(m.cov, NoneS) = SeqToSet(o.ck)
\* observable part of a model record
ViewT(m) == IF ~m.alive THEN <<>> ELSE
  <<m.owner, m.c, m.sut, m.chg, m.res, m.ff, m.cf, Keys(m.fit, None), Keys(m.isc, None), Keys(m.cov, None)>>
ViewS(m) == IF ~m.alive THEN <<>> ELSE
  <<m.mem, m.chg, m.ff, m.cf, Keys(m.fit, NoneS), Keys(m.isc, NoneS), Keys(m.cov, NoneS)>>

\* the event lists the chromosomes whose observable state changed (tp, sp) with their new state:
\* the model's next world must show exactly these changes
SameWorld(w0, w1, e) ==
  /\ \A i \in DOMAIN w1.t : IF Has(e.tp, i) THEN SameT(w1.t[i], Pick(e.tp, i))
                                ELSE (w1.t[i] = w0.t[i] \/ ViewT(w1.t[i]) = ViewT(w0.t[i]))
  /\ \A j \in DOMAIN w1.s : IF Has(e.sp, j) THEN SameS(w1.s[j], Pick(e.sp, j))
                                ELSE (w1.s[j] = w0.s[j] \/ ViewS(w1.s[j]) = ViewS(w0.s[j]))

ActOf(e) == [op |-> e.op, a |-> e.a, b |-> e.b, p |-> e.p, q |-> e.q, f |-> e.f, k |-> e.k]
ObsStale(e) == IsQuery(e) /\ ~e.raised /\ e.fresh # -2 /\ e.ret # e.fresh

\* the model explains the observation: same report; every stale answer is one the model predicts
\* (the converse need not hold: two versions may have the same value under a function)
VerdictAgrees(e, v) == /\ e.reg = v.reg /\ e.raised = v.raised /\ (ObsStale(e) => v.stale)

Slotted(w, e) == e.op = "smut" => Cardinality(FreeT(w)) >= Len(e.out.added)

\* the observed holdings: per test slot alive / owner / content version, per suite slot alive / members
HoldT(o) == [alive |-> o.al, owner |-> o.ow, c |-> o.c]
HoldS(o) == [alive |-> o.al, mem |-> o.mem]
NoHoldT == [alive |-> FALSE, owner |-> 0, c |-> 0]
NoHoldS == [alive |-> FALSE, mem |-> <<>>]
Hold0(w) == [t |-> [i \in 1..w.nt |-> IF Has(w.t, i) THEN HoldT(Pick(w.t, i)) ELSE NoHoldT],
             s |-> [j \in 1..w.ns |-> IF Has(w.s, j) THEN HoldS(Pick(w.s, j)) ELSE NoHoldS]]
\* ... after event e: the chromosomes listed in tp / sp have the recorded state
Observe(w, e) == [t |-> [i \in DOMAIN w.t |-> IF Has(e.tp, i) THEN HoldT(Pick(e.tp, i)) ELSE w.t[i]],
                  s |-> [j \in DOMAIN w.s |-> IF Has(e.sp, j) THEN HoldS(Pick(e.sp, j)) ELSE w.s[j]]]

Init == /\ tid \in 1..Len(Traces) /\ l = 0
        /\ W = Lift(Traces[tid].w0) /\ st = "ok"
        /\ O = Hold0(Traces[tid].w0) /\ iso = TRUE

Next == /\ l < Len(Traces[tid].ev)
        /\ l' = l + 1
        /\ LET e   == Traces[tid].ev[l + 1]
               act == ActOf(e)
               can == st = "ok" /\ Enabled(W, act) /\ Slotted(W, e) /\ OutOK(W, act, e.out)
               r   == StepV(W, act, e.out)
               W1  == IF can THEN r.W ELSE W
           IN /\ W' = W1
              /\ st' = IF st # "ok" THEN "lost"
                       ELSE IF can /\ SameWorld(W, W1, e) /\ VerdictAgrees(e, r.v)
                            THEN "ok" ELSE "diverged"
        /\ O' = Observe(O, Traces[tid].ev[l + 1])
        /\ iso' = IsolatedP(O, O', ActOf(Traces[tid].ev[l + 1]))
        /\ UNCHANGED tid
Spec == Init /\ [][Next]_vars

(* ---- C12, on what the real code returned ---- *)
\* fresh = -2: the from-scratch computation itself has no value (get_coverage without functions)
NeverStale == (l > 0 /\ IsQuery(cur) /\ ~cur.raised /\ cur.fresh # -2) => cur.ret = cur.fresh
QueryTotal == (l > 0 /\ IsQuery(cur) /\ cur.reg) => ~cur.raised

(* ---- chromosomes own their test cases, on the observed objects (conformance with the design:
        reported as drift; the C12 verdict on a shared test is NeverStale at the query that is served
        the other chromosome's edit) ---- *)
\* (that two suites hold the same test object -- ~OwnedP(O) -- is not reported by itself: it shows
\*  here as soon as a call on one of them edits the shared test)
Isolated == iso

(* ---- the design model explains every observed call (drift if not) ---- *)
ModelFollows == st # "diverged"
=============================================================================

SPECIFICATION Spec
INVARIANT AssertionsKept
INVARIANT CoveragePreserved
INVARIANT OnlyOriginalStatements
INVARIANT AssertedStatementsKept
INVARIANT FileImportsCleanly
INVARIANT TestVerdicts
INVARIANT SeedRoundTrip
INVARIANT SameSeedSameSuite
INVARIANT ConformSameEvents

CONSTANTS
  MinB = 1
  MaxB = 2
  MaxOut = 3
  ExitAug = TRUE
  Repr = "triples"
SPECIFICATION MCSpec
INVARIANT Emit

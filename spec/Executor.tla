------------------------------- MODULE Executor -------------------------------
(***************************************************************************)
(* Thread protocol of pynguin.testcase.execution.TestCaseExecutor.execute  *)
(* together with the thread handling of instrumentation.tracer             *)
(* (ExecutionTracer.__enter__/__exit__/check/stop, thread-local traces)    *)
(* and OutputSuppressionContext.  Properties C32 (and the extra            *)
(* NoSpuriousTimeout hazard), parts of C30/C05.                             *)
(*                                                                         *)
(* main thread           execute(): Spawn, join(timeout) -> JoinOk |       *)
(*                       JoinTimeout (= tracer.stop()), SecondJoin,        *)
(*                       output restore, result                            *)
(* executor thread i     _execute_test_case(): InitTrace, EnterCtx (tracer *)
(*                       __enter__: cur := i), one statement per program   *)
(*                       op with check() before and after, ExitCtx (tracer *)
(*                       __exit__ = stop(): cur := None, WHOEVER owns it), *)
(*                       Put(result)                                       *)
(* program ops           "rec"  instrumented code: check(), then record    *)
(*                       "gate" uninstrumented blocking call (released by  *)
(*                              the environment, maybe never)              *)
(*                       "spin" instrumented infinite loop                 *)
(*                       "nap"  uninstrumented infinite wait               *)
(*                       "raise" the SUT raises (ends the test case)       *)
(*                       "pgate" instrumented code whose tracer callback   *)
(*                              blocks between check() and the record      *)
(*                              (a slow user operator evaluated by the     *)
(*                              callback), released by the environment     *)
(***************************************************************************)
EXTENDS Naturals, Sequences, FiniteSets, TLC

CONSTANTS N,                 \* number of test cases executed one after the other
          Programs,          \* set of programs (sequences of ops) a test case may have
          TraceIsThreadLocal,\* TRUE in the code: TracerLocalState(threading.local)
          CheckOnCallback,   \* TRUE in the code: every tracer callback starts with check()
          Controlled         \* TRUE: only schedules a harness can reproduce deterministically

None == 0
T == 1..N
DesignPrograms == {<<"rec">>, <<"rec", "gate", "rec">>, <<"spin">>, <<"nap">>, <<"rec", "raise">>,
                   <<"gate", "raise">>, <<"pgate", "rec">>}

VARIABLES mpc,      \* main: "next" | "joining" | "stopped" | "end"
          mi,       \* index of the test case main is executing (0 before the first)
          tpc,      \* thread -> "idle"|"init"|"enter"|"run"|"exit"|"put"|"unwind"|"done"|"dead"
          prog,     \* thread -> program
          ip,       \* thread -> index of the op being executed
          parked,   \* thread -> waiting inside an uninstrumented blocking call
          cur,      \* tracer._current_thread_identifier (None = nobody)
          trace,    \* thread -> set of recorded items <<thread that executed the code, ip>>
          exc,      \* thread -> ip at which the SUT raised (0 = none)
          queue,    \* thread -> result put into the return queue (or None)
          result,   \* test -> [timeout, items, exc] (or None)
          out,      \* who redirected sys.stdout/sys.stderr last: 0 = original streams
          chk       \* thread -> it passed check() in a callback and has not yet written the trace
vars == <<mpc, mi, tpc, prog, ip, parked, cur, trace, exc, queue, result, out, chk>>

NoRes == [timeout |-> FALSE, items |-> {}, exc |-> 0, none |-> TRUE]
Res(to, items, e) == [timeout |-> to, items |-> items, exc |-> e, none |-> FALSE]

(* where a thread's tracer state lives: its own slot (threading.local) or, in the what-if *)
(* variant, one slot shared by all threads                                               *)
Slot(i) == IF TraceIsThreadLocal THEN i ELSE 1

Alive(i) == tpc[i] \notin {"idle", "done", "dead"}
Op(i) == IF ip[i] <= Len(prog[i]) THEN prog[i][ip[i]] ELSE "end"
(* a thread that will make no progress without outside help *)
Stuck(i) == tpc[i] = "run" /\ (parked[i] \/ ~chk[i]) /\ (parked[i] \/ Op(i) = "nap" \/ (Op(i) = "spin" /\ cur = i))
NonTerminating(p) == \E k \in DOMAIN p : p[k] \in {"spin", "nap"}

Init ==
  /\ mpc = "next" /\ mi = 0
  /\ tpc = [i \in T |-> "idle"] /\ prog = [i \in T |-> <<>>] /\ ip = [i \in T |-> 1]
  /\ parked = [i \in T |-> FALSE] /\ cur = None
  /\ trace = [i \in T |-> {}] /\ exc = [i \in T |-> 0]
  /\ queue = [i \in T |-> NoRes] /\ result = [i \in T |-> NoRes] /\ out = 0
  /\ chk = [i \in T |-> FALSE]

---------------------------------------------------------------------------
(* main thread *)
Spawn(p) ==
  /\ mpc = "next" /\ mi < N
  /\ mi' = mi + 1 /\ mpc' = "joining"
  /\ tpc' = [tpc EXCEPT ![mi + 1] = "init"] /\ prog' = [prog EXCEPT ![mi + 1] = p]
  /\ UNCHANGED <<ip, parked, cur, trace, exc, queue, result, out, chk>>

Finish == mpc = "next" /\ mi = N /\ mpc' = "end"
          /\ UNCHANGED <<mi, tpc, prog, ip, parked, cur, trace, exc, queue, result, out, chk>>

(* thread.join(timeout) returns because the thread finished *)
JoinOk ==
  /\ mpc = "joining" /\ tpc[mi] \in {"done", "dead"}
  /\ result' = [result EXCEPT ![mi] =
        IF queue[mi].none THEN Res(TRUE, {}, 0)   \* "Finished thread did not return a result"
        ELSE queue[mi]]
  /\ mpc' = "next"
  /\ UNCHANGED <<mi, tpc, prog, ip, parked, cur, trace, exc, queue, out, chk>>

(* the timeout expires while the thread is alive: tracer.stop() *)
JoinTimeout ==
  /\ mpc = "joining" /\ Alive(mi)
  /\ (Controlled => Stuck(mi))      \* a harness can only force this for stuck tests
  /\ cur' = None /\ mpc' = "stopped"
  /\ UNCHANGED <<mi, tpc, prog, ip, parked, trace, exc, queue, result, out, chk>>

(* second join (returns when the thread died or after the maximum timeout), restore output *)
SecondJoin ==
  /\ mpc = "stopped"
  /\ (Controlled => (~Alive(mi) \/ Stuck(mi)))
  /\ out' = 0
  /\ result' = [result EXCEPT ![mi] = Res(TRUE, {}, 0)]
  /\ mpc' = "next"
  /\ UNCHANGED <<mi, tpc, prog, ip, parked, cur, trace, exc, queue, chk>>

---------------------------------------------------------------------------
(* executor thread i *)
InitTrace(i) ==
  /\ tpc[i] = "init"
  /\ trace' = [trace EXCEPT ![Slot(i)] = {}]
  /\ tpc' = [tpc EXCEPT ![i] = "enter"]
  /\ UNCHANGED <<mpc, mi, prog, ip, parked, cur, exc, queue, result, out, chk>>

EnterCtx(i) ==
  /\ tpc[i] = "enter"
  /\ cur' = i /\ out' = i
  /\ tpc' = [tpc EXCEPT ![i] = "run"]
  /\ UNCHANGED <<mpc, mi, prog, ip, parked, trace, exc, queue, result, chk>>


Abort(i) == /\ tpc' = [tpc EXCEPT ![i] = "unwind"]
            /\ UNCHANGED <<mpc, mi, prog, ip, parked, cur, trace, exc, queue, result, out, chk>>

Step(i) ==
  /\ tpc[i] = "run" /\ ~parked[i]
  /\ CASE Op(i) = "end" ->
            /\ tpc' = [tpc EXCEPT ![i] = "exit"]
            /\ UNCHANGED <<mpc, mi, prog, ip, parked, cur, trace, exc, queue, result, out, chk>>
       [] Op(i) \in {"rec", "spin"} ->
            IF ~chk[i]
            THEN IF CheckOnCallback /\ cur # i
                 THEN Abort(i)                   \* check() raises TracingAbortedException
                 ELSE /\ chk' = [chk EXCEPT ![i] = TRUE]
                      /\ UNCHANGED <<mpc, mi, tpc, prog, ip, parked, cur, trace, exc, queue, result, out>>
            ELSE \* the callback body: not atomic with the check
                 /\ trace' = [trace EXCEPT ![Slot(i)] = @ \cup {<<i, ip[i]>>}]
                 /\ ip' = [ip EXCEPT ![i] = IF Op(i) = "rec" THEN @ + 1 ELSE @]
                 /\ chk' = [chk EXCEPT ![i] = FALSE]
                 /\ UNCHANGED <<mpc, mi, tpc, prog, parked, cur, exc, queue, result, out>>
       [] Op(i) = "pgate" ->
            IF ~chk[i]
            THEN IF CheckOnCallback /\ cur # i
                 THEN Abort(i)
                 ELSE /\ chk' = [chk EXCEPT ![i] = TRUE]          \* check() passed ...
                      /\ parked' = [parked EXCEPT ![i] = TRUE]    \* ... and the callback blocks
                      /\ UNCHANGED <<mpc, mi, tpc, prog, ip, cur, trace, exc, queue, result, out>>
            ELSE \* released: the callback records without checking again
                 /\ trace' = [trace EXCEPT ![Slot(i)] = @ \cup {<<i, ip[i]>>}]
                 /\ ip' = [ip EXCEPT ![i] = @ + 1]
                 /\ chk' = [chk EXCEPT ![i] = FALSE]
                 /\ UNCHANGED <<mpc, mi, tpc, prog, parked, cur, exc, queue, result, out>>
       [] Op(i) = "gate" ->
            IF cur # i THEN Abort(i)             \* check() in _before_statement_execution
            ELSE /\ parked' = [parked EXCEPT ![i] = TRUE]
                 /\ UNCHANGED <<mpc, mi, tpc, prog, ip, cur, trace, exc, queue, result, out, chk>>
       [] Op(i) = "raise" ->
            IF cur # i THEN Abort(i)
            ELSE /\ exc' = [exc EXCEPT ![i] = ip[i]]
                 /\ tpc' = [tpc EXCEPT ![i] = "exit"]
                 /\ UNCHANGED <<mpc, mi, prog, ip, parked, cur, trace, queue, result, out, chk>>
       [] Op(i) = "nap" -> FALSE

(* environment: the blocking call returns; the statement ends with check() *)
Release(i) ==
  /\ tpc[i] = "run" /\ parked[i]
  /\ (Controlled /\ i # mi => (mpc \in {"next", "end"} \/ Stuck(mi) \/ ~Alive(mi)))
  /\ parked' = [parked EXCEPT ![i] = FALSE]
  /\ IF chk[i] THEN UNCHANGED <<ip, tpc>>          \* blocked inside a callback: it just continues
     ELSE IF cur # i THEN tpc' = [tpc EXCEPT ![i] = "unwind"] /\ UNCHANGED ip
     ELSE ip' = [ip EXCEPT ![i] = @ + 1] /\ UNCHANGED tpc
  /\ UNCHANGED <<mpc, mi, prog, cur, trace, exc, queue, result, out, chk>>

(* leaving the with-block normally: tracer.__exit__ -> stop(); output restored *)
ExitCtx(i) ==
  /\ tpc[i] = "exit"
  /\ cur' = None /\ out' = IF out = i THEN 0 ELSE out
  /\ tpc' = [tpc EXCEPT ![i] = "put"]
  /\ UNCHANGED <<mpc, mi, prog, ip, parked, trace, exc, queue, result, chk>>

Put(i) ==
  /\ tpc[i] = "put"
  /\ queue' = [queue EXCEPT ![i] = Res(FALSE, trace[Slot(i)], exc[i])]
  /\ tpc' = [tpc EXCEPT ![i] = "done"]
  /\ UNCHANGED <<mpc, mi, prog, ip, parked, cur, trace, exc, result, out, chk>>

(* TracingAbortedException unwinds through the with-block: tracer.__exit__ -> stop() sets *)
(* cur := None even if another thread owns the tracer by now; no result is put            *)
Unwind(i) ==
  /\ tpc[i] = "unwind"
  /\ cur' = None /\ out' = IF out = i THEN 0 ELSE out
  /\ tpc' = [tpc EXCEPT ![i] = "dead"]
  /\ UNCHANGED <<mpc, mi, prog, ip, parked, trace, exc, queue, result, chk>>

ThreadStep(i) == InitTrace(i) \/ EnterCtx(i) \/ Step(i) \/ ExitCtx(i) \/ Put(i) \/ Unwind(i)

Next ==
  \/ \E p \in Programs : Spawn(p)
  \/ Finish \/ JoinOk \/ JoinTimeout \/ SecondJoin
  \/ \E i \in T : ThreadStep(i) \/ Release(i)

Fairness ==
  /\ WF_vars(\E p \in Programs : Spawn(p)) /\ WF_vars(Finish) /\ WF_vars(JoinOk)
  /\ WF_vars(JoinTimeout) /\ WF_vars(SecondJoin)
  /\ \A i \in T : WF_vars(ThreadStep(i))

Spec == Init /\ [][Next]_vars /\ Fairness

---------------------------------------------------------------------------
TypeOK ==
  /\ mpc \in {"next", "joining", "stopped", "end"} /\ mi \in 0..N
  /\ cur \in T \cup {None} /\ out \in T \cup {0}

(* ---- C32 ---- *)
(* the abandoned execution never adds lines / branches / exceptions to a later result *)
NoPollution ==
  \A j \in T : ~result[j].none =>
    /\ \A it \in result[j].items : it[1] = j
    /\ (result[j].exc # 0 => exc[j] = result[j].exc)
(* a test case that does not terminate is reported as a timeout *)
TimeoutReported ==
  \A j \in T : (tpc[j] = "run" /\ NonTerminating(prog[j])) ~> (~result[j].none /\ result[j].timeout)
(* every started test case gets a result: execute() returns *)
ExecuteReturns == \A j \in T : (mi = j) ~> ~result[j].none
(* a result that is not a timeout is exactly what the test's own thread recorded *)
ResultIsOwnTrace ==
  \A j \in T : (~result[j].none /\ ~result[j].timeout) => result[j].items \subseteq trace[Slot(j)]

(* ---- beyond the listed properties (reported, never a C32 verdict) ---- *)
(* a test case whose program terminates by itself is not reported as a timeout *)
NoSpuriousTimeout ==
  \A j \in T : (~result[j].none /\ result[j].timeout) =>
     \E k \in DOMAIN prog[j] : prog[j][k] \in {"spin", "nap", "gate", "pgate"}
(* output streams are the original ones whenever main is between test cases and no thread lives *)
OutputRestored == (mpc \in {"next", "end"} /\ \A i \in T : ~Alive(i)) => out = 0
=============================================================================

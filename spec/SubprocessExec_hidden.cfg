\* what-if: test cases that depend on hidden SUT state are outside C31 ("deterministic"):
\* after a fallback every test case starts from the parent's state, LinesAgree fails
CONSTANTS
  Batches <- HiddenBatches
  Observers = {"trace"}
  M = 4
  Per = 2
  Faults = {}
  MaxFaults = 0
  Pickle = "ascoded"
  Variant = "ascoded"
SPECIFICATION Spec
INVARIANT TypeOK
INVARIANT TimeoutAgree
INVARIANT ExceptionsAgree
INVARIANT NoOrphan
INVARIANT LinesAgree

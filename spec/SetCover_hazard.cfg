CONSTANTS
  MaxA = 3
  MaxM = 3
  Statuses = {"run", "timeout"}
  WithExc = FALSE
  MaxCount = 5
  UseCritical = FALSE
  Hazard = "shift_remove"
SPECIFICATION Spec
INVARIANT TypeOK
INVARIANT Subset
INVARIANT KillsPreserved
INVARIANT GreedyInv
INVARIANT GreedyCovers
INVARIANT KeepOnlyKillers
INVARIANT ScorePreserved
INVARIANT ScoreIn01
INVARIANT ScoreIgnores

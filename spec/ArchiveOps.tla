----------------------------- MODULE ArchiveOps ------------------------------
(***************************************************************************)
(* Pure operators for C13: what pynguin.ga.algorithms.archive does, call   *)
(* by call, on an abstract view of the archive, and the C13 clauses as     *)
(* predicates over such views.  No VARIABLES: used by the design model     *)
(* (Archive.tla), by the behaviour generator (MC_Archive.tla) and by the   *)
(* trace validator (ArchiveTrace.tla) on views projected from real objects.*)
(*                                                                         *)
(* Offered solution (input of a call):                                     *)
(*   [id, size, res, epos, fit]   res \in {"ok","exc","to","none"}         *)
(*   fit[g] = fitness class of the solution for goal g:                    *)
(*     HOne+1  fitness 0.0 (covers g, h = 1.0)                             *)
(*     HOne    fitness > 0 so small that h = 1.0 - normalise(f) == 1.0     *)
(*     k < HOne  not covered, h has rank k among the h values (0: h = 0.0) *)
(*   epos = index of the first raised exception (res = "exc")              *)
(* Archived solution (observed): [id, size, res, covers \subseteq Goal]    *)
(* View:                                                                   *)
(*   objs  sequence of goals (CoverageArchive._objectives, insertion order)*)
(*   unc   set of goals      (CoverageArchive.uncovered_goals)             *)
(*   cov   Goal -> archived solution or NoSol  (CoverageArchive._covered)  *)
(*   pops  Goal -> [cap, counter, covd, sols : Seq([h, sol])] (MIO)        *)
(***************************************************************************)
EXTENDS Integers, Sequences, FiniteSets, SequencesExt

HOne == 1000000          \* the h value 1.0 ("target fully covered")
NoSol == [id |-> 0, size |-> 0, res |-> "none", covers |-> {}]

Min2(a, b) == IF a <= b THEN a ELSE b
Max2(a, b) == IF a >= b THEN a ELSE b

Err(s) == s.res \in {"exc", "to"}      \* last execution timed out or raised

FitCovers(fit) == {g \in DOMAIN fit : fit[g] = HOne + 1}
HOf(f) == IF f >= HOne THEN HOne ELSE f

(* what the CoverageArchive stores for an offered solution: the object itself *)
AsCov(s) == [id |-> s.id, size |-> s.size, res |-> s.res, covers |-> FitCovers(s.fit)]
(* what the MIOArchive stores: a clone chopped after the first exception      *)
ChopSize(s) == IF s.res = "exc" /\ s.epos < s.size THEN s.epos + 1 ELSE s.size
AsMio(s) == [id |-> s.id, size |-> ChopSize(s), res |-> s.res, covers |-> FitCovers(s.fit)]

(* ------------------------------------------------------------------------ *)
(* CoverageArchive                                                          *)
(* ------------------------------------------------------------------------ *)
\* CoverageArchive._is_better_than_current(current, candidate)
Better(cur, cand) == (Err(cur) /\ cand.res = "ok") \/ cand.size < cur.size

\* inner loop of CoverageArchive.update for one objective g
RECURSIVE CovFold(_, _, _, _)
CovFold(g, best, upd, sols) ==
  IF sols = <<>> THEN [best |-> best, upd |-> upd]
  ELSE LET s == Head(sols) IN
       IF g \in s.covers /\ (best.id = 0 \/ Better(best, s))
       THEN CovFold(g, s, TRUE, Tail(sols))
       ELSE CovFold(g, best, upd, Tail(sols))

\* CoverageArchive.update(solutions): result [st, rb (return value), ntf (callbacks fired)]
CovUpdate(v, offered) ==
  LET sols == [i \in DOMAIN offered |-> AsCov(offered[i])]
      O == ToSet(v.objs)
      r(g) == CovFold(g, v.cov[g], FALSE, sols)
      newly == {g \in O : r(g).upd /\ g \in v.unc}
  IN [st  |-> [v EXCEPT !.cov = [g \in DOMAIN v.cov |-> IF g \in O THEN r(g).best ELSE v.cov[g]],
                        !.unc = v.unc \ newly],
      rb  |-> \E g \in O : r(g).upd,
      ntf |-> SelectSeq(v.objs, LAMBDA g : g \in newly)]

\* CoverageArchive.add_goals(new_goals)
RECURSIVE AddGoals(_, _)
AddGoals(v, gs) ==
  IF gs = <<>> THEN v
  ELSE LET g == Head(gs) IN
       AddGoals(IF g \in ToSet(v.objs) THEN v
                ELSE [v EXCEPT !.objs = Append(@, g), !.unc = @ \cup {g}], Tail(gs))

\* CoverageArchive.reset()
Reset(v) == [v EXCEPT !.unc = @ \cup ToSet(v.objs), !.cov = [g \in DOMAIN v.cov |-> NoSol]]

(* ------------------------------------------------------------------------ *)
(* MIOPopulation                                                            *)
(* ------------------------------------------------------------------------ *)
Pair(h, s) == [h |-> h, sol |-> s]
\* MIOPopulation.is_covered
PopCov(p) == Len(p.sols) = 1 /\ p.cap = 1 /\ p.sols[1].h = HOne
Fix(p) == [p EXCEPT !.covd = PopCov(p)]
\* MIOPopulation._is_better_than_current: neutral (<=) replacement
MioBetter(cur, cand) == (Err(cur) /\ cand.res = "ok") \/ cand.size <= cur.size
PairBetter(cur, cand) == IF cur.h > cand.h THEN FALSE
                         ELSE IF cur.h < cand.h THEN TRUE
                         ELSE MioBetter(cur.sol, cand.sol)
\* append + stable descending sort of an already sorted list
InsertStable(sols, c) == SelectSeq(sols, LAMBDA x : x.h >= c.h) \o <<c>>
                         \o SelectSeq(sols, LAMBDA x : x.h < c.h)
SortedDesc(sols) == \A i, j \in DOMAIN sols : i < j => sols[i].h >= sols[j].h

\* MIOPopulation.add_solution(h, chromosome): [pop, added]
PopAdd(p, h, s) ==
  LET c == Pair(h, s)
      no == [pop |-> p, added |-> FALSE]
      yes(q) == [pop |-> Fix([q EXCEPT !.counter = 0]), added |-> TRUE]
  IN IF h = 0 THEN no
     ELSE IF h < HOne /\ PopCov(p) THEN no
     ELSE IF h = HOne
     THEN IF PopCov(p)
          THEN (IF PairBetter(p.sols[1], c) THEN yes([p EXCEPT !.sols = <<c>>]) ELSE no)
          ELSE yes([p EXCEPT !.cap = 1, !.sols = <<c>>])
     ELSE IF Len(p.sols) < p.cap THEN yes([p EXCEPT !.sols = InsertStable(@, c)])
     ELSE IF Len(p.sols) > 0 /\ PairBetter(p.sols[Len(p.sols)], c)
          THEN yes([p EXCEPT !.sols = InsertStable(Front(@), c)])
          ELSE no

\* MIOPopulation.shrink_population(n)
PopShrink(p, n) == IF PopCov(p) THEN p
                   ELSE Fix([p EXCEPT !.cap = n, !.sols = SubSeq(@, 1, Min2(n, Len(@)))])
\* MIOPopulation.sample_solution()
PopSample(p) == IF Len(p.sols) = 0 THEN p ELSE [p EXCEPT !.counter = @ + 1]

(* ------------------------------------------------------------------------ *)
(* MIOArchive                                                               *)
(* ------------------------------------------------------------------------ *)
\* inner loop (targets in dictionary order) for one cloned solution
RECURSIVE MioTargets(_, _, _)
MioTargets(acc, s, g) ==
  IF g > Len(acc.pops) THEN acc
  ELSE LET r == PopAdd(acc.pops[g], HOf(s.fit[g]), AsMio(s))
           was == PopCov(acc.pops[g])
       IN MioTargets([pops |-> [acc.pops EXCEPT ![g] = r.pop],
                      rb   |-> acc.rb \/ r.added,
                      ntf  |-> IF ~was /\ PopCov(r.pop) THEN Append(acc.ntf, g) ELSE acc.ntf],
                     s, g + 1)
RECURSIVE MioSols(_, _)
MioSols(acc, sols) == IF sols = <<>> THEN acc
                      ELSE MioSols(MioTargets(acc, Head(sols), 1), Tail(sols))
\* MIOArchive.update(solutions)
MioUpdate(v, offered) ==
  LET r == MioSols([pops |-> v.pops, rb |-> FALSE, ntf |-> <<>>], offered)
  IN [st |-> [v EXCEPT !.pops = r.pops], rb |-> r.rb, ntf |-> r.ntf]
\* MIOArchive.shrink_solutions(n)
MioShrink(v, n) == [v EXCEPT !.pops = [g \in DOMAIN v.pops |-> PopShrink(v.pops[g], n)]]
\* MIOArchive.get_solution(): the sampled population is one with the lowest counter among
\* the uncovered populations with solutions (all populations with solutions if there is none)
WithSols(v) == {g \in DOMAIN v.pops : Len(v.pops[g].sols) > 0}
Potential(v) == LET nc == {g \in WithSols(v) : ~PopCov(v.pops[g])}
                IN IF nc = {} THEN WithSols(v) ELSE nc
MinCounter(v) == {g \in Potential(v) :
                    \A k \in Potential(v) : v.pops[g].counter <= v.pops[k].counter}
MioGetSolPosts(v) == IF WithSols(v) = {} THEN {v}
                     ELSE {[v EXCEPT !.pops[g] = PopSample(@)] : g \in MinCounter(v)}

(* ------------------------------------------------------------------------ *)
(* The clauses of C13 over views                                            *)
(* ------------------------------------------------------------------------ *)
CovSet(v) == {g \in DOMAIN v.cov : v.cov[g].id # 0}
\* a MIO target is covered when its population says so (is_covered) or holds a solution with h = 1.0
MioSet(v) == {g \in DOMAIN v.pops :
                v.pops[g].covd \/ \E i \in DOMAIN v.pops[g].sols : v.pops[g].sols[i].h = HOne}

\* the set of goals recorded as covered only grows (reset() excluded)
CoveredGrowsP(v, w, isReset) ==
  isReset \/ (CovSet(v) \subseteq CovSet(w) /\ MioSet(v) \subseteq MioSet(w))

\* every archived test covers the goal it is archived for
ArchivedCoversP(v) ==
  /\ \A g \in CovSet(v) : g \in v.cov[g].covers
  /\ \A g \in MioSet(v) : Len(v.pops[g].sols) >= 1 => g \in v.pops[g].sols[1].sol.covers

\* one legal replacement: error-free where the old one was not, or otherwise strictly shorter
Rule(old, new) == (Err(old) /\ ~Err(new)) \/ new.size < old.size
\* everything reachable from `old` by legal replacements with offered solutions, in offer order
\* (one update() call may replace repeatedly; with one offered solution this is exactly Rule)
RECURSIVE ChainSet(_, _, _)
ChainSet(g, R, sols) ==
  IF sols = <<>> THEN R
  ELSE LET s == Head(sols) IN
       ChainSet(g, IF g \in s.covers /\ \E c \in R : Rule(c, s) THEN R \cup {s} ELSE R, Tail(sols))
ReplaceRuleP(v, w, offered) ==
  LET sols == [i \in DOMAIN offered |-> AsCov(offered[i])] IN
  \A g \in CovSet(v) \cap CovSet(w) :
     w.cov[g] # v.cov[g] => w.cov[g] \in ChainSet(g, {v.cov[g]}, sols)

\* the same clause on the individual assignments archive[g] := s made during one call
\* (steps = sequence of [g, sol], in the order the archive made them)
RECURSIVE StepsOK(_, _)
StepsOK(cov, steps) ==
  IF steps = <<>> THEN TRUE
  ELSE LET g == Head(steps).g
           s == Head(steps).sol
       IN /\ ((cov[g].id # 0 /\ cov[g] # s) => (g \in s.covers /\ Rule(cov[g], s)))
          /\ StepsOK([cov EXCEPT ![g] = s], Tail(steps))
RECURSIVE StepsFinal(_, _)
StepsFinal(cov, steps) ==
  IF steps = <<>> THEN cov
  ELSE StepsFinal([cov EXCEPT ![Head(steps).g] = Head(steps).sol], Tail(steps))

\* MIO populations never exceed their capacity
MIOCapP(v) == \A g \in DOMAIN v.pops : Len(v.pops[g].sols) <= v.pops[g].cap
\* ... where the capacity is the one the algorithm announced last: the initial size given to the archive,
\* then the n of every shrink_solutions(n) / shrink_population(n) (MIO lowers n as the search progresses;
\* a population that was under-filled when n was lowered must not grow past the new n later)
MIOCapNP(v, n) == \A g \in DOMAIN v.pops : Len(v.pops[g].sols) <= n
\* a covered target keeps exactly one solution ... and stays covered
MIOCoveredOneP(v) == \A g \in MioSet(v) : Len(v.pops[g].sols) = 1 /\ v.pops[g].covd
MIOStaysP(v, w) == MioSet(v) \subseteq MioSet(w)

\* the two records of "covered" kept by CoverageArchive agree
CoveredConsistentP(v) == /\ v.unc \subseteq ToSet(v.objs)
                         /\ ToSet(v.objs) \ v.unc = CovSet(v)
=============================================================================

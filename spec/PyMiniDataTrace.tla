--------------------------- MODULE PyMiniDataTrace ----------------------------
(***************************************************************************)
(* Trace validation for C09.  One trace = one case (program of the          *)
(* PyMiniData fragment, inputs a, b); its single event holds what was       *)
(* OBSERVED:                                                                 *)
(*   gt_*   the interpreter on the uninstrumented module (sys.monitoring):   *)
(*          lines executed by the import and by the call f(a, b), the return *)
(*          value                                                            *)
(*   st_*   statement checked coverage of the test `var_0 = f(a, b)`: the    *)
(*          real executor under CHECKED instrumentation with the real        *)
(*          RemoteStatementSlicingObserver: checked lines of the trace, the   *)
(*          slice of the observer's criterion as <<file tag, line>> pairs     *)
(*          (1 = the module, 0 = test code), whether the criterion is in it   *)
(*   as_*   assertion checked coverage (assert var_0 == value): the real     *)
(*          RemoteAssertionExecutionObserver + compute_assertion_checked_    *)
(*          coverage                                                         *)
(*   lmap   node path -> source line of the rendered module (body_lines: all *)
(*          mapped lines, f_lines: the lines of the body of f)               *)
(* TLC evaluates the PyMiniData semantics on the program (Run) and compares: *)
(* the dependency oracle is computed here, not in the harness.               *)
(* TLC reports only the first violated invariant of a state, so the spec     *)
(* walks through one phase per clause.                                       *)
(***************************************************************************)
EXTENDS PyMiniData, TLCExt, Json, IOUtils

Traces == ndJsonDeserialize(IOEnv.TRACE_FILE)

Clauses == <<"CheckedLinesWereExecuted", "AssertionCheckedLinesWereExecuted",
             "SliceOnlyExecuted", "AssertionSliceOnlyExecuted",
             "CriterionInSlice", "AssertionCriterionInSlice",
             "SliceSound", "AssertionSliceSound",
             "Drift_Conforms", "Drift_Ran", "Drift_CheckedAreSliceLines", "Drift_TraceLines",
             "Drift_StrictSound", "Drift_Precise", "Drift_AssertionCoverage">>

(* R: the oracle, i.e. the PyMiniData semantics evaluated on the program of the current event *)
VARIABLES tid, l, ph, R
vars == <<tid, l, ph, R>>
Oracle(e) == LET r == Run(e.prog, e.a, e.b)
             IN [flow |-> r.flow, retv |-> r.retv, lines |-> r.lines, slice |-> r.slice, strict |-> r.strict]
Init == tid \in 1..Len(Traces) /\ l = 0 /\ ph = Len(Clauses) /\ R = [flow |-> "-"]
Next == IF l > 0 /\ ph < Len(Clauses)
        THEN ph' = ph + 1 /\ UNCHANGED <<tid, l, R>>
        ELSE /\ l < Len(Traces[tid].ev) /\ l' = l + 1 /\ ph' = 1 /\ UNCHANGED tid
             /\ R' = Oracle(Traces[tid].ev[l + 1])
Spec == Init /\ [][Next]_vars

cur == Traces[tid].ev[l]
At(name) == l > 0 /\ Clauses[ph] = name
SetOf(q) == {q[i] : i \in DOMAIN q}

(* ---- the oracle's paths as source lines ---- *)
LineOf(p) == LET m == {e \in SetOf(cur.lmap) : e.p = p} IN IF m = {} THEN 0 ELSE (CHOOSE e \in m : TRUE).n
LinesOfPaths(S) == {LineOf(p) : p \in S}
Body == SetOf(cur.body_lines)
Executed == SetOf(cur.gt_exec)          \* by the import or by the call (every Pynguin trace starts from the import trace)
(* the semantics agrees with the interpreter on this case (otherwise the oracle says nothing) *)
Conforms(r) == /\ (r.flow = "r") = cur.gt_ok
               /\ LinesOfPaths(r.lines) = Executed \cap Body
               /\ (cur.gt_ok /\ cur.gt_ret # -99) => r.retv = cur.gt_ret
ModuleLines(slice) == {e[2] : e \in {x \in SetOf(slice) : x[1] = 1}}

(* ---- C09: every line reported as checked was executed in that execution ---- *)
CheckedLinesWereExecuted == At("CheckedLinesWereExecuted") => SetOf(cur.st_checked) \subseteq Executed
AssertionCheckedLinesWereExecuted ==
  At("AssertionCheckedLinesWereExecuted") => SetOf(cur.as_checked) \subseteq Executed
(* ---- every slice contains only executed instructions ... ---- *)
SliceOnlyExecuted == At("SliceOnlyExecuted") => ModuleLines(cur.st_slice) \subseteq Executed
AssertionSliceOnlyExecuted == At("AssertionSliceOnlyExecuted") => ModuleLines(cur.as_slice) \subseteq Executed
(* ---- ... and its criterion ---- *)
CriterionInSlice == At("CriterionInSlice") => (cur.st_has_crit => cur.st_crit_in_slice)
AssertionCriterionInSlice == At("AssertionCriterionInSlice") => (cur.as_n > 0 => cur.as_crit_in_slice)
(* ---- every line the value depends on (data or control) is reported ---- *)
(* (an execution that hit the harness' time limit observed nothing: no verdict, reported by Drift_Ran) *)
Sound(r, reported, timedout) ==
  (cur.gt_ok /\ Conforms(r) /\ ~timedout) => (LinesOfPaths(r.slice) \subseteq SetOf(reported))
SliceSound == At("SliceSound") => Sound(R, cur.st_checked, cur.st_timeout)
AssertionSliceSound == At("AssertionSliceSound") => Sound(R, cur.as_checked, cur.as_timeout)

(* ---- drift only: model vs code, precision ---- *)
Drift_Conforms == At("Drift_Conforms") => Conforms(R)
Drift_Ran == At("Drift_Ran") =>
  (cur.gt_ok => /\ cur.ok /\ ~cur.st_timeout /\ ~cur.as_timeout /\ cur.st_exc = <<>> /\ cur.as_exc = <<>>
                /\ cur.st_has_crit /\ cur.st_crit_is_store /\ cur.as_n = 1
                /\ cur.st_slice_error = "" /\ cur.as_slice_error = "" /\ cur.st_returned_eq_trace)
Drift_CheckedAreSliceLines == At("Drift_CheckedAreSliceLines") =>
  /\ SetOf(cur.st_checked) = ModuleLines(cur.st_slice)
  /\ SetOf(cur.as_checked) = ModuleLines(cur.as_slice)
Drift_TraceLines == At("Drift_TraceLines") =>
  (cur.ok => (SetOf(cur.st_trace_lines) = Executed /\ SetOf(cur.as_trace_lines) = Executed))
StrictSound(r) == (cur.gt_ok /\ Conforms(r)) => (LinesOfPaths(r.strict) \subseteq SetOf(cur.st_checked))
Precise(r) == (cur.gt_ok /\ Conforms(r)) => ((SetOf(cur.st_checked) \cap SetOf(cur.f_lines)) \subseteq LinesOfPaths(r.strict))
Drift_StrictSound == At("Drift_StrictSound") => StrictSound(R)
Drift_Precise == At("Drift_Precise") => Precise(R)
Drift_AssertionCoverage == At("Drift_AssertionCoverage") =>
  ((cur.as_n > 0 /\ cur.as_slice_error = "") => (cur.as_cov_num = Cardinality(SetOf(cur.as_checked))))
=============================================================================

--------------------------- MODULE OrderedSetTrace ----------------------------
(* Trace validation for C34: TLC evaluates the OrderedSetOps semantics on every  *)
(* call recorded from the real classes (state before, arguments as iterated,     *)
(* state after, result).                                                        *)
EXTENDS OrderedSetOps, TLC, TLCExt, Json, IOUtils

Traces == ndJsonDeserialize(IOEnv.TRACE_FILE)

VARIABLES tid, l, cur
vars == <<tid, l, cur>>

NoEv == [op |-> "none"]
Init == /\ tid \in 1..Len(Traces) /\ l = 0 /\ cur = NoEv
Next == /\ l < Len(Traces[tid].ev)
        /\ l' = l + 1
        /\ cur' = Traces[tid].ev[l + 1]
        /\ UNCHANGED tid
Spec == Init /\ [][Next]_vars

ObsRes(e) == [rt |-> e.rt, rs |-> e.rs, ri |-> e.ri, rb |-> e.rb]

(* C34 clauses, evaluated on observed calls *)
StateFollows  == l > 0 => cur.post = Post(cur.op, cur.pre, cur.x, cur.i, cur.a)
ResultFollows == l > 0 => ObsRes(cur) = Res(cur.op, cur.pre, cur.x, cur.i, cur.a)
StaysASet     == l > 0 => NoDup(cur.post)
(* harness sanity: consecutive calls act on the same object *)
Chained       == [][l > 0 => cur'.pre = cur.post]_vars
=============================================================================

CONSTANTS
  N = 2
  Programs <- DesignPrograms
  TraceIsThreadLocal = TRUE
  CheckOnCallback = TRUE
  Controlled = FALSE
SPECIFICATION Spec
INVARIANT NoSpuriousTimeout

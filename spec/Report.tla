-------------------------------- MODULE Report --------------------------------
(***************************************************************************)
(* Design model for C35: a module is a set of lines; each line may carry   *)
(* predicates (two branches each), the first line of a branch-less code    *)
(* object, and may be a line goal.  A suite trace says which branches,     *)
(* code objects and lines are covered.  The report annotates every line    *)
(* and totals are the sums of the annotations.  TLC checks over all small  *)
(* modules and traces that the totals equal the coverage computed directly *)
(* from the trace (Fitness-style), i.e. that "annotate then sum" and       *)
(* "count over registries" are the same function.                          *)
(***************************************************************************)
EXTENDS Naturals, FiniteSets, FiniteSetsExt, TLC

CONSTANTS Lines, Preds, CodeObjs

VARIABLES predLine, coLine, lineGoals, covT, covF, covCo, covLines
vars == <<predLine, coLine, lineGoals, covT, covF, covCo, covLines>>

Init == /\ predLine \in [Preds -> Lines] /\ coLine \in [CodeObjs -> Lines]
        /\ lineGoals \in SUBSET Lines
        /\ covT \in SUBSET Preds /\ covF \in SUBSET Preds /\ covCo \in SUBSET CodeObjs
        /\ covLines \in SUBSET lineGoals
Next == UNCHANGED vars
Spec == Init /\ [][Next]_vars

Card(S) == Cardinality(S)
AnnB(ln) == [ex |-> 2 * Card({p \in Preds : predLine[p] = ln}),
             cov |-> Card({p \in covT : predLine[p] = ln}) + Card({p \in covF : predLine[p] = ln})]
AnnBl(ln) == [ex |-> Card({c \in CodeObjs : coLine[c] = ln}), cov |-> Card({c \in covCo : coLine[c] = ln})]
AnnL(ln) == [ex |-> IF ln \in lineGoals THEN 1 ELSE 0, cov |-> IF ln \in covLines THEN 1 ELSE 0]
Sum(f(_)) == FoldSet(LAMBDA ln, acc : f(ln) + acc, 0, Lines)

TotalsAreSums ==
  /\ Sum(LAMBDA ln : AnnB(ln).ex) + Sum(LAMBDA ln : AnnBl(ln).ex) = 2 * Card(Preds) + Card(CodeObjs)
  /\ Sum(LAMBDA ln : AnnB(ln).cov) + Sum(LAMBDA ln : AnnBl(ln).cov) = Card(covT) + Card(covF) + Card(covCo)
  /\ Sum(LAMBDA ln : AnnL(ln).ex) = Card(lineGoals) /\ Sum(LAMBDA ln : AnnL(ln).cov) = Card(covLines)
ShownIffCovered == \A ln \in lineGoals : (AnnL(ln).cov = AnnL(ln).ex) = (ln \in covLines)
=============================================================================

---------------------------- MODULE GoalsManager ----------------------------
(***************************************************************************)
(* Design model of pynguin.ga.algorithms.dynamosaalgorithm._GoalsManager   *)
(* over a goal graph (roots, edges u -> v: "v is considered once u is      *)
(* covered"), together with the part of CoverageArchive it talks to        *)
(* (objectives added so far, covered objectives).                          *)
(*                                                                         *)
(*   __init__       current := roots; archive.add_goals(current)           *)
(*   update(sols)   repeat  archive.update(sols)  -- marks covered every   *)
(*                          *known objective* some solution covers         *)
(*                          current := uncovered current goals + children  *)
(*                                     of covered current goals that are   *)
(*                                     neither current nor covered         *)
(*                          archive.add_goals(current)                     *)
(*                  until no child was added                               *)
(* TLC explores every goal graph over NG goals (cycles and self loops      *)
(* included) and every sequence of updates.                                *)
(***************************************************************************)
EXTENDS GraphsOps

CONSTANTS NG,               \* number of goals
          AssumeReachable,  \* TRUE: only graphs whose goals are all reachable from the roots
          Acyclic           \* TRUE: only edges i -> j with i < j (keeps NG = 4 small)

VARIABLES roots, edges,     \* the goal graph (fixed after Init)
          current,          \* _GoalsManager._current_goals
          covered,          \* CoverageArchive.covered_goals
          objs              \* CoverageArchive.objectives (every goal that has been current)
vars == <<roots, edges, current, covered, objs>>

Goals == 1..NG
Children(E, g) == {e[2] : e \in {x \in E : x[1] = g}}

\* the loop of update(); S = goals covered by at least one of the given solutions
RECURSIVE UpdateLoop(_, _, _, _, _)
UpdateLoop(E, cur, cov, ob, S) ==
  LET cov2 == cov \cup (S \cap ob)
      kids == UNION {Children(E, g) : g \in cur \cap cov2}
      newk == {c \in kids : c \notin cur /\ c \notin cov2}
      cur2 == (cur \ cov2) \cup newk
      ob2  == ob \cup cur2
  IN IF newk = {} THEN <<cur2, cov2, ob2>> ELSE UpdateLoop(E, cur2, cov2, ob2, S)

Init == /\ roots \in SUBSET Goals
        /\ edges \in SUBSET {p \in Goals \X Goals : Acyclic => p[1] < p[2]}
        /\ AssumeReachable => /\ AllGoalsReachableFromRoots(Goals, roots, edges)
        /\ current = roots /\ covered = {} /\ objs = roots

Update(S) == LET r == UpdateLoop(edges, current, covered, objs, S)
             IN /\ current' = r[1] /\ covered' = r[2] /\ objs' = r[3]
                /\ UNCHANGED <<roots, edges>>

Next == \E S \in {X \in SUBSET Goals : Cardinality(X) \in 1..2} : Update(S)
\* a search that keeps covering some current goal
Progress == \E g \in current : Update({g})
Spec == Init /\ [][Next]_vars
FairSpec == Spec /\ WF_vars(Progress)

(* ------------------------------ properties ---------------------------- *)
TypeOK == current \subseteq Goals /\ covered \subseteq Goals /\ objs \subseteq Goals
\* C07: each goal is a root or becomes current once all goals it structurally depends on are covered
GoalReachable ==
  \A g \in Goals : \/ g \in roots
                   \/ /\ ParentsOf(edges, g) # {}
                      /\ ParentsOf(edges, g) \subseteq covered => g \in current \cup covered
\* what the code does is stronger: one covered parent suffices
AnyParentSuffices ==
  \A g \in Goals : (ParentsOf(edges, g) \cap covered # {}) => g \in current \cup covered
Disjoint   == current \cap covered = {}
ObjsTrack  == current \subseteq objs /\ covered \subseteq objs
\* no goal is lost: a current goal stays current until it is covered; covered goals stay covered
NoGoalLost   == [][current \subseteq current' \cup covered']_vars
CoveredGrows == [][covered \subseteq covered']_vars
\* when nothing is left to do everything is covered (needs reachability from the roots)
Complete == current = {} => covered = Goals
AllCoveredEventually == <>(covered = Goals)
=============================================================================

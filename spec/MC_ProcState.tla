---------------------------- MODULE MC_ProcState ------------------------------
(* Behaviour extraction for C30: histories = sequences of test cases, each a sequence of SUT steps *)
EXTENDS ProcState, Json
VARIABLES hist
mcvars == <<vars, hist>>
MCInit == Init /\ hist = <<>>
MCNext ==
  \/ Enter /\ hist' = Append(hist, <<>>)
  \/ Exit /\ k > 0 /\ UNCHANGED hist
  \/ \E s \in Steps : SutStep(s) /\ hist' = [hist EXCEPT ![Len(hist)] = Append(@, s)]
MCSpec == MCInit /\ [][MCNext]_mcvars
Emit == (phase = "idle" /\ n > 0) => PrintT(<<"HIST", ToJson([tests |-> hist])>>)
=============================================================================

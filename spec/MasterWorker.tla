---------------------------- MODULE MasterWorker -----------------------------
(***************************************************************************)
(* Master/worker restart protocol of pynguin.master_worker (C33).          *)
(*                                                                         *)
(* master.py  RunningTask._start_worker / get_result / _restart /          *)
(*            _adjust_search_time_after_crash, MasterProcess.get_result    *)
(* worker.py  worker_main (run_pynguin phases, send result / error result) *)
(* client.py  PynguinClient.run_pynguin (result -> ReturnCode)             *)
(*                                                                         *)
(* One action per step of the code.  The worker walks through the phases   *)
(* of generator._run; at any phase it may die (process death: the pipe's   *)
(* write end closes without a message) or raise (worker_main catches the   *)
(* exception and SENDS an error result with return_code = None).           *)
(***************************************************************************)
EXTENDS Naturals, Integers, Sequences, FiniteSets, TLC

CONSTANTS InitTimes,   \* initial maximum_search_time values (seconds; Unlimited = -1)
          Elapsed10,   \* wall time consumed by a crashed worker, in tenths of a second (> 0)
          MaxDeaths    \* bound on worker deaths explored (the protocol itself is unbounded)

Unlimited == -1
DefaultInitTimes == {Unlimited, 0, 1, 2, 3, 5}
Phases == <<"import", "search", "assert", "minimize", "export", "final">>
NPh == Len(Phases)

VARIABLES mst,        \* master: "idle" | "waiting" | "returned"
          wrk,        \* worker: "none" | "running" | "exited"
          phase,      \* index of the phase the running worker is in (1..NPh), NPh+1 = all done
          msg,        \* content of the pipe: "none" | "result" | "errresult"
          closed,     \* write end of the pipe closed (worker gone)
          st,         \* task.configuration.stopping.maximum_search_time
          restarts,   \* RunningTask._restart_count
          forceSub,   \* _force_subprocess_mode
          inc,        \* worker incarnation number
          delivered,  \* some worker sent a real result
          outcome,    \* what the command returns: "none" | "OK" | "NO_TESTS"
          deaths      \* number of injected deaths so far (bounding only)

vars == <<mst, wrk, phase, msg, closed, st, restarts, forceSub, inc, delivered, outcome, deaths>>

Max(a, b) == IF a > b THEN a ELSE b

TypeOK ==
  /\ mst \in {"idle", "waiting", "returned"}
  /\ wrk \in {"none", "running", "exited"}
  /\ phase \in 1..(NPh + 1)
  /\ msg \in {"none", "result", "errresult"}
  /\ closed \in BOOLEAN /\ forceSub \in BOOLEAN /\ delivered \in BOOLEAN
  /\ st \in Int /\ restarts \in Nat /\ inc \in Nat /\ deaths \in Nat
  /\ outcome \in {"none", "OK", "NO_TESTS"}

Init ==
  /\ mst = "idle" /\ wrk = "none" /\ phase = 1 /\ msg = "none" /\ closed = FALSE
  /\ st \in InitTimes /\ restarts = 0 /\ forceSub = FALSE /\ inc = 0
  /\ delivered = FALSE /\ outcome = "none" /\ deaths = 0

(* MasterProcess.start_pynguin -> RunningTask._start_worker *)
Start ==
  /\ mst = "idle"
  /\ mst' = "waiting" /\ wrk' = "running" /\ phase' = 1 /\ inc' = 1
  /\ UNCHANGED <<msg, closed, st, restarts, forceSub, delivered, outcome, deaths>>

(* the worker finishes one phase of generator._run *)
WorkerAdvance ==
  /\ wrk = "running" /\ phase <= NPh
  /\ phase' = phase + 1
  /\ UNCHANGED <<mst, wrk, msg, closed, st, restarts, forceSub, inc, delivered, outcome, deaths>>

(* process death (segfault, os._exit, SIGKILL, OOM): nothing is sent, the pipe closes *)
WorkerDies ==
  /\ wrk = "running" /\ deaths < MaxDeaths
  /\ wrk' = "exited" /\ closed' = TRUE /\ deaths' = deaths + 1
  /\ UNCHANGED <<mst, phase, msg, st, restarts, forceSub, inc, delivered, outcome>>

(* a Python exception escapes run_pynguin: worker_main sends an error result, then exits *)
WorkerRaises ==
  /\ wrk = "running" /\ phase <= NPh
  /\ msg' = "errresult" /\ wrk' = "exited" /\ closed' = TRUE
  /\ UNCHANGED <<mst, phase, st, restarts, forceSub, inc, delivered, outcome, deaths>>

(* run_pynguin returned: worker_main sends WorkerResult(OK, return_code) and exits *)
WorkerSend ==
  /\ wrk = "running" /\ phase = NPh + 1
  /\ msg' = "result" /\ wrk' = "exited" /\ closed' = TRUE /\ delivered' = TRUE
  /\ UNCHANGED <<mst, phase, st, restarts, forceSub, inc, outcome, deaths>>

(* RunningTask.get_result: recv() succeeds; PynguinClient maps the result *)
MasterRecvResult ==
  /\ mst = "waiting" /\ msg # "none"
  /\ outcome' = IF msg = "result" THEN "OK" ELSE "NO_TESTS"
  /\ mst' = "returned"
  /\ UNCHANGED <<wrk, phase, msg, closed, st, restarts, forceSub, inc, delivered, deaths>>

AdjustedTime(t, e10) == IF t > 0 THEN Max(t * 10 - e10, 0) \div 10 ELSE t

(* recv() raises EOFError -> _restart(): adjust the time, then restart or give up *)
MasterRecvEOF(e10) ==
  /\ mst = "waiting" /\ msg = "none" /\ closed
  /\ LET t == AdjustedTime(st, e10) IN
       /\ st' = t
       /\ IF t <= 0
          THEN /\ mst' = "returned" /\ outcome' = "NO_TESTS"
               /\ UNCHANGED <<wrk, phase, closed, restarts, forceSub, inc>>
          ELSE /\ restarts' = restarts + 1 /\ forceSub' = TRUE
               /\ wrk' = "running" /\ phase' = 1 /\ closed' = FALSE /\ inc' = inc + 1
               /\ UNCHANGED <<mst, outcome>>
  /\ UNCHANGED <<msg, delivered, deaths>>

Next ==
  \/ Start \/ WorkerAdvance \/ WorkerDies \/ WorkerRaises \/ WorkerSend
  \/ MasterRecvResult \/ \E e \in Elapsed10 : MasterRecvEOF(e)

Fairness ==
  /\ WF_vars(Start) /\ WF_vars(WorkerAdvance) /\ WF_vars(WorkerSend)
  /\ WF_vars(MasterRecvResult) /\ WF_vars(\E e \in Elapsed10 : MasterRecvEOF(e))

Spec == Init /\ [][Next]_vars /\ Fairness

(* ------------------------------- C33 ---------------------------------- *)
Returns          == <>(mst = "returned")
RestartGuard     == [][restarts' > restarts => st' > 0]_vars
StrictDecrease   == [][restarts' > restarts => st' < st]_vars
NoRestartUnlimited == [][st <= 0 => restarts' = restarts]_vars
SuccessOnlyIfDelivered == outcome = "OK" => delivered
(* consequences worth stating: restarts are bounded by the initial budget *)
OneWorker        == wrk = "running" => ~closed
=============================================================================

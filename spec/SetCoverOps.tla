------------------------------ MODULE SetCoverOps ------------------------------
(***************************************************************************)
(* Pure operators for C21 (pynguin/assertion/assertiongenerator.py):       *)
(*   - kill maps and what an admissible result of assertion minimisation   *)
(*     is (`_select_minimal_assertions`, `__minimize_assertions`,          *)
(*     `__remove_non_relevant_assertions`),                                *)
(*   - the greedy set cover + reverse pruning exactly as the code does it  *)
(*     (conformance only: a different tie-break is not a violation),       *)
(*   - the bookkeeping of one mutation analysis (`_handle_add_assertions`):*)
(*     which mutants are checked / timed out / killed, the kill map of a   *)
(*     test case, and the mutation score (`_MutationMetrics.get_score`).   *)
(*                                                                         *)
(* Assertions of one test case are numbered 1..n in statement order, i.e.  *)
(* in the order of the code's keys (stmt_idx, assertion_idx); mutants are  *)
(* numbered 1..nM in the order the mutation controller yields them.        *)
(***************************************************************************)
EXTENDS Naturals, Integers, Sequences, FiniteSets

ToSet(s) == {s[i] : i \in DOMAIN s}
MaxOf(S) == CHOOSE x \in S : \A y \in S : y <= x
MinOf(S) == CHOOSE x \in S : \A y \in S : x <= y

(* ------------------------------------------------------------------------ *)
(* kill maps: km[a] = set of mutants assertion a kills, a \in 1..Len(km)     *)
(* ------------------------------------------------------------------------ *)
Kills(S, km) == UNION {km[a] : a \in S}
All(km)      == DOMAIN km

(* C21: "keeps a subset of assertions that together still kill every mutant *)
(* killed by the full set"                                                  *)
IsSubset(K, km)       == K \subseteq All(km)
KillsPreservedBy(K, km) == Kills(K \cap All(km), km) = Kills(All(km), km)
(* what the docstrings promise in addition (conformance, not C21)           *)
OnlyKillers(K, km)    == \A a \in K \cap All(km) : km[a] # {}
Irredundant(K, km)    == \A a \in K \cap All(km) : ~(km[a] \subseteq Kills((K \cap All(km)) \ {a}, km))

(* ------------------------------------------------------------------------ *)
(* the selection as coded: greedy by (largest number of uncovered mutants,  *)
(* lowest key), then one reverse pass dropping keys covered by the others   *)
(* ------------------------------------------------------------------------ *)
Cover(a, unc, km) == Cardinality(km[a] \cap unc)

Best(cands, unc, km) ==
  LET pos == {a \in cands : Cover(a, unc, km) > 0}
  IN IF pos = {} THEN 0
     ELSE LET mx == MaxOf({Cover(a, unc, km) : a \in pos})
          IN MinOf({a \in pos : Cover(a, unc, km) = mx})

RECURSIVE GreedyFrom(_, _, _, _)
GreedyFrom(keep, cands, unc, km) ==
  IF unc = {} THEN keep
  ELSE LET b == Best(cands, unc, km)
       IN IF b = 0 THEN keep
          ELSE GreedyFrom(keep \cup {b}, cands \ {b}, unc \ km[b], km)

PruneOne(keep, k, km) == IF km[k] \subseteq Kills(keep \ {k}, km) THEN keep \ {k} ELSE keep

RECURSIVE PruneFrom(_, _, _)
PruneFrom(keep, todo, km) ==
  IF todo = {} THEN keep
  ELSE LET k == MaxOf(todo) IN PruneFrom(PruneOne(keep, k, km), todo \ {k}, km)

Greedy(km) == GreedyFrom({}, {a \in All(km) : km[a] # {}}, Kills(All(km), km), km)
Select(km) == LET g == Greedy(km) IN PruneFrom(g, g, km)

(* ------------------------------------------------------------------------ *)
(* one mutation analysis.  col[m] \in {"ok", "unchecked"} (unchecked =      *)
(* invalid mutated module, or not reached within the time budget);          *)
(* out[t][m] = [none, tmo, exc, viol]: what executing test t on mutant m    *)
(* gave: nothing (not executed), a timeout, an exception raised by a        *)
(* statement, the assertions (numbers) whose verification failed or erred.  *)
(* ------------------------------------------------------------------------ *)
Checked(col) == {m \in DOMAIN col : col[m] = "ok"}
Ran(out, t, m) == ~out[t][m].none
Timed(out, m) == \E t \in DOMAIN out : Ran(out, t, m) /\ out[t][m].tmo
Scored(out, col) == {m \in Checked(col) : ~Timed(out, m)}   \* the population of the score

Violated(out, t, a, m) == Ran(out, t, m) /\ a \in ToSet(out[t][m].viol)
AKills(out, col, t, a) == {m \in Scored(out, col) : Violated(out, t, a, m)}
TestKillMap(out, col, t, n) == [a \in 1..n |-> AKills(out, col, t, a)]

KilledBy(out, t, m) == Ran(out, t, m) /\ (out[t][m].viol # <<>> \/ out[t][m].exc)
Killed(out, col) == {m \in Scored(out, col) : \E t \in DOMAIN out : KilledBy(out, t, m)}

(* ------------------------------------------------------------------------ *)
(* mutation score over counts (created, killed, timeout, unchecked);        *)
(* fractions are pairs <<numerator, denominator>>                           *)
(* ------------------------------------------------------------------------ *)
Tuples(N) == {q \in (0..N) \X (0..N) \X (0..N) \X (0..N) :
                /\ q[4] <= q[1] /\ q[3] <= q[1] - q[4] /\ q[2] <= q[1] - q[4] - q[3]}

ScoreOf(c, k, t, u) == LET d == c - u - t IN IF d = 0 THEN <<1, 1>> ELSE <<k, d>>
FracEq(p, q) == p[1] * q[2] = q[1] * p[2]
In01(p)      == p[2] > 0 /\ 0 <= p[1] /\ p[1] <= p[2]
(* "ignores timed-out and unchecked mutants": the score of a population is  *)
(* the score of the population without its timed-out and unchecked members  *)
Ignores(score(_, _, _, _), c, k, t, u) == FracEq(score(c, k, t, u), score(c - t - u, k, 0, 0))
PlainRatio(p, c, k)  == c > 0 => FracEq(p, <<k, c>>)
=============================================================================

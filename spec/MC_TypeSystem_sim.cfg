CONSTANTS
  NUser = 5
  Level = 0
  MaxSteps = 0
  Deviations = {}
  Prov = "G"
  FixedRoots = FALSE
  Depth = 0
  EmitLevel = 0
SPECIFICATION MCSpec


CONSTANTS
  MinB = 1
  MaxB = 2
  MaxOut = 3
  ExitAug = TRUE
  Repr = "digraph"
SPECIFICATION Spec
INVARIANT AlgorithmCorrect

SPECIFICATION Spec
INVARIANT OriginalIntact
INVARIANT MutantDiffersOnlyAtMutatedNodes
INVARIANT SampledSubsetOfFull
INVARIANT CountEqualsFull
PROPERTY Chained

CONSTANTS
  Preds = {1, 2}
  Lines = {1, 2}
  MaxCalls = 4
  RestoreOnRaise = FALSE
SPECIFICATION Spec
INVARIANT EnabledRestored

CONSTANTS
  MaxPred = 2
  MaxBl = 2
  MaxLine = 2
  LinePred = 1
  LineBl = 1
  MaxSize = 5
  MaxCnt = 2
  MaxTests = 0
  Dists = {"Z", "P", "INF"}
  Shapes = {"own", "nested", "seq"}
  Diam = 2
  ExAll = FALSE
INIT InitEnum
NEXT NextEnum
INVARIANT EmitEnum

SPECIFICATION Spec
INVARIANT TimeoutAgree
INVARIANT ExceptionsAgree
INVARIANT LinesAgree
INVARIANT BranchesAgree
INVARIANT AssertionTraceAgree
INVARIANT VerificationTraceAgree
INVARIANT Drift_InprocFollowsModel
INVARIANT Drift_SubFollowsModel
INVARIANT Drift_Degrades
INVARIANT Drift_Path

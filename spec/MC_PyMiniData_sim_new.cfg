CONSTANTS
  Families <- SimFamiliesNew
  InputSet <- AllInputs
SPECIFICATION Spec
INVARIANT WellFormed
INVARIANT NoRuntimeError
INVARIANT SpecSliceExecuted
INVARIANT SpecSliceHasCriterion
INVARIANT StrictContainsSlice
INVARIANT DefLineInSlice

CONSTANTS
  MaxA = 3
  MaxM = 2
  Statuses = {"run", "timeout", "unchecked"}
  WithExc = TRUE
  MaxCount = 5
  UseCritical = FALSE
  Hazard = "none"
SPECIFICATION Spec
INVARIANT TypeOK
INVARIANT Subset
INVARIANT KillsPreserved
INVARIANT GreedyInv
INVARIANT GreedyCovers
INVARIANT KeepOnlyKillers
INVARIANT ResultIrredundant
INVARIANT ResultIsSelect
INVARIANT ScorePreserved
INVARIANT ScoreIn01
INVARIANT ScoreIgnores

SPECIFICATION Spec
INVARIANT NoPollution
INVARIANT TimeoutReported
INVARIANT ExecuteReturns
INVARIANT ConformTimeoutFlag

SPECIFICATION Spec
INVARIANT NoPollution
INVARIANT TimeoutReported
INVARIANT ExecuteReturns
INVARIANT NoReexecutionAfterTimeout
INVARIANT ConformTimeoutFlag

CONSTANTS
  Depth = 1
  Types = {"A", "B"}
  MaxUses = 1
  RawToo = TRUE
  SeedIds = {0, 1, 2, 3, 4}
  Subjects = {1, 2}
  Pick = FALSE
SPECIFICATION Spec
INVARIANT Emit
CONSTRAINT Small

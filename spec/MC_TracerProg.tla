---------------------------- MODULE MC_TracerProg -----------------------------
(* Case enumeration for C05: test cases = sequences of statements; each statement calls a SUT *)
(* function in which traced code raises in a given way and the SUT catches it (or not),      *)
(* followed by further traced code.                                                          *)
EXTENDS Naturals, Sequences, TLC, Json

CONSTANTS RaiseKinds, MaxLen

VARIABLES prog
Stmt == [k : RaiseKinds, caught : BOOLEAN]
Init == prog = <<>>
(* a statement whose exception escapes ends the test case *)
Next == /\ Len(prog) < MaxLen
        /\ (IF prog = <<>> THEN TRUE ELSE (prog[Len(prog)].caught \/ prog[Len(prog)].k = "none"))
        /\ \E s \in Stmt : prog' = Append(prog, s)
Spec == Init /\ [][Next]_prog
Emit == prog # <<>> => PrintT(<<"HIST", ToJson([prog |-> prog])>>)
=============================================================================

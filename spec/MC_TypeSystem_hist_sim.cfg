CONSTANTS
  NUser = 3
  Level = 0
  MaxSteps = 0
  Deviations = {}
  Prov = "G"
  FixedRoots = TRUE
  Depth = 8
  EmitLevel = 0
SPECIFICATION MCSpec


---------------------------- MODULE TestCaseTrace -----------------------------
(***************************************************************************)
(* Trace validation for C15.  Every event is one public operation on one   *)
(* real test case; `post` (and for API events `pre`, `other`) are the      *)
(* projections the harness obtained INDEPENDENTLY of TestCase's private    *)
(* bookkeeping: bound name / names read per statement from Python's ast on *)
(* the rendered source, validity from compile(), the registry through      *)
(* variables_of_type, the recorded bound type of each statement.           *)
(*                                                                         *)
(* P1 events (TestCaseTrace.cfg): histories of the real TestFactory,       *)
(*   TestCaseMutation, crossover, local search, ...; clauses = property    *)
(*   C15 on the state after every operation.                               *)
(* P2 events (TestCaseTrace_api.cfg): TLC-generated TestCase API calls;    *)
(*   clauses = the call preserves WF whenever the callers' guard holds,    *)
(*   and the observed post-state is the one TestCaseOps defines.           *)
(***************************************************************************)
EXTENDS TestCaseOps, TLC, TLCExt, Json, IOUtils

Traces == ndJsonDeserialize(IOEnv.TRACE_FILE)

VARIABLES tid, l, cur
vars == <<tid, l, cur>>

NoEv == [op |-> "none"]
Init == /\ tid \in 1..Len(Traces) /\ l = 0 /\ cur = NoEv
Next == /\ l < Len(Traces[tid].ev)
        /\ l' = l + 1
        /\ cur' = Traces[tid].ev[l + 1]
        /\ UNCHANGED tid
Spec == Init /\ [][Next]_vars

(* ---------------------------------------------- JSON projection -> abstract *)
ToSet(q) == {q[i] : i \in DOMAIN q}
AbsSt(q) == [i \in DOMAIN q |-> Stmt(q[i].bv, ToSet(q[i].uses), q[i].ty)]
AbsReg(r) == [t \in {r[i].ty : i \in DOMAIN r} |-> r[CHOOSE i \in DOMAIN r : r[i].ty = t].vs]
Abs(p) == [st |-> AbsSt(p.st), reg |-> AbsReg(p.reg), ctr |-> p.ctr]

On == l > 0
Post == Abs(cur.post)

(* ------------------------------------------------------- C15, every event *)
ValidPython       == On => cur.post.valid
ReadsBound        == On => ReadsAreBound(Post.st)
UniqueNames       == On => UniqueBoundNames(Post.st)
RegistryOK        == On => RegistryMatches(Post.st, Post.reg)
Grows             == Len(cur.post.st) > Max(cur.pre_n, cur.L)
LenBoundCrossover       == (On /\ cur.site = "crossover")        => ~Grows
LenBoundFactoryInsert   == (On /\ cur.site = "factory_insert")   => ~Grows
LenBoundMutationInsert  == (On /\ cur.site = "mutation_insert")  => ~Grows
LenBoundRandomTestCase  == (On /\ cur.site = "random_test_case") => ~Grows

(* conformance beyond the property statement (reported as drift, never as a violation):      *)
(* the counter is ahead of every var_N in use, Statement.bound_variable is the name the code *)
(* binds, the cached rendering is the current one                                            *)
Drift_Counter  == On => \A i \in DOMAIN cur.post.st :
                           cur.post.st[i].bv < 1000000 => cur.post.st[i].bv < cur.post.ctr
Drift_Meta     == On => \A i \in DOMAIN cur.post.st : cur.post.st[i].sbv = cur.post.st[i].bv
Drift_Rendering == On => cur.post.same

(* ------------------------------------------------------------- P2: the API *)
Pre == Abs(cur.pre)
Other == Abs(cur.other)
ArgS == Stmt(cur.s.bv, ToSet(cur.s.uses), cur.s.ty)
ArgSet == ToSet(cur.S)
\* the caller took the bound name from next_var_name() before the call
Pre1 == IF cur.fresh THEN AfterNextVar(Pre) ELSE Pre
ChoiceSeqs == [1..3 -> 0..3]

Guard ==
  CASE cur.op = "add"          -> SafeAdd(Pre1, ArgS)
    [] cur.op = "insert"       -> SafeInsert(Pre1, cur.i, ArgS)
    [] cur.op = "replace"      -> SafeReplace(Pre1, cur.i, ArgS)
    [] cur.op = "remove"       -> SafeRemove(Pre, cur.i)
    [] cur.op = "remove_batch" -> SafeRemoveBatch(Pre, ArgSet)
    [] cur.op \in {"remove_fwd", "delete_gracefully"} -> InRange(Pre, cur.i)
    \* fresh names come from the counter: it must be ahead of every var_N in use
    [] cur.op = "append_from"  -> WF(Other) /\ CounterAhead(Pre.st, Pre.ctr)
    [] OTHER -> TRUE

Defined ==      \* the call is within the domain the operators are defined on
  CASE cur.op \in {"remove", "replace", "remove_fwd", "delete_gracefully"} -> InRange(Pre, cur.i)
    [] cur.op = "insert" -> cur.i >= 0
    [] OTHER -> TRUE

ModelPosts ==
  CASE cur.op = "add"          -> {Add(Pre1, ArgS)}
    [] cur.op = "insert"       -> {Insert(Pre1, cur.i, ArgS)}
    [] cur.op = "replace"      -> {Replace(Pre1, cur.i, ArgS)}
    [] cur.op = "remove"       -> {Remove(Pre, cur.i)}
    [] cur.op = "remove_batch" -> {RemoveBatch(Pre, ArgSet)}
    [] cur.op = "chop"         -> {Chop(Pre, cur.i)}
    [] cur.op \in {"remove_fwd", "delete_gracefully"} -> {RemoveWithFwd(Pre, cur.i)}
    [] cur.op = "append_from"  -> {AppendFrom(Pre, Other, cur.i, ch) : ch \in ChoiceSeqs}
    [] cur.op = "remove_unused" -> {RemoveUnused(Pre)}
    [] cur.op = "clone"        -> {Clone(Pre)}
    [] cur.op = "next_var"     -> {AfterNextVar(Pre)}

(* C15 for the API: a call made under the callers' guard keeps a well-formed test case     *)
(* well-formed (and valid Python)                                                          *)
ApiPreservesWF ==
  (On /\ cur.exc = "" /\ WF(Pre) /\ Defined /\ Guard) => (WF(Post) /\ cur.post.valid)
Drift_ApiCounter ==
  (On /\ cur.exc = "" /\ Defined /\ CounterAhead(Pre.st, Pre.ctr)
      /\ (cur.op \in {"add", "insert", "replace"} => ArgS.bv < Pre1.ctr)
      /\ (cur.op = "append_from" => CounterAhead(Other.st, Other.ctr)))
  => CounterAhead(Post.st, Post.ctr)
(* conformance with TestCaseOps (drift): the observed post-state is the defined one, results *)
(* of forward_dependencies / next_var_name, errors only outside the defined domain           *)
Drift_StateFollows == (On /\ cur.exc = "" /\ Defined) => Post \in ModelPosts
Drift_Result ==
  (On /\ cur.exc = "" /\ Defined) =>
     /\ (cur.op = "remove_fwd" => ToSet(cur.ret) = FwdDeps(Pre.st, cur.i))
     /\ (cur.op = "next_var" => cur.ret = <<Pre.ctr>>)
Drift_Raises == (On /\ cur.exc # "") => ~Defined
=============================================================================

CONSTANTS
  MaxSteps = 3
  Shape = "small"
  Quirks = FALSE
SPECIFICATION Spec
INVARIANT TypeOK
INVARIANT BuilderWellFormed
INVARIANT MustImpliesMay
INVARIANT NothingForeignUnderTest
INVARIANT ViewsNeverUnderTest
INVARIANT BaseMembersViaBase
INVARIANT IgnoredNeverUnderTest
INVARIANT MonotoneInVisibility
INVARIANT UnderTestAreGenerators
INVARIANT VisibilityOnlyForSut
INVARIANT UnderTestSubsetOfEligible
INVARIANT EligibleSubsetOfUnderTest
INVARIANT AnalysisComputesDecision

----------------------------- MODULE MC_Archive ------------------------------
(* Behaviour extraction for the spec -> code replay of C13: every history of    *)
(* Depth public calls of the design model (Archive.tla) on one archive object   *)
(* is emitted once as JSON: the constructor arguments and the list of calls     *)
(* with their arguments (solution objects are drawn from the finite pool, so    *)
(* the same object can be offered again, as a surviving individual would be).   *)
EXTENDS Archive, Json

CONSTANT Depth

VARIABLES hist, init0
mcvars == <<mode, v, last, steps, capn, hist, init0>>

MCInit == /\ Init
          /\ hist = <<>>
          /\ init0 = [mode |-> mode, objs |-> v.objs, cap |-> v.pops[1].cap, ng |-> NG]
MCNext == /\ Len(hist) < Depth
          /\ Next
          /\ hist' = Append(hist, last')
          /\ UNCHANGED init0
MCSpec == MCInit /\ [][MCNext]_mcvars

Emit == Len(hist) = Depth => PrintT(<<"HIST", ToJson([init |-> init0, hist |-> hist])>>)
=============================================================================

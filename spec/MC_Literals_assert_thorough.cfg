CONSTANTS
  Mode = "assert"
  Size = "thorough"
  Members = {0, 1, 2}
  Draws = {1}
SPECIFICATION Spec
INVARIANT Emit

CONSTANTS
  MaxMarkers = 0
  ScopeCfgs = {"none", "no_g", "only_f", "no_meth", "no_K", "only_K"}
SPECIFICATION Spec
INVARIANT Emit

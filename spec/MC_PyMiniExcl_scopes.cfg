CONSTANTS
  MaxMarkers = 0
  ScopeCfgs = {"none", "no_g", "only_f", "no_meth", "no_K", "only_K", "no_deep", "only_deep", "no_Inner"}
SPECIFICATION Spec
INVARIANT Emit

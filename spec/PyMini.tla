-------------------------------- MODULE PyMini --------------------------------
(***************************************************************************)
(* A big-step semantics of a Python fragment (one statement per source     *)
(* line) that predicts, for a program and a vector of decisions, what the  *)
(* interpreter does at the level Pynguin's coverage talks about:           *)
(*   lines   the statement lines executed (as node paths)                  *)
(*   decs    the outcomes taken at every deciding line: `if`, `while`,     *)
(*           `for` (True = another iteration, False = exhausted) and       *)
(*           `except E` (True = the raised exception matches)              *)
(*   marks   the side effects (markers appended to a list, in order)       *)
(*   flow    how the function ends: "r" returned, "x1"/"x2" raised E1/E2   *)
(* Used by C01 (instrumentation does not change behaviour), C02 (reported  *)
(* lines), C03 (reported branch outcomes) and C08 (exclusions).            *)
(*                                                                         *)
(* Programs are blocks (sequences) of statements:                          *)
(*   [t |-> "mark"]                      m.append(k)                       *)
(*   [t |-> "ret"] [t |-> "break"] [t |-> "cont"] [t |-> "raise", e |-> n] *)
(*   [t |-> "if", a |-> Block, b |-> Block]          b = <<>>: no else     *)
(*   [t |-> "while", a |-> Block, e |-> Block]       e = <<>>: no else     *)
(*   [t |-> "for", k |-> 0..2, a |-> Block, e |-> Block]   range(k)        *)
(*   [t |-> "try", a |-> Block, x |-> 0|1|2|9, h |-> Block, o |-> Block,   *)
(*    f |-> Block]   (o = the else clause of the try statement, tag 5)      *)
(*        x = 0: no except clause; 1/2: except E1/E2; 9: except Exception; *)
(*        f = <<>>: no finally                                             *)
(* Every condition consumes the next decision of the vector (False when    *)
(* the vector is exhausted), so every program terminates.                  *)
(* A node path is a sequence of naturals: (tag, index) pairs from the      *)
(* root; tags: 0 top level, 1 body/then, 2 else, 3 handler, 4 finally;     *)
(* the `except` header line of a try at path p is p \o <<3, 0>>.           *)
(***************************************************************************)
EXTENDS Naturals, Sequences, FiniteSets, TLC

St(lines, decs, k, flow, marks) == [lines |-> lines, decs |-> decs, k |-> k, flow |-> flow, marks |-> marks]
Dec(dvec, k) == IF k <= Len(dvec) THEN dvec[k] ELSE FALSE
Visit(st, p) == [st EXCEPT !.lines = @ \cup {p}]
Decide(st, p, d) == [st EXCEPT !.decs = @ \cup {<<p, d>>}, !.k = @ + 1]
IsExc(fl) == fl \in {"x1", "x2"}
ExcNo(fl) == IF fl = "x1" THEN 1 ELSE 2

RECURSIVE ExecBlock(_, _, _, _, _), ExecStmt(_, _, _, _), WhileLoop(_, _, _, _), ForLoop(_, _, _, _, _)

(* statements of a block are executed in order while control flows normally *)
ExecBlock(blk, p, tag, st, dvec) ==
  LET F[i \in 0..Len(blk)] ==
        IF i = 0 THEN st
        ELSE IF F[i-1].flow # "n" THEN F[i-1]
        ELSE ExecStmt(blk[i], p \o <<tag, i>>, F[i-1], dvec)
  IN F[Len(blk)]

WhileLoop(s, p, st, dvec) ==
  LET d == Dec(dvec, st.k)
      st1 == Decide(Visit(st, p), p, d)
  IN IF ~d THEN ExecBlock(s.e, p, 2, st1, dvec)          \* test fails: else clause, loop ends
     ELSE LET st2 == ExecBlock(s.a, p, 1, st1, dvec) IN
          CASE st2.flow = "b" -> [st2 EXCEPT !.flow = "n"]  \* break skips the else clause
            [] st2.flow \in {"n", "c"} -> WhileLoop(s, p, [st2 EXCEPT !.flow = "n"], dvec)
            [] OTHER -> st2                                 \* return / exception propagate

ForLoop(s, p, st, dvec, j) ==
  IF j > s.k
  THEN ExecBlock(s.e, p, 2, [Visit(st, p) EXCEPT !.decs = @ \cup {<<p, FALSE>>}], dvec)
  ELSE LET st1 == [Visit(st, p) EXCEPT !.decs = @ \cup {<<p, TRUE>>}]
           st2 == ExecBlock(s.a, p, 1, st1, dvec)
       IN CASE st2.flow = "b" -> [st2 EXCEPT !.flow = "n"]
            [] st2.flow \in {"n", "c"} -> ForLoop(s, p, [st2 EXCEPT !.flow = "n"], dvec, j + 1)
            [] OTHER -> st2

ExecStmt(s, p, st, dvec) ==
  CASE s.t = "mark" -> [Visit(st, p) EXCEPT !.marks = Append(@, p)]
    [] s.t = "ret" -> [Visit(st, p) EXCEPT !.flow = "r"]
    [] s.t = "break" -> [Visit(st, p) EXCEPT !.flow = "b"]
    [] s.t = "cont" -> [Visit(st, p) EXCEPT !.flow = "c"]
    [] s.t = "raise" -> [Visit(st, p) EXCEPT !.flow = IF s.e = 1 THEN "x1" ELSE "x2"]
    [] s.t = "if" ->
         LET d == Dec(dvec, st.k)
             st1 == Decide(Visit(st, p), p, d)
         IN IF d THEN ExecBlock(s.a, p, 1, st1, dvec) ELSE ExecBlock(s.b, p, 2, st1, dvec)
    [] s.t = "while" -> WhileLoop(s, p, st, dvec)
    [] s.t = "for" -> ForLoop(s, p, st, dvec, 1)
    [] s.t = "try" ->
         LET st1 == ExecBlock(s.a, p, 1, Visit(st, p), dvec)
             (* the except clause: reached only when the body raised *)
             st2 == IF IsExc(st1.flow) /\ s.x # 0
                    THEN LET hp == p \o <<3, 0>>
                             match == (s.x = 9) \/ (s.x = ExcNo(st1.flow))
                             st1h == [Visit(st1, hp) EXCEPT !.decs = @ \cup {<<hp, match>>}]
                         IN IF match THEN ExecBlock(s.h, p, 3, [st1h EXCEPT !.flow = "n"], dvec)
                            ELSE st1h
                    \* the else clause: only when the body ran to its end; the handlers do not guard it
                    ELSE IF st1.flow = "n" THEN ExecBlock(s.o, p, 5, st1, dvec)
                    ELSE st1
             (* the finally clause runs on every way out; its own exit wins *)
             st3 == IF s.f = <<>> THEN st2
                    ELSE LET fin == ExecBlock(s.f, p, 4, [st2 EXCEPT !.flow = "n"], dvec)
                         IN IF fin.flow = "n" THEN [fin EXCEPT !.flow = st2.flow] ELSE fin
         IN st3

(* the function body is the program followed by `return len(m)` at path <<0, Len(prog) + 1>> *)
Run(prog, dvec) ==
  LET st == ExecBlock(prog, <<>>, 0, St({}, {}, 1, "n", <<>>), dvec)
      endp == <<0, Len(prog) + 1>>
  IN IF st.flow = "n" THEN [Visit(st, endp) EXCEPT !.flow = "r"] ELSE st

(* ---- well-formedness (what the Python compiler accepts / keeps) ---- *)
RECURSIVE ValidBlock(_, _), ValidStmt(_, _)
ValidBlock(blk, inLoop) ==
  /\ \A i \in DOMAIN blk : ValidStmt(blk[i], inLoop)
  \* nothing after a statement that always leaves the block (the compiler drops dead code)
  /\ \A i \in 1..(Len(blk) - 1) : blk[i].t \notin {"ret", "break", "cont", "raise"}
ValidStmt(s, inLoop) ==
  CASE s.t \in {"break", "cont"} -> inLoop
    [] s.t = "if" -> s.a # <<>> /\ ValidBlock(s.a, inLoop) /\ ValidBlock(s.b, inLoop)
    [] s.t \in {"while", "for"} -> s.a # <<>> /\ ValidBlock(s.a, TRUE) /\ ValidBlock(s.e, inLoop)
    [] s.t = "try" -> /\ s.a # <<>> /\ ValidBlock(s.a, inLoop)
                      /\ (s.x = 0 => (s.h = <<>> /\ s.f # <<>> /\ s.o = <<>>)) /\ (s.x # 0 => s.h # <<>>)
                      /\ ValidBlock(s.h, inLoop) /\ ValidBlock(s.o, inLoop)
                      \* break/continue/return inside finally are legal but discouraged: not generated
                      /\ ValidBlock(s.f, FALSE) /\ \A i \in DOMAIN s.f : s.f[i].t \in {"mark"}
    [] OTHER -> TRUE

(* ---- program universe ---- *)
Mark == [t |-> "mark"]
Simple == {Mark, [t |-> "ret"], [t |-> "break"], [t |-> "cont"], [t |-> "raise", e |-> 1], [t |-> "raise", e |-> 2]}
B0 == {<<>>} \cup {<<s>> : s \in Simple} \cup {<<Mark, s>> : s \in Simple}
ElseB == {<<>>, <<Mark>>}
HandlerB == {<<Mark>>, <<[t |-> "ret"]>>, <<[t |-> "raise", e |-> 2]>>}
TryElseB == {<<>>, <<Mark>>, <<[t |-> "raise", e |-> 1]>>}
Compound(Body) ==
       {[t |-> "if", a |-> a, b |-> b] : a \in Body \ {<<>>}, b \in B0}
  \cup {[t |-> "while", a |-> a, e |-> e] : a \in Body \ {<<>>}, e \in ElseB}
  \cup {[t |-> "for", k |-> k, a |-> a, e |-> e] : k \in 0..2, a \in Body \ {<<>>}, e \in ElseB}
  \cup {[t |-> "try", a |-> a, x |-> 0, h |-> <<>>, o |-> <<>>, f |-> <<Mark>>] : a \in Body \ {<<>>}}
  \cup {[t |-> "try", a |-> a, x |-> x, h |-> h, o |-> o, f |-> f] :
           a \in Body \ {<<>>}, x \in {1, 9}, h \in HandlerB, o \in TryElseB, f \in ElseB}
C1 == Compound(B0)
Progs1 == {p \in {<<c>> : c \in C1} \cup {<<Mark, c, Mark>> : c \in C1} : ValidBlock(p, FALSE)}

(***************************************************************************)
(* Coverage exclusions (C08).  A marker (`# pragma: no cover` /            *)
(* `# pynguin: no cover`) sits on a statement line (its path) or on a       *)
(* clause line: <<p, 2, 0>> the `else:` of the statement at p, <<p, 3, 0>>  *)
(* its `except` line, <<p, 4, 0>> its `finally:` line, <<p, 5, 0>> the     *)
(* `else:` line of a try statement.                                         *)
(*  - a marked simple statement is excluded;                                *)
(*  - a marked compound header excludes the header and the branch it heads  *)
(*    (then-body, loop body, try body);                                     *)
(*  - a marked clause line excludes that clause (else / handler / finally). *)
(* LineGoals = statement lines outside excluded code; a deciding line is a  *)
(* PredGoal when it is a line goal and (for if/while/for) its else clause   *)
(* is not marked.                                                           *)
(***************************************************************************)
RECURSIVE AllOf(_, _, _), LinesOf(_, _), ExclOf(_, _, _, _), ExclStmt(_, _, _), PredsOf(_, _, _, _), PredStmt(_, _, _)

AllOf(blk, p, tag) == UNION {LinesOf(blk[i], p \o <<tag, i>>) : i \in DOMAIN blk}
LinesOf(s, p) ==
  CASE s.t = "if" -> {p} \cup AllOf(s.a, p, 1) \cup AllOf(s.b, p, 2)
    [] s.t \in {"while", "for"} -> {p} \cup AllOf(s.a, p, 1) \cup AllOf(s.e, p, 2)
    [] s.t = "try" -> {p} \cup AllOf(s.a, p, 1) \cup (IF s.x # 0 THEN {p \o <<3, 0>>} ELSE {})
                      \cup AllOf(s.h, p, 3) \cup AllOf(s.o, p, 5) \cup AllOf(s.f, p, 4)
    [] OTHER -> {p}

ExclOf(blk, p, tag, M) == UNION {ExclStmt(blk[i], p \o <<tag, i>>, M) : i \in DOMAIN blk}
ExclStmt(s, p, M) ==
  CASE s.t = "if" ->
         (IF p \in M THEN {p} \cup AllOf(s.a, p, 1) ELSE ExclOf(s.a, p, 1, M))
         \cup (IF (p \o <<2, 0>>) \in M THEN AllOf(s.b, p, 2) ELSE ExclOf(s.b, p, 2, M))
    [] s.t \in {"while", "for"} ->
         (IF p \in M THEN {p} \cup AllOf(s.a, p, 1) ELSE ExclOf(s.a, p, 1, M))
         \cup (IF (p \o <<2, 0>>) \in M THEN AllOf(s.e, p, 2) ELSE ExclOf(s.e, p, 2, M))
    [] s.t = "try" ->
         (IF p \in M THEN {p} \cup AllOf(s.a, p, 1) ELSE ExclOf(s.a, p, 1, M))
         \cup (IF (p \o <<3, 0>>) \in M THEN {p \o <<3, 0>>} \cup AllOf(s.h, p, 3) ELSE ExclOf(s.h, p, 3, M))
         \cup (IF (p \o <<5, 0>>) \in M THEN AllOf(s.o, p, 5) ELSE ExclOf(s.o, p, 5, M))
         \cup (IF (p \o <<4, 0>>) \in M THEN AllOf(s.f, p, 4) ELSE ExclOf(s.f, p, 4, M))
    [] OTHER -> IF p \in M THEN {p} ELSE {}

(* deciding lines that remain predicates *)
PredsOf(blk, p, tag, M) == UNION {PredStmt(blk[i], p \o <<tag, i>>, M) : i \in DOMAIN blk}
PredStmt(s, p, M) ==
  CASE s.t = "if" -> (IF (p \o <<2, 0>>) \in M THEN {} ELSE {p}) \cup PredsOf(s.a, p, 1, M) \cup PredsOf(s.b, p, 2, M)
    [] s.t \in {"while", "for"} ->
         (IF (p \o <<2, 0>>) \in M THEN {} ELSE {p}) \cup PredsOf(s.a, p, 1, M) \cup PredsOf(s.e, p, 2, M)
    [] s.t = "try" -> (IF s.x # 0 THEN {p \o <<3, 0>>} ELSE {}) \cup PredsOf(s.a, p, 1, M)
                      \cup PredsOf(s.h, p, 3, M) \cup PredsOf(s.o, p, 5, M) \cup PredsOf(s.f, p, 4, M)
    [] OTHER -> {}

(* where a marker can be placed *)
RECURSIVE SitesOf(_, _, _), SitesStmt(_, _)
SitesOf(blk, p, tag) == UNION {SitesStmt(blk[i], p \o <<tag, i>>) : i \in DOMAIN blk}
SitesStmt(s, p) ==
  CASE s.t = "if" -> {p} \cup (IF s.b # <<>> THEN {p \o <<2, 0>>} ELSE {}) \cup SitesOf(s.a, p, 1) \cup SitesOf(s.b, p, 2)
    [] s.t \in {"while", "for"} ->
         {p} \cup (IF s.e # <<>> THEN {p \o <<2, 0>>} ELSE {}) \cup SitesOf(s.a, p, 1) \cup SitesOf(s.e, p, 2)
    [] s.t = "try" -> {p} \cup (IF s.x # 0 THEN {p \o <<3, 0>>} ELSE {}) \cup (IF s.f # <<>> THEN {p \o <<4, 0>>} ELSE {})
                      \cup (IF s.o # <<>> THEN {p \o <<5, 0>>} ELSE {})
                      \cup SitesOf(s.a, p, 1) \cup SitesOf(s.h, p, 3) \cup SitesOf(s.o, p, 5) \cup SitesOf(s.f, p, 4)
    [] OTHER -> {p}

EndPath(prog) == <<0, Len(prog) + 1>>
ProgLines(prog) == AllOf(prog, <<>>, 0) \cup {EndPath(prog)}
Excluded(prog, M) == ExclOf(prog, <<>>, 0, M) \cup (IF EndPath(prog) \in M THEN {EndPath(prog)} ELSE {})
LineGoals(prog, M) == ProgLines(prog) \ Excluded(prog, M)
PredGoals(prog, M) == PredsOf(prog, <<>>, 0, M) \cap LineGoals(prog, M)
Sites(prog) == SitesOf(prog, <<>>, 0) \cup {EndPath(prog)}
=============================================================================

CONSTANTS
  MinB = 1
  MaxB = 2
  MaxOut = 3
  ExitAug = TRUE
  Repr = "triples"
SPECIFICATION Spec
INVARIANT TypeOK
INVARIANT AlgorithmCorrect
INVARIANT DefsAgree
INVARIANT PostDomSane
INVARIANT EveryNodeDepends
INVARIANT BelowRoot
INVARIANT RootOrBranch
INVARIANT QueriesAgree
INVARIANT SourcesBranch
INVARIANT LoopConsistent
INVARIANT LabelsUniqueWhenStrict
INVARIANT GoalsReachable

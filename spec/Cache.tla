-------------------------------- MODULE Cache --------------------------------
(***************************************************************************)
(* Design model for C12: test case and test suite chromosomes with their   *)
(* computation caches, driven by every public call that reads or dirties   *)
(* the caches (CacheOps.Step).  One action = one call.                     *)
(*                                                                         *)
(* obs is what the last call reported: for a query whether the function    *)
(* was registered, whether the call raised and whether the answer differs  *)
(* from the value of the current content.                                  *)
(*                                                                         *)
(* The alphabet is large (18 calls x chromosomes x functions), so the      *)
(* exhaustive runs explore slices ("modes", fixed per behaviour by the     *)
(* initial state): broad ones with all query kinds to a small depth, and   *)
(* focus modes with few calls and one query kind to a larger depth.        *)
(* Cache_sim.cfg / MC_Cache_sim.cfg walk the full alphabet at random.      *)
(***************************************************************************)
EXTENDS CacheOps, TLC, IOUtils

CONSTANTS NT,        \* test chromosome slots
          NS,        \* suite slots
          MaxV,      \* bound on content versions (number of edits)
          MaxFuncs,  \* bound on the length of a registered-function list
          MaxSuite,  \* bound on suite size for growing operators
          FFSeq,     \* all fitness functions as a list
          CFSeq,     \* all coverage functions as a list
          MaxDepth,  \* bound on the number of calls in a behaviour
          Ops,       \* the calls explored (a slice of the alphabet)
          Modes,     \* slices explored: "T" one test + test-level calls, "S" test + suite + suite-level
                     \* calls, "A" everything, "C*"/"M*"/"P*" focus modes (below)
          MaxTop,    \* bound on live test chromosomes for tclone
          ExtraT,    \* additional calls explored from the one-test population (mode "T")
          ExtraC,    \* ... in the clone focus modes
          ExtraM,    \* ... in the suite/member focus modes
          Coarse     \* TRUE: few representative outcomes per random operator (behaviour generation only:
                     \* the real outcome is not the model's choice)

VARIABLES W, obs
vars == <<W, obs>>

\* values for the cfg files (cfg syntax has no sequences)
DefFFSeq == <<"f1", "f2">>
DefCFSeq == <<"g1">>
DefFactoryFF == <<"f1", "f2">>
NoFaults == {}
CodeFaults == AllFaults
\* Cache_asis.cfg: the defect(s) named by the environment variable C12_FAULTS ("all" or one name)
EnvFaults == IF IOEnv.C12_FAULTS = "all" THEN AllFaults ELSE {f \in AllFaults : f = IOEnv.C12_FAULTS}
AllOps == {"tq", "sq", "taddf", "taddc", "saddf", "saddc", "tinv", "sinv", "tclone", "sclone",
           "tmut", "txo", "sadd", "sadds", "sdel", "sset", "sxo", "smut"}
TestOps == {"tq", "taddf", "taddc", "tinv", "tclone", "tmut", "txo"}
SuiteOps == {"sq", "tq", "saddf", "saddc", "sinv", "sclone", "sadd", "sdel", "sset", "sxo", "smut"}
\* focus modes: few calls, one query kind per history, explored deeper
\*   "Cfit"/"Cisc"/"Ccov": one test and its clones; "Mfit"/"Misc"/"Mcov": suite, its members, a spare test
CloneOps == {"tq", "tclone", "tmut", "txo", "tinv"}
MemberOps == {"sq", "tq", "smut", "sadd", "sdel", "sset", "sclone", "sinv", "tmut"}
\*   "PC*"/"PM*": same populations, histories of the shape query, [clone/add], edit, query, [query]
\*   (MC_Cache.Phase) -- every such call sequence, not one per model state
PatC == {"PCfit", "PCisc", "PCcov"}
PatM == {"PMfit", "PMisc", "PMcov"}
\*   "PX*": TWO live suites of two tests each; histories  [query both] cross_over [query] mutate query query
\*   (MC_Cache.PhaseNextX): direct cross_over between live suites, then one is mutated, both are asked
PatX == {"PXfit", "PXisc", "PXcov"}
PatXOps == {"sq", "sxo", "smut"}
FocusC == {"Cfit", "Cisc", "Ccov"} \cup PatC
FocusM == {"Mfit", "Misc", "Mcov"} \cup PatM
KindOf(m) == IF m \in {"Cfit", "Mfit", "PCfit", "PMfit", "PXfit"} THEN "fit"
             ELSE IF m \in {"Cisc", "Misc", "PCisc", "PMisc", "PXisc"} THEN "isc" ELSE "cov"
PatMOps == {"sq", "tq", "smut", "sxo", "sadd", "sadds", "sdel", "sset", "sclone"}
ModeOps(m) == IF m = "T" THEN TestOps ELSE IF m = "S" THEN SuiteOps
              ELSE IF m \in PatM THEN PatMOps
              ELSE IF m \in PatX THEN PatXOps
              ELSE IF m \in FocusC THEN CloneOps ELSE IF m \in FocusM THEN MemberOps ELSE AllOps
ModesAll == {"T", "S"} \cup FocusC \cup FocusM
ModesDesign == ModesAll \ (PatC \cup PatM)
ModesA == {"A"}
ModesX == PatX
ModesSim == {"A"} \cup FocusC \cup FocusM

TIds == 1..NT
SIds == 1..NS

A(op, a, b, p, q, f, k) == [op |-> op, a |-> a, b |-> b, p |-> p, q |-> q, f |-> f, k |-> k]

QArgs == UNION {{<<k, f>> : f \in FuncArgs(k)} : k \in Kinds}

(* every call that is admissible in W *)
Acts(W0) ==
  LET lt  == {a \in TIds : W0.t[a].alive}
      tt  == {a \in lt : W0.t[a].owner = 0}
      ls  == {s \in SIds : W0.s[s].alive}
      ft  == IF FreeT(W0) = {} THEN 0 ELSE MinOf(FreeT(W0))
      fs  == IF FreeS(W0) = {} THEN 0 ELSE MinOf(FreeS(W0))
      cand ==
           {A("tq", a, 0, 0, 0, kf[2], kf[1]) : a \in lt, kf \in QArgs}
      \cup {A("sq", s, 0, 0, 0, kf[2], kf[1]) : s \in ls, kf \in QArgs}
      \cup {A("taddf", a, 0, 0, 0, f, "") : a \in {x \in lt : Len(W0.t[x].ff) < MaxFuncs}, f \in FF}
      \cup {A("taddc", a, 0, 0, 0, f, "") : a \in {x \in lt : Len(W0.t[x].cf) < Cardinality(CF)}, f \in CF}
      \cup {A("saddf", s, 0, 0, 0, f, "") : s \in {x \in ls : Len(W0.s[x].ff) < MaxFuncs}, f \in FF}
      \cup {A("saddc", s, 0, 0, 0, f, "") : s \in {x \in ls : Len(W0.s[x].cf) < Cardinality(CF)}, f \in CF}
      \cup {A("tinv", a, 0, 0, 0, "", "") : a \in lt}
      \cup {A("sinv", s, 0, 0, 0, "", "") : s \in ls}
      \cup {A("tclone", a, ft, 0, 0, "", "") : a \in lt}
      \cup {A("sclone", s, fs, 0, 0, "", "") : s \in ls}
      \cup {A("tmut", a, 0, 0, 0, "", "") : a \in tt}
      \cup {A("txo", a, b, 0, 0, "", "") : a \in tt, b \in tt}
      \cup {A("sadd", s, a, 0, 0, "", "") : s \in {x \in ls : Len(W0.s[x].mem) < MaxSuite}, a \in tt}
      \cup {A("sadds", s, a, 0, 0, "", "") : s \in {x \in ls : Len(W0.s[x].mem) < MaxSuite}, a \in tt}
      \cup {A("sdel", s, a, 0, 0, "", "") : s \in ls, a \in lt}
      \cup {A("sset", s, a, p, 0, "", "") : s \in ls, a \in tt, p \in 1..MaxSuite}
      \cup {A("sxo", s, s2, p, q, "", "") : s \in ls, s2 \in ls, p \in 0..MaxSuite, q \in 0..MaxSuite}
      \cup {A("smut", s, 0, 0, 0, "", "") : s \in ls}
  IN {act \in cand : /\ act.op \in Ops /\ act.op \in ModeOps(W0.mode) /\ Enabled(W0, act)
                     /\ (act.op = "tclone" => Cardinality(lt) < MaxTop)
                     /\ ((act.op = "tq" /\ W0.mode \in {"S"} \cup FocusM) => W0.t[act.a].owner # 0)
                     /\ ((IsQuery(act) /\ W0.mode \in FocusC \cup FocusM \cup PatX) =>
                            (act.k = KindOf(W0.mode) /\ act.f \in {"f1", "g1"}))}

(* the outcomes the operator code admits; fresh content versions come from the clock *)
OutRec(id, c, h, u, d) == [id |-> id, c |-> c, chg |-> h, sut |-> u, did |-> d]
Same(W0, m) == OutRec(m, W0.t[m].c, W0.t[m].chg, W0.t[m].sut, FALSE)
Cands(W0, m, newv) ==
  IF Coarse \/ W0.mode \in PatC \cup PatM \cup PatX
  THEN {OutRec(m, W0.t[m].c, W0.t[m].chg, W0.t[m].sut, TRUE), OutRec(m, newv, TRUE, TRUE, TRUE)}
  ELSE {OutRec(m, c, h, u, TRUE) : c \in {W0.t[m].c, EmptyV, newv}, h \in BOOLEAN, u \in BOOLEAN}

RECURSIVE MemOuts(_, _, _)
MemOuts(W0, mem, i) ==
  IF i > Len(mem) THEN {<<>>}
  ELSE LET opts == {Same(W0, mem[i])}
                   \cup {o \in Cands(W0, mem[i], W0.clk + i) : TMutOK(W0.t[mem[i]], o)}
       IN {<<o>> \o rest : o \in opts, rest \in MemOuts(W0, mem, i + 1)}

Outs(W0, act) ==
  CASE act.op = "tmut" ->
         {[ts |-> <<o>>, added |-> <<>>] :
            o \in {x \in Cands(W0, act.a, W0.clk + 1) : TMutOK(W0.t[act.a], x)}}
    [] act.op = "txo" ->
         {[ts |-> <<o>>, added |-> <<>>] :
            o \in {x \in Cands(W0, act.a, W0.clk + 1) : TXoOK(W0.t[act.a], x)}}
    [] act.op = "smut" /\ W0.mode \in PatX ->
         LET mem == W0.s[act.a].mem
         IN {[ts |-> [i \in DOMAIN mem |-> Same(W0, mem[i])], added |-> <<>>],
             [ts |-> [i \in DOMAIN mem |-> OutRec(mem[i], W0.clk + i, TRUE, TRUE, TRUE)], added |-> <<>>]}
    [] act.op = "smut" ->
         LET mem == W0.s[act.a].mem
             nv  == W0.clk + Len(mem) + 1
             add == IF FreeT(W0) # {} /\ Len(mem) < MaxSuite
                    THEN IF Coarse \/ W0.mode \in PatC \cup PatM THEN {<<>>, <<[c |-> nv, sut |-> TRUE]>>}
                         ELSE {<<>>, <<[c |-> nv, sut |-> TRUE]>>, <<[c |-> nv, sut |-> FALSE]>>,
                               <<[c |-> EmptyV, sut |-> FALSE]>>}
                    ELSE {<<>>}
         IN {[ts |-> ts, added |-> ad] : ts \in MemOuts(W0, mem, 1), ad \in add}
    [] OTHER -> {NoOut}

UsedVersions(out) == {out.ts[i].c : i \in DOMAIN out.ts} \cup {out.added[j].c : j \in DOMAIN out.added}

Do(act, out) ==
  /\ OutOK(W, act, out)
  /\ LET r == StepV(W, act, out)
     IN /\ W' = [r.W EXCEPT !.clk = MaxOf({W.clk} \cup UsedVersions(out))]
        /\ obs' = r.v

DepthOf(W0) == IF W0.mode = "T" THEN MaxDepth + ExtraT
               ELSE IF W0.mode \in PatC \cup PatM THEN 5
               ELSE IF W0.mode \in PatX THEN 8
               ELSE IF W0.mode \in FocusC THEN MaxDepth + ExtraC
               ELSE IF W0.mode \in FocusM THEN MaxDepth + ExtraM ELSE MaxDepth
Next == /\ TLCGet("level") <= DepthOf(W)
        /\ \E act \in Acts(W) : \E out \in Outs(W, act) : Do(act, out)

(* Initial population: a test held by the caller (with or without a call on the SUT), a suite
   with one member from the chromosome factory; functions of either kind registered or not. *)
\* two live suites <<2, 3>> and <<4, 5>> of factory tests, a spare test held by the caller
InitWorldX(mode) ==
  [t |-> [i \in TIds |-> IF i = 1 THEN NewT(1, TRUE, FFSeq, CFSeq, 0)
                         ELSE IF i \in 2..5 THEN NewT(i, TRUE, FactoryFF, <<>>, IF i <= 3 THEN 1 ELSE 2)
                         ELSE DeadT],
   s |-> [j \in SIds |-> IF j = 1 THEN NewS(<<2, 3>>, FFSeq, CFSeq)
                         ELSE IF j = 2 THEN NewS(<<4, 5>>, FFSeq, CFSeq) ELSE DeadS],
   clk |-> 5, mode |-> mode]

InitWorld(mode, sut1, regF, regC) ==
  IF mode \in PatX THEN InitWorldX(mode) ELSE
  [t |-> [i \in TIds |->
            IF i = 1 THEN NewT(1, sut1, IF regF THEN FFSeq ELSE <<>>, IF regC THEN CFSeq ELSE <<>>, 0)
            ELSE IF i = 2 /\ mode \notin {"T"} \cup FocusC THEN NewT(2, TRUE, FactoryFF, IF mode \in FocusM THEN CFSeq ELSE <<>>, 1)
            ELSE DeadT],
   s |-> [j \in SIds |->
            IF j = 1 /\ mode \notin {"T"} \cup FocusC
            THEN NewS(<<2>>, IF regF THEN FFSeq ELSE <<>>, IF regC THEN CFSeq ELSE <<>>)
            ELSE DeadS],
   clk |-> 2, mode |-> mode]

\* the focus modes start with everything registered and a call on the SUT
InitParams(mode) == IF mode \in FocusC \cup FocusM \cup PatX THEN {<<TRUE, TRUE, TRUE>>}
                    ELSE IF mode = "A" THEN {<<TRUE, TRUE, TRUE>>, <<FALSE, FALSE, TRUE>>}
                    ELSE BOOLEAN \X BOOLEAN \X BOOLEAN
Init == /\ \E mode \in Modes : \E pr \in InitParams(mode) : W = InitWorld(mode, pr[1], pr[2], pr[3])
        /\ obs = NoV

Spec == Init /\ [][Next]_vars

Bound == W.clk <= MaxV

(* ---- C12 ---- *)
NeverStale == ~obs.stale
QueryTotal == obs.reg => ~obs.raised

(* ---- chromosomes own their test cases ---- *)
\* every member belongs to exactly one suite (part of WorldOK), and a call made on one chromosome
\* never changes the cached-value inputs (member lists, content versions) of another one
Owns == OwnedP(W)
\* (the exact frame, with the call as argument -- CacheOps.IsolatedP -- is checked on every transition
\*  of MC_Cache, where the call is part of the state, and on the observed objects in CacheTrace)
TouchedS(W0, W1) == {s \in SIds : W0.s[s].alive /\ W1.s[s].alive /\ SuiteInputs(W1, s) # SuiteInputs(W0, s)}
TouchedT(W0, W1) == {a \in TIds : /\ W0.t[a].alive /\ W1.t[a].alive /\ W0.t[a].owner = 0 /\ W1.t[a].owner = 0
                                  /\ W1.t[a].c # W0.t[a].c}
Isolation == [][Cardinality(TouchedS(W, W')) + Cardinality(TouchedT(W, W')) <= 1]_vars

(* ---- sanity of the model ---- *)
TypeOK ==
  /\ WorldOK(W)
  /\ \A a \in TIds : /\ W.t[a].res \in {None} \cup 0..(MaxV + NT)
                     /\ \A f \in FF : W.t[a].fit[f] \in {None} \cup 0..(MaxV + NT)
(* a cached entry of an unchanged chromosome whose result is current is current:
   the invariant the repaired design maintains and the reason NeverStale holds *)
CleanMeansCurrent ==
  \A a \in TIds : (W.t[a].alive /\ ~W.t[a].chg) =>
     /\ W.t[a].res \in {None, W.t[a].c}
     /\ \A f \in FF : W.t[a].fit[f] \in {None, W.t[a].c} /\ W.t[a].isc[f] \in {None, W.t[a].c}
     /\ \A g \in CF : W.t[a].cov[g] \in {None, W.t[a].c}
SuiteCleanMeansCurrent ==
  \A s \in SIds : (W.s[s].alive /\ ~W.s[s].chg) =>
     /\ \A f \in FF : W.s[s].fit[f] \in {NoneS, SuiteValue(W, s)} /\ W.s[s].isc[f] \in {NoneS, SuiteValue(W, s)}
     /\ \A g \in CF : W.s[s].cov[g] \in {NoneS, SuiteValue(W, s)}
=============================================================================

------------------------- MODULE SubprocessExecTrace --------------------------
(***************************************************************************)
(* Trace validation for C31.                                               *)
(*                                                                         *)
(* One trace = one test case executed by the real TestCaseExecutor (i) and *)
(* by the real SubprocessTestCaseExecutor (s); its single event carries    *)
(* both projections of the ExecutionResult:                                *)
(*   to  timeout flag; err  the executor raised instead of returning        *)
(*   ex  <<position, exception type>>            (result.exceptions)       *)
(*   ln  covered line ids, co  entered code objects                        *)
(*   bt / bf  predicates with a true / false outcome (distance 0)          *)
(*   at  <<position, <<rendered assertion, ...>>>>  (assertion trace, in   *)
(*       the order the assertions were recorded)                           *)
(*   vt  <<position, assertion index, 0 failed | 1 error>>                 *)
(* Strings are interned by the harness.  cmp lists the components that the *)
(* configuration makes comparable, det says whether the test case is       *)
(* deterministic (a test case that kills only child processes is not).     *)
(* tm = <<M, Per>>: the timeout settings of both executors in the time     *)
(* units of the model (a "slow" statement sleeps SlowDur units).           *)
(* kind = "batch" events carry the protocol path observed on the real      *)
(* executor for one execute_multiple call and the path of the model.       *)
(*                                                                         *)
(* The C31 clauses are TimeoutAgree .. VerificationTraceAgree.  Drift_*    *)
(* clauses compare the real executors with SubprocessExecOps / the         *)
(* protocol model (no verdict).  TLC reports only the first violated       *)
(* invariant of a state, therefore one phase per clause.                   *)
(***************************************************************************)
EXTENDS SubprocessExecOps, TLC, TLCExt, Json, IOUtils

Traces == ndJsonDeserialize(IOEnv.TRACE_FILE)

Clauses == <<"TimeoutAgree", "ExceptionsAgree", "LinesAgree", "BranchesAgree",
             "AssertionTraceAgree", "VerificationTraceAgree",
             "Drift_InprocFollowsModel", "Drift_SubFollowsModel", "Drift_Degrades", "Drift_Path">>

VARIABLES tid, l, ph
vars == <<tid, l, ph>>

Init == tid \in 1..Len(Traces) /\ l = 0 /\ ph = Len(Clauses)
Next == IF l > 0 /\ ph < Len(Clauses)
        THEN ph' = ph + 1 /\ UNCHANGED <<tid, l>>
        ELSE l < Len(Traces[tid].ev) /\ l' = l + 1 /\ ph' = 1 /\ UNCHANGED tid
Spec == Init /\ [][Next]_vars

cur == Traces[tid].ev[l]
At(name) == l > 0 /\ Clauses[ph] = name
Compared(c) == \E k \in DOMAIN cur.cmp : cur.cmp[k] = c
\* a comparison of the two executions of one deterministic test case
Case(name, c) == At(name) /\ cur.kind # "batch" /\ cur.det /\ Compared(c)

(* ------------------------------------------------------------------- C31 *)
\* err: the executor itself raised instead of delivering a result (0 = it delivered)
TimeoutAgree           == Case("TimeoutAgree", "to") => cur.i.to = cur.s.to /\ cur.i.err = cur.s.err
ExceptionsAgree        == Case("ExceptionsAgree", "ex") => cur.i.ex = cur.s.ex
LinesAgree             == Case("LinesAgree", "ln") => cur.i.ln = cur.s.ln
BranchesAgree          == Case("BranchesAgree", "br") => /\ cur.i.bt = cur.s.bt
                                                         /\ cur.i.bf = cur.s.bf
                                                         /\ cur.i.co = cur.s.co
AssertionTraceAgree    == Case("AssertionTraceAgree", "at") => cur.i.at = cur.s.at
VerificationTraceAgree == Case("VerificationTraceAgree", "vt") => cur.i.vt = cur.s.vt

(* ------------------------------------------- conformance with the model *)
Kind(n) == IF n = 0 THEN "failed" ELSE "error"
\* an observed projection o is what the abstract result r prescribes (positions: 0-based / 1-based)
Matches(o, r) ==
  /\ o.to = r.timeout
  /\ IF r.exc = 0 THEN o.ex = <<>> ELSE Len(o.ex) = 1 /\ o.ex[1][1] + 1 = r.exc
  /\ (r.items = {} => o.bt = <<>> /\ o.bf = <<>>)
  /\ (cur.obs = "trace" => {o.at[k][1] + 1 : k \in DOMAIN o.at} = {a[1] : a \in r.atr})
  /\ (cur.obs = "verify" => {<<o.vt[k][1] + 1, Kind(o.vt[k][3])>> : k \in DOMAIN o.vt} = r.vtr)
\* tm: the settings of both executors in the time units of the model (M, Per); prog carries the
\* binding flag of every statement
Abstract == ExecResult(cur.prog, cur.obs, cur.tm[1], cur.tm[2])

Drift_InprocFollowsModel ==
  At("Drift_InprocFollowsModel") /\ cur.kind # "batch" /\ cur.model => Matches(cur.i, Abstract)
Drift_SubFollowsModel ==
  At("Drift_SubFollowsModel") /\ cur.kind # "batch" /\ cur.model /\ cur.det
    => Matches(cur.s, PickleFix(Abstract, "ascoded"))
\* a test case that kills the child executing it is reported as a timeout
Drift_Degrades ==
  At("Drift_Degrades") /\ cur.kind # "batch" /\ cur.model /\ ~cur.det => cur.s.to
\* the real executor took the protocol path of SubprocessExec.tla
Drift_Path == At("Drift_Path") /\ cur.kind = "batch" => cur.path = cur.mpath
=============================================================================

SPECIFICATION Spec
INVARIANT IterBound
INVARIANT NoIterationAfterBudget
INVARIANT SearchReturns

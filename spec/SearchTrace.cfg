SPECIFICATION Spec
INVARIANT IterBound
INVARIANT NoIterationAfterBudget
INVARIANT SearchReturns
INVARIANT ConfiguredBudgetsEnforced
PROPERTY EveryPassIsAnIteration

------------------------------ MODULE Graphs ------------------------------
(***************************************************************************)
(* Design model for C06 (and the structural half of C07).                  *)
(*                                                                         *)
(* 1. Build: TLC constructs EVERY control-flow graph over <= MaxB blocks   *)
(*    block by block (one Build step fixes the out-edges of one block),    *)
(*    Seal keeps the well-formed ones (WellFormedCFG).                     *)
(* 2. Compute: the loop of ControlDependenceGraph.compute, one Walk step   *)
(*    per edge of the augmented graph, then Finish (ENTRY/EXIT removed).   *)
(*    Repr = "triples": edges are labelled triples; Repr = "digraph": one  *)
(*    label per node pair, the last add_edge wins (what nx.DiGraph does).  *)
(* Invariants: the coded construction yields exactly Ferrante's relation,  *)
(* the two post-dominator definitions agree, and the theorems the goal     *)
(* graph relies on (every node hangs below the root, is root dependent or  *)
(* depends on a branch, every goal is reachable from a root goal).         *)
(***************************************************************************)
EXTENDS GraphsOps, TLC

CONSTANTS MinB, MaxB,  \* number of basic blocks: every B in MinB..MaxB; blocks 1..B, ENTRY = MaxB+1, EXIT = MaxB+2
          MaxOut,   \* maximal number of successors of a block that does not end in a branch
          ExitAug,  \* TRUE: a branch block may have the third, unlabelled out-edge to EXIT
          Repr      \* "triples" | "digraph"

VARIABLES g, nb, phase, todo, cdg
vars == <<g, nb, phase, todo, cdg>>

Entry  == MaxB + 1
Exit   == MaxB + 2
Blocks == g.N \ {Entry, Exit}
B      == Cardinality(Blocks)
Targets == Blocks \cup {Exit}

PlainChoices(n) ==
  {{<<n, s, "N">> : s \in S} : S \in {X \in SUBSET Targets : X # {} /\ Cardinality(X) <= MaxOut}}
BranchChoices(n) ==
  UNION {{{<<n, t, "T">>, <<n, f, "F">>} \cup x :
            x \in IF ExitAug /\ Exit \notin {t, f} THEN {{}, {<<n, Exit, "N">>}} ELSE {{}}}
         : <<t, f>> \in {p \in Targets \X Targets : p[1] # p[2]}}
OutChoices(n) == PlainChoices(n) \cup BranchChoices(n)

Init == /\ \E k \in MinB..MaxB :
             g = [N |-> (1..k) \cup {Entry, Exit}, E |-> {<<Entry, 1, "N">>}, entry |-> Entry, exit |-> Exit]
        /\ nb = 0 /\ phase = "build" /\ todo = {} /\ cdg = {}

Build == /\ phase = "build" /\ nb < B
         /\ \E c \in OutChoices(nb + 1) : g' = [g EXCEPT !.E = @ \cup c]
         /\ nb' = nb + 1
         /\ UNCHANGED <<phase, todo, cdg>>

Seal == /\ phase = "build" /\ nb = B
        /\ IF WellFormedCFG(g)
           THEN phase' = "compute" /\ todo' = WalkEdges(g)
           ELSE phase' = "reject" /\ todo' = {}
        /\ UNCHANGED <<g, nb, cdg>>

Rank(e) == e[1] * (MaxB + 3) + e[2]
Walk == /\ phase = "compute" /\ todo # {}
        /\ \E e \in todo :
             /\ (Repr = "triples" => \A f \in todo : Rank(e) <= Rank(f))   \* order is irrelevant for sets
             /\ LET new == {<<e[1], b, e[3]>> : b \in EdgeMarks(g, e)}
                IN cdg' = IF Repr = "digraph"
                          THEN {t \in cdg : ~\E x \in new : x[1] = t[1] /\ x[2] = t[2]} \cup new
                          ELSE cdg \cup new
             /\ todo' = todo \ {e}
        /\ UNCHANGED <<g, nb, phase>>

Finish == /\ phase = "compute" /\ todo = {}
          /\ cdg' = DropEntryExit(g, cdg)
          /\ phase' = "done"
          /\ UNCHANGED <<g, nb, todo>>

Next == Build \/ Seal \/ Walk \/ Finish
Spec == Init /\ [][Next]_vars

(* ---------------------------------------------------------------- *)
Done == phase = "done"
F == FerranteCDG(g)
CNodes == (g.N \ {g.entry, g.exit}) \cup {Aug}
BranchNodes == {n \in Blocks : IsBranch(g, n)}

TypeOK == /\ phase \in {"build", "reject", "compute", "done"} /\ nb \in 0..MaxB

\* the coded construction yields exactly the relation of the property statement
AlgorithmCorrect == Done => cdg = F
\* independent formulations agree
DefsAgree == Done => /\ PostDomByPaths(Augment(g)) = PostDomByFixpoint(Augment(g))
                     /\ PostDomByPaths(g) = PostDomByFixpoint(g)
                     /\ F = FerranteDecl(g)
                     /\ F = TreeWalkCDG(g)
PostDomSane == Done =>
  LET pd == PostDom(g) IN
    /\ \A n \in g.N : n \in pd[n] /\ g.exit \in pd[n]
    /\ \A n \in g.N : \A d \in pd[n] : pd[d] \subseteq pd[n]                       \* transitive
    /\ \A n \in g.N : \A d, x \in pd[n] : d \in pd[x] \/ x \in pd[d]               \* a chain: tree
    /\ \A n, d \in g.N : (d \in pd[n] /\ n \in pd[d]) => n = d
\* every block has a control-dependence parent other than itself
EveryNodeDepends == Done => \A n \in Blocks : \E t \in F : t[2] = n /\ t[1] # n
BelowRoot == Done => AllBelowRoot(F, CNodes)
\* root dependence for nodes not dependent on any branch (statement of C06)
RootOrBranch == Done => \A n \in Blocks : RootDependent(F, CNodes, n) \/ Deps(F, CNodes, n) # {}
QueriesAgree == Done =>
  /\ RootDependentSet(F, CNodes) = {n \in CNodes \ {Aug} : RootDependent(F, CNodes, n)}
  /\ DepsAll(F, CNodes) = UNION {{<<n, d[1], d[2]>> : d \in Deps(F, CNodes, n)} : n \in CNodes \ {Aug}}
  /\ GoalEdgesFast(F, CNodes, BranchNodes) = GoalEdges(F, CNodes, BranchNodes)
  /\ GoalRootsFast(F, CNodes, BranchNodes) = GoalRoots(F, CNodes, BranchNodes)
\* only nodes with at least two successors are sources; labelled edges start at branch nodes
SourcesBranch == Done => \A t \in F : \/ t[1] = Aug
                                      \/ /\ Cardinality(OutE(g, t[1])) >= 2
                                         /\ (t[3] # "N" => t[1] \in BranchNodes)
\* loop consistency: B depends on A only if B is reachable from A; self dependence needs a cycle
LoopConsistent == Done => \A t \in F : t[1] # Aug =>
                     \E e \in OutE(g, t[1]) : e[3] = t[3] /\ t[2] \in ReachFrom(g, e[2])
\* one label per pair suffices when no branch node has the extra exit edge
LabelsUniqueWhenStrict == (Done /\ StrictBranches(g)) => LabelFunctional(F)
LabelsUnique == Done => LabelFunctional(F)          \* false in general: see Graphs_hazard.cfg
\* structural half of C07 when every branch node carries a predicate
GoalsReachable == Done =>
  /\ DependenciesResolve(F, CNodes, BranchNodes)
  /\ AllGoalsReachableFromRoots(GoalsOf(BranchNodes), GoalRoots(F, CNodes, BranchNodes),
                                GoalEdges(F, CNodes, BranchNodes))
=============================================================================

----------------------------- MODULE MC_Graphs ------------------------------
(* Case extraction for the P2 replay of C06: the Build steps of Graphs.tla; every sealed  *)
(* well-formed control-flow graph is emitted once as JSON and fed, as a real cf.CFG        *)
(* object, to the real ControlDependenceGraph.compute.  In -simulate mode (no Emit) the    *)
(* final state of a behaviour carries the graph and TLC's WellFormedCFG verdict in phase.  *)
EXTENDS Graphs, Json

MCSeal == /\ phase = "build" /\ nb = B
          /\ phase' = IF WellFormedCFG(g) THEN "built" ELSE "reject"
          /\ UNCHANGED <<g, nb, todo, cdg>>
MCNext == Build \/ MCSeal
MCSpec == Init /\ [][MCNext]_vars

Emit == phase = "built" => PrintT(<<"HIST", ToJson(g)>>)
=============================================================================

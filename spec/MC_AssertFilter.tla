--------------------------- MODULE MC_AssertFilter ----------------------------
(***************************************************************************)
(* Case enumeration for the filtering pass of the assertion generator       *)
(* (AssertionGenerator.__remove_non_holding_assertions, C21 part 1): a test *)
(* case of two statements with 0..MaxA assertions each; in the filtering    *)
(* execution every assertion holds ("h"), fails ("f", AssertionError) or    *)
(* cannot be evaluated ("e", any other exception).  The filter must keep    *)
(* exactly the holding ones, whatever the outcomes of their siblings.       *)
(***************************************************************************)
EXTENDS Naturals, Sequences, TLC, Json

CONSTANTS MaxA
Outcomes == {"h", "f", "e"}
Vecs == UNION {[1..n -> Outcomes] : n \in 0..MaxA}

VARIABLE case
Init == case = [s1 |-> <<>>, s2 |-> <<>>, done |-> FALSE]
Next == ~case.done /\ \E a \in Vecs, b \in Vecs : case' = [s1 |-> a, s2 |-> b, done |-> TRUE]
Spec == Init /\ [][Next]_case
Kept(v) == {i \in DOMAIN v : v[i] = "h"}
Emit == case.done => PrintT(<<"HIST", ToJson([s1 |-> case.s1, s2 |-> case.s2])>>)
=============================================================================

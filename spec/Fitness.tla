--------------------------------- MODULE Fitness ---------------------------------
(***************************************************************************)
(* Design model for C10 / C11.  A suite is executed test by test: the      *)
(* tracer callbacks build the trace `cur` of the running test, FinishTest  *)
(* hands it to the suite (analyze_results folds ExecutionTrace.merge over  *)
(* the results).  `prev` is the merged trace of the suite without its last *)
(* test, `last` the trace of the last test, merged = Merge(prev, last).    *)
(*                                                                         *)
(* TLC checks that the semantics of FitnessOps satisfies the laws of C10   *)
(* on every trace the tracer can produce (cur, merged) and the laws of C11 *)
(* on every (prev, last, cur).  With MaxTests = 0 the reachable `cur` are  *)
(* exactly ALL well-formed abstract traces over all registries in bounds.  *)
(***************************************************************************)
EXTENDS FitnessOps, TLC

CONSTANTS MaxPred, MaxBl, MaxLine,   \* registry bounds
          MaxCnt,                    \* predicate executions per test
          MaxTests,                  \* finished tests
          Dists,                     \* distances a predicate evaluation can report (subset of Dist)
          Shapes,                    \* subset of {"own", "nested", "seq"}
          Diam,                      \* CFG diameter used for predicate owning code objects
          LinePred, LineBl           \* registries with lines: at most this many predicates / branch-less objects

VARIABLES reg, cur, prev, last, merged, ntests
vars == <<reg, cur, prev, last, merged, ntests>>

Registries == UNION {{MkReg(x[1], x[2], x[3], sh, Diam) : sh \in ShapesFor(x[1], Shapes)} :
                        x \in {y \in (0..MaxPred) \X (0..MaxBl) \X (0..MaxLine) :
                                 y[3] = 0 \/ (y[1] <= LinePred /\ y[2] <= LineBl)}}

Init == /\ reg \in Registries
        /\ cur = EmptyTrace(reg) /\ prev = EmptyTrace(reg) /\ last = EmptyTrace(reg)
        /\ merged = EmptyTrace(reg) /\ ntests = 0

(* ExecutionTracer.executed_code_object *)
ExecutedCodeObject ==
  \E c \in reg.cos : cur' = ExecCodeObject(cur, c) /\ UNCHANGED <<reg, prev, last, merged, ntests>>
(* executed_compare_predicate / executed_bool_predicate / ... -> _update_metrics: exactly one *)
(* distance is 0; instrumented code reports the code object before any of its predicates      *)
ExecutedPredicate ==
  \E p \in Preds(reg), a \in Dists, b \in Dists :
    /\ reg.own[p] \in cur.cos
    /\ (a = "Z") # (b = "Z")
    /\ cur.cnt[p] < MaxCnt
    /\ cur' = ExecPredicate(cur, p, a, b)
    /\ UNCHANGED <<reg, prev, last, merged, ntests>>
TrackLineVisit ==
  \E l \in Lines(reg) : cur' = TrackLine(cur, l) /\ UNCHANGED <<reg, prev, last, merged, ntests>>
CheckedLine ==
  \E l \in Lines(reg) : cur' = CheckLine(cur, l) /\ UNCHANGED <<reg, prev, last, merged, ntests>>
(* the executor returns the result; analyze_results merges it into the suite's trace *)
FinishTest ==
  /\ ntests < MaxTests
  /\ prev' = merged /\ last' = cur /\ merged' = Merge(merged, cur)
  /\ cur' = EmptyTrace(reg) /\ ntests' = ntests + 1 /\ UNCHANGED reg

Next == ExecutedCodeObject \/ ExecutedPredicate \/ TrackLineVisit \/ CheckedLine \/ FinishTest
Spec == Init /\ [][Next]_vars

(* ------------------------------------------------------------------ *)
TypeOK == RegOK(reg) /\ ntests \in 0..MaxTests
(* the tracer's guarantee is inductive, also across merging *)
TracesWF == WF(cur, reg) /\ WF(prev, reg) /\ WF(last, reg) /\ WF(merged, reg)
MergedIsFold == merged = Merge(prev, last)

(* C10: on the running test's trace and (once a test was merged) on the suite's trace *)
OnTraces(Law(_, _)) == Law(cur, reg) /\ (ntests > 0 => Law(merged, reg))
FitnessFiniteNonNeg == OnTraces(FitnessFiniteNonNegLaw)
CoverageIn01 == OnTraces(CoverageIn01Law)
FitnessZeroIffCovered == OnTraces(FitnessZeroIffCoveredLaw)
SuiteZeroIffCoverageOne == OnTraces(SuiteZeroIffCoverageOneLaw)

(* C11 *)
AddTestMonotone == AddTestMonotoneLaw(merged, cur, reg) /\ AddTestMonotoneLaw(prev, last, reg)
AddTestMonotoneStep ==
  [][ntests' = ntests + 1 =>
       /\ CovLe(BranchCoverage(merged, reg), BranchCoverage(merged', reg))
       /\ CovLe(LineCoverage(merged, reg), LineCoverage(merged', reg))
       /\ BranchFitness4(merged', reg, NoEx) <= BranchFitness4(merged, reg, NoEx)
       /\ LineFitness4(merged', reg) <= LineFitness4(merged, reg)]_vars
MergeCommutative == /\ Merge(merged, cur) = Merge(cur, merged)
                    /\ Merge(prev, last) = Merge(last, prev)
                    /\ Merge(last, cur) = Merge(cur, last)
MergeAssociative == Merge(Merge(prev, last), cur) = Merge(prev, Merge(last, cur))
MergeNeutral == Merge(EmptyTrace(reg), cur) = cur /\ Merge(cur, EmptyTrace(reg)) = cur
AnalyzeResultsIsFold == MergeAll(<<prev, last, cur>>, reg) = Merge(merged, cur)

=============================================================================

---------------------------- MODULE GraphsTrace -----------------------------
(***************************************************************************)
(* Trace validation for C06 and the structural half of C07.  An event is   *)
(* either                                                                  *)
(*  kind "cfg":   one control-flow graph taken from the real code (P1: the *)
(*     CFG registered for a code object; P2: a TLC-enumerated graph turned *)
(*     into a real CFG object) together with what the real                 *)
(*     ControlDependenceGraph.compute / is_control_dependent_on_root /     *)
(*     get_control_dependencies returned for it;                           *)
(*  kind "goals": the goal structures of one module under one exclusion    *)
(*     configuration: the real _BranchFitnessGraph (roots, edges), the     *)
(*     predicate registry and the registered CDG of every code object.     *)
(* TLC evaluates the GraphsOps definitions on these observed graphs.       *)
(***************************************************************************)
EXTENDS GraphsOps, TLC, TLCExt, Json, IOUtils

Traces == ndJsonDeserialize(IOEnv.TRACE_FILE)

VARIABLES tid, l, cur,
          fer,     \* FerranteCDG of the observed CFG (computed once per event)
          wf       \* WellFormedCFG of the observed CFG
vars == <<tid, l, cur, fer, wf>>

ToSet(q) == {q[i] : i \in DOMAIN q}
NoEv == [kind |-> "none"]
GraphOf(e) == [N |-> ToSet(e.nodes), E |-> ToSet(e.edges), entry |-> e.entry, exit |-> e.exit]

Init == /\ tid \in 1..Len(Traces) /\ l = 0 /\ cur = NoEv /\ fer = {} /\ wf = TRUE
Next == /\ l < Len(Traces[tid].ev)
        /\ l' = l + 1
        /\ cur' = Traces[tid].ev[l + 1]
        /\ LET e == Traces[tid].ev[l + 1] IN
             IF e.kind = "cfg"
             THEN /\ wf' = WellFormedCFG(GraphOf(e))
                  /\ fer' = IF wf' THEN FerranteCDG(GraphOf(e)) ELSE {}
             ELSE wf' = TRUE /\ fer' = {}
        /\ UNCHANGED tid
Spec == Init /\ [][Next]_vars

IsCfg   == cur.kind = "cfg"
IsGoals == cur.kind = "goals"
G       == GraphOf(cur)
RealCDG == ToSet(cur.cdg)
CNodes  == (G.N \ {G.entry, G.exit}) \cup {Aug}

(* ---------------------------- C06 ---------------------------------- *)
\* the CFG could be built and compute() returned
ComputeSucceeds == IsCfg => cur.raised = ""
\* single artificial entry and exit, every block reachable from the entry, exit reachable from every
\* block, branch nodes have exactly a T and an F out-edge (+ the unlabelled exit edge of yields and
\* endless loops)
WellFormed == IsCfg => wf
\* CDG = Ferrante's relation, split so that a violation names the direction
CDGSound          == (IsCfg /\ wf /\ cur.raised = "") => RealCDG \subseteq fer
CDGPairsComplete  == (IsCfg /\ wf /\ cur.raised = "") => CDGPairs(fer) \subseteq CDGPairs(RealCDG)
CDGLabelsComplete == (IsCfg /\ wf /\ cur.raised = "") => fer \subseteq RealCDG
CDGNodes          == (IsCfg /\ wf /\ cur.raised = "") => ToSet(cur.cdgnodes) = CNodes
\* root dependence for nodes not dependent on any branch; the two query functions follow the
\* definitions (evaluated on the real CDG, so that a CDG mismatch is not reported twice)
RootQuery == (IsCfg /\ wf /\ cur.raised = "") =>
  ToSet(cur.root) = RootDependentSet(RealCDG, CNodes)
DepsQuery == (IsCfg /\ wf /\ cur.raised = "") =>
  ToSet(cur.deps) = DepsAll(RealCDG, CNodes)
RootOrBranch == (IsCfg /\ wf /\ cur.raised = "") =>
  \A n \in CNodes \ {Aug} : n \in ToSet(cur.root) \/ \E d \in ToSet(cur.deps) : d[1] = n

(* ---------------------------- C07 (structure) ---------------------- *)
GoalIds   == {x[1] : x \in ToSet(cur.goals)}
GoalRootsR == ToSet(cur.roots)
GoalEdgesR == ToSet(cur.gedges)
CoCDG(co)   == ToSet(co.cdg)
CoNodes(co) == ToSet(co.nodes)
CoPreds(co) == {p[2] : p \in ToSet(co.preds)}     \* nodes that carry a registered predicate

\* building the goal graph never fails
BuildSucceeds == IsGoals => cur.built
\* every goal is a root or reachable from a root along "becomes current once the parent is covered"
AllGoalsReachable == (IsGoals /\ cur.built) =>
  AllGoalsReachableFromRoots(GoalIds, GoalRootsR, GoalEdgesR)
\* every control dependency of a registered predicate resolves to a registered predicate
DepsResolve == IsGoals =>
  \A i \in DOMAIN cur.cos :
    DependenciesResolve(CoCDG(cur.cos[i]), CoNodes(cur.cos[i]), CoPreds(cur.cos[i]))
\* a goal without structural parents must be a root goal
OrphansAreRoots == (IsGoals /\ cur.built) =>
  \A x \in GoalIds : ParentsOf(GoalEdgesR, x) = {} => x \in GoalRootsR
\* model agreement (DRIFT only): the real goal graph is the one GraphsOps derives from the
\* registered CDGs
GoalKey(x) == <<x[3], x[4], x[5]>>     \* code object, predicate id, outcome
ModelGoalGraph ==
  LET perco(co) ==
        LET C == CoCDG(co)  Ns == CoNodes(co)  P == CoPreds(co)
            pid(n) == (CHOOSE p \in ToSet(co.preds) : p[2] = n)[1]
        IN [roots |-> {<<co.cid, pid(gl[1]), gl[2]>> : gl \in GoalRoots(C, Ns, P)},
            edges |-> {<<<<co.cid, pid(e[1][1]), e[1][2]>>, <<co.cid, pid(e[2][1]), e[2][2]>>>> :
                         e \in {y \in GoalEdges(C, Ns, P) : y[1][1] \in P}}]
  IN [roots |-> UNION {perco(cur.cos[i]).roots : i \in DOMAIN cur.cos},
      edges |-> UNION {perco(cur.cos[i]).edges : i \in DOMAIN cur.cos}]
RealGoalGraph ==
  LET key == [x \in GoalIds |-> GoalKey(CHOOSE y \in ToSet(cur.goals) : y[1] = x)]
      branch == {x \in GoalIds : (CHOOSE y \in ToSet(cur.goals) : y[1] = x)[2] = "b"}
  IN [roots |-> {key[x] : x \in GoalRootsR \cap branch},
      edges |-> {<<key[e[1]], key[e[2]]>> : e \in GoalEdgesR}]
\* the structural dependencies (derived by TLC from the registered CDGs) are honoured by the real
\* graph: structural roots are roots, structural edges are edges
StructureHonoured == (IsGoals /\ cur.built /\ ~cur.toobig) =>
  /\ ModelGoalGraph.roots \subseteq RealGoalGraph.roots
  /\ ModelGoalGraph.edges \subseteq RealGoalGraph.edges
GoalGraphAsModel == (IsGoals /\ cur.built /\ ~cur.toobig) => RealGoalGraph = ModelGoalGraph
=============================================================================

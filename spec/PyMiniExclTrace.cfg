SPECIFICATION Spec
INVARIANT InstrumentationSucceeds
INVARIANT NoGoalInExcludedCode
INVARIANT AllOtherLinesAreGoals
INVARIANT ConformPreds
INVARIANT ConformLines

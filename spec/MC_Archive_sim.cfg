CONSTANTS
  NG = 2
  Sizes = {1, 2, 3}
  ResKinds = {"ok", "exc", "to", "none"}
  Copies = 1
  FitsCov = {1, 1000001}
  FitsMio = {1, 2, 1000000, 1000001}
  FitsPop = {0, 1, 2, 1000001}
  MaxLenCov = 2
  MaxLenMio = 1
  Cap0 = 3
  MaxSteps = 99
  Depth = 8
  Modes = {"cov", "mio", "pop"}
SPECIFICATION MCSpec

SPECIFICATION Spec
INVARIANT EnabledRestoredPerStatement
INVARIANT StillRecordingAfterCatch
INVARIANT ExceptionReported
INVARIANT NoTimeout

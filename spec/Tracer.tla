-------------------------------- MODULE Tracer --------------------------------
(***************************************************************************)
(* Design model of the per-thread tracer state of one test-case execution: *)
(* enabled flag, executed predicates with counts and minimal true/false    *)
(* distances, covered lines, executed code objects; callbacks arrive in    *)
(* any order; a callback may raise inside `temporarily_disable` when a     *)
(* user operator raises (C05: the enabled flag must be restored).          *)
(* Properties: every recorded evaluation is well-formed (C04), the         *)
(* accumulated distances are the minima of the evaluations' distances,     *)
(* a predicate has count > 0 iff it has distances (C10/C11 use this),      *)
(* and the enabled flag at the end of a callback equals the flag at its    *)
(* start (C05).                                                            *)
(***************************************************************************)
EXTENDS TracerOps, TLC

CONSTANTS Preds, Lines, MaxCalls,
          RestoreOnRaise   \* TRUE = temporarily_disable restores the flag on the error path

VARIABLES enabled, cnt, dT, dF, lines, calls, lastRaised, enabledBefore
vars == <<enabled, cnt, dT, dF, lines, calls, lastRaised, enabledBefore>>

Init == /\ enabled = TRUE /\ cnt = [p \in Preds |-> 0]
        /\ dT = [p \in Preds |-> "NONE"] /\ dF = [p \in Preds |-> "NONE"]
        /\ lines = {} /\ calls = 0 /\ lastRaised = FALSE /\ enabledBefore = TRUE

Acc(old, d) == IF old = "NONE" THEN d ELSE DMin(old, d)

(* a well-behaved evaluation: Python's operator says `taken`, the other side gets d *)
ExecutedPredicate(p, taken, d) ==
  /\ calls < MaxCalls /\ enabled
  /\ cnt' = [cnt EXCEPT ![p] = @ + 1]
  /\ dT' = [dT EXCEPT ![p] = Acc(@, IF taken THEN "Z" ELSE d)]
  /\ dF' = [dF EXCEPT ![p] = Acc(@, IF taken THEN d ELSE "Z")]
  /\ calls' = calls + 1 /\ lastRaised' = FALSE /\ enabledBefore' = enabled
  /\ UNCHANGED <<enabled, lines>>

(* the user's operator raises inside the callback (comparison itself raises) *)
CallbackRaises(p) ==
  /\ calls < MaxCalls /\ enabled
  /\ enabled' = RestoreOnRaise
  /\ calls' = calls + 1 /\ lastRaised' = TRUE /\ enabledBefore' = enabled
  /\ UNCHANGED <<cnt, dT, dF, lines>>

TrackLine(ln) ==
  /\ calls < MaxCalls
  /\ lines' = IF enabled THEN lines \cup {ln} ELSE lines
  /\ calls' = calls + 1 /\ lastRaised' = FALSE /\ enabledBefore' = enabled
  /\ UNCHANGED <<enabled, cnt, dT, dF>>

Next == \/ \E p \in Preds, taken \in BOOLEAN, d \in {"P", "INF"} : ExecutedPredicate(p, taken, d)
        \/ \E p \in Preds : CallbackRaises(p)
        \/ \E ln \in Lines : TrackLine(ln)
Spec == Init /\ [][Next]_vars

(* C04 at trace level *)
RecordedWF == \A p \in Preds :
   /\ (cnt[p] = 0) = (dT[p] = "NONE") /\ (cnt[p] = 0) = (dF[p] = "NONE")
   /\ cnt[p] > 0 => (dT[p] \in Dist /\ dF[p] \in Dist)
   /\ cnt[p] = 1 => ((dT[p] = "Z") # (dF[p] = "Z"))
   /\ cnt[p] > 0 => (dT[p] = "Z" \/ dF[p] = "Z")
(* C05 *)
EnabledRestored == enabled = enabledBefore
(* C05: tracing keeps recording after an exception inside traced code *)
StillRecording == [][\A ln \in Lines : (calls' = calls + 1 /\ lines' # lines) => enabled]_vars
=============================================================================

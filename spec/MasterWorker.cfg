CONSTANTS
  InitTimes <- DefaultInitTimes
  Elapsed10 = {1, 5, 10, 15, 30}
  MaxDeaths = 6
SPECIFICATION Spec
INVARIANT TypeOK
INVARIANT SuccessOnlyIfDelivered
INVARIANT OneWorker
PROPERTY Returns
PROPERTY RestartGuard
PROPERTY StrictDecrease
PROPERTY NoRestartUnlimited

CONSTANTS
  MaxPred = 1
  MaxBl = 1
  MaxLine = 2
  LinePred = 0
  LineBl = 0
  MaxSize = 2
  MaxCnt = 2
  MaxTests = 0
  Dists = {"Z", "P", "INF"}
  Shapes = {"own", "nested", "seq"}
  Diam = 2
  ExAll = FALSE
INIT InitEnum
NEXT NextEnum
INVARIANT EmitEnum

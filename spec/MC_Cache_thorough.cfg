CONSTANTS
  FF = {"f1", "f2"}
  CF = {"g1"}
  Faults <- CodeFaults
  FactoryFF <- DefFactoryFF
  FFSeq <- DefFFSeq
  CFSeq <- DefCFSeq
  Ops <- AllOps
  Modes <- ModesTS
  NT = 3
  NS = 1
  MaxV = 4
  MaxFuncs = 2
  MaxSuite = 2
  MaxDepth = 3
  MaxTop = 2
  ExtraT = 1
SPECIFICATION MCSpec
VIEW View
INVARIANT Emit
CONSTRAINT Bound

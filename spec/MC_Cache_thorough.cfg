CONSTANTS
  FF = {"f1", "f2"}
  CF = {"g1"}
  Faults <- CodeFaults
  FactoryFF <- DefFactoryFF
  FFSeq <- DefFFSeq
  CFSeq <- DefCFSeq
  Ops <- AllOps
  Modes <- ModesAll
  NT = 4
  NS = 2
  MaxV = 4
  MaxFuncs = 2
  MaxSuite = 2
  MaxDepth = 3
  MaxTop = 2
  ExtraT = 1
  ExtraC = 3
  ExtraM = 1
  Coarse = FALSE
SPECIFICATION MCSpec
VIEW View
INVARIANT Emit
CONSTRAINT Bound

\* P1: histories of the real factory / operators.  Order matters: TLC -continue reports the first
\* violated invariant of a state; the clauses with an open finding (LenBound of insertions) come last.
SPECIFICATION Spec
INVARIANT ValidPython
INVARIANT ReadsBound
INVARIANT UniqueNames
INVARIANT RegistryOK
INVARIANT LenBoundCrossover
INVARIANT Drift_Counter
INVARIANT Drift_Meta
INVARIANT Drift_Rendering
INVARIANT LenBoundFactoryInsert
INVARIANT LenBoundMutationInsert
INVARIANT LenBoundRandomTestCase

CONSTANTS
  Lines = {1, 2, 3}
  Preds = {1, 2}
  CodeObjs = {1}
SPECIFICATION Spec
INVARIANT TotalsAreSums
INVARIANT ShownIffCovered

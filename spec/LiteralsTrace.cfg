SPECIFICATION Spec
INVARIANT RenderNeverFails
INVARIANT RenderedIsValidPython
INVARIANT AssertionHoldsOnObservedValue
INVARIANT ObserverTotal
INVARIANT ObserverFollowsSpec
INVARIANT OutcomeFollowsModel
INVARIANT RenderedLiteralIsValidPython
INVARIANT EvaluatesToRequestedType
INVARIANT RoundTrip
INVARIANT ParseBackAgrees
INVARIANT RaiseFollowsModel
INVARIANT ShapeFollowsModel
INVARIANT BackFollowsModel
INVARIANT FallbackIsNone
INVARIANT LitValueIsPythonValue

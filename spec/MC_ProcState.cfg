CONSTANTS
  Steps = {"print", "raise", "close_stdout", "close_fd", "log_disable", "seed", "draw", "draw_inst", "log_hang", "mutate_global"}
  MaxTests = 3
  MaxSteps = 1
  RestoreLogging = TRUE
  ReopenNull = TRUE
SPECIFICATION MCSpec
INVARIANT Emit

------------------------------ MODULE MC_PyMini -------------------------------
(* Case enumeration: every program of the universe x every decision vector, together with *)
(* what the PyMini semantics predicts.                                                     *)
EXTENDS PyMini, Json

CONSTANTS Depth2, DLen

C2body == {<<c>> : c \in C1} \cup {<<Mark, c>> : c \in C1}
Progs2 == {p \in {<<c>> : c \in Compound(C2body)} : ValidBlock(p, FALSE)}
Progs == IF Depth2 THEN Progs2 ELSE Progs1
DVecs == [1..DLen -> BOOLEAN]

VARIABLES case
Init == case = [prog |-> <<>>, dvec |-> <<>>]
Next == /\ case.prog = <<>>
        /\ \E p \in Progs, d \in DVecs : case' = [prog |-> p, dvec |-> d]
Spec == Init /\ [][Next]_case

Out(st) == [lines |-> st.lines, decs |-> {[p |-> x[1], d |-> x[2]] : x \in st.decs}, flow |-> st.flow, marks |-> st.marks]
Emit == case.prog # <<>> =>
          PrintT(<<"HIST", ToJson([prog |-> case.prog, dvec |-> case.dvec, exp |-> Out(Run(case.prog, case.dvec))])>>)
=============================================================================

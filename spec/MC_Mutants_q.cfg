CONSTANTS
  Cfgs = {"fo:plain", "fo:refine", "fo:reorder", "fo:cap0", "fo:cap3:s1", "fo:cap7:s2:reorder", "fo:cap1000", "hom:ftl:2", "hom:each:2", "hom:between:2", "hom:random:2", "hom:each:1", "hom:ftl:3"}
  Routes = {"ctl", "mut"}
  Depth = 3
  MaxK = 3
  SmallK = 3
  Each = FALSE
SPECIFICATION Spec
INVARIANT Emit

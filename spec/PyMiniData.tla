------------------------------ MODULE PyMiniData ------------------------------
(***************************************************************************)
(* PyMini with data (C09): a big-step semantics of a Python fragment with  *)
(* locals, globals, attributes, list/dict elements and calls of helper     *)
(* functions that computes, ALONG THE EXECUTED PATH, the dynamic dependence *)
(* relation between statement instances:                                    *)
(*   data     the instance reads a variable / global / attribute / element  *)
(*            whose last definition is the other instance                   *)
(*   control  the other instance is the deciding statement (if / for) that  *)
(*            let this instance execute (innermost enclosing decision, and  *)
(*            every earlier decision that could have left the function)     *)
(* Slice(criterion) is the backward closure of that relation.               *)
(*                                                                          *)
(* The rendered module (harness/adapters/pymini_data.py):                   *)
(*   G = 0                      <<8,1>>   module level, executed at import  *)
(*   class Box:                 <<8,2>>                                     *)
(*       c3 = 2                 <<8,6>>   class-level attributes (class     *)
(*       _c4 = 3                <<8,7>>   body, executed at import)         *)
(*       c5 = 0                 <<8,10>>  (never read; the last line of a   *)
(*                                        class body carries the implicit   *)
(*                                        return of the body)               *)
(*   def h(x): ...              <<8,3>>   helper functions: their bodies    *)
(*   def g(y): ...              <<8,4>>   are programs of the same language *)
(*   def k(x): ...              <<8,8>>   (HelperBody), the lines of helper *)
(*   def m(y): ...              <<8,9>>   number i have the paths <<9,i>> \o *)
(*   def s(x): global G; G=x+1  <<8,11>>                                     *)
(*                                        path inside the body; the helpers *)
(*                                        use the names of f's locals:      *)
(*                                        scopes must be kept apart         *)
(*   def f(a, b):               <<8,5>>                                     *)
(*       global G                                                           *)
(*       <program>              paths as in PyMini: (tag, index) pairs,     *)
(*                              tags 0 top level, 1 body/then, 2 else,      *)
(*                              3 body of an inner function (closure)       *)
(* and the test case is   var_0 = f(<a>, <b>)   (instance path <<7,1>>).    *)
(*                                                                          *)
(* Statements (one per line):                                               *)
(*  [t|->"const", x, c]         x = c                                       *)
(*  [t|->"bin", x, y, z, op]    x = y + z | x = y * z                       *)
(*  [t|->"copy", x, y]          x = y      (also G = y, x = G, p = o)        *)
(*  [t|->"inc", x, y, c]        x = y + c  (c a constant, x = y - 1 if c<0) *)
(*  [t|->"call", x, fn, y]      x = fn(y)   fn a helper h, g, k, m or the   *)
(*                              inner function r                            *)
(*  [t|->"do", fn, y]           fn(y)       (value dropped; fn = w or s)    *)
(*  [t|->"defr", v]             def r(z):            (a closure that READS  *)
(*                                  return v + z      the local v of f)     *)
(*  [t|->"defw", v]             def w(z):            (a closure that WRITES *)
(*                                  nonlocal v        the local v of f)     *)
(*                                  v = z + 1                               *)
(*  [t|->"new", x]              x = Box()                                   *)
(*  [t|->"mk", x, kd, y]        x = [y, 0] (kd = "list") | x = {"k0": y}    *)
(*  [t|->"store", o, f, y]      o.<attr f> = y | o[f] = y | o["kf"] = y     *)
(*  [t|->"load", x, o, f]       x = o.<attr f> | x = o[f] | x = o["kf"]     *)
(*                              attributes of a Box: q0, q1, _q2 (instance  *)
(*                              attributes), c3, _c4 (class-level: a load   *)
(*                              through an instance that has no attribute   *)
(*                              of that name reads the class attribute)     *)
(*  [t|->"if", cv, a, b]        if cv: a else: b    (cv a variable)         *)
(*  [t|->"for", k, a]           for _i in range(k): a                       *)
(*  [t|->"while", cv, a]        while cv: a          (at most MaxIter rounds) *)
(*  [t|->"dec", x]              x = x - 1                                   *)
(*  [t|->"ret", x]              return x                                    *)
(*  [t|->"retb", y, z]          return y + z                                *)
(*  [t|->"retc", c]             return c                                    *)
(* (how a store/load is written follows the variable name: o, p hold Box    *)
(* objects, l a list, d a dict).                                            *)
(*                                                                          *)
(* What "depends" means for an attribute / element access follows what the  *)
(* slicer documents (slicer/stack/stacksimulation.py: "the use data for     *)
(* [the instructions preparing TOS] will not be searched for, since this    *)
(* would widen the scope of the search for complete objects"): a load       *)
(* depends on the last store to that attribute/element of that OBJECT       *)
(* (identity, so aliases are followed), not on the definition of the        *)
(* variable that holds the reference.  The stricter relation that also      *)
(* counts the reference is computed next to it (field s, SliceStrict) and   *)
(* only reported as drift.                                                  *)
(*                                                                          *)
(* Calls.  `x = fn(y)` is three instances on the line of the call: the call *)
(* (reads the name fn), the binding of the parameter (reads y), and, after  *)
(* the callee returned, the assignment (reads the returned value = the      *)
(* callee's return instance).  The callee runs in a fresh frame (its locals *)
(* are undefined except the parameter) and every statement instance of the  *)
(* callee is control dependent on the call instance (the callee runs        *)
(* because of the call): a callee that changes a global or a captured       *)
(* variable pulls its call site into the slice of a later read.             *)
(*                                                                          *)
(* Closures.  `def r(z)` / `def w(z)` inside f define the local names r, w  *)
(* (the def line is the definition a later call reads); the def line does   *)
(* NOT read the captured variable (the cell is captured, not its value).    *)
(* The frame of an inner function shares the captured variable v with f:    *)
(* the body of r reads the LAST definition of v at the time of the call     *)
(* (an assignment in f before or after the def, or the body of w), the body *)
(* of w is a definition of v for every later read in f, r or w.             *)
(***************************************************************************)
EXTENDS Naturals, Integers, Sequences, FiniteSets, TLC

(* ---- constructors ---- *)
Const(x, c) == [t |-> "const", x |-> x, c |-> c]
Bin(x, y, z, op) == [t |-> "bin", x |-> x, y |-> y, z |-> z, op |-> op]
Inc(x, y, c) == [t |-> "inc", x |-> x, y |-> y, c |-> c]
Copy(x, y) == [t |-> "copy", x |-> x, y |-> y]
Call(x, fn, y) == [t |-> "call", x |-> x, fn |-> fn, y |-> y]
Do(fn, y) == [t |-> "do", fn |-> fn, y |-> y]
DefR(v) == [t |-> "defr", v |-> v]
DefW(v) == [t |-> "defw", v |-> v]
New(x) == [t |-> "new", x |-> x]
Mk(x, kd, y) == [t |-> "mk", x |-> x, kd |-> kd, y |-> y]
Store(o, f, y) == [t |-> "store", o |-> o, f |-> f, y |-> y]
Load(x, o, f) == [t |-> "load", x |-> x, o |-> o, f |-> f]
If(cv, a, b) == [t |-> "if", cv |-> cv, a |-> a, b |-> b]
For(k, a) == [t |-> "for", k |-> k, a |-> a]
While(cv, a) == [t |-> "while", cv |-> cv, a |-> a]
Dec(x) == [t |-> "dec", x |-> x]
Ret(x) == [t |-> "ret", x |-> x]
RetB(y, z) == [t |-> "retb", y |-> y, z |-> z]
RetC(c) == [t |-> "retc", c |-> c]

IntV(n) == [k |-> "i", v |-> n]
RefV(r) == [k |-> "r", v |-> r]
FunV == [k |-> "f", v |-> 0]
Undef == [k |-> "u", v |-> 0]
Truthy(val) == IF val.k = "i" THEN val.v # 0 ELSE TRUE

(* ---- the module-level helper functions (rendered by the adapter from the same table) ---- *)
(* h: straight line; g: `if` with an early return, reads the global; k: the value of the     *)
(* condition is computed on its own line, if / else; m: a loop with an `if` inside; s: assigns *)
(* the global and returns nothing (called as a statement)                                     *)
Helpers == {"h", "g", "k", "m", "s"}
HelperIdx(fn) == CASE fn = "h" -> 1 [] fn = "g" -> 2 [] fn = "k" -> 3 [] fn = "m" -> 4 [] fn = "s" -> 5
HelperParam(fn) == CASE fn = "h" -> "x" [] fn = "g" -> "y" [] fn = "k" -> "x" [] fn = "m" -> "y" [] fn = "s" -> "x"
HelperBody(fn) ==
  CASE fn = "h" -> <<Inc("y", "x", 1), Ret("y")>>
    [] fn = "g" -> <<If("y", <<RetB("y", "G")>>, <<>>), RetC(0)>>
    [] fn = "k" -> <<Inc("y", "x", -1), If("y", <<Const("x", 2)>>, <<Const("x", 1)>>), Ret("x")>>
    [] fn = "m" -> <<Inc("x", "y", 1), For(2, <<If("y", <<Inc("x", "x", 1)>>, <<>>), Dec("y")>>), Ret("x")>>
    [] fn = "s" -> <<Inc("G", "x", 1)>>
(* the inner functions of f: parameter z, one body line at <path of the def> \o <<3, 1>> *)
Inner == {"r", "w"}
InnerParam == "z"
InnerBody(fn, v) == IF fn = "r" THEN <<RetB(v, InnerParam)>> ELSE <<Inc(v, InnerParam, 1)>>

Locals == {"a", "b", "x", "y", "o", "p", "l", "d", "r", "w", "z"}
Globals == {"G", "Box", "h", "g", "f", "k", "m", "s"}
Names == Locals \cup Globals
Refs == 1..4
Keys == 0..4
Cells == Refs \X Keys
(* class-level attributes of Box: field -> the instance of the class-body line that defines it, its value *)
ClassFields == {3, 4}
ClassInst(f) == IF f = 3 THEN 6 ELSE 7
ClassVal(f) == IF f = 3 THEN 2 ELSE 3

ModLine(i) == <<8, i>>
TestPath == <<7, 1>>
(* instances 1..11 are the module-level definitions executed by the import *)
NMod == 11
ModInsts == [i \in 1..NMod |-> [p |-> ModLine(i), d |-> {}, s |-> IF i \in {6, 7, 10} THEN {2} ELSE {}]]
ModDef(n) == CASE n = "G" -> {1} [] n = "Box" -> {2} [] n = "h" -> {3} [] n = "g" -> {4} [] n = "f" -> {5}
               [] n = "k" -> {8} [] n = "m" -> {9} [] n = "s" -> {11} [] OTHER -> {}

Init0(a, b) ==
  [insts |-> ModInsts,
   env |-> [n \in Names |-> CASE n = "a" -> IntV(a) [] n = "b" -> IntV(b) [] n = "G" -> IntV(0)
                                [] n \in {"Box", "f"} \cup Helpers -> FunV [] OTHER -> Undef],
   ld |-> [n \in Names |-> ModDef(n)],
   heap |-> [c \in Cells |-> Undef],
   hld |-> [c \in Cells |-> {}],
   rk |-> [r \in Refs |-> "none"],
   nref |-> 0,
   fn |-> [i \in Inner |-> [p |-> <<>>, v |-> ""]],   \* the inner functions: path of the executed def, captured variable
   cd |-> {},          \* instances the next statement is control dependent on
   flow |-> "n",       \* "n" normal, "r" returned, "x" raised
   ret |-> 0,          \* the instance of the executed return
   retv |-> Undef]

NextId(st) == Len(st.insts) + 1
(* a new instance at path p reading definitions `deps` (strict: also `extra`) under the current control context *)
AddInst(st, p, deps, extra) ==
  [st EXCEPT !.insts = Append(@, [p |-> p, d |-> deps \cup st.cd, s |-> deps \cup extra \cup st.cd])]
Def(st, x, val, n) == [st EXCEPT !.env[x] = val, !.ld[x] = {n}]
(* the statement starts (its line is executed) and raises *)
Err(st, p) == [AddInst(st, p, {}, {}) EXCEPT !.flow = "x"]
IsInt(val) == val.k = "i"
IsRef(val) == val.k = "r"
IsDef(val) == val.k # "u"

RECURSIVE MayExitBlock(_), MayExit(_)
MayExitBlock(blk) == \E i \in DOMAIN blk : MayExit(blk[i])
MayExit(s) == CASE s.t \in {"ret", "retb", "retc"} -> TRUE
                [] s.t = "if" -> MayExitBlock(s.a) \/ MayExitBlock(s.b)
                [] s.t \in {"for", "while"} -> MayExitBlock(s.a)
                [] OTHER -> FALSE        \* (the return inside `def r` leaves r, not the enclosing function)

Arith(op, m, n) == IF op = "mul" THEN m * n ELSE m + n

RECURSIVE ExecFrom(_, _, _, _, _), ExecStmt(_, _, _), ForLoop(_, _, _, _, _), WhileLoop(_, _, _, _, _),
          CallFn(_, _, _, _)

(* statements of a block are executed in order while control flows normally *)
ExecFrom(blk, p, tag, st, i) ==
  IF i > Len(blk) \/ st.flow # "n" THEN st
  ELSE ExecFrom(blk, p, tag, ExecStmt(blk[i], p \o <<tag, i>>, st), i + 1)
ExecBlock(blk, p, tag, st) == ExecFrom(blk, p, tag, st, 1)

(* x = fn(y) (assign = TRUE) or fn(y) at path p.  Frame: the callee sees the globals, its parameter and, for an   *)
(* inner function, the captured variable of f (shared: same value, same last definition, and what the callee      *)
(* assigns to it stays); all other locals are the callee's own.                                                   *)
CallFn(s, p, st, assign) ==
  LET inner == s.fn \in Inner
      par == IF inner THEN InnerParam ELSE HelperParam(s.fn)
      shared == IF inner THEN {st.fn[s.fn].v} ELSE {}
      body == IF inner THEN InnerBody(s.fn, st.fn[s.fn].v) ELSE HelperBody(s.fn)
      n == NextId(st)
      st0 == AddInst(AddInst(st, p, st.ld[s.fn], {}), p, st.ld[s.y], {})     \* n: the call, n + 1: the binding
      keep(nm) == nm \in Globals \/ nm \in shared
      callee == [st0 EXCEPT !.env = [nm \in Names |-> IF keep(nm) THEN st0.env[nm]
                                                      ELSE IF nm = par THEN st.env[s.y] ELSE Undef],
                            !.ld = [nm \in Names |-> IF keep(nm) THEN st0.ld[nm]
                                                     ELSE IF nm = par THEN {n + 1} ELSE {}],
                            !.cd = {n}]
      st1 == IF inner THEN ExecBlock(body, st.fn[s.fn].p, 3, callee)
                      ELSE ExecBlock(body, <<9, HelperIdx(s.fn)>>, 0, callee)
      back == [st1 EXCEPT !.env = [nm \in Names |-> IF keep(nm) THEN st1.env[nm] ELSE st0.env[nm]],
                          !.ld = [nm \in Names |-> IF keep(nm) THEN st1.ld[nm] ELSE st0.ld[nm]],
                          !.cd = st.cd, !.flow = "n"]
  IN IF st1.flow \in {"x", "t"} THEN st1
     ELSE IF ~assign THEN back                                       \* the value (or None) is dropped
     ELSE IF st1.flow # "r" THEN [back EXCEPT !.flow = "x"]           \* (None is not a value of the fragment)
     ELSE Def(AddInst(back, p, {st1.ret, n}, {}), s.x, st1.retv, NextId(back))

(* st.cd is the control context of this evaluation of the header; `outer` the context of the loop statement *)
ForLoop(s, p, st, j, outer) ==
  LET n == NextId(st)
      st1 == [AddInst(st, p, {}, {}) EXCEPT !.cd = {n}]
  IN IF j > s.k
     THEN [st1 EXCEPT !.cd = outer \cup (IF MayExit(s) THEN {n} ELSE {})]
     ELSE LET st2 == ExecBlock(s.a, p, 1, st1)
          IN IF st2.flow = "n" THEN ForLoop(s, p, st2, j + 1, outer) ELSE st2

(* every evaluation of the test is an instance reading the condition variable; the evaluation of round *)
(* j > 1 is control dependent on the previous round (st.cd at the end of the body)                      *)
MaxIter == 4
WhileLoop(s, p, st, j, outer) ==
  IF ~IsDef(st.env[s.cv]) THEN Err(st, p)
  ELSE IF j > MaxIter + 1 THEN [AddInst(st, p, {}, {}) EXCEPT !.flow = "t"]     \* gave up: not a case
  ELSE LET n == NextId(st)
           st1 == [AddInst(st, p, st.ld[s.cv], {}) EXCEPT !.cd = {n}]
       IN IF ~Truthy(st.env[s.cv])
          THEN [st1 EXCEPT !.cd = outer \cup (IF MayExit(s) THEN {n} ELSE {})]
          ELSE LET st2 == ExecBlock(s.a, p, 1, st1)
               IN IF st2.flow = "n" THEN WhileLoop(s, p, st2, j + 1, outer) ELSE st2

ExecStmt(s, p, st) ==
  LET n == NextId(st) IN
  CASE s.t = "const" -> Def(AddInst(st, p, {}, {}), s.x, IntV(s.c), n)
    [] s.t = "bin" ->
         IF IsInt(st.env[s.y]) /\ IsInt(st.env[s.z])
         THEN Def(AddInst(st, p, st.ld[s.y] \cup st.ld[s.z], {}), s.x,
                  IntV(Arith(s.op, st.env[s.y].v, st.env[s.z].v)), n)
         ELSE Err(st, p)
    [] s.t = "inc" ->
         IF IsInt(st.env[s.y]) THEN Def(AddInst(st, p, st.ld[s.y], {}), s.x, IntV(st.env[s.y].v + s.c), n)
         ELSE Err(st, p)
    [] s.t = "copy" ->
         IF IsDef(st.env[s.y]) THEN Def(AddInst(st, p, st.ld[s.y], {}), s.x, st.env[s.y], n) ELSE Err(st, p)
    [] s.t \in {"call", "do"} ->
         IF ~IsInt(st.env[s.y]) \/ st.env[s.fn].k # "f" THEN Err(st, p)
         ELSE CallFn(s, p, st, s.t = "call")
    \* def r(z) / def w(z): defines the local name; the captured variable is not read here
    [] s.t \in {"defr", "defw"} ->
         LET nm == IF s.t = "defr" THEN "r" ELSE "w"
         IN [Def(AddInst(st, p, {}, {}), nm, FunV, n) EXCEPT !.fn[nm] = [p |-> p, v |-> s.v]]
    [] s.t = "new" ->
         LET r == st.nref + 1
         IN [Def(AddInst(st, p, st.ld["Box"], {}), s.x, RefV(r), n) EXCEPT !.nref = r, !.rk[r] = "box"]
    [] s.t = "mk" ->
         IF ~IsDef(st.env[s.y]) THEN Err(st, p)
         ELSE LET r == st.nref + 1
                  st1 == Def(AddInst(st, p, st.ld[s.y], {}), s.x, RefV(r), n)
              IN [st1 EXCEPT !.nref = r, !.rk[r] = s.kd,
                             !.heap[<<r, 0>>] = st.env[s.y], !.hld[<<r, 0>>] = {n},
                             !.heap[<<r, 1>>] = IF s.kd = "list" THEN IntV(0) ELSE Undef,
                             !.hld[<<r, 1>>] = IF s.kd = "list" THEN {n} ELSE {}]
    [] s.t = "store" ->
         IF ~IsRef(st.env[s.o]) \/ ~IsDef(st.env[s.y]) THEN Err(st, p)
         ELSE LET c == <<st.env[s.o].v, s.f>>
              IN [AddInst(st, p, st.ld[s.y], st.ld[s.o]) EXCEPT !.heap[c] = st.env[s.y], !.hld[c] = {n}]
    [] s.t = "load" ->
         IF ~IsRef(st.env[s.o]) THEN Err(st, p)
         ELSE LET c == <<st.env[s.o].v, s.f>>
              IN IF IsDef(st.heap[c]) THEN Def(AddInst(st, p, st.hld[c], st.ld[s.o]), s.x, st.heap[c], n)
                 \* no instance attribute of that name: the class attribute, defined by the line of the class body
                 \* (strict: the class body ran because of `class Box:`)
                 ELSE IF st.rk[c[1]] = "box" /\ s.f \in ClassFields
                      THEN Def(AddInst(st, p, {ClassInst(s.f)}, st.ld[s.o]), s.x, IntV(ClassVal(s.f)), n)
                 ELSE Err(st, p)
    [] s.t = "if" ->
         IF ~IsDef(st.env[s.cv]) THEN Err(st, p)
         ELSE LET st1 == [AddInst(st, p, st.ld[s.cv], {}) EXCEPT !.cd = {n}]
                  st2 == IF Truthy(st.env[s.cv]) THEN ExecBlock(s.a, p, 1, st1) ELSE ExecBlock(s.b, p, 2, st1)
              IN IF st2.flow # "n" THEN st2
                 \* statements after an `if` that could have returned are control dependent on it (and on
                 \* the decisions inside it that were passed)
                 ELSE [st2 EXCEPT !.cd = st.cd \cup (IF MayExit(s) THEN st2.cd ELSE {})]
    [] s.t = "for" -> ForLoop(s, p, st, 1, st.cd)
    [] s.t = "while" -> WhileLoop(s, p, st, 1, st.cd)
    [] s.t = "dec" ->
         IF IsInt(st.env[s.x]) THEN Def(AddInst(st, p, st.ld[s.x], {}), s.x, IntV(st.env[s.x].v - 1), n)
         ELSE Err(st, p)
    [] s.t = "ret" ->
         IF ~IsDef(st.env[s.x]) THEN Err(st, p)
         ELSE [AddInst(st, p, st.ld[s.x], {}) EXCEPT !.flow = "r", !.ret = n, !.retv = st.env[s.x]]
    [] s.t = "retb" ->
         IF ~IsInt(st.env[s.y]) \/ ~IsInt(st.env[s.z]) THEN Err(st, p)
         ELSE [AddInst(st, p, st.ld[s.y] \cup st.ld[s.z], {}) EXCEPT
                 !.flow = "r", !.ret = n, !.retv = IntV(st.env[s.y].v + st.env[s.z].v)]
    [] s.t = "retc" -> [AddInst(st, p, {}, {}) EXCEPT !.flow = "r", !.ret = n, !.retv = IntV(s.c)]

(* backward closure from instance `root`; dependences always point to earlier instances *)
Closure(I, root, strict) ==
  LET M[k \in 1..(Len(I) + 1)] ==
        IF k = Len(I) + 1 THEN {root}
        ELSE LET later == M[k + 1]
             IN IF k \in later THEN later \cup (IF strict THEN I[k].s ELSE I[k].d) ELSE later
  IN M[1]

(* the test statement `var_0 = f(a, b)`: reads the global f and the returned value *)
Run(prog, a, b) ==
  LET st == ExecBlock(prog, <<>>, 0, Init0(a, b))
      ok == st.flow = "r"
      crit == [p |-> TestPath, d |-> {st.ret, 5}, s |-> {st.ret, 5}]
      I == IF ok THEN Append(st.insts, crit) ELSE st.insts
      root == Len(I)
      PathsOf(S) == {I[i].p : i \in S} \ {TestPath}
      C == Closure(I, root, FALSE)
  IN [flow |-> st.flow,
      retv |-> IF ok /\ IsInt(st.retv) THEN st.retv.v ELSE -99,
      lines |-> {st.insts[i].p : i \in 1..Len(st.insts)},
      slice |-> IF ok THEN PathsOf(C) ELSE {},
      \* the dependence edges inside the slice, projected to paths: <<dependent, depended-on>>
      edges |-> IF ok THEN UNION {{<<I[i].p, I[j].p>> : j \in I[i].d} : i \in C} ELSE {},
      strict |-> IF ok THEN PathsOf(Closure(I, root, TRUE)) ELSE {},
      retp |-> IF ok THEN st.insts[st.ret].p ELSE <<>>,
      ninst |-> Len(st.insts)]

(* ---- well-formedness ---- *)
RECURSIVE ValidBlock(_), ValidStmt(_)
IsReturn(s) == s.t \in {"ret", "retb", "retc"}
ValidBlock(blk) ==
  /\ \A i \in DOMAIN blk : ValidStmt(blk[i])
  /\ \A i \in 1..(Len(blk) - 1) : ~IsReturn(blk[i])     \* the compiler drops code after a return
ValidStmt(s) ==
  CASE s.t = "if" -> s.a # <<>> /\ ValidBlock(s.a) /\ ValidBlock(s.b)
    [] s.t \in {"for", "while"} -> s.a # <<>> /\ ValidBlock(s.a)
    [] OTHER -> TRUE
ValidProg(prog) == prog # <<>> /\ ValidBlock(prog) /\ prog[Len(prog)].t = "ret"
=============================================================================

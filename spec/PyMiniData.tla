------------------------------ MODULE PyMiniData ------------------------------
(***************************************************************************)
(* PyMini with data (C09): a big-step semantics of a Python fragment with  *)
(* locals, globals, attributes, list/dict elements and calls of helper     *)
(* functions that computes, ALONG THE EXECUTED PATH, the dynamic dependence *)
(* relation between statement instances:                                    *)
(*   data     the instance reads a variable / global / attribute / element  *)
(*            whose last definition is the other instance                   *)
(*   control  the other instance is the deciding statement (if / for) that  *)
(*            let this instance execute (innermost enclosing decision, and  *)
(*            every earlier decision that could have left the function)     *)
(* Slice(criterion) is the backward closure of that relation.               *)
(*                                                                          *)
(* The rendered module (harness/adapters/pymini_data.py):                   *)
(*   G = 0                      <<8,1>>   module level, executed at import  *)
(*   class Box: pass            <<8,2>>                                     *)
(*   def h(x):                  <<8,3>>   (the helpers use the names of f's *)
(*       y = x + 1              <<9,1>>    locals: scopes must be kept apart)*)
(*       return y               <<9,2>>                                     *)
(*   def g(y):                  <<8,4>>                                     *)
(*       if y:                  <<9,3>>                                     *)
(*           return y + G       <<9,4>>                                     *)
(*       return 0               <<9,5>>                                     *)
(*   def f(a, b):               <<8,5>>                                     *)
(*       global G                                                           *)
(*       <program>              paths as in PyMini: (tag, index) pairs,     *)
(*                              tags 0 top level, 1 body/then, 2 else       *)
(* and the test case is   var_0 = f(<a>, <b>)   (instance path <<7,1>>).    *)
(*                                                                          *)
(* Statements (one per line):                                               *)
(*  [t|->"const", x, c]         x = c                                       *)
(*  [t|->"bin", x, y, z, op]    x = y + z | x = y * z                       *)
(*  [t|->"copy", x, y]          x = y      (also G = y, x = G, p = o)        *)
(*  [t|->"call", x, fn, y]      x = h(y) | x = g(y)                         *)
(*  [t|->"new", x]              x = Box()                                   *)
(*  [t|->"mk", x, kd, y]        x = [y, 0] (kd = "list") | x = {"k0": y}    *)
(*  [t|->"store", o, f, y]      o.qf = y | o[f] = y | o["kf"] = y           *)
(*  [t|->"load", x, o, f]       x = o.qf | x = o[f] | x = o["kf"]           *)
(*  [t|->"if", cv, a, b]        if cv: a else: b    (cv a variable)         *)
(*  [t|->"for", k, a]           for _i in range(k): a                       *)
(*  [t|->"while", cv, a]        while cv: a          (at most MaxIter rounds) *)
(*  [t|->"dec", x]              x = x - 1                                   *)
(*  [t|->"ret", x]              return x                                    *)
(* (how a store/load is written follows the variable name: o, p hold Box    *)
(* objects, l a list, d a dict).                                            *)
(*                                                                          *)
(* What "depends" means for an attribute / element access follows what the  *)
(* slicer documents (slicer/stack/stacksimulation.py: "the use data for     *)
(* [the instructions preparing TOS] will not be searched for, since this    *)
(* would widen the scope of the search for complete objects"): a load       *)
(* depends on the last store to that attribute/element of that OBJECT       *)
(* (identity, so aliases are followed), not on the definition of the        *)
(* variable that holds the reference.  The stricter relation that also      *)
(* counts the reference is computed next to it (field s, SliceStrict) and   *)
(* only reported as drift.                                                  *)
(***************************************************************************)
EXTENDS Naturals, Integers, Sequences, FiniteSets, TLC

IntV(n) == [k |-> "i", v |-> n]
RefV(r) == [k |-> "r", v |-> r]
FunV == [k |-> "f", v |-> 0]
Undef == [k |-> "u", v |-> 0]
Truthy(val) == IF val.k = "i" THEN val.v # 0 ELSE TRUE

Locals == {"a", "b", "x", "y", "o", "p", "l", "d"}
Globals == {"G", "Box", "h", "g", "f"}
Names == Locals \cup Globals
Refs == 1..4
Keys == {0, 1}
Cells == Refs \X Keys

ModLine(i) == <<8, i>>
TestPath == <<7, 1>>
(* instances 1..5 are the module-level definitions executed by the import *)
ModInsts == [i \in 1..5 |-> [p |-> ModLine(i), d |-> {}, s |-> {}]]

Init0(a, b) ==
  [insts |-> ModInsts,
   env |-> [n \in Names |-> CASE n = "a" -> IntV(a) [] n = "b" -> IntV(b) [] n = "G" -> IntV(0)
                                [] n \in {"Box", "h", "g", "f"} -> FunV [] OTHER -> Undef],
   ld |-> [n \in Names |-> CASE n = "G" -> {1} [] n = "Box" -> {2} [] n = "h" -> {3} [] n = "g" -> {4}
                               [] n = "f" -> {5} [] OTHER -> {}],
   heap |-> [c \in Cells |-> Undef],
   hld |-> [c \in Cells |-> {}],
   rk |-> [r \in Refs |-> "none"],
   nref |-> 0,
   cd |-> {},          \* instances the next statement is control dependent on
   flow |-> "n",       \* "n" normal, "r" returned, "x" raised
   ret |-> 0,          \* the instance of the executed return
   retv |-> Undef]

NextId(st) == Len(st.insts) + 1
(* a new instance at path p reading definitions `deps` (strict: also `extra`) under the current control context *)
AddInst(st, p, deps, extra) ==
  [st EXCEPT !.insts = Append(@, [p |-> p, d |-> deps \cup st.cd, s |-> deps \cup extra \cup st.cd])]
Def(st, x, val, n) == [st EXCEPT !.env[x] = val, !.ld[x] = {n}]
(* the statement starts (its line is executed) and raises *)
Err(st, p) == [AddInst(st, p, {}, {}) EXCEPT !.flow = "x"]
IsInt(val) == val.k = "i"
IsRef(val) == val.k = "r"
IsDef(val) == val.k # "u"

RECURSIVE MayExitBlock(_), MayExit(_)
MayExitBlock(blk) == \E i \in DOMAIN blk : MayExit(blk[i])
MayExit(s) == CASE s.t = "ret" -> TRUE
                [] s.t = "if" -> MayExitBlock(s.a) \/ MayExitBlock(s.b)
                [] s.t \in {"for", "while"} -> MayExitBlock(s.a)
                [] OTHER -> FALSE

Arith(op, m, n) == IF op = "mul" THEN m * n ELSE m + n

(* x = h(y): the callee's line `y = x + 1` reads the argument, `return y` reads the callee's local *)
CallH(s, p, st) ==
  LET n == NextId(st)
      st1 == AddInst(st, <<9, 1>>, st.ld[s.y], {})
      st2 == AddInst(st1, <<9, 2>>, {n}, {})
      st3 == AddInst(st2, p, {n + 1} \cup st.ld["h"], {})
  IN Def(st3, s.x, IntV(st.env[s.y].v + 1), n + 2)

(* x = g(y): `if y:` decides between `return y + G` (reads the global) and `return 0` *)
CallG(s, p, st) ==
  LET n == NextId(st)
      vy == st.env[s.y]
      st1 == AddInst(st, <<9, 3>>, st.ld[s.y], {})
      tr == Truthy(vy)
      st2 == IF tr THEN AddInst(st1, <<9, 4>>, {n} \cup st.ld[s.y] \cup st.ld["G"], {})
                   ELSE AddInst(st1, <<9, 5>>, {n}, {})
      st3 == AddInst(st2, p, {n + 1} \cup st.ld["g"], {})
      val == IF tr THEN IntV(vy.v + st.env["G"].v) ELSE IntV(0)
  IN IF tr /\ ~IsInt(st.env["G"]) THEN [st2 EXCEPT !.flow = "x"] ELSE Def(st3, s.x, val, n + 2)

RECURSIVE ExecFrom(_, _, _, _, _), ExecStmt(_, _, _), ForLoop(_, _, _, _, _), WhileLoop(_, _, _, _, _)

(* statements of a block are executed in order while control flows normally *)
ExecFrom(blk, p, tag, st, i) ==
  IF i > Len(blk) \/ st.flow # "n" THEN st
  ELSE ExecFrom(blk, p, tag, ExecStmt(blk[i], p \o <<tag, i>>, st), i + 1)
ExecBlock(blk, p, tag, st) == ExecFrom(blk, p, tag, st, 1)

(* st.cd is the control context of this evaluation of the header; `outer` the context of the loop statement *)
ForLoop(s, p, st, j, outer) ==
  LET n == NextId(st)
      st1 == [AddInst(st, p, {}, {}) EXCEPT !.cd = {n}]
  IN IF j > s.k
     THEN [st1 EXCEPT !.cd = outer \cup (IF MayExit(s) THEN {n} ELSE {})]
     ELSE LET st2 == ExecBlock(s.a, p, 1, st1)
          IN IF st2.flow = "n" THEN ForLoop(s, p, st2, j + 1, outer) ELSE st2

(* every evaluation of the test is an instance reading the condition variable; the evaluation of round *)
(* j > 1 is control dependent on the previous round (st.cd at the end of the body)                      *)
MaxIter == 4
WhileLoop(s, p, st, j, outer) ==
  IF ~IsDef(st.env[s.cv]) THEN Err(st, p)
  ELSE IF j > MaxIter + 1 THEN [AddInst(st, p, {}, {}) EXCEPT !.flow = "t"]     \* gave up: not a case
  ELSE LET n == NextId(st)
           st1 == [AddInst(st, p, st.ld[s.cv], {}) EXCEPT !.cd = {n}]
       IN IF ~Truthy(st.env[s.cv])
          THEN [st1 EXCEPT !.cd = outer \cup (IF MayExit(s) THEN {n} ELSE {})]
          ELSE LET st2 == ExecBlock(s.a, p, 1, st1)
               IN IF st2.flow = "n" THEN WhileLoop(s, p, st2, j + 1, outer) ELSE st2

ExecStmt(s, p, st) ==
  LET n == NextId(st) IN
  CASE s.t = "const" -> Def(AddInst(st, p, {}, {}), s.x, IntV(s.c), n)
    [] s.t = "bin" ->
         IF IsInt(st.env[s.y]) /\ IsInt(st.env[s.z])
         THEN Def(AddInst(st, p, st.ld[s.y] \cup st.ld[s.z], {}), s.x,
                  IntV(Arith(s.op, st.env[s.y].v, st.env[s.z].v)), n)
         ELSE Err(st, p)
    [] s.t = "copy" ->
         IF IsDef(st.env[s.y]) THEN Def(AddInst(st, p, st.ld[s.y], {}), s.x, st.env[s.y], n) ELSE Err(st, p)
    [] s.t = "call" ->
         IF ~IsInt(st.env[s.y]) THEN Err(st, p)
         ELSE IF s.fn = "h" THEN CallH(s, p, st) ELSE CallG(s, p, st)
    [] s.t = "new" ->
         LET r == st.nref + 1
         IN [Def(AddInst(st, p, st.ld["Box"], {}), s.x, RefV(r), n) EXCEPT !.nref = r, !.rk[r] = "box"]
    [] s.t = "mk" ->
         IF ~IsDef(st.env[s.y]) THEN Err(st, p)
         ELSE LET r == st.nref + 1
                  st1 == Def(AddInst(st, p, st.ld[s.y], {}), s.x, RefV(r), n)
              IN [st1 EXCEPT !.nref = r, !.rk[r] = s.kd,
                             !.heap[<<r, 0>>] = st.env[s.y], !.hld[<<r, 0>>] = {n},
                             !.heap[<<r, 1>>] = IF s.kd = "list" THEN IntV(0) ELSE Undef,
                             !.hld[<<r, 1>>] = IF s.kd = "list" THEN {n} ELSE {}]
    [] s.t = "store" ->
         IF ~IsRef(st.env[s.o]) \/ ~IsDef(st.env[s.y]) THEN Err(st, p)
         ELSE LET c == <<st.env[s.o].v, s.f>>
              IN [AddInst(st, p, st.ld[s.y], st.ld[s.o]) EXCEPT !.heap[c] = st.env[s.y], !.hld[c] = {n}]
    [] s.t = "load" ->
         IF ~IsRef(st.env[s.o]) THEN Err(st, p)
         ELSE LET c == <<st.env[s.o].v, s.f>>
              IN IF ~IsDef(st.heap[c]) THEN Err(st, p)
                 ELSE Def(AddInst(st, p, st.hld[c], st.ld[s.o]), s.x, st.heap[c], n)
    [] s.t = "if" ->
         IF ~IsDef(st.env[s.cv]) THEN Err(st, p)
         ELSE LET st1 == [AddInst(st, p, st.ld[s.cv], {}) EXCEPT !.cd = {n}]
                  st2 == IF Truthy(st.env[s.cv]) THEN ExecBlock(s.a, p, 1, st1) ELSE ExecBlock(s.b, p, 2, st1)
              IN IF st2.flow # "n" THEN st2
                 \* statements after an `if` that could have returned are control dependent on it (and on
                 \* the decisions inside it that were passed)
                 ELSE [st2 EXCEPT !.cd = st.cd \cup (IF MayExit(s) THEN st2.cd ELSE {})]
    [] s.t = "for" -> ForLoop(s, p, st, 1, st.cd)
    [] s.t = "while" -> WhileLoop(s, p, st, 1, st.cd)
    [] s.t = "dec" ->
         IF IsInt(st.env[s.x]) THEN Def(AddInst(st, p, st.ld[s.x], {}), s.x, IntV(st.env[s.x].v - 1), n)
         ELSE Err(st, p)
    [] s.t = "ret" ->
         IF ~IsDef(st.env[s.x]) THEN Err(st, p)
         ELSE [AddInst(st, p, st.ld[s.x], {}) EXCEPT !.flow = "r", !.ret = n, !.retv = st.env[s.x]]

(* backward closure from instance `root`; dependences always point to earlier instances *)
Closure(I, root, strict) ==
  LET M[k \in 1..(Len(I) + 1)] ==
        IF k = Len(I) + 1 THEN {root}
        ELSE LET later == M[k + 1]
             IN IF k \in later THEN later \cup (IF strict THEN I[k].s ELSE I[k].d) ELSE later
  IN M[1]

(* the test statement `var_0 = f(a, b)`: reads the global f and the returned value *)
Run(prog, a, b) ==
  LET st == ExecBlock(prog, <<>>, 0, Init0(a, b))
      ok == st.flow = "r"
      crit == [p |-> TestPath, d |-> {st.ret, 5}, s |-> {st.ret, 5}]
      I == IF ok THEN Append(st.insts, crit) ELSE st.insts
      root == Len(I)
      PathsOf(S) == {I[i].p : i \in S} \ {TestPath}
      C == Closure(I, root, FALSE)
  IN [flow |-> st.flow,
      retv |-> IF ok /\ IsInt(st.retv) THEN st.retv.v ELSE -99,
      lines |-> {st.insts[i].p : i \in 1..Len(st.insts)},
      slice |-> IF ok THEN PathsOf(C) ELSE {},
      \* the dependence edges inside the slice, projected to paths: <<dependent, depended-on>>
      edges |-> IF ok THEN UNION {{<<I[i].p, I[j].p>> : j \in I[i].d} : i \in C} ELSE {},
      strict |-> IF ok THEN PathsOf(Closure(I, root, TRUE)) ELSE {},
      retp |-> IF ok THEN st.insts[st.ret].p ELSE <<>>,
      ninst |-> Len(st.insts)]

(* ---- well-formedness ---- *)
RECURSIVE ValidBlock(_), ValidStmt(_)
ValidBlock(blk) ==
  /\ \A i \in DOMAIN blk : ValidStmt(blk[i])
  /\ \A i \in 1..(Len(blk) - 1) : blk[i].t # "ret"     \* the compiler drops code after a return
ValidStmt(s) ==
  CASE s.t = "if" -> s.a # <<>> /\ ValidBlock(s.a) /\ ValidBlock(s.b)
    [] s.t \in {"for", "while"} -> s.a # <<>> /\ ValidBlock(s.a)
    [] OTHER -> TRUE
ValidProg(prog) == prog # <<>> /\ ValidBlock(prog) /\ prog[Len(prog)].t = "ret"

(* ---- constructors ---- *)
Const(x, c) == [t |-> "const", x |-> x, c |-> c]
Bin(x, y, z, op) == [t |-> "bin", x |-> x, y |-> y, z |-> z, op |-> op]
Copy(x, y) == [t |-> "copy", x |-> x, y |-> y]
Call(x, fn, y) == [t |-> "call", x |-> x, fn |-> fn, y |-> y]
New(x) == [t |-> "new", x |-> x]
Mk(x, kd, y) == [t |-> "mk", x |-> x, kd |-> kd, y |-> y]
Store(o, f, y) == [t |-> "store", o |-> o, f |-> f, y |-> y]
Load(x, o, f) == [t |-> "load", x |-> x, o |-> o, f |-> f]
If(cv, a, b) == [t |-> "if", cv |-> cv, a |-> a, b |-> b]
For(k, a) == [t |-> "for", k |-> k, a |-> a]
While(cv, a) == [t |-> "while", cv |-> cv, a |-> a]
Dec(x) == [t |-> "dec", x |-> x]
Ret(x) == [t |-> "ret", x |-> x]
=============================================================================

------------------------------ MODULE TestCaseOps ------------------------------
(***************************************************************************)
(* libcst-backed test cases (pynguin.testcase.testcase.TestCase).          *)
(*                                                                         *)
(* Abstract statement  [bv, uses, ty]:                                     *)
(*   bv   the variable the statement binds (var_N is the number N), or     *)
(*        NoVar for an expression statement;                               *)
(*   uses the set of variables the statement reads;                        *)
(*   ty   the recorded bound type (a string), or NoType.                   *)
(* Abstract test case  [st, reg, ctr]:                                     *)
(*   st   the statement sequence (TestCase._statements),                   *)
(*   reg  the per-type registry, a function  type -> sequence of variables *)
(*        (TestCase._type_registry; absent type = empty list),             *)
(*   ctr  the next fresh variable index (TestCase._var_counter).           *)
(*                                                                         *)
(* Every public method of TestCase is one pure operator below; indices are *)
(* 0-based like the Python arguments.  WF is what property C15 demands of  *)
(* a test case.                                                            *)
(***************************************************************************)
EXTENDS Naturals, Integers, Sequences, FiniteSets

NoVar == -1
NoType == ""

Stmt(bv, uses, ty) == [bv |-> bv, uses |-> uses, ty |-> ty]
Max(a, b) == IF a >= b THEN a ELSE b
Min(a, b) == IF a <= b THEN a ELSE b

(* ---------------------------------------------------------------- registry *)
EmptyReg == [t \in {} |-> <<>>]      \* the function with empty domain
RegGet(reg, t) == IF t \in DOMAIN reg THEN reg[t] ELSE <<>>
Binds(s) == s.bv # NoVar
(* TestCase._register: only statements with a bound variable AND a bound type *)
Register(reg, s) ==
  IF Binds(s) /\ s.ty # NoType
  THEN [t \in (DOMAIN reg) \cup {s.ty} |-> IF t = s.ty THEN Append(RegGet(reg, t), s.bv) ELSE reg[t]]
  ELSE reg
(* TestCase._rebuild_registry *)
Rebuild(st) ==
  LET F[i \in 0..Len(st)] == IF i = 0 THEN EmptyReg ELSE Register(F[i-1], st[i])
  IN F[Len(st)]

(* ------------------------------------------------------- well-formedness *)
BoundBefore(st, i) == {st[j].bv : j \in 1..(i-1)} \ {NoVar}      \* i is 1-based
BoundVars(st) == BoundBefore(st, Len(st) + 1)
ReadsAreBound(st) == \A i \in DOMAIN st : st[i].uses \subseteq BoundBefore(st, i)
UniqueBoundNames(st) == \A i, j \in DOMAIN st : (Binds(st[i]) /\ st[i].bv = st[j].bv) => i = j
TypesOf(st) == {st[i].ty : i \in {k \in DOMAIN st : Binds(st[k])}} \ {NoType}
VarsOfType(st, t) ==
  LET sel == SelectSeq(st, LAMBDA s : Binds(s) /\ s.ty = t)
  IN [i \in DOMAIN sel |-> sel[i].bv]
RegistryMatches(st, reg) ==
  \A t \in (DOMAIN reg) \cup TypesOf(st) : RegGet(reg, t) = VarsOfType(st, t)
(* every var_N in use was handed out by next_var_name (inductive support of uniqueness) *)
CounterAhead(st, ctr) == \A i \in DOMAIN st : st[i].bv < ctr
WF(t) == ReadsAreBound(t.st) /\ UniqueBoundNames(t.st) /\ RegistryMatches(t.st, t.reg)

EmptyTC == [st |-> <<>>, reg |-> EmptyReg, ctr |-> 0]

(* ------------------------------------------------------------ TestCase API *)
(* next_var_name: returns t.ctr (the name var_<ctr>) *)
NextVarName(t) == t.ctr
AfterNextVar(t) == [t EXCEPT !.ctr = @ + 1]

(* add_statement: append, registry updated incrementally *)
Add(t, s) == [t EXCEPT !.st = Append(@, s), !.reg = Register(t.reg, s)]

(* list.insert(i, x) for i >= 0: positions beyond the end append *)
InsertAt(q, i, x) == LET k == Min(i, Len(q)) IN SubSeq(q, 1, k) \o <<x>> \o SubSeq(q, k + 1, Len(q))
Insert(t, i, s) == LET q == InsertAt(t.st, i, s) IN [t EXCEPT !.st = q, !.reg = Rebuild(q)]

Without(q, S) ==      \* drop the 0-based positions in S
  LET F[i \in 0..Len(q)] ==
        IF i = 0 THEN <<>> ELSE IF (i - 1) \in S THEN F[i-1] ELSE Append(F[i-1], q[i])
  IN F[Len(q)]
InRange(t, i) == i >= 0 /\ i < Len(t.st)
(* remove_statement(i) = list.pop(i) *)
Remove(t, i) == LET q == Without(t.st, {i}) IN [t EXCEPT !.st = q, !.reg = Rebuild(q)]
(* replace_statement(i, s) *)
Replace(t, i, s) == LET q == [t.st EXCEPT ![i + 1] = s] IN [t EXCEPT !.st = q, !.reg = Rebuild(q)]
(* remove_statements_batch(S) *)
RemoveBatch(t, S) == LET q == Without(t.st, S) IN [t EXCEPT !.st = q, !.reg = Rebuild(q)]
(* chop(pos): keep 0..pos; a negative pos empties the test case *)
Chop(t, pos) ==
  IF pos < 0 THEN RemoveBatch(t, 0..(Len(t.st) - 1))
  ELSE RemoveBatch(t, (pos + 1)..(Len(t.st) - 1))

(* forward_dependencies(i): i and every later statement that (transitively) reads a variable *)
(* bound by a statement already in the set -- least fixpoint, 0-based positions              *)
RECURSIVE FwdFix(_, _, _)
FwdFix(st, i, C) ==
  LET tainted == {st[c + 1].bv : c \in C} \ {NoVar}
      C2 == C \cup {j \in (i + 1)..(Len(st) - 1) : st[j + 1].uses \cap tainted # {}}
  IN IF C2 = C THEN C ELSE FwdFix(st, i, C2)
FwdDeps(st, i) == FwdFix(st, i, {i})
ForwardClosed(st, S) == \A i \in S : FwdDeps(st, i) \subseteq S
(* remove_statement_with_forward_dependencies(i); TestFactory.delete_statement_gracefully(i)  *)
(* computes the same closure itself and calls remove_statements_batch                          *)
RemoveWithFwd(t, i) == RemoveBatch(t, FwdDeps(t.st, i))

(* clone(): same statements and counter, registry rebuilt *)
Clone(t) == [t EXCEPT !.reg = Rebuild(t.st)]

(* remove_unused_variables(): backward liveness pass; an assignment whose variable is not read *)
(* later becomes an expression statement (bound variable and bound type dropped)               *)
RemoveUnused(t) ==
  LET n == Len(t.st)
      \* alive[i] = variables alive BEFORE statement i is visited, going from n down to 1
      Alive[i \in 1..(n + 1)] ==
        IF i = n + 1 THEN {}
        ELSE LET s == t.st[i] IN
             IF Binds(s) /\ s.bv \in Alive[i + 1] THEN (Alive[i + 1] \ {s.bv}) \cup s.uses
             ELSE Alive[i + 1] \cup s.uses
      q == [i \in 1..n |->
             LET s == t.st[i] IN
             IF Binds(s) /\ s.bv \notin Alive[i + 1] THEN Stmt(NoVar, s.uses, NoType) ELSE s]
  IN [t EXCEPT !.st = q, !.reg = Rebuild(q)]

(* append_test_case_from(other, start): other's statements from 0-based `start` on are appended *)
(* with fresh names.  A read of a variable bound in other's head (before start) is remapped to  *)
(* a variable of the same recorded type taken from THIS test case's registry -- the choice is   *)
(* random in the code; here ch is the sequence of choice numbers, consumed in order; names are  *)
(* visited in sorted order (numeric order = Python's string order for var_0..var_9).  If no     *)
(* candidate exists the statement is dropped, and so is every later one reading a dropped name. *)
(* Remappings made before a statement is dropped persist (as in the code).                      *)
SortedSeq(S) ==
  LET RECURSIVE Srt(_)
      Srt(R) == IF R = {} THEN <<>>
                ELSE LET m == CHOOSE x \in R : \A y \in R : x <= y IN <<m>> \o Srt(R \ {m})
  IN Srt(S)
HeadTypes(o, start) ==      \* variable -> type of the LAST head statement binding it
  LET hs == {j \in 1..Min(start, Len(o.st)) : Binds(o.st[j])}
  IN [v \in {o.st[j].bv : j \in hs} |->
        o.st[CHOOSE j \in hs : o.st[j].bv = v /\ \A k \in hs : o.st[k].bv = v => k <= j].ty]
Ren(rn, v) == IF v \in DOMAIN rn THEN rn[v] ELSE v
MapPut(f, k, v) == [x \in (DOMAIN f) \cup {k} |-> IF x = k THEN v ELSE f[x]]

RECURSIVE Resolve(_, _, _, _, _, _, _)
\* result: [ok, rn, k]
Resolve(names, t, ht, rn, dropped, ch, k) ==
  IF names = <<>> THEN [ok |-> TRUE, rn |-> rn, k |-> k]
  ELSE LET n == Head(names) IN
    IF n \in dropped THEN [ok |-> FALSE, rn |-> rn, k |-> k]
    ELSE IF n \in DOMAIN rn THEN Resolve(Tail(names), t, ht, rn, dropped, ch, k)
    ELSE IF n \in DOMAIN ht THEN
      LET cands == IF ht[n] = NoType THEN <<>> ELSE RegGet(t.reg, ht[n]) IN
      IF cands = <<>> THEN [ok |-> FALSE, rn |-> rn, k |-> k]
      ELSE LET c == IF k <= Len(ch) THEN ch[k] ELSE 0
               pick == cands[(c % Len(cands)) + 1]
           IN Resolve(Tail(names), t, ht, MapPut(rn, n, pick), dropped, ch, k + 1)
    ELSE Resolve(Tail(names), t, ht, rn, dropped, ch, k)

RECURSIVE AppendLoop(_, _, _, _, _, _, _, _)
AppendLoop(t, o, j, ht, rn, dropped, ch, k) ==       \* j: 1-based position in o.st
  IF j > Len(o.st) THEN t
  ELSE LET s == o.st[j]
           r == Resolve(SortedSeq(s.uses), t, ht, rn, dropped, ch, k)
       IN IF ~r.ok
          THEN AppendLoop(t, o, j + 1, ht, r.rn, IF Binds(s) THEN dropped \cup {s.bv} ELSE dropped,
                          ch, r.k)
          ELSE LET fresh == t.ctr
                   t1 == IF Binds(s) THEN AfterNextVar(t) ELSE t
                   rn2 == IF Binds(s) THEN MapPut(r.rn, s.bv, fresh) ELSE r.rn
                   ns == Stmt(IF Binds(s) THEN fresh ELSE NoVar, {Ren(rn2, u) : u \in s.uses}, s.ty)
               IN AppendLoop(Add(t1, ns), o, j + 1, ht, rn2, dropped, ch, r.k)
AppendFrom(t, o, start, ch) ==
  AppendLoop(t, o, Max(start, 0) + 1, HeadTypes(o, Max(start, 0)), <<>>, {}, ch, 1)

(* --------------------- when does a raw API call preserve well-formedness? *)
(* (the guards under which TestFactory / the operators use the API)         *)
ReadersAfter(st, i) == {j \in (i + 1)..(Len(st) - 1) : st[i + 1].bv \in st[j + 1].uses}   \* 0-based
SafeNew(t, pos, s) ==          \* statement s placed at 0-based pos (pos = Len for add)
  /\ s.uses \subseteq BoundBefore(t.st, pos + 1)
  /\ (Binds(s) => s.bv \notin BoundVars(t.st))
SafeAdd(t, s) == SafeNew(t, Len(t.st), s)
SafeInsert(t, i, s) == i >= 0 /\ SafeNew(t, Min(i, Len(t.st)), s)
SafeRemove(t, i) == InRange(t, i) /\ (Binds(t.st[i + 1]) => ReadersAfter(t.st, i) = {})
SafeReplace(t, i, s) ==
  /\ InRange(t, i)
  /\ s.uses \subseteq BoundBefore(t.st, i + 1)
  /\ \/ s.bv = t.st[i + 1].bv
     \/ /\ (Binds(t.st[i + 1]) => ReadersAfter(t.st, i) = {})
        /\ (Binds(s) => s.bv \notin BoundVars(t.st))
SafeRemoveBatch(t, S) == ForwardClosed(t.st, S \cap (0..(Len(t.st) - 1)))
=============================================================================

CONSTANTS
  NG = 4
  AssumeReachable = TRUE
  Acyclic = TRUE
SPECIFICATION FairSpec
INVARIANT TypeOK
INVARIANT GoalReachable
INVARIANT AnyParentSuffices
INVARIANT Disjoint
INVARIANT ObjsTrack
INVARIANT Complete
PROPERTY NoGoalLost
PROPERTY CoveredGrows
PROPERTY AllCoveredEventually

\* as coded, no faults: the subprocess protocol delivers exactly the abstract results
CONSTANTS
  Batches <- DesignBatches2
  Observers <- ObsModes
  M = 2
  Per = 1
  Faults = {}
  MaxFaults = 0
  Pickle = "ascoded"
SPECIFICATION Spec
INVARIANT TypeOK
INVARIANT TimeoutAgree
INVARIANT ExceptionsAgree
INVARIANT LinesAgree
INVARIANT AssertionAgree
INVARIANT VerificationAgree
INVARIANT NoOrphan
INVARIANT AtMostTwice
INVARIANT AllDelivered
PROPERTY AbsSpec
PROPERTY Returns

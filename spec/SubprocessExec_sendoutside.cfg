\* what-if: the results are pickled after the tracer was stopped: an exception with instrumented pickling hooks kills the child, TimeoutAgree fails
CONSTANTS
  Batches <- DesignBatches2
  Observers <- ObsModes
  M = 4
  Per = 2
  Faults = {}
  MaxFaults = 0
  Pickle = "ascoded"
  Variant = "sendoutside"
SPECIFICATION Spec
INVARIANT TypeOK
INVARIANT NoOrphan
INVARIANT TimeoutAgree

---------------------------- MODULE ArchiveTrace -----------------------------
(* Trace validation for C13.  One event per public call on a real archive        *)
(* (CoverageArchive / MIOArchive / MIOPopulation): the call, the offered          *)
(* solutions, the assignments archive[g] := s the archive made during the call,   *)
(* and the archive projected after the call (the view before the call is the one  *)
(* after the previous call; "observe" events record a view found changed between  *)
(* two calls, "recheck" the view with all archived tests re-executed).  TLC        *)
(* evaluates the clauses of C13 (ArchiveOps) on these observed views.  `Follows`  *)
(* compares the observed step with the design model; it is reported as drift, not *)
(* as a verdict.                                                                  *)
EXTENDS ArchiveOps, TLC, TLCExt, Json, IOUtils

Traces == ndJsonDeserialize(IOEnv.TRACE_FILE)

(* JSON -> view *)
SolV(j) == [id |-> j.id, size |-> j.size, res |-> j.res, covers |-> ToSet(j.covers)]
PopV(p) == [cap |-> p.cap, counter |-> p.counter, covd |-> p.covd,
            sols |-> [i \in DOMAIN p.sols |-> [h |-> p.sols[i].h, sol |-> SolV(p.sols[i].sol)]]]
ViewV(st) == [objs |-> st.objs, unc |-> ToSet(st.unc),
              cov  |-> [g \in DOMAIN st.cov |-> SolV(st.cov[g])],
              pops |-> [g \in DOMAIN st.pops |-> PopV(st.pops[g])]]
NoView == [objs |-> <<>>, unc |-> {}, cov |-> <<>>, pops |-> <<>>]

VARIABLES tid, l,
          cur,   \* the event consumed last: the call and what it returned
          Pre,   \* the archive as projected after the previous call
          Post,  \* the archive as projected after this call
          capn,  \* the capacity announced to the MIO archive: initial size, then the n of the last shrink
          PreC, PostC  \* who is archived with which statements: per goal <<[id, cv, size]>> (cv = content
                       \* version of the test case as it is now), before / after
vars == <<tid, l, cur, Pre, Post, capn, PreC, PostC>>

NoEv == [op |-> "none"]
Init == /\ tid \in 1..Len(Traces) /\ l = 0 /\ cur = NoEv /\ Pre = NoView /\ Post = NoView
        /\ capn = 0 /\ PreC = <<>> /\ PostC = <<>>
\* the first event ("init") carries the projection of the freshly constructed archive
Next == /\ l < Len(Traces[tid].ev)
        /\ l' = l + 1
        /\ cur' = [Traces[tid].ev[l + 1] EXCEPT !.post = <<>>, !.cvs = <<>>]
        /\ Post' = ViewV(Traces[tid].ev[l + 1].post)
        \* (the view of a "recheck" carries re-executed `covers`: the next call is compared with the
        \*  view the archive had before the re-execution)
        /\ Pre' = IF l = 0 THEN Post' ELSE IF cur.op = "recheck" THEN Pre ELSE Post
        /\ PostC' = Traces[tid].ev[l + 1].cvs
        /\ PreC' = IF l = 0 THEN PostC' ELSE PostC
        /\ capn' = IF Traces[tid].ev[l + 1].op \in {"init", "shrink", "pop_shrink"}
                   THEN Traces[tid].ev[l + 1].n ELSE capn
        /\ UNCHANGED tid
Spec == Init /\ [][Next]_vars

(* ---- C13, evaluated on observed calls ---- *)
CoveredGrows      == l > 0 => CoveredGrowsP(Pre, Post, cur.op = "reset")
ArchivedCovers    == l > 0 => ArchivedCoversP(Post)
\* ("recheck": the archived tests were re-executed; only ArchivedCovers is about that view)
\* every recorded assignment archive[g] := s of the call is a legal replacement, and whatever
\* else differs afterwards is explained by legal replacements with the offered solutions
Steps == [i \in DOMAIN cur.steps |-> [g |-> cur.steps[i].g, sol |-> SolV(cur.steps[i].sol)]]
ReplaceRule       == (l > 0 /\ cur.op # "recheck") =>
                        /\ StepsOK(Pre.cov, Steps)
                        /\ ReplaceRuleP([Pre EXCEPT !.cov = StepsFinal(Pre.cov, Steps)], Post, cur.sols)
MIOCap            == l > 0 => (MIOCapP(Post) /\ (cur.mode \in {"mio", "pop"} => MIOCapNP(Post, capn)))
\* the archive owns its tests: outside of archive calls ("observe": the archive found changed between
\* two calls, "recheck": after a step of the search loop) nobody replaced or edited an archived chromosome
\* (n = -1: the recorder had stopped recording archive calls before this view was taken)
ArchiveOwns       == (l > 1 /\ cur.op \in {"observe", "recheck"} /\ cur.n # -1) => PostC = PreC
MIOCoveredOne     == l > 0 => (MIOCoveredOneP(Post) /\ MIOStaysP(Pre, Post))
CoveredConsistent == l > 0 => CoveredConsistentP(Post)

(* ---- conformance with the design model (drift, not a verdict) ---- *)
Follows ==
  l > 0 =>
    CASE cur.op = "update" ->
           LET r == CovUpdate(Pre, cur.sols) IN r.st = Post /\ r.rb = cur.rb /\ r.ntf = cur.ntf
      [] cur.op = "add_goals" -> AddGoals(Pre, cur.gs) = Post
      [] cur.op = "reset" -> Reset(Pre) = Post
      [] cur.op = "mio_update" ->
           LET r == MioUpdate(Pre, cur.sols) IN r.st = Post /\ r.rb = cur.rb /\ r.ntf = cur.ntf
      [] cur.op = "shrink" -> MioShrink(Pre, cur.n) = Post
      [] cur.op = "getsol" -> Post \in MioGetSolPosts(Pre)
      [] cur.op = "pop_add" ->
           LET r == PopAdd(Pre.pops[1], HOf(cur.sols[1].fit[1]), AsCov(cur.sols[1]))
           IN Post = [Pre EXCEPT !.pops[1] = r.pop] /\ cur.rb = r.added
      [] cur.op = "pop_shrink" -> Post = [Pre EXCEPT !.pops[1] = PopShrink(@, cur.n)]
      [] cur.op = "pop_sample" -> Post = [Pre EXCEPT !.pops[1] = PopSample(@)]
      [] OTHER -> TRUE
=============================================================================

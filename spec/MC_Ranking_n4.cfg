CONSTANTS
  N = 4
  NG = 2
  MaxVal = 2
  MaxLen = 1
  LenN = 0
  Depth = 0
  PopCfgs = {1, 2, 3, 5}
  SelNs = {}
SPECIFICATION Spec
INVARIANT Emit

----------------------------- MODULE IdiomTrace -------------------------------
(***************************************************************************)
(* Trace validation for C01, C02, C03 on Python idioms outside the PyMini   *)
(* grammar (comprehensions, slices, with, match, super(), generators,       *)
(* coroutines, closures, classes, descriptors, except*, ...).  There is no   *)
(* semantics for these in TLA+: the reference is the interpreter running the *)
(* uninstrumented function under sys.monitoring.  One trace per (idiom       *)
(* function, metric combination), one event per input:                       *)
(*   gt / py           <<kind, value, side-effect markers>>, strings interned*)
(*   gt_lines/py_lines executed / reported lines of the module               *)
(*   gt_out / py_out   <<line, <<truth values taken>>>> per deciding line    *)
(*   gt_njumps/py_npreds  <<line, number of conditional jumps / predicates>> *)
(*   py_*_after, merged_lines  the same results re-read after the suite-level *)
(*                     analysis (analyze_results) of all executions           *)
(***************************************************************************)
EXTENDS Naturals, Sequences, FiniteSets, TLC, TLCExt, Json, IOUtils

Traces == ndJsonDeserialize(IOEnv.TRACE_FILE)
VARIABLES tid, l, cur
vars == <<tid, l, cur>>
NoEv == [ok |-> TRUE]
Init == /\ tid \in 1..Len(Traces) /\ l = 0 /\ cur = NoEv
Next == /\ l < Len(Traces[tid].ev) /\ l' = l + 1 /\ cur' = Traces[tid].ev[l + 1] /\ UNCHANGED tid
Spec == Init /\ [][Next]_vars
On == l > 0
SetOf(q) == {q[i] : i \in DOMAIN q}

(* C01 *)
InstrumentationSucceeds == On => cur.ok
BehaviourPreserved == (On /\ cur.ok) => cur.py = cur.gt
(* C02 *)
ReportedLinesExact == (On /\ cur.ok /\ cur.has_line) => SetOf(cur.py_lines) = SetOf(cur.gt_lines)
NoForeignLines == (On /\ cur.ok /\ cur.has_line) => SetOf(cur.py_lines) \subseteq SetOf(cur.module_lines)
SuiteAnalysisKeepsLines == (On /\ cur.ok /\ cur.has_line) => SetOf(cur.py_lines_after) = SetOf(cur.py_lines)
MergedLinesAreUnion == (On /\ cur.ok /\ cur.has_line) =>
    SetOf(cur.merged_lines) = UNION {SetOf(Traces[tid].ev[i].py_lines) : i \in 1..Len(Traces[tid].ev)}
(* C03 *)
BranchOutcomesExact == (On /\ cur.ok /\ cur.has_branch) => SetOf(cur.py_out) = SetOf(cur.gt_out)
PredicatesRegistered == (On /\ cur.ok /\ cur.has_branch) => SetOf(cur.py_npreds) = SetOf(cur.gt_njumps)
SuiteAnalysisKeepsOutcomes == (On /\ cur.ok /\ cur.has_branch) => SetOf(cur.py_out_after) = SetOf(cur.py_out)
(* C05: after exceptions raised and caught inside the subject, recording continues *)
(* (executions in which the interpreter raised an exception inside the module, RAISE event)  *)
RecordingContinuesLines == (On /\ cur.ok /\ cur.has_line /\ cur.gt_raised) => SetOf(cur.py_lines) = SetOf(cur.gt_lines)
RecordingContinuesOutcomes == (On /\ cur.ok /\ cur.has_branch /\ cur.gt_raised) => SetOf(cur.py_out) = SetOf(cur.gt_out)
EnabledRestored == (On /\ cur.ok) => cur.enabled_after
=============================================================================

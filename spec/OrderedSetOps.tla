------------------------------ MODULE OrderedSetOps ------------------------------
(***************************************************************************)
(* Insertion-ordered sets (pynguin.utils.orderedset: OrderedSet,           *)
(* FrozenOrderedSet, OrderedTypeSet).  Abstract state: a duplicate-free    *)
(* sequence `s`.  Every public method is one action; `Post`/`Res` give the *)
(* state and the result the method must produce.  Ghost variables `m`      *)
(* (the mathematical set) and `stamp` (time of the insertion that made an  *)
(* element present) state what "insertion ordered set" means; TLC checks   *)
(* that the sequence semantics below implements them (property C34).       *)
(***************************************************************************)
EXTENDS Naturals, Integers, Sequences, FiniteSets, SequencesExt


Elems(q) == {q[i] : i \in DOMAIN q}
NoDup(q) == \A i, j \in DOMAIN q : q[i] = q[j] => i = j
Dedup(q) ==
  LET F[i \in 0..Len(q)] ==
        IF i = 0 THEN <<>>
        ELSE IF q[i] \in Elems(F[i-1]) THEN F[i-1] ELSE Append(F[i-1], q[i])
  IN F[Len(q)]
Keep(q, S) == SelectSeq(q, LAMBDA x : x \in S)
Drop(q, S) == SelectSeq(q, LAMBDA x : x \notin S)
Rev(q) == [i \in 1..Len(q) |-> q[Len(q) + 1 - i]]
PosOf(q, x) == CHOOSE i \in DOMAIN q : q[i] = x /\ \A j \in 1..(i-1) : q[j] # x

Mutators == {"add", "update", "discard", "remove", "clear", "difference_update",
             "intersection_update", "symmetric_difference_update", "ior"}
SeqQueries == {"union", "intersection", "difference", "symmetric_difference",
               "iter", "reversed", "copy", "or", "and", "xor", "sub"}
BoolQueries == {"issubset", "issuperset", "contains", "eq"}
IntQueries == {"len", "getitem", "index", "count"}
Ops == Mutators \cup SeqQueries \cup BoolQueries \cup IntQueries

\* which ops take an iterable argument `a`, an element `x`, an index `i`
TakesIter == {"update", "difference_update", "intersection_update",
              "symmetric_difference_update", "ior", "union", "intersection", "difference",
              "symmetric_difference", "or", "and", "xor", "sub", "issubset", "issuperset", "eq"}
TakesElem == {"add", "discard", "remove", "contains", "index", "count"}
TakesIdx  == {"getitem"}

(* state after the call *)
Post(op, s, x, i, a) ==
  CASE op = "add" -> IF x \in Elems(s) THEN s ELSE Append(s, x)
    [] op \in {"update", "ior"} -> Dedup(s \o a)
    [] op = "discard" -> Drop(s, {x})
    [] op = "remove" -> Drop(s, {x})
    [] op = "clear" -> <<>>
    [] op = "difference_update" -> Drop(s, Elems(a))
    [] op = "intersection_update" -> Keep(s, Elems(a))
    [] op = "symmetric_difference_update" -> Drop(s, Elems(a)) \o Dedup(Drop(a, Elems(s)))
    [] OTHER -> s

(* result of the call: rt = kind of result, rs / ri / rb its value *)
NoRes == [rt |-> "none", rs |-> <<>>, ri |-> 0, rb |-> FALSE]
SeqRes(q) == [rt |-> "seq", rs |-> q, ri |-> 0, rb |-> FALSE]
IntRes(n) == [rt |-> "int", rs |-> <<>>, ri |-> n, rb |-> FALSE]
BoolRes(b) == [rt |-> "bool", rs |-> <<>>, ri |-> 0, rb |-> b]
ExcRes(e) == [rt |-> e, rs |-> <<>>, ri |-> 0, rb |-> FALSE]

Res(op, s, x, i, a) ==
  CASE op \in {"union", "or"} -> SeqRes(Dedup(s \o a))
    [] op \in {"intersection", "and"} -> SeqRes(Keep(s, Elems(a)))
    [] op \in {"difference", "sub"} -> SeqRes(Drop(s, Elems(a)))
    [] op \in {"symmetric_difference", "xor"} ->
         SeqRes(Drop(s, Elems(a)) \o Dedup(Drop(a, Elems(s))))
    [] op \in {"iter", "copy"} -> SeqRes(s)
    [] op = "reversed" -> SeqRes(Rev(s))
    [] op = "issubset" -> BoolRes(Elems(s) \subseteq Elems(a))
    [] op = "issuperset" -> BoolRes(Elems(a) \subseteq Elems(s))
    [] op = "contains" -> BoolRes(x \in Elems(s))
    [] op = "eq" -> BoolRes(s = Dedup(a))
    [] op = "len" -> IntRes(Len(s))
    [] op = "getitem" ->
         IF i >= 0 /\ i < Len(s) THEN IntRes(s[i + 1])
         ELSE IF i < 0 /\ -i <= Len(s) THEN IntRes(s[Len(s) + i + 1])
         ELSE ExcRes("IndexError")
    [] op = "index" -> IF x \in Elems(s) THEN IntRes(PosOf(s, x) - 1) ELSE ExcRes("ValueError")
    [] op = "count" -> IntRes(IF x \in Elems(s) THEN 1 ELSE 0)
    [] op = "remove" -> IF x \in Elems(s) THEN NoRes ELSE ExcRes("KeyError")
    [] OTHER -> NoRes
=============================================================================

CONSTANTS
  NUser = 2
  Level = 0
  MaxSteps = 0
  Deviations = {}
  Prov = "G"
  FixedRoots = TRUE
  Depth = 4
  EmitLevel = 0
  WithEdges = FALSE
SPECIFICATION RetSpec
INVARIANT RetEmit

-------------------------------- MODULE SetCover --------------------------------
(***************************************************************************)
(* Design model for C21: assertion minimisation after mutation analysis    *)
(* (MutationAnalysisAssertionGenerator._handle_add_assertions) for one     *)
(* test case, as a transition system over ALL kill maps up to MaxA x MaxM  *)
(* and all mutant statuses:                                                *)
(*                                                                         *)
(*   Init       the mutation executor has produced, for every mutant, a    *)
(*              status (run / timeout / unchecked), whether the test       *)
(*              raised an exception on it, and which assertions it violated*)
(*   BuildMap   __build_kill_map: only run (not timed-out, checked) mutants*)
(*   Pick       one round of the greedy loop of _select_minimal_assertions *)
(*   EndGreedy  the loop ends (everything covered / nothing covers more)   *)
(*   Prune      one round of the reverse pruning loop                      *)
(*   Remove     __minimize_assertions deletes every assertion not kept     *)
(*                                                                         *)
(* Properties: Subset, KillsPreserved (C21), the loop invariants that make *)
(* them hold, OnlyKillers / Irredundant (docstring), ScorePreserved (the   *)
(* set of killed mutants, hence the score, is the same with the kept       *)
(* assertions), ScoreIn01 / ScoreIgnores on the reported score, and the    *)
(* score laws for all count tuples up to MaxCount (ASSUME).                *)
(***************************************************************************)
EXTENDS SetCoverOps, SetCoverCritical, TLC

CONSTANTS MaxA,       \* maximal number of assertions on the test case
          MaxM,       \* maximal number of mutants
          Statuses,   \* subset of {"run", "timeout", "unchecked"}
          WithExc,    \* BOOLEAN: also enumerate exceptions raised on mutants
          MaxCount,   \* bound for the count tuples of the score laws
          UseCritical,\* BOOLEAN: start from the maps of SetCoverCritical instead of all small maps
          Hazard      \* "none" = the code; what-if variants that must violate:
                      \* "shift_remove": delete the dropped assertions from the list in
                      \*    ascending index order (the code iterates in reverse);
                      \* "stale_prune": prune against the greedy result instead of the
                      \*    current selection (needs >= 5 assertions x 7 mutants to lose a
                      \*    kill: holds within 4 x 4)

VARIABLES nA, nM, viol, st, exc,      \* the outcome of executing the test on the mutants
          pc, km, unc, cands, keep, todo, left, snap
vars == <<nA, nM, viol, st, exc, pc, km, unc, cands, keep, todo, left, snap>>

As == 1..nA
Ms == 1..nM

InitAll ==
  /\ nA \in 0..MaxA /\ nM \in 0..MaxM
  /\ viol \in [(1..nA) \X (1..nM) -> BOOLEAN]
  /\ st \in [1..nM -> Statuses]
  /\ exc \in (IF WithExc THEN SUBSET (1..nM) ELSE {{}})

InitCritical ==
  \E c \in CriticalMaps :
    /\ nA = Len(c) /\ nM = MaxOf(UNION {c[a] : a \in DOMAIN c})
    /\ viol = [p \in (1..nA) \X (1..nM) |-> p[2] \in c[p[1]]]
    /\ st = [m \in 1..nM |-> "run"]
    /\ exc = {}

Init ==
  /\ IF UseCritical THEN InitCritical ELSE InitAll
  /\ pc = "build" /\ km = <<>> /\ unc = {} /\ cands = {} /\ keep = {} /\ todo = {}
  /\ left = 1..nA /\ snap = {}

Run == {m \in Ms : st[m] = "run"}

RemoveAt(L, i) == SubSeq(L, 1, i - 1) \o SubSeq(L, i + 1, Len(L))
RECURSIVE ShiftDel(_, _)
ShiftDel(L, D) == IF D = {} THEN L
                  ELSE LET i == MinOf(D)
                       IN ShiftDel(IF i <= Len(L) THEN RemoveAt(L, i) ELSE L, D \ {i})

BuildMap ==
  /\ pc = "build"
  /\ km' = [a \in As |-> {m \in Run : viol[a, m]}]
  /\ unc' = Kills(As, km')
  /\ cands' = {a \in As : km'[a] # {}}
  /\ pc' = "greedy"
  /\ UNCHANGED <<nA, nM, viol, st, exc, keep, todo, left, snap>>

Pick ==
  /\ pc = "greedy" /\ unc # {}
  /\ LET b == Best(cands, unc, km)
     IN /\ b # 0
        /\ keep' = keep \cup {b}
        /\ unc' = unc \ km[b]
        /\ cands' = cands \ {b}
  /\ UNCHANGED <<nA, nM, viol, st, exc, pc, km, todo, left, snap>>

EndGreedy ==
  /\ pc = "greedy"
  /\ (IF unc = {} THEN TRUE ELSE Best(cands, unc, km) = 0)
  /\ pc' = "prune" /\ todo' = keep /\ snap' = keep
  /\ UNCHANGED <<nA, nM, viol, st, exc, km, unc, cands, keep, left>>

Prune ==
  /\ pc = "prune" /\ todo # {}
  /\ LET k == MaxOf(todo)
     IN /\ keep' = (IF Hazard = "stale_prune"
                      THEN (IF km[k] \subseteq Kills(snap \ {k}, km) THEN keep \ {k} ELSE keep)
                      ELSE PruneOne(keep, k, km))
        /\ todo' = todo \ {k}
  /\ UNCHANGED <<nA, nM, viol, st, exc, pc, km, unc, cands, left, snap>>

Remove ==
  /\ pc = "prune" /\ todo = {}
  /\ left' = (IF Hazard = "shift_remove"
               THEN ToSet(ShiftDel([i \in 1..nA |-> i], As \ keep))
               ELSE left \cap keep)
  /\ pc' = "done"
  /\ UNCHANGED <<nA, nM, viol, st, exc, km, unc, cands, keep, todo, snap>>

Next == BuildMap \/ Pick \/ EndGreedy \/ Prune \/ Remove
Spec == Init /\ [][Next]_vars /\ WF_vars(Next)

(* ---------------------------------------------------------------- types *)
TypeOK ==
  /\ pc \in {"build", "greedy", "prune", "done"}
  /\ keep \subseteq As /\ todo \subseteq As /\ cands \subseteq As /\ left \subseteq As
  /\ unc \subseteq Ms

(* ---------------------------------------------------------------- C21 *)
Universe == Kills(As, km)
Subset == left \subseteq As /\ keep \subseteq As
KillsPreserved == pc = "done" => KillsPreservedBy(left, km)

(* loop invariants *)
GreedyInv == pc = "greedy" =>
  /\ Kills(keep, km) \cup unc = Universe
  /\ Kills(keep, km) \cap unc = {}
  /\ cands \cap keep = {}
  /\ \A a \in As \ (cands \cup keep) : km[a] = {}
GreedyCovers == pc \in {"prune", "done"} => Kills(keep, km) = Universe
KeepOnlyKillers == pc # "build" => OnlyKillers(keep, km)
ResultIrredundant == pc = "done" => Irredundant(left, km)
ResultIsSelect == pc = "done" => left = Select(km)

(* the mutants killed by the test (assertion violation or exception; not timed
   out, checked) are the same with the kept assertions only *)
KilledWith(S) == {m \in Run : m \in exc \/ \E a \in S : viol[a, m]}
ScorePreserved == pc = "done" => KilledWith(left) = KilledWith(As)

(* ---------------------------------------------------------------- score *)
NTimeout == Cardinality({m \in Ms : st[m] = "timeout"})
NUnchecked == Cardinality({m \in Ms : st[m] = "unchecked"})
Reported == ScoreOf(nM, Cardinality(KilledWith(As)), NTimeout, NUnchecked)
ScoreIn01 == In01(Reported)
ScoreIgnores == LET d == Cardinality(Run)
                IN d > 0 => FracEq(Reported, <<Cardinality(KilledWith(As)), d>>)

ScoreLaws == \A q \in Tuples(MaxCount) :
               /\ In01(ScoreOf(q[1], q[2], q[3], q[4]))
               /\ Ignores(ScoreOf, q[1], q[2], q[3], q[4])
               /\ PlainRatio(ScoreOf(q[1], q[2], 0, 0), q[1], q[2])
ASSUME ScoreLaws

(* a score that counts timed-out mutants as survivors is NOT invariant *)
NaiveScore(c, k, t, u) == IF c - u = 0 THEN <<1, 1>> ELSE <<k, c - u>>
ASSUME \E q \in Tuples(MaxCount) : ~Ignores(NaiveScore, q[1], q[2], q[3], q[4])

Terminates == <>(pc = "done")
=============================================================================

CONSTANTS
  Dev = {"RecordExisting", "NoCheckOnWrite", "KwDstIsSrc"}
  MaxSteps = 3
  AllVias = FALSE
SPECIFICATION Spec
INVARIANT TypeOK
INVARIANT Attributed

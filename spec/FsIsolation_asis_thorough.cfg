CONSTANTS
  Dev = {"RecordExisting", "NoCheckOnWrite", "KwDstIsSrc"}
  MaxSteps = 2
  AllVias = TRUE
SPECIFICATION Spec
INVARIANT TypeOK
INVARIANT Attributed

SPECIFICATION Spec
INVARIANT CheckedLinesWereExecuted
INVARIANT AssertionCheckedLinesWereExecuted
INVARIANT SliceOnlyExecuted
INVARIANT AssertionSliceOnlyExecuted
INVARIANT CriterionInSlice
INVARIANT AssertionCriterionInSlice
INVARIANT SliceSound
INVARIANT AssertionSliceSound
INVARIANT Drift_Conforms
INVARIANT Drift_Ran
INVARIANT Drift_CheckedAreSliceLines
INVARIANT Drift_TraceLines
INVARIANT Drift_StrictSound
INVARIANT Drift_Precise
INVARIANT Drift_AssertionCoverage

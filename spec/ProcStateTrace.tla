--------------------------- MODULE ProcStateTrace -----------------------------
(* Trace validation for C30: one event per executed test case of a history, observed on the real *)
(* TestCaseExecutor: process state right after execute() returned, the result projection of the   *)
(* test case (interned) and the projection the same test case produces when executed alone in a   *)
(* fresh process.                                                                                 *)
EXTENDS Naturals, Sequences, TLC, TLCExt, Json, IOUtils
Traces == ndJsonDeserialize(IOEnv.TRACE_FILE)
VARIABLES tid, l, cur
vars == <<tid, l, cur>>
NoEv == [steps |-> <<>>]
Init == /\ tid \in 1..Len(Traces) /\ l = 0 /\ cur = NoEv
Next == /\ l < Len(Traces[tid].ev) /\ l' = l + 1 /\ cur' = Traces[tid].ev[l + 1] /\ UNCHANGED tid
Spec == Init /\ [][Next]_vars

(* ---- C30 ---- *)
StreamsRestored == l > 0 => (cur.stdout_same /\ cur.stderr_same /\ cur.fd1_open /\ cur.fd2_open /\ cur.fd0_open)
LoggingRestored == l > 0 => cur.log_same
OwnRandomUntouched == l > 0 => cur.rng_same
OrderIndependent == (l > 0 /\ ~cur.hidden_state) => cur.res = cur.solo
NoTimeout == l > 0 => ~cur.timeout
=============================================================================

----------------------------- MODULE FsIsolationOps -----------------------------
(***************************************************************************)
(* Semantics of pynguin.utils.fs_isolation.FilesystemIsolation over a      *)
(* small path tree (property C29).                                         *)
(*                                                                         *)
(* Abstract state                                                          *)
(*   fs : Paths -> [k : "absent" | "file" | "dir", t : sequence of tokens] *)
(*   cr : the wrapper's private bookkeeping `_created` (a set of paths)    *)
(*                                                                         *)
(* One operator `Eff(o, fs, cr, D)` gives, for one public call `o` of the  *)
(* code under test made while the isolation is active, the file system     *)
(* after the call, the bookkeeping after the call and the outcome          *)
(* ("ok" or the exception class).  It follows the wrappers as coded        *)
(* (_create_tracked_method, _create_open_tracked, _os_open_tracked,        *)
(* _create_path_rename_replace_tracked) including the calls the standard   *)
(* library makes through the patched module attributes (os.makedirs ->     *)
(* os.makedirs/os.mkdir, shutil.copy -> shutil.copyfile -> open,           *)
(* shutil.move -> os.rename, shutil.copytree -> os.makedirs/copyfile,      *)
(* shutil.rmtree -> os.unlink/os.rmdir with a bare entry name).            *)
(*                                                                         *)
(* D is the set of enabled deviations of the code from the intended design *)
(* (D = AsIs models the code as it is, D = {} the intended design):        *)
(*   RecordExisting  a path that existed before the call is recorded as    *)
(*                   "created" (and therefore removed by __exit__)         *)
(*   NoCheckOnWrite  writing to / replacing an existing path that is not   *)
(*                   isolated is not refused                               *)
(*   KwDstIsSrc      _get_arg resolves a keyword `dst` to the `src`        *)
(*                   keyword (first name of COMMON_KW_NAMES that is given) *)
(***************************************************************************)
EXTENDS Naturals, Sequences, FiniteSets, TLC

AsIs == {"RecordExisting", "NoCheckOnWrite", "KwDstIsSrc"}

(* ---- the path tree: root "" (the sandbox directory itself) and 8 nodes ---- *)
Paths == {"a", "ag", "an", "g", "n", "ng", "e", "eg"}
Par  == [a |-> "", ag |-> "a", an |-> "a", g |-> "", n |-> "", ng |-> "n", e |-> "", eg |-> "e"]
Base == [a |-> "a", ag |-> "g", an |-> "n", g |-> "g", n |-> "n", ng |-> "g", e |-> "e", eg |-> "g"]
Join(d, b) == IF \E x \in Paths : Par[x] = d /\ Base[x] = b
              THEN CHOOSE x \in Paths : Par[x] = d /\ Base[x] = b ELSE "none"
Kids(p) == {x \in Paths : Par[x] = p}

Absent == [k |-> "absent", t |-> <<>>]
DirV == [k |-> "dir", t |-> <<>>]
FileV(t) == [k |-> "file", t |-> t]
Tok == <<1>>                      \* what a write / append adds

(* sandbox before the execution: a/ (with file a/g), file g, empty dir e; n, n/g, a/n, e/g absent *)
Tree0 == [a |-> DirV, ag |-> FileV(<<8>>), an |-> Absent, g |-> FileV(<<7>>),
          n |-> Absent, ng |-> Absent, e |-> DirV, eg |-> Absent]

Kind(fs, p) == IF p = "" THEN "dir" ELSE IF p = "none" THEN "absent" ELSE fs[p].k
Exists(fs, p) == Kind(fs, p) # "absent"
PresentKids(fs, p) == {c \in Kids(p) : Exists(fs, c)}
ReachErr(fs, p) == LET pk == Kind(fs, Par[p]) IN
                   IF pk = "dir" THEN "ok"
                   ELSE IF pk = "absent" THEN "FileNotFoundError" ELSE "NotADirectoryError"
Owned(cr, p) == p \in cr \/ Par[p] \in cr

(* ---- vocabulary of calls ---- *)
OpenOps == {"OpenR", "OpenW", "OpenA", "OpenX", "OpenRP"}
OsFlags == {"RD", "WR", "CREAT", "TRUNC", "EXCL", "APPEND"}
OnePathOps == OpenOps \cup {"OsOpen", "Mkdir", "MkdirOk", "Makedirs", "Touch", "WriteText",
                            "Remove", "Rmdir", "Rmtree"}
TwoPathOps == {"Rename", "Replace", "Copy", "Copytree", "Move"}
ViasOf(op) ==
  CASE op \in OpenOps -> {"builtins.open", "io.open", "Path.open"}
    [] op = "OsOpen" -> {"os.open"}
    [] op = "Mkdir" -> {"os.mkdir", "Path.mkdir"}
    [] op = "MkdirOk" -> {"Path.mkdir"}
    [] op = "Makedirs" -> {"os.makedirs", "Path.mkdir"}
    [] op = "Touch" -> {"Path.touch"}
    [] op = "WriteText" -> {"Path.write_text", "Path.write_bytes"}
    [] op = "Remove" -> {"os.remove", "os.unlink", "Path.unlink"}
    [] op = "Rmdir" -> {"os.rmdir", "Path.rmdir"}
    [] op = "Rmtree" -> {"shutil.rmtree"}
    [] op = "Rename" -> {"os.rename", "Path.rename"}
    [] op = "Replace" -> {"os.replace", "Path.replace"}
    [] op = "Copy" -> {"shutil.copyfile", "shutil.copy", "shutil.copy2"}
    [] op = "Copytree" -> {"shutil.copytree"}
    [] op = "Move" -> {"shutil.move"}
    [] OTHER -> {"none"}
Canon(op) ==
  CASE op \in OpenOps -> "builtins.open"
    [] op = "Mkdir" -> "os.mkdir"
    [] op = "Makedirs" -> "os.makedirs"
    [] op = "WriteText" -> "Path.write_text"
    [] op = "Remove" -> "os.remove"
    [] op = "Rmdir" -> "os.rmdir"
    [] op = "Rename" -> "os.rename"
    [] op = "Replace" -> "os.replace"
    [] op = "Copy" -> "shutil.copyfile"
    [] OTHER -> CHOOSE v \in ViasOf(op) : TRUE
\* calls that can be made with all-keyword arguments (src=..., dst=...)
KwCapable(op, via) == op \in TwoPathOps /\ via \notin {"Path.rename", "Path.replace"}

Call(op, p, q, kw, fl, eo, via) ==
  [op |-> op, p |-> p, q |-> q, kw |-> kw, fl |-> fl, eo |-> eo, via |-> via]

(* ---- where a two-path call really writes ---- *)
IntoDir(o, fs) == \/ o.op = "Move" /\ Kind(fs, o.q) = "dir"
                  \/ o.op = "Copy" /\ o.via # "shutil.copyfile" /\ Kind(fs, o.q) = "dir"
RealDst(o, fs) == IF IntoDir(o, fs) THEN Join(o.q, Base[o.p]) ELSE o.q

(* calls whose effect stays inside the modelled tree and the modelled library paths *)
InScope(o, fs) ==
  IF o.op \in OnePathOps \cup {"Exit"} THEN TRUE
  ELSE LET real == RealDst(o, fs) IN
    /\ o.p # o.q
    /\ real # "none"
    /\ (Kind(fs, o.p) = "dir" /\ o.op # "Copy") =>
          /\ \A c \in PresentKids(fs, o.p) : Join(real, Base[c]) # "none"
          \* shutil.move falling back to copytree+rmtree when the rename fails with ENOENT
          /\ ~(o.op = "Move" /\ ReachErr(fs, real) = "FileNotFoundError")

(* move the (at most two level) tree p to q *)
MoveTree(fs, p, q) ==
  LET img(c) == Join(q, Base[c]) IN
  [x \in Paths |->
     IF x = q THEN fs[p]
     ELSE IF \E c \in PresentKids(fs, p) : img(c) = x
          THEN fs[CHOOSE c \in PresentKids(fs, p) : img(c) = x]
     ELSE IF x = p \/ x \in Kids(p) THEN Absent
     ELSE fs[x]]

Eff(o, fs, cr, D) ==
  LET p == o.p
      q == o.q
      Out(f, c, r) == [fs |-> f, cr |-> c, res |-> r]
      Fail(r) == Out(fs, cr, r)
      Set(x, v) == [fs EXCEPT ![x] = v]
      Rec(c, S) == c \cup (IF "RecordExisting" \in D THEN S ELSE {x \in S : ~Exists(fs, x)})
      Denied(x) == "NoCheckOnWrite" \notin D /\ Exists(fs, x) /\ ~Owned(cr, x)
      \* which path the generic wrapper records for the destination argument
      WrapDst == IF o.kw /\ "KwDstIsSrc" \in D THEN {p} ELSE {q}
      old(x) == IF Kind(fs, x) = "file" THEN fs[x].t ELSE <<>>
      \* open-like call in a writing mode m
      OpenLike(x, m) ==
        IF ReachErr(fs, x) # "ok" THEN Fail(ReachErr(fs, x))
        ELSE IF Kind(fs, x) = "dir"
          THEN Fail(IF m \in {"x", "excl"} THEN "FileExistsError" ELSE "IsADirectoryError")
        ELSE IF Kind(fs, x) = "absent" /\ m \in {"rp", "wr"} THEN Fail("FileNotFoundError")
        ELSE IF Kind(fs, x) = "file" /\ m \in {"x", "excl"} THEN Fail("FileExistsError")
        ELSE IF Denied(x) THEN Fail("PermissionError")
        ELSE LET new == CASE m \in {"w", "x"} -> Tok
                          [] m \in {"a", "rp", "append"} -> old(x) \o Tok
                          [] m \in {"wr", "creat"} -> old(x)
                          [] OTHER -> <<>>          \* trunc, excl, touch
             IN Out(Set(x, FileV(new)), Rec(cr, {x}), "ok")
      RenameLike ==   \* os.rename / os.replace on POSIX, after the wrapper's check
        IF ReachErr(fs, p) # "ok" THEN Fail(ReachErr(fs, p))
        ELSE IF ~Exists(fs, p) THEN Fail("FileNotFoundError")
        ELSE IF ReachErr(fs, q) # "ok" THEN Fail(ReachErr(fs, q))
        ELSE IF Par[q] = p THEN Fail("OSError")                         \* EINVAL
        ELSE IF Par[p] = q THEN Fail("OSError")                         \* ENOTEMPTY
        ELSE IF Kind(fs, p) = "file" /\ Kind(fs, q) = "dir" THEN Fail("IsADirectoryError")
        ELSE IF Kind(fs, p) = "dir" /\ Kind(fs, q) = "file" THEN Fail("NotADirectoryError")
        ELSE IF Kind(fs, p) = "dir" /\ PresentKids(fs, q) # {} THEN Fail("OSError")  \* ENOTEMPTY
        ELSE IF Denied(q) THEN Fail("PermissionError")
        ELSE Out(MoveTree(fs, p, q), Rec(cr, WrapDst) \ {p}, "ok")
  IN
  CASE o.op = "OpenR" ->
         IF ReachErr(fs, p) # "ok" THEN Fail(ReachErr(fs, p))
         ELSE IF Kind(fs, p) = "absent" THEN Fail("FileNotFoundError")
         ELSE IF Kind(fs, p) = "dir" THEN Fail("IsADirectoryError") ELSE Fail("ok")
    [] o.op = "OpenW" -> OpenLike(p, "w")
    [] o.op = "OpenA" -> OpenLike(p, "a")
    [] o.op = "OpenX" -> OpenLike(p, "x")
    [] o.op = "OpenRP" -> OpenLike(p, "rp")
    [] o.op = "WriteText" -> OpenLike(p, "w")
    [] o.op = "OsOpen" ->
         IF o.fl = "RD"
         THEN IF ReachErr(fs, p) # "ok" THEN Fail(ReachErr(fs, p))
              ELSE IF Kind(fs, p) = "absent" THEN Fail("FileNotFoundError") ELSE Fail("ok")
         ELSE OpenLike(p, CASE o.fl = "WR" -> "wr" [] o.fl = "CREAT" -> "creat"
                            [] o.fl = "TRUNC" -> "trunc" [] o.fl = "EXCL" -> "excl"
                            [] OTHER -> "append")
    [] o.op = "Touch" ->
         IF Exists(fs, p) THEN Out(fs, Rec(cr, {p}), "ok")       \* os.utime only
         ELSE OpenLike(p, "touch")
    [] o.op = "Mkdir" ->
         IF ReachErr(fs, p) # "ok" THEN Fail(ReachErr(fs, p))
         ELSE IF Exists(fs, p) THEN Fail("FileExistsError")
         ELSE Out(Set(p, DirV), Rec(cr, {p}), "ok")
    [] o.op = "MkdirOk" ->
         IF ReachErr(fs, p) # "ok" THEN Fail(ReachErr(fs, p))
         ELSE IF Kind(fs, p) = "dir" THEN Out(fs, Rec(cr, {p}), "ok")
         ELSE IF Kind(fs, p) = "file" THEN Fail("FileExistsError")
         ELSE Out(Set(p, DirV), Rec(cr, {p}), "ok")
    [] o.op = "Makedirs" ->
         IF Kind(fs, Par[p]) = "file" THEN Fail("NotADirectoryError")
         ELSE IF Kind(fs, Par[p]) = "absent"
           THEN Out([fs EXCEPT ![Par[p]] = DirV, ![p] = DirV], Rec(cr, {Par[p], p}), "ok")
         ELSE IF Kind(fs, p) = "absent" THEN Out(Set(p, DirV), Rec(cr, {p}), "ok")
         ELSE IF Kind(fs, p) = "dir" /\ o.eo THEN Out(fs, Rec(cr, {p}), "ok")
         ELSE Fail("FileExistsError")
    [] o.op = "Remove" ->
         IF p \notin cr THEN Fail("PermissionError")
         ELSE IF ReachErr(fs, p) # "ok" THEN Fail(ReachErr(fs, p))
         ELSE IF Kind(fs, p) = "absent" THEN Fail("FileNotFoundError")
         ELSE IF Kind(fs, p) = "dir" THEN Fail("IsADirectoryError")
         ELSE Out(Set(p, Absent), cr \ {p}, "ok")
    [] o.op = "Rmdir" ->
         IF p \notin cr THEN Fail("PermissionError")
         ELSE IF ReachErr(fs, p) # "ok" THEN Fail(ReachErr(fs, p))
         ELSE IF Kind(fs, p) = "absent" THEN Fail("FileNotFoundError")
         ELSE IF Kind(fs, p) = "file" THEN Fail("NotADirectoryError")
         ELSE IF PresentKids(fs, p) # {} THEN Fail("OSError")
         ELSE Out(Set(p, Absent), cr \ {p}, "ok")
    [] o.op = "Rmtree" ->
         IF p \notin cr THEN Fail("PermissionError")
         ELSE IF ReachErr(fs, p) # "ok" THEN Fail(ReachErr(fs, p))
         ELSE IF Kind(fs, p) = "absent" THEN Fail("FileNotFoundError")
         ELSE IF Kind(fs, p) = "file" THEN Fail("NotADirectoryError")
         \* shutil.rmtree calls the patched os.unlink/os.rmdir with the bare entry name and a
         \* dir_fd; the wrapper refuses that name, so only an empty directory can be removed
         ELSE IF PresentKids(fs, p) # {} THEN Fail("PermissionError")
         ELSE Out(Set(p, Absent), cr \ {p}, "ok")
    [] o.op \in {"Rename", "Replace"} ->
         IF p \notin cr THEN Fail("PermissionError") ELSE RenameLike
    [] o.op = "Copy" ->
         LET real == RealDst(o, fs) IN
         IF ReachErr(fs, p) # "ok" THEN Fail(ReachErr(fs, p))
         ELSE IF Kind(fs, p) = "absent" THEN Fail("FileNotFoundError")
         ELSE IF real = p THEN Fail("SameFileError")
         ELSE IF Kind(fs, p) = "dir" THEN Fail("IsADirectoryError")
         ELSE IF ReachErr(fs, real) # "ok" THEN Fail(ReachErr(fs, real))
         ELSE IF Kind(fs, real) = "dir" THEN Fail("IsADirectoryError")
         ELSE IF Denied(real) THEN Fail("PermissionError")
         ELSE Out(Set(real, FileV(fs[p].t)), Rec(cr, {real} \cup WrapDst), "ok")
    [] o.op = "Copytree" ->
         IF ReachErr(fs, p) # "ok" THEN Fail(ReachErr(fs, p))
         ELSE IF Kind(fs, p) = "absent" THEN Fail("FileNotFoundError")
         ELSE IF Kind(fs, p) = "file" THEN Fail("NotADirectoryError")
         ELSE IF Kind(fs, Par[q]) = "file" THEN Fail("NotADirectoryError")
         ELSE IF Exists(fs, q) THEN Fail("FileExistsError")
         ELSE LET img(c) == Join(q, Base[c])
                  ks == PresentKids(fs, p)
                  up == IF Kind(fs, Par[q]) = "absent" THEN {Par[q]} ELSE {}
              IN Out([x \in Paths |->
                        IF x = q \/ x \in up THEN DirV
                        ELSE IF \E c \in ks : img(c) = x
                             THEN fs[CHOOSE c \in ks : img(c) = x]
                        ELSE fs[x]],
                     Rec(cr, {q} \cup up \cup {img(c) : c \in ks} \cup WrapDst), "ok")
    [] o.op = "Move" ->
         LET real == RealDst(o, fs) IN
         IF p \notin cr THEN Fail("PermissionError")
         ELSE IF Kind(fs, q) = "dir" /\ Exists(fs, real) THEN Fail("Error")
         ELSE IF ReachErr(fs, p) # "ok" THEN Fail(ReachErr(fs, p))
         ELSE IF ~Exists(fs, p) THEN Fail("FileNotFoundError")
         ELSE IF ReachErr(fs, real) # "ok" THEN Fail(ReachErr(fs, real))
         ELSE IF Par[real] = p THEN Fail("Error")            \* directory into itself
         ELSE IF Kind(fs, p) = "dir" /\ Kind(fs, real) = "file" THEN Fail("FileExistsError")
         ELSE IF Denied(real) THEN Fail("PermissionError")
         ELSE Out(MoveTree(fs, p, real), Rec(cr, {real} \cup WrapDst) \ {p}, "ok")
    [] o.op = "Exit" ->
         \* __exit__: deepest first, rmtree for directories, unlink for files, missing ignored
         Out([x \in Paths |-> IF x \in cr \/ Par[x] \in cr THEN Absent ELSE fs[x]], {}, "ok")
    [] OTHER -> Fail("unknown-op")

(* all calls offered in a state (used by the design model and by behaviour extraction) *)
Calls(fs, allVias) ==
  LET vias(op) == IF allVias THEN ViasOf(op) ELSE {Canon(op)}
      kws(op, v) == IF KwCapable(op, v) THEN BOOLEAN ELSE {FALSE}
      one == UNION {{Call(op, p, "", FALSE, "", FALSE, v) : p \in Paths, v \in vias(op)} :
                      op \in OnePathOps \ {"OsOpen", "Makedirs"}}
      oso == {Call("OsOpen", p, "", FALSE, fl, FALSE, "os.open") : p \in Paths, fl \in OsFlags}
      mkd == {Call("Makedirs", p, "", FALSE, "", eo, v) : p \in Paths, eo \in BOOLEAN, v \in vias("Makedirs")}
      two == UNION {UNION {{Call(op, p, q, kw, "", FALSE, v) : p \in Paths, q \in Paths, kw \in kws(op, v)} :
                      v \in vias(op)} : op \in TwoPathOps}
  IN one \cup oso \cup mkd \cup {o \in two : InScope(o, fs)}

(* ---- the property C29, on a snapshot before (pre) and after (post) the execution ---- *)
Preserved(pre, post) == \A p \in Paths : pre[p].k # "absent" => post[p] = pre[p]
Gone(pre, post) == \A p \in Paths : pre[p].k = "absent" => post[p].k = "absent"
=============================================================================

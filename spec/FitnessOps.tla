------------------------------- MODULE FitnessOps -------------------------------
(***************************************************************************)
(* Fitness / coverage semantics of pynguin (ga/fitness_metrics.py,         *)
(* ga/computations.py, ga/coveragegoals.py, utils/controlflowdistance.py)  *)
(* and of ExecutionTrace.merge / update_predicate_distances                *)
(* (instrumentation/tracer.py) over an abstract execution trace.           *)
(*                                                                         *)
(* Registry  reg = [np, nl, cos, own, diam, cdg]                           *)
(*   predicates 1..np, lines 1..nl, cos = set of code object ids,          *)
(*   own[p] = code object of predicate p, diam[p] = diameter of its CFG,   *)
(*   cdg = set of <<q, p, n>>: the CDG of own[p] has a shortest path of    *)
(*   length n from the node of predicate q to the node of predicate p.     *)
(*   Branch-less code objects are *derived*, as in SubjectProperties.      *)
(* Trace     t = [cos, cnt, dT, dF, lines, chk]                            *)
(*   cos = executed code objects, cnt[p] = executions of predicate p,      *)
(*   dT/dF[p] = minimal true/false distance (absent key = "INF"),          *)
(*   lines = covered line ids, chk = checked line ids.                     *)
(* Distances are abstracted to Dist: zero, two finite positive values      *)
(* P < Q, infinite.  Fitness values are exact rationals; with the          *)
(* representatives P = 1.0 and Q = 3.0 normalise() yields 1/2 and 3/4, so  *)
(* every fitness is a multiple of 1/4 and is modelled as 4 * fitness.      *)
(***************************************************************************)
EXTENDS Naturals, Integers, FiniteSets, Sequences, FiniteSetsExt

Dist == {"Z", "P", "Q", "INF"}
DRank(d) == CASE d = "Z" -> 0 [] d = "P" -> 1 [] d = "Q" -> 2 [] d = "INF" -> 3
DMin(a, b) == IF DRank(a) <= DRank(b) THEN a ELSE b
(* 4 * normalise(d):  0 -> 0, 1.0 -> 1/2, 3.0 -> 3/4, inf -> 1 *)
Norm4(d) == CASE d = "Z" -> 0 [] d = "P" -> 2 [] d = "Q" -> 3 [] d = "INF" -> 4
(* sum of the two distances of one predicate evaluation: one of them is zero (WF) *)
DPlus(a, b) == IF a = "Z" THEN b ELSE IF b = "Z" THEN a ELSE "INF"

(* ------------------------------ registry ------------------------------ *)
Preds(reg) == 1..reg.np
Lines(reg) == 1..reg.nl
Owners(reg) == {reg.own[p] : p \in Preds(reg)}
Branchless(reg) == reg.cos \ Owners(reg)           \* SubjectProperties.branch_less_code_objects

RegOK(reg) == /\ reg.np \in Nat /\ reg.nl \in Nat
              /\ DOMAIN reg.own = Preds(reg) /\ DOMAIN reg.diam = Preds(reg)
              /\ Owners(reg) \subseteq reg.cos
              /\ \A p \in Preds(reg) : reg.diam[p] >= 1      \* a CFG with a predicate has >= 1 edge
              /\ \A e \in reg.cdg : /\ e[1] \in Preds(reg) /\ e[2] \in Preds(reg) /\ e[1] # e[2]
                                    /\ reg.own[e[1]] = reg.own[e[2]] /\ e[3] >= 1

(* canonical registries used by the design model and the case generator: nb branch-less   *)
(* code objects 1..nb, np predicates living each in its own code object ("own") or all in  *)
(* one code object whose CFG nests them ("nested": predicate q controls q+1) or puts them  *)
(* in sequence ("seq": no control dependence between predicates)                           *)
MkReg(np, nb, nl, shape, diam) ==
  [np |-> np, nl |-> nl,
   cos |-> {c \in 1..(nb + (IF np = 0 THEN 0 ELSE IF shape = "own" THEN np ELSE 1)) : TRUE},
   own |-> [p \in 1..np |-> nb + (IF shape = "own" THEN p ELSE 1)],
   diam |-> [p \in 1..np |-> diam],
   cdg |-> IF shape = "nested"
           THEN {<<x[1], x[2], x[2] - x[1]>> : x \in {y \in (1..np) \X (1..np) : y[1] < y[2]}}
           ELSE {}]
ShapesFor(np, shapes) == IF np < 2 THEN {"own"} ELSE shapes

(* ------------------------------- traces ------------------------------- *)
EmptyTrace(reg) == [cos |-> {}, cnt |-> [p \in Preds(reg) |-> 0],
                    dT |-> [p \in Preds(reg) |-> "INF"], dF |-> [p \in Preds(reg) |-> "INF"],
                    lines |-> {}, chk |-> {}]

(* What the tracer guarantees for every trace it hands out (inductive over the callbacks   *)
(* below; Fitness.tla checks that).  The fitness code relies on it: a predicate with       *)
(* cnt >= 2 and no distance entry is a KeyError in _predicate_fitness.                     *)
WF(t, reg) ==
  /\ t.cos \subseteq reg.cos /\ t.lines \subseteq Lines(reg) /\ t.chk \subseteq Lines(reg)
  /\ DOMAIN t.cnt = Preds(reg) /\ DOMAIN t.dT = Preds(reg) /\ DOMAIN t.dF = Preds(reg)
  /\ \A p \in Preds(reg) :
       /\ t.cnt[p] \in Nat /\ t.dT[p] \in Dist /\ t.dF[p] \in Dist
       /\ t.cnt[p] = 0 => t.dT[p] = "INF" /\ t.dF[p] = "INF"            \* no entry at all
       /\ t.cnt[p] > 0 => /\ reg.own[p] \in t.cos                       \* code object entered first
                          /\ (t.dT[p] = "Z" \/ t.dF[p] = "Z")           \* every evaluation takes a branch
       /\ t.cnt[p] = 1 => ~(t.dT[p] = "Z" /\ t.dF[p] = "Z")

(* tracer callbacks (ExecutionTracer.executed_code_object, _update_metrics ->              *)
(* ExecutionTrace.update_predicate_distances, track_line_visit; checked lines are added    *)
(* by the statement slicing observer)                                                      *)
ExecCodeObject(t, c) == [t EXCEPT !.cos = @ \cup {c}]
ExecPredicate(t, p, a, b) == [t EXCEPT !.cnt[p] = @ + 1, !.dT[p] = DMin(@, a), !.dF[p] = DMin(@, b)]
TrackLine(t, l) == [t EXCEPT !.lines = @ \cup {l}]
CheckLine(t, l) == [t EXCEPT !.chk = @ \cup {l}]

(* ExecutionTrace.merge(self = a, other = b): coverage relevant part *)
Merge(a, b) == [cos |-> a.cos \cup b.cos,
                cnt |-> [p \in DOMAIN a.cnt |-> a.cnt[p] + b.cnt[p]],
                dT |-> [p \in DOMAIN a.dT |-> DMin(a.dT[p], b.dT[p])],
                dF |-> [p \in DOMAIN a.dF |-> DMin(a.dF[p], b.dF[p])],
                lines |-> a.lines \cup b.lines, chk |-> a.chk \cup b.chk]
(* analyze_results: fold from an empty trace *)
MergeAll(ts, reg) ==
  LET F[i \in 0..Len(ts)] == IF i = 0 THEN EmptyTrace(reg) ELSE Merge(F[i - 1], ts[i])
  IN F[Len(ts)]

(* --------------------------- suite level ------------------------------ *)
NoEx == [code |-> {}, tr |-> {}, fa |-> {}]
(* BranchDistanceTestSuiteFitnessFunction.restrict *)
RestrictEx(ex, e) == [code |-> ex.code \cup e.code, tr |-> ex.tr \cup e.tr, fa |-> ex.fa \cup e.fa]

(* _predicate_fitness(p, distances, trace) * 4 *)
PredFit4(t, p, d) == IF d[p] = "Z" THEN 0 ELSE IF t.cnt[p] >= 2 THEN Norm4(d[p]) ELSE 4

(* compute_branch_distance_fitness * 4 *)
BranchFitness4(t, reg, ex) ==
  LET S[i \in 0..reg.np] ==
        IF i = 0 THEN 0
        ELSE S[i - 1] + (IF i \in ex.tr THEN 0 ELSE PredFit4(t, i, t.dT))
                      + (IF i \in ex.fa THEN 0 ELSE PredFit4(t, i, t.dF))
  IN 4 * Cardinality({c \in Branchless(reg) : c \notin t.cos /\ c \notin ex.code}) + S[reg.np]

(* compute_branch_distance_fitness_is_covered, as documented ("True, if all branches were *)
(* covered"): every considered branch has distance 0                                     *)
IsCoveredSuite(t, reg, ex) ==
  /\ \A c \in Branchless(reg) \ ex.code : c \in t.cos
  /\ \A p \in Preds(reg) \ ex.tr : t.dT[p] = "Z"
  /\ \A p \in Preds(reg) \ ex.fa : t.dF[p] = "Z"

(* coverage values are rationals <<num, den>>; den = 0 means "nothing to cover" = 1 *)
BranchCoverage(t, reg) ==
  << Cardinality(t.cos \cap Branchless(reg))
     + Cardinality({p \in Preds(reg) : t.dT[p] = "Z"}) + Cardinality({p \in Preds(reg) : t.dF[p] = "Z"}),
     Cardinality(Branchless(reg)) + 2 * reg.np >>
LineCoverage(t, reg) == << Cardinality(t.lines), reg.nl >>
CheckedCoverage(t, reg) == << Cardinality(t.chk), reg.nl >>
CovIn01(c) == c[1] >= 0 /\ (c[2] = 0 \/ c[1] <= c[2])
CovIsOne(c) == c[2] = 0 \/ c[1] = c[2]
CovNorm(c) == IF c[2] = 0 THEN <<1, 1>> ELSE c
CovLe(c, d) == CovNorm(c)[1] * CovNorm(d)[2] <= CovNorm(d)[1] * CovNorm(c)[2]

(* LineTestSuiteFitnessFunction / StatementCheckedTestSuiteFitnessFunction (times 4) *)
LineFitness4(t, reg) == 4 * (reg.nl - Cardinality(t.lines))
CheckedFitness4(t, reg) == 4 * (reg.nl - Cardinality(t.chk))
LineIsCovered(t, reg) == Cardinality(t.lines) = reg.nl
CheckedIsCovered(t, reg) == Cardinality(t.chk) = reg.nl

(* ---------------------------- goal level ------------------------------ *)
(* goal = [k, c, p, v, l]: "bl" branch-less code object c; "br" branch v of predicate p;  *)
(* "line" / "chk" line l                                                                  *)
BlGoal(c) == [k |-> "bl", c |-> c, p |-> 0, v |-> FALSE, l |-> 0]
BrGoal(reg, p, v) == [k |-> "br", c |-> reg.own[p], p |-> p, v |-> v, l |-> 0]
LineGoal(l) == [k |-> "line", c |-> 0, p |-> 0, v |-> FALSE, l |-> l]
ChkGoal(l) == [k |-> "chk", c |-> 0, p |-> 0, v |-> FALSE, l |-> l]
Goals(reg) == {BlGoal(c) : c \in Branchless(reg)}
         \cup {BrGoal(reg, p, v) : p \in Preds(reg), v \in BOOLEAN}
         \cup {LineGoal(l) : l \in Lines(reg)} \cup {ChkGoal(l) : l \in Lines(reg)}

(* ControlFlowDistance as <<approach level, branch distance>>, ordered lexicographically *)
CfdLess(x, y) == x[1] < y[1] \/ (x[1] = y[1] /\ DRank(x[2]) < DRank(y[2]))
CfdMin(S) == CHOOSE x \in S : \A y \in S : ~CfdLess(y, x)

(* get_root_control_flow_distance / get_non_root_control_flow_distance *)
GoalCfd(g, t, reg) ==
  IF g.k = "bl" THEN (IF g.c \in t.cos THEN <<0, "Z">> ELSE <<1, "Z">>)
  ELSE IF reg.own[g.p] \notin t.cos THEN <<reg.diam[g.p], "Z">>
  ELSE IF t.cnt[g.p] > 0 THEN <<0, IF g.v THEN t.dT[g.p] ELSE t.dF[g.p]>>
  ELSE CfdMin({<<reg.diam[g.p], "Z">>} \cup
              {<<e[3], DPlus(t.dT[e[1]], t.dF[e[1]])>> :
                 e \in {e \in reg.cdg : e[2] = g.p /\ t.cnt[e[1]] > 0}})

(* <fitness function of the goal>.compute_fitness * 4 *)
GoalFitness4(g, t, reg) ==
  CASE g.k \in {"bl", "br"} -> LET d == GoalCfd(g, t, reg) IN 4 * d[1] + Norm4(d[2])
    [] g.k = "line" -> IF g.l \in t.lines THEN 0 ELSE 4
    [] g.k = "chk" -> IF g.l \in t.chk THEN 0 ELSE 4
(* goal.is_covered *)
GoalCovered(g, t, reg) ==
  CASE g.k = "bl" -> g.c \in t.cos
    [] g.k = "br" -> t.cnt[g.p] > 0 /\ (IF g.v THEN t.dT[g.p] ELSE t.dF[g.p]) = "Z"
    [] g.k = "line" -> g.l \in t.lines
    [] g.k = "chk" -> g.l \in t.chk

(* --------------------- the laws (C10, C11) as operators ---------------- *)
Exclusions(reg) == [code : SUBSET Branchless(reg), tr : SUBSET Preds(reg), fa : SUBSET Preds(reg)]

FitnessFiniteNonNegLaw(t, reg) ==
  /\ \A ex \in Exclusions(reg) :
       BranchFitness4(t, reg, ex) \in 0..(4 * (Cardinality(Branchless(reg)) + 2 * reg.np))
  /\ LineFitness4(t, reg) \in 0..(4 * reg.nl) /\ CheckedFitness4(t, reg) \in 0..(4 * reg.nl)
  /\ \A g \in Goals(reg) : GoalFitness4(g, t, reg) \in Nat
CoverageIn01Law(t, reg) ==
  CovIn01(BranchCoverage(t, reg)) /\ CovIn01(LineCoverage(t, reg)) /\ CovIn01(CheckedCoverage(t, reg))
FitnessZeroIffCoveredLaw(t, reg) ==
  /\ \A ex \in Exclusions(reg) : (BranchFitness4(t, reg, ex) = 0) <=> IsCoveredSuite(t, reg, ex)
  /\ (LineFitness4(t, reg) = 0) <=> LineIsCovered(t, reg)
  /\ (CheckedFitness4(t, reg) = 0) <=> CheckedIsCovered(t, reg)
  /\ \A g \in Goals(reg) : (GoalFitness4(g, t, reg) = 0) <=> GoalCovered(g, t, reg)
SuiteZeroIffCoverageOneLaw(t, reg) ==
  (BranchFitness4(t, reg, NoEx) = 0) <=> CovIsOne(BranchCoverage(t, reg))
(* adding the test with trace b to a suite whose merged trace is a *)
AddTestMonotoneLaw(a, b, reg) ==
  LET m == Merge(a, b) IN
  /\ CovLe(BranchCoverage(a, reg), BranchCoverage(m, reg))
  /\ CovLe(LineCoverage(a, reg), LineCoverage(m, reg))
  /\ CovLe(CheckedCoverage(a, reg), CheckedCoverage(m, reg))
  /\ \A ex \in Exclusions(reg) : BranchFitness4(m, reg, ex) <= BranchFitness4(a, reg, ex)
  /\ LineFitness4(m, reg) <= LineFitness4(a, reg)
  /\ CheckedFitness4(m, reg) <= CheckedFitness4(a, reg)
=============================================================================

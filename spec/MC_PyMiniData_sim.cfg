CONSTANTS
  SkSet <- SimSkeletons
  Alpha = "full"
  InputSet <- AllInputs
  Chain = TRUE
SPECIFICATION Spec
INVARIANT WellFormed
INVARIANT NoRuntimeError
INVARIANT SpecSliceExecuted
INVARIANT SpecSliceHasCriterion
INVARIANT StrictContainsSlice
INVARIANT DefLineInSlice

CONSTANTS
  Families <- SimFamilies
  InputSet <- AllInputs
SPECIFICATION Spec
INVARIANT WellFormed
INVARIANT NoRuntimeError
INVARIANT SpecSliceExecuted
INVARIANT SpecSliceHasCriterion
INVARIANT StrictContainsSlice
INVARIANT DefLineInSlice

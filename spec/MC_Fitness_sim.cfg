CONSTANTS
  MaxPred = 3
  MaxBl = 2
  MaxLine = 3
  LinePred = 3
  LineBl = 2
  MaxSize = 5
  MaxCnt = 3
  MaxTests = 3
  Dists = {"Z", "P", "Q", "INF"}
  Shapes = {"own", "nested", "seq"}
  Diam = 2
  ExAll = FALSE
INIT InitSim
NEXT NextSim

CONSTANTS
  Depth = 2
  AllVias = FALSE
  Prune = TRUE
  PruneLast = TRUE
SPECIFICATION Spec
INVARIANT Emit

CONSTANTS
  Depth = 2
  AllVias = FALSE
  LastAllVias = TRUE
  Prune = TRUE
  PruneLast = TRUE
  Repr = TRUE
SPECIFICATION Spec
INVARIANT Emit

CONSTANTS
  Steps = {"print", "raise", "close_stdout", "close_fd", "log_disable", "seed", "draw", "draw_inst", "log_hang", "mutate_global"}
  MaxTests = 2
  MaxSteps = 2
  RestoreLogging = TRUE
  ReopenNull = TRUE
SPECIFICATION MCSpec
INVARIANT Emit

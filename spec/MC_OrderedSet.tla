---------------------------- MODULE MC_OrderedSet -----------------------------
(* Behaviour extraction for P2 replay: every history of Depth calls starting from *)
(* every duplicate-free initial content is emitted once as JSON.                  *)
EXTENDS OrderedSetOps, TLC, Json

CONSTANTS U, MaxArg, Depth, Classes, Kinds

VARIABLES s, hist, s0
vars == <<s, hist, s0>>

Args == UNION {[1..n -> U] : n \in 0..MaxArg}
States == {q \in UNION {[1..n -> U] : n \in 0..Cardinality(U)} : NoDup(q)}

Act(cls, op, kind, x, i, a) == [cls |-> cls, op |-> op, kind |-> kind, x |-> x, i |-> i, a |-> a]

Init == /\ s0 \in States /\ s = s0 /\ hist = <<>>

Frozen(cls) == cls = "FrozenOrderedSet"
OpsOf(cls) == IF Frozen(cls) THEN Ops \ Mutators
              ELSE IF cls = "OrderedTypeSet" THEN Ops \ {"remove", "ior", "copy", "sub", "reversed"}
              ELSE Ops

Step(cls) ==
  \E op \in OpsOf(cls) :
    \/ /\ op \in TakesIter
       /\ \E a \in Args, k \in Kinds :
            /\ (op \in {"or", "and", "xor", "sub", "ior", "eq"} => k = "same")
            /\ (k = "set" => NoDup(a))
            /\ hist' = Append(hist, Act(cls, op, k, 0, 0, a))
            /\ s' = Post(op, s, 0, 0, a)
    \/ /\ op \in TakesElem
       /\ \E x \in U : hist' = Append(hist, Act(cls, op, "none", x, 0, <<>>)) /\ s' = Post(op, s, x, 0, <<>>)
    \/ /\ op \in TakesIdx
       /\ \E i \in (-(Cardinality(U) + 1))..(Cardinality(U) + 1) :
            hist' = Append(hist, Act(cls, op, "none", 0, i, <<>>)) /\ s' = s
    \/ /\ op \notin (TakesIter \cup TakesElem \cup TakesIdx)
       /\ hist' = Append(hist, Act(cls, op, "none", 0, 0, <<>>)) /\ s' = Post(op, s, 0, 0, <<>>)

\* one class per history (the object under test does not change class)
Next == /\ Len(hist) < Depth
        /\ \E cls \in Classes : (IF hist = <<>> THEN TRUE ELSE hist[1].cls = cls) /\ Step(cls)
        /\ UNCHANGED s0

Spec == Init /\ [][Next]_vars

Emit == Len(hist) = Depth => PrintT(<<"HIST", ToJson([s0 |-> s0, hist |-> hist])>>)
=============================================================================

\* as coded, no faults: the subprocess protocol delivers exactly the abstract results
CONSTANTS
  Batches <- DesignBatches3
  Observers <- ObsModes
  M = 4
  Per = 2
  Faults = {}
  MaxFaults = 0
  Pickle = "ascoded"
  Variant = "ascoded"
SPECIFICATION Spec
INVARIANT TypeOK
INVARIANT ChildBudgetAgree
INVARIANT TimeoutAgree
INVARIANT ExceptionsAgree
INVARIANT LinesAgree
INVARIANT AssertionAgree
INVARIANT VerificationAgree
INVARIANT NoOrphan
INVARIANT AtMostTwice
INVARIANT AllDelivered
PROPERTY AbsSpec
PROPERTY Returns

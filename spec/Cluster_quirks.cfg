CONSTANTS
  MaxSteps = 2
  Shape = "small"
  Quirks = TRUE
SPECIFICATION Spec
INVARIANT TypeOK
INVARIANT NothingForeignUnderTest
INVARIANT ViewsNeverUnderTest
INVARIANT BaseMembersViaBase
INVARIANT MonotoneInVisibility
INVARIANT AnalysisComputesDecision
INVARIANT UnderTestSubsetOfEligible
INVARIANT EligibleSubsetOfUnderTest

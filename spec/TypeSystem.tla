------------------------------ MODULE TypeSystem ------------------------------
(***************************************************************************)
(* Design model of Pynguin's type system + generator providers (C25, C26). *)
(*                                                                         *)
(* State: a class hierarchy declared class by class -- ALL hierarchies     *)
(* within the bounds are reachable (user classes C1..Cn, every class       *)
(* derives from a non-empty set of earlier user classes or from one of the *)
(* builtins object / int / list) --, edges added later by                  *)
(* add_subclass_edge, the registered generators with their current return  *)
(* types, the generator table of the provider (`tab`, what                 *)
(* GeneratorProvider._generators holds: type -> generators registered      *)
(* under it), and the memo of all functools.lru_cache'd queries            *)
(* (TypeSystem.is_subclass / is_subtype / is_maybe_subtype /               *)
(* subtype_distance / get_subclasses / get_superclasses, provider          *)
(* _get_generators_for / _get_for_type).  `h` and `rel` are the closed     *)
(* form of the current graph and the relation matrices over the type       *)
(* universe; they are functions of (hier, extra) kept as variables so that *)
(* TLC computes them once per graph.                                       *)
(*                                                                         *)
(* One action per public call: Declare (module analysis of one class),     *)
(* AddSubclassEdge, AddGenerator, UpdateReturnType, Query.  The laws of    *)
(* C25 are invariants over the matrices of every reachable graph; C26 is   *)
(* OfferedCompatible, ProvidersAgree and CacheCoherent (every memoised     *)
(* answer equals a recomputation on the current graph, hence at the end).  *)
(*                                                                         *)
(* Deviations = {}  : the intended design, every property holds.           *)
(* Deviations # {}  : the code as it is (TypeSystemOps.AllDeviations:      *)
(*                    add_subclass_edge clears the TypeSystem caches but   *)
(*                    not the provider caches, distance quirks);           *)
(*                    TLC must find the counterexamples.                   *)
(***************************************************************************)
EXTENDS TypeSystemOps, TLC, SequencesExt

CONSTANTS NUser,         \* number of user classes
          Level,         \* universe: 0 atoms, 1 + depth-1 types, 2 + depth-2 types, 3 the tuple family
          MaxSteps,      \* bound on the number of calls after the analysis
          Deviations,    \* subset of AllDeviations
          Prov,          \* "G" GeneratorProvider (rank selection) | "R" RandomGeneratorProvider
          FixedRoots     \* TRUE: only the hierarchy in which every class derives from object

AnyDistance == 30

User == [i \in 1..NUser |-> "C" \o ToString(i)]
UserSet == {User[i] : i \in 1..NUser}
Classes == BuiltinClasses \cup UserSet
UA(i) == Cl(User[IF i <= NUser THEN i ELSE NUser])

(* ------------------------------------------------------- hierarchies in bounds *)
BuiltinRoots == {"object", "int", "list"}
HierChoices(i) ==     \* class i: non-empty set of earlier user classes, or one builtin base
  IF FixedRoots THEN {[ub |-> {}, bb |-> "object"]}
  ELSE {[ub |-> S, bb |-> "object"] : S \in (SUBSET {User[j] : j \in 1..(i-1)}) \ {{}}}
         \cup {[ub |-> {}, bb |-> b] : b \in BuiltinRoots}
HierEdges(hr) ==
  UNION {IF hr[i].ub = {} THEN {<<hr[i].bb, User[i]>>} ELSE {<<b, User[i]>> : b \in hr[i].ub}
         : i \in DOMAIN hr}
\* Python refuses classes whose bases have conflicting instance layouts (int and list)
Realizable(hr) ==
  \A i \in DOMAIN hr : Cardinality({b \in {"int", "list"} : User[i] \in Desc(HierEdges(hr), b)}) <= 1

(* ---------------------------------------------------------------- type universe *)
IntT == Cl("int")
ArgAtoms == <<AnyT, NoneT, IntT, Cl("float")>> \o [i \in 1..NUser |-> Cl(User[i])]
NotNone == (DOMAIN ArgAtoms) \ {2}
Atoms == {AnyT, NoneT} \cup {Cl(c) : c \in UserSet \cup {"object", "bool", "int", "float", "complex", "str"}}
Depth1 ==
  {Inst("list", <<ArgAtoms[i]>>) : i \in NotNone}
  \cup {Inst("set", <<ArgAtoms[i]>>) : i \in NotNone}
  \cup {Inst("dict", <<Cl("str"), x>>) : x \in {AnyT, IntT, UA(1)}}
  \cup {Tup(<<ArgAtoms[i]>>) : i \in DOMAIN ArgAtoms}
  \cup {Tup(<<x, ArgAtoms[i]>>) : x \in {IntT, UA(1)}, i \in NotNone}
  \cup {Uni(<<ArgAtoms[p[1]], ArgAtoms[p[2]]>>) :
          p \in {q \in (DOMAIN ArgAtoms) \X (DOMAIN ArgAtoms) : q[1] < q[2]}}
Depth2 ==
  {Inst("list", <<Inst("list", <<x>>)>>) : x \in {IntT, UA(1), AnyT}}
  \cup {Uni(<<NoneT, Inst("list", <<x>>)>>) : x \in {IntT, UA(1), UA(2)}}
  \cup {Inst("list", <<Uni(<<IntT, UA(1)>>)>>), Inst("list", <<Uni(<<NoneT, IntT>>)>>)}
  \cup {Tup(<<Inst("list", <<x>>), UA(1)>>) : x \in {IntT, UA(2)}}
  \cup {Tup(<<Uni(<<IntT, UA(1)>>), IntT>>), Tup(<<Tup(<<IntT>>), NoneT>>)}
  \cup {Inst("dict", <<Cl("str"), Inst("list", <<IntT>>)>>), Inst("set", <<Tup(<<IntT, UA(1)>>)>>)}
  \cup {Uni(<<Tup(<<IntT>>), UA(1)>>), Uni(<<NoneT, Tup(<<IntT, UA(1)>>)>>)}
(* Tuple family (universe level 3): tuples of arity 0..3 that share prefixes -- element-wise *)
(* equal or related through the class graph / the numeric tower / Any --, alone and nested   *)
(* in generics, tuples and unions.  Tuples are of fixed size: two tuples of different arity  *)
(* are unrelated in every relation (Sub, MaybeSub, Dist), whatever their common prefix is.   *)
StrT == Cl("str")
TupleAtoms == {AnyT, NoneT, IntT, Cl("float"), StrT, Cl("object"), UA(1), UA(2)}
TupleAlone ==
  {Tup(<<>>)}
  \cup {Tup(<<x>>) : x \in {IntT, Cl("float"), UA(1), UA(2), AnyT, NoneT}}
  \cup {Tup(<<x, y>>) : x \in {IntT, UA(1)}, y \in {IntT, StrT, UA(2)}}
  \cup {Tup(<<Cl("float"), IntT>>), Tup(<<AnyT, AnyT>>)}
  \cup {Tup(<<IntT, IntT, IntT>>), Tup(<<IntT, StrT, UA(1)>>), Tup(<<UA(1), UA(2), IntT>>),
        Tup(<<UA(2), UA(2), UA(2)>>), Tup(<<AnyT, IntT, NoneT>>)}
TupleNested ==
  {Inst("list", <<t>>) : t \in {Tup(<<>>), Tup(<<IntT>>), Tup(<<IntT, IntT>>), Tup(<<IntT, IntT, IntT>>),
                                Tup(<<UA(1)>>), Tup(<<UA(1), UA(2)>>)}}
  \cup {Inst("set", <<Tup(<<IntT>>)>>), Inst("set", <<Tup(<<IntT, StrT>>)>>)}
  \cup {Inst("dict", <<StrT, t>>) : t \in {Tup(<<IntT>>), Tup(<<IntT, IntT>>)}}
  \cup {Tup(<<Tup(<<>>)>>), Tup(<<Tup(<<IntT>>)>>), Tup(<<Tup(<<IntT, IntT>>)>>), Tup(<<Tup(<<IntT>>), IntT>>)}
  \cup {Uni(<<NoneT, t>>) : t \in {Tup(<<>>), Tup(<<IntT>>), Tup(<<IntT, IntT>>)}}
  \cup {Uni(<<Tup(<<IntT>>), Tup(<<IntT, IntT, IntT>>)>>), Uni(<<UA(1), Tup(<<UA(1), UA(2)>>)>>)}
TupleUniverse == TupleAtoms \cup TupleAlone \cup TupleNested
\* a few of them in the general universes as well
Depth1Tuples == {Tup(<<>>), Tup(<<IntT, IntT, UA(1)>>)}
Depth2Tuples == {Inst("list", <<Tup(<<IntT>>)>>), Inst("list", <<Tup(<<IntT, IntT>>)>>),
                 Uni(<<NoneT, Tup(<<IntT>>)>>)}
UniverseAt(lv) ==
  IF lv = 3 THEN SetToSeq(TupleUniverse)
  ELSE SetToSeq(Atoms \cup (IF lv >= 1 THEN Depth1 \cup Depth1Tuples ELSE {})
                      \cup (IF lv >= 2 THEN Depth2 \cup Depth2Tuples ELSE {}))
UT == UniverseAt(Level)
CS == SetToSeq(Classes)

(* ------------------------------------------------------------ generators (C26) *)
\* present after the module analysis: the constructors and the module function m1;
\* added later by add_generator: x1, xu, xa.  Only functions can change their return type.
ExtraGens == {"x1", "xu", "xa"}
FuncGens == ExtraGens \cup {"m1"}
InitGens == UserSet \cup {"object", "m1"}
InitRet == [g \in InitGens \cup ExtraGens |->
              CASE g = "x1" -> UA(1)                       \* a second generator for C1
                [] g = "m1" -> UA(NUser)
                [] g = "xu" -> Uni(<<UA(NUser - 1), UA(NUser)>>)
                [] g = "xa" -> AnyT                        \* function without annotation
                [] OTHER -> Cl(g)]
ClassIndex(c) == CHOOSE i \in 1..NUser : User[i] = c
\* ModuleTestCluster._add_or_make_union(old, new) for new = Cl(c); items sorted by name
InsertSorted(items, c) ==
  LET lt(t) == t.k = "inst" /\ t.c \in UserSet /\ ClassIndex(t.c) < ClassIndex(c)
  IN SelectSeq(items, lt) \o <<Cl(c)>> \o SelectSeq(items, LAMBDA t : ~lt(t))
AddOrMakeUnion(old, c) ==
  IF old.k = "union"
  THEN IF Len(old.a) >= 5 \/ \E i \in DOMAIN old.a : old.a[i] = Cl(c) THEN old
       ELSE Uni(InsertSorted(old.a, c))
  ELSE IF old = AnyT \/ old = Cl(c) THEN Uni(<<Cl(c)>>)
  ELSE Uni(InsertSorted(<<old>>, c))

VARIABLES hier,     \* sequence of declared classes: hier[i] = bases of C_i
          extra,    \* edges added by add_subclass_edge after the analysis
          h,        \* closed form of the current class graph (MkH)
          rel,      \* relation matrices over the universe for the current graph
          gens,     \* registered generators
          ret,      \* generator -> current return type (generated_type())
          tab,      \* provider._generators as a set of <<type, generator registered under it>>
          memo,     \* lru_cache contents: key -> answer
          steps
vars == <<hier, extra, h, rel, gens, ret, tab, memo, steps>>

Complete == Len(hier) = NUser
EdgesOf(hr, ex) == BuiltinEdges \cup TowerEdges \cup HierEdges(hr) \cup ex
HOf(hr, ex) == MkH(Classes, EdgesOf(hr, ex), AnyDistance)
\* Python's issubclass: reflexive transitive closure of the __bases__ edges (no tower);
\* an edge added by add_subclass_edge stands for a base the analysis found later
RelOf(hh, hr, ex) ==
  [sub   |-> SubMatrix(hh, TRUE, UT),
   maybe |-> SubMatrix(hh, FALSE, UT),
   dist  |-> DistMatrix(hh, Deviations, UT),
   subc  |-> [i \in DOMAIN CS |-> [j \in DOMAIN CS |-> IsSubclass(hh, CS[i], CS[j])]],
   issub |-> LET py == BuiltinEdges \cup HierEdges(hr) \cup ex
             IN [i \in DOMAIN CS |-> [j \in DOMAIN CS |-> CS[i] \in Desc(py, CS[j])]]]
\* provider._generators: type -> generators registered under it.  The providers iterate over
\* the KEYS of this table and judge the key type, never generated_type() of the generator.
TabOf(gs, rt) == {<<rt[g], g>> : g \in gs}
Reg == [t \in {p[1] : p \in tab} |-> {p[2] : p \in {q \in tab : q[1] = t}}]

(* ------------------------------------------------------------------ the caches *)
NoT == [k |-> "-", c |-> "", a |-> <<>>]
Key(q, l, r, n) == [q |-> q, l |-> l, r |-> r, n |-> n]
Ans(b, n, s) == [b |-> b, n |-> n, s |-> s]
ProviderQueries == {"offered", "for_type"}

\* the items an any()/all() generator expression evaluates: up to the first item whose
\* answer is `stop`
EvaluatedPrefix(bs, stop) ==
  LET hit == {i \in DOMAIN bs : bs[i] = stop}
  IN IF hit = {} THEN DOMAIN bs ELSE 1..(CHOOSE i \in hit : \A j \in hit : i <= j)

RECURSIVE Val(_, _, _), Raw(_, _, _)
\* answer of a cached call in state st = [h, reg, prov]: the memo entry if there is one, else a
\* computation whose nested cached calls go through the memo as well
Val(st, m, k) == IF k \in DOMAIN m THEN m[k] ELSE Raw(st, m, k)
Raw(st, m, k) ==
  CASE k.q = "is_subclass" -> Ans(k.l.c \in st.h.desc[k.r.c], 0, {})
    [] k.q \in {"is_subtype", "is_maybe_subtype"} ->
         (CASE k.l.k = "any" -> Ans(TRUE, 0, {})
            [] k.l.k = "inst" -> Ans(Val(st, m, Key("is_subclass", k.l, k.r, 0)).b, 0, {})
            [] k.l.k = "union" ->
                 LET bs == [i \in DOMAIN k.l.a |-> Val(st, m, Key(k.q, k.l.a[i], k.r, 0)).b]
                 IN Ans(IF k.q = "is_subtype" THEN \A i \in DOMAIN bs : bs[i]
                        ELSE \E i \in DOMAIN bs : bs[i], 0, {}))
    [] k.q = "subtype_distance" ->        \* supertype k.l is a plain class
         (CASE k.r.k = "any" -> Ans(FALSE, st.h.anyd, {})
            [] k.r.k = "inst" -> Ans(FALSE, st.h.plen[k.l.c][k.r.c], {})
            [] k.r.k = "union" ->
                 Ans(FALSE, MinDef([i \in DOMAIN k.r.a |->
                                      Val(st, m, Key("subtype_distance", k.l, k.r.a[i], 0)).n]), {}))
    [] k.q = "get_subclasses" -> Ans(FALSE, 0, st.h.desc[k.l.c] \cap UserSet)
    [] k.q = "get_superclasses" -> Ans(FALSE, 0, {c \in UserSet : k.l.c \in st.h.desc[c]})
    [] k.q = "for_type" -> Ans(FALSE, 0, IF k.l \in DOMAIN st.reg THEN st.reg[k.l] ELSE {})
    [] k.q = "offered" ->
         IF st.prov = "G"
         THEN Ans(FALSE, 0, UNION {
                LET d == Val(st, m, Key("subtype_distance", k.l, gt, 0)).n
                IN IF d = Undef THEN {} ELSE Val(st, m, Key("for_type", gt, NoT, d)).s
                : gt \in DOMAIN st.reg})
         ELSE Ans(FALSE, 0, UNION {
                IF Val(st, m, Key("is_maybe_subtype", gt, k.l, 0)).b THEN st.reg[gt] ELSE {}
                : gt \in DOMAIN st.reg})

RECURSIVE Fill(_, _, _)
\* the keys a call adds to the caches (itself and the nested calls that miss)
Fill(st, m, k) ==
  IF k \in DOMAIN m THEN {}
  ELSE {k} \cup
    CASE k.q \in {"is_subtype", "is_maybe_subtype"} ->
           (CASE k.l.k = "inst" -> Fill(st, m, Key("is_subclass", k.l, k.r, 0))
              [] k.l.k = "union" ->
                   LET bs == [i \in DOMAIN k.l.a |-> Val(st, m, Key(k.q, k.l.a[i], k.r, 0)).b]
                   IN UNION {Fill(st, m, Key(k.q, k.l.a[i], k.r, 0)) :
                               i \in EvaluatedPrefix(bs, k.q = "is_maybe_subtype")}
              [] OTHER -> {})
      [] k.q = "subtype_distance" /\ k.r.k = "union" ->
           UNION {Fill(st, m, Key("subtype_distance", k.l, k.r.a[i], 0)) : i \in DOMAIN k.r.a}
      [] k.q = "offered" ->
           IF st.prov = "G"
           THEN UNION {
                  LET d == Val(st, m, Key("subtype_distance", k.l, gt, 0)).n
                  IN Fill(st, m, Key("subtype_distance", k.l, gt, 0)) \cup
                     (IF d = Undef THEN {} ELSE Fill(st, m, Key("for_type", gt, NoT, d)))
                  : gt \in DOMAIN st.reg}
           ELSE UNION {Fill(st, m, Key("is_maybe_subtype", gt, k.l, 0)) : gt \in DOMAIN st.reg}
      [] OTHER -> {}

RECURSIVE Deps(_, _, _)
\* the cache entries the answer of a call is read from (the hits)
Deps(st, m, k) ==
  IF k \in DOMAIN m THEN {k}
  ELSE CASE k.q \in {"is_subtype", "is_maybe_subtype"} ->
           (CASE k.l.k = "inst" -> Deps(st, m, Key("is_subclass", k.l, k.r, 0))
              [] k.l.k = "union" ->
                   LET bs == [i \in DOMAIN k.l.a |-> Val(st, m, Key(k.q, k.l.a[i], k.r, 0)).b]
                   IN UNION {Deps(st, m, Key(k.q, k.l.a[i], k.r, 0)) :
                               i \in EvaluatedPrefix(bs, k.q = "is_maybe_subtype")}
              [] OTHER -> {})
      [] k.q = "subtype_distance" /\ k.r.k = "union" ->
           UNION {Deps(st, m, Key("subtype_distance", k.l, k.r.a[i], 0)) : i \in DOMAIN k.r.a}
      [] k.q = "offered" ->
           IF st.prov = "G"
           THEN UNION {
                  LET d == Val(st, m, Key("subtype_distance", k.l, gt, 0)).n
                  IN Deps(st, m, Key("subtype_distance", k.l, gt, 0)) \cup
                     (IF d = Undef THEN {} ELSE Deps(st, m, Key("for_type", gt, NoT, d)))
                  : gt \in DOMAIN st.reg}
           ELSE UNION {Deps(st, m, Key("is_maybe_subtype", gt, k.l, 0)) : gt \in DOMAIN st.reg}
      [] OTHER -> {}

AfterQuery(st, m, k) ==
  LET new == Fill(st, m, k)
  IN [x \in (DOMAIN m) \cup new |-> IF x \in DOMAIN m THEN m[x] ELSE Val(st, m, x)]
Without(m, kinds) == [x \in {y \in DOMAIN m : y.q \notin kinds} |-> m[x]]
EmptyMemo == [x \in {} |-> Ans(FALSE, 0, {})]

Only(m, kinds) == [x \in {y \in DOMAIN m : y.q \in kinds} |-> m[x]]

\* effect of the three updates on the caches.  add_subclass_edge: cache_clear() of the six
\* TypeSystem queries; the TypeSystem has no link to the providers, so in the code their
\* entries survive (intended: nothing that depends on the graph survives)
MemoAfterAddEdge(m) ==
  IF "NoProviderClearOnAddEdge" \in Deviations THEN Only(m, ProviderQueries) ELSE EmptyMemo
\* GeneratorProvider.add / add_for_type: clear_generator_cache()
MemoAfterAddGenerator(m) == Without(m, ProviderQueries)
MemoAfterUpdateReturnType(m) == Without(m, ProviderQueries)     \* clear_generator_cache()

Queries ==
  {Key(q, Cl(x), Cl(y), 0) : q \in {"is_subclass", "is_subtype", "is_maybe_subtype", "subtype_distance"},
                              x \in UserSet, y \in UserSet}
  \cup {Key(q, Cl(x), NoT, 0) : q \in {"get_subclasses", "get_superclasses", "offered"}, x \in UserSet}

(* ---------------------------------------------------------------------- actions *)
NoH == [cls |-> {}]
NoRel == [sub |-> <<>>]
Init == /\ hier = <<>> /\ extra = {} /\ h = NoH /\ rel = NoRel
        /\ gens = InitGens
        /\ ret = InitRet
        /\ tab = TabOf(InitGens, InitRet)
        /\ memo = EmptyMemo
        /\ steps = 0

\* the module analysis meets the next class (ModuleTestCluster / __analyse_included_classes)
Declare(choice) ==
  /\ ~Complete
  /\ LET hr == Append(hier, choice) IN
       /\ Realizable(hr)
       /\ hier' = hr
       /\ IF Len(hr) = NUser
          THEN LET hh == HOf(hr, {}) IN h' = hh /\ rel' = RelOf(hh, hr, {})
          ELSE UNCHANGED <<h, rel>>
  /\ UNCHANGED <<extra, gens, ret, tab, memo, steps>>

\* TypeSystem.add_subclass_edge(super_class=sup, sub_class=sub); the graph stays acyclic
AddSubclassEdge(sup, sub) ==
  /\ sup # sub /\ <<sup, sub>> \notin EdgesOf(hier, extra) /\ sup \notin h.desc[sub]
  /\ LET ex == extra \cup {<<sup, sub>>}
         hh == HOf(hier, ex)
     IN extra' = ex /\ h' = hh /\ rel' = RelOf(hh, hier, ex)
  /\ memo' = MemoAfterAddEdge(memo)
  /\ UNCHANGED <<hier, gens, ret, tab>>

\* ModuleTestCluster.add_generator(g): GeneratorProvider.add registers g under generated_type()
AddGenerator(g) ==
  /\ g \notin gens
  /\ gens' = gens \cup {g}
  /\ tab' = IF Registered(ret[g]) THEN tab \cup {<<ret[g], g>>} ELSE tab   \* None / primitives: not kept
  /\ memo' = MemoAfterAddGenerator(memo)
  /\ UNCHANGED <<hier, extra, h, rel, ret>>

\* ModuleTestCluster.update_return_type(g, Instance(c)): _drop_generator removes the registration
\* under the OLD return type, clear_generator_cache(), the signature gets the new return type,
\* add_for_type registers g under the NEW type.  Any -> {c} narrows what g is good for,
\* T -> T | c widens it.
UpdateReturnType(g, c) ==
  /\ g \in gens \cap FuncGens
  /\ LET new == AddOrMakeUnion(ret[g], c) IN
       /\ new # ret[g]
       /\ ret' = [ret EXCEPT ![g] = new]
       /\ tab' = (tab \ {<<ret[g], g>>}) \cup {<<new, g>>}
  /\ memo' = MemoAfterUpdateReturnType(memo)
  /\ UNCHANGED <<hier, extra, h, rel, gens>>

Query(k) == /\ memo' = AfterQuery([h |-> h, reg |-> Reg, prov |-> Prov], memo, k)
            /\ UNCHANGED <<hier, extra, h, rel, gens, ret, tab>>

Next == \/ \E ch \in HierChoices(Len(hier) + 1) : Declare(ch)
        \/ /\ Complete /\ steps < MaxSteps
           /\ steps' = steps + 1
           /\ \/ \E a \in UserSet, b \in UserSet : AddSubclassEdge(a, b)
              \/ \E g \in ExtraGens : AddGenerator(g)
              \/ \E g \in gens, c \in UserSet : UpdateReturnType(g, c)
              \/ \E k \in Queries : Query(k)

Spec == Init /\ [][Next]_vars

(* ------------------------------------------------------------------- properties *)
(* C25: laws on the matrices of the current graph *)
Refl == Complete => LawRefl(UT, rel.sub)
Trans == Complete => LawTrans(UT, rel.sub)
AnyTop == Complete => LawAnyTop(UT, rel.sub) /\ LawAnyTop(UT, rel.maybe)
UnionAll == Complete => LawUnionAll(UT, rel.sub)
InstFollowsClass == Complete => LawInstFollowsClass(UT, rel.sub, CS, rel.subc)
AgreesWithIssubclass == Complete => LawAgreesWithIssubclass(CS, rel.subc, rel.issub)
DistDefinedOnlyWhenMaybeSub == Complete => LawDistOnlyWhenMaybeSub(UT, rel.dist, rel.maybe)
DistZeroOnIdentity == Complete => LawDistZeroOnIdentity(UT, rel.dist)
\* what the two providers need in order to agree: defined exactly when maybe-subtype
DistDefinedIffMaybeSub ==
  Complete => \A i \in DOMAIN UT : \A j \in DOMAIN UT : (rel.dist[i][j] # Undef) <=> rel.maybe[j][i]
StrictImpliesMaybe ==
  Complete => \A i \in DOMAIN UT : \A j \in DOMAIN UT : rel.sub[i][j] => rel.maybe[i][j]

(* C26: one generator per registrable universe type; every universe type is requested *)
GenIdx == {j \in DOMAIN UT : Registered(UT[j])}
OffG(i) == OfferedGM(UT, rel.dist, Deviations, GenIdx, i)
OffR(i) == OfferedRM(UT, rel.maybe, GenIdx, i)
OfferedCompatible == Complete => \A i \in DOMAIN UT : \A g \in OffG(i) \cup OffR(i) : rel.maybe[g][i]
ProvidersAgree == Complete => \A i \in DOMAIN UT : OffG(i) = OffR(i)
\* every memoised answer is what a fresh TypeSystem / provider computes on the current graph
CacheCoherent ==
  Complete => LET st == [h |-> h, reg |-> Reg, prov |-> Prov]
              IN \A k \in DOMAIN memo : memo[k] = Raw(st, EmptyMemo, k)

\* every generator (that is kept at all) is registered exactly once, under the type it generates now
TableConsistent == tab = TabOf({g \in gens : Registered(ret[g])}, ret)
\* C26 along a history: every generator in a memoised offered set returns -- NOW -- a type that
\* may be a subtype of the requested type.  (Holds under NoProviderClearOnAddEdge too: an offered
\* set that survives an edge only misses generators, the relations grow with the graph.)
OfferedNowCompatible ==
  Complete => \A k \in DOMAIN memo : k.q = "offered" => \A g \in memo[k].s : MaybeSub(h, ret[g], k.l)

(* all laws by name: the deviation runs report which of them fail *)
LawNames == {"Refl", "Trans", "AnyTop", "UnionAll", "InstFollowsClass", "AgreesWithIssubclass",
             "DistDefinedOnlyWhenMaybeSub", "DistZeroOnIdentity", "DistDefinedIffMaybeSub",
             "StrictImpliesMaybe", "OfferedCompatible", "ProvidersAgree", "CacheCoherent"}
Holds(n) ==
  CASE n = "Refl" -> Refl [] n = "Trans" -> Trans [] n = "AnyTop" -> AnyTop
    [] n = "UnionAll" -> UnionAll [] n = "InstFollowsClass" -> InstFollowsClass
    [] n = "AgreesWithIssubclass" -> AgreesWithIssubclass
    [] n = "DistDefinedOnlyWhenMaybeSub" -> DistDefinedOnlyWhenMaybeSub
    [] n = "DistZeroOnIdentity" -> DistZeroOnIdentity
    [] n = "DistDefinedIffMaybeSub" -> DistDefinedIffMaybeSub
    [] n = "StrictImpliesMaybe" -> StrictImpliesMaybe
    [] n = "OfferedCompatible" -> OfferedCompatible [] n = "ProvidersAgree" -> ProvidersAgree
    [] n = "CacheCoherent" -> CacheCoherent
ViolatedLaws == {n \in LawNames : ~Holds(n)}
\* always true; prints the violated laws of every complete state that violates one
ReportViolated == (Complete /\ ViolatedLaws # {}) => PrintT(<<"VIOLATED", ViolatedLaws>>)

TypeOK == /\ gens \subseteq DOMAIN ret
          /\ TableConsistent
          /\ steps \in 0..MaxSteps
          /\ extra \subseteq UserSet \X UserSet
          /\ Len(hier) <= NUser
=============================================================================

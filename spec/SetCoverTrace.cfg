SPECIFICATION Spec
INVARIANT Returns
INVARIANT SelSubset
INVARIANT SelKillsPreserved
INVARIANT Subset
INVARIANT KillsPreserved
INVARIANT RerunKillsPreserved
INVARIANT KeptAssertionsHold
INVARIANT ScoreIn01
INVARIANT ScoreIgnoresTimeoutsAndUnchecked
INVARIANT ConformSelect
INVARIANT ConformArgUntouched
INVARIANT ConformCounts
INVARIANT ConformOrder
INVARIANT ConformExceptionKept
INVARIANT ConformScoreOne
INVARIANT ConformMetrics

CONSTANTS
  Depth = 2
  AllVias = TRUE
  Prune = TRUE
SPECIFICATION Spec
INVARIANT Emit

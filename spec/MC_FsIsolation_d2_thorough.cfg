CONSTANTS
  Depth = 2
  AllVias = TRUE
  Prune = TRUE
  PruneLast = TRUE
SPECIFICATION Spec
INVARIANT Emit

CONSTANTS
  Depth = 2
  AllVias = TRUE
  LastAllVias = FALSE
  Prune = TRUE
  PruneLast = TRUE
  Repr = FALSE
SPECIFICATION Spec
INVARIANT Emit

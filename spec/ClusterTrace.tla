---------------------------- MODULE ClusterTrace -----------------------------
(* Trace validation for C27.  A trace is one rendered module: M (member records, *)
(* `def` determined by inspection of the imported objects), the ignore_modules    *)
(* setting, and one event per real call of generate_test_cluster (one per         *)
(* ElementVisibility value) carrying the observed set `ut` of members in          *)
(* accessible_objects_under_test.  TLC evaluates the clauses of C27 (ClusterOps   *)
(* Part 1) on every event.  focus = 0: all members; focus = i: member i only      *)
(* (attribution of a violated clause to a member).                                *)
EXTENDS ClusterOps, TLC, TLCExt, Json, IOUtils

Traces == ndJsonDeserialize(IOEnv.TRACE_FILE)

VARIABLES tid, l, cur
vars == <<tid, l, cur>>

NoEv == [vis |-> "PUBLIC", ut |-> <<>>]
Init == /\ tid \in 1..Len(Traces) /\ l = 0 /\ cur = NoEv
Next == /\ l < Len(Traces[tid].ev)
        /\ l' = l + 1
        /\ cur' = Traces[tid].ev[l + 1]
        /\ UNCHANGED tid
Spec == Init /\ [][Next]_vars

T == Traces[tid]
Scope == IF T.focus = 0 THEN DOMAIN T.M ELSE {T.focus}
Obs(e) == {e.ut[k] : k \in DOMAIN e.ut}
UT == Obs(cur) \cap Scope

(* C27: exactly the eligible callables ... *)
UnderTestSubsetOfEligible == l > 0 => \A i \in UT : May(T.M, i, cur.vis, T.modign)
EligibleSubsetOfUnderTest ==
  l > 0 => \A i \in Scope : Must(T.M, i, cur.vis, T.modign) => i \in UT
(* ... and nothing defined in another module: directly (imported functions / classes and    *)
(* their members) or as the view of a member a SUT class merely inherits from a class of     *)
(* another module.  (The view of a member inherited from a SUT class is not foreign and is  *)
(* accepted by May: it is written in the module under test.)                                  *)
NothingForeignUnderTest == l > 0 => \A i \in UT : ~Foreign(T.M, i)

(* not part of C27 (reported as drift): the code decides exactly like ClusterOps!CodeInclude *)
(* and relaxing the visibility never removes a callable.  Quirks = FALSE: the deviations the  *)
(* Quirks = TRUE procedure describes have been repaired in the tree under verification, the   *)
(* code now follows the intended procedure.                                                    *)
ModelAgrees ==
  l > 0 => \A i \in Scope : (i \in UT) = CodeInclude(T.M, i, cur.vis, T.modign, FALSE)
ObservedMonotone ==
  [][(l > 0 /\ VisRank(cur.vis) <= VisRank(cur'.vis)) => Obs(cur) \subseteq Obs(cur')]_vars
(* harness sanity *)
RecordsWellTyped == \A i \in DOMAIN T.M : WellTyped(T.M[i])
=============================================================================

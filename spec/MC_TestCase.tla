----------------------------- MODULE MC_TestCase ------------------------------
(***************************************************************************)
(* Behaviour extraction for the C15 API replay (P2): histories of TestCase *)
(* API calls with abstract arguments on two test case objects, starting    *)
(* from every pair of seed test cases.  Calls are generated with AND       *)
(* without the callers' guards (fresh / duplicate bound names, reads of    *)
(* bound / unbound variables, closed / open removal sets): the trace spec  *)
(* decides per call whether the guard held on the REAL pre-state.          *)
(* The model state only serves to generate meaningful arguments.           *)
(***************************************************************************)
EXTENDS TestCaseOps, TLC, Json

CONSTANTS Depth,     \* number of calls per history
          Types,
          MaxUses,   \* variables a generated statement may read
          RawToo,    \* also generate unguarded statements / removals
          SeedIds,   \* which seed test cases objects start from
          Subjects,  \* objects the calls are made on
          Pick       \* TRUE (simulation): one random argument per kind of call instead of all

VARIABLES obj, hist, init
vars == <<obj, hist, init>>
Objs == {1, 2}
TyOpt == Types \cup {NoType}

S(b, U, ty) == Stmt(b, U, ty)
Build(q, c) == [st |-> q, reg |-> Rebuild(q), ctr |-> c]
Seed(k) ==
  CASE k = 0 -> EmptyTC
    [] k = 1 -> Build(<<S(0, {}, "A"), S(1, {0}, "B"), S(NoVar, {1}, NoType)>>, 2)
    [] k = 2 -> Build(<<S(0, {}, "A"), S(1, {}, "A"), S(2, {0, 1}, NoType), S(3, {2}, "B")>>, 4)
    [] k = 3 -> Build(<<S(0, {}, "B"), S(NoVar, {0}, NoType), S(2, {0}, "A"), S(3, {2, 0}, "A")>>, 5)
    [] k = 4 -> Build(<<S(1, {}, "A"), S(0, {1}, "A"), S(2, {0}, "B"), S(3, {1}, "B"), S(4, {3, 2}, NoType)>>, 5)

Subsets(U) == {V \in SUBSET U : Cardinality(V) <= MaxUses}
NoStmt == [bv |-> NoVar, uses |-> {}, ty |-> NoType, fresh |-> FALSE]
Act(op, o, o2, i, R, s, seed) ==
  [op |-> op, o |-> o, o2 |-> o2, i |-> i, S |-> R, s |-> s, seed |-> seed]

\* statements a caller may pass for 0-based position pos
GoodStmts(t, pos) ==
  {[bv |-> b, uses |-> U, ty |-> ty, fresh |-> (b # NoVar)] :
      b \in {t.ctr, NoVar}, U \in Subsets(BoundBefore(t.st, pos + 1)), ty \in TyOpt}
\* ... and statements a caller must not pass: an already bound name or one that next_var_name
\* did not hand out, reads of variables that are not (yet) bound
Lowest(U) == IF U = {} THEN {} ELSE {CHOOSE x \in U : \A y \in U : x <= y}
Highest(U) == IF U = {} THEN {} ELSE {CHOOSE x \in U : \A y \in U : x >= y}
BadStmts(t) ==
  IF RawToo
  THEN {[bv |-> b, uses |-> U, ty |-> ty, fresh |-> FALSE] :
          b \in Lowest(BoundVars(t.st)) \cup {t.ctr + 1},
          U \in {{}, {t.ctr}} \cup {Highest(BoundVars(t.st))},
          ty \in {CHOOSE x \in Types : TRUE}}
  ELSE {}
AsStmt(s) == Stmt(s.bv, s.uses, s.ty)
Prep(t, s) == IF s.fresh THEN AfterNextVar(t) ELSE t

\* -simulate computes every successor of a state before it picks one: with Pick the argument of
\* each kind of call is drawn first (TLC's RandomElement, seeded by -seed)
Sel(X) == IF Pick /\ X # {} THEN {RandomElement(X)} ELSE X

Do(o, t2, a) == /\ obj' = [obj EXCEPT ![o] = t2]
                /\ hist' = Append(hist, a)
                /\ UNCHANGED init

Step(o) ==
  LET t == obj[o]
      n == Len(t.st)
      o2 == 3 - o
  IN
  \/ \E s \in Sel(GoodStmts(t, n) \cup BadStmts(t)) :
        Do(o, Add(Prep(t, s), AsStmt(s)), Act("add", o, 0, 0, {}, s, 0))
  \/ \E i \in Sel(0..(n + 1)) : \E s \in Sel(GoodStmts(t, Min(i, n)) \cup BadStmts(t)) :
        Do(o, Insert(Prep(t, s), i, AsStmt(s)), Act("insert", o, 0, i, {}, s, 0))
  \/ \E i \in Sel(0..(n - 1)) :
      \E s \in Sel(GoodStmts(t, i) \cup BadStmts(t)
                   \cup {[bv |-> t.st[i + 1].bv, uses |-> U, ty |-> ty, fresh |-> FALSE] :
                           U \in Subsets(BoundBefore(t.st, i + 1)), ty \in TyOpt}) :
        Do(o, Replace(Prep(t, s), i, AsStmt(s)), Act("replace", o, 0, i, {}, s, 0))
  \/ \E i \in Sel(0..(n - 1)) :
        /\ (RawToo \/ SafeRemove(t, i))
        /\ Do(o, Remove(t, i), Act("remove", o, 0, i, {}, NoStmt, 0))
  \/ \E R \in Sel(SUBSET (0..(n - 1))) :
        /\ (RawToo \/ SafeRemoveBatch(t, R))
        /\ Do(o, RemoveBatch(t, R), Act("remove_batch", o, 0, 0, R, NoStmt, 0))
  \/ \E p \in Sel((-1)..n) : Do(o, Chop(t, p), Act("chop", o, 0, p, {}, NoStmt, 0))
  \/ \E i \in Sel(0..(n - 1)) : Do(o, RemoveWithFwd(t, i), Act("remove_fwd", o, 0, i, {}, NoStmt, 0))
  \/ \E i \in Sel(0..(n - 1)) : Do(o, RemoveWithFwd(t, i), Act("delete_gracefully", o, 0, i, {}, NoStmt, 0))
  \/ \E other \in Objs : \E start \in Sel(0..Len(obj[other].st)), seed \in Sel(1..2) :
        Do(o, AppendFrom(t, obj[other], start, <<seed, seed>>),
           Act("append_from", o, other, start, {}, NoStmt, seed))
  \/ Do(o, RemoveUnused(t), Act("remove_unused", o, 0, 0, {}, NoStmt, 0))
  \/ Do(o2, Clone(t), Act("clone", o, o2, 0, {}, NoStmt, 0))
  \/ Do(o, AfterNextVar(t), Act("next_var", o, 0, 0, {}, NoStmt, 0))

Init == /\ obj \in [Objs -> {Seed(k) : k \in SeedIds}]
        /\ hist = <<>>
        /\ init = obj

Next == Len(hist) < Depth /\ \E o \in Subjects : Step(o)
Spec == Init /\ [][Next]_vars

Small == \A o \in Objs : Len(obj[o].st) <= 7 /\ obj[o].ctr <= 9

Plain(t) == [st |-> t.st, ctr |-> t.ctr]
Emit == Len(hist) = Depth =>
          PrintT(<<"HIST", ToJson([init |-> <<Plain(init[1]), Plain(init[2])>>, hist |-> hist])>>)
=============================================================================

SPECIFICATION Spec
INVARIANT DistancesWellFormed
INVARIANT OnlyRaisesIfOpRaises
INVARIANT RecordedOnce
INVARIANT ObserveOnly
INVARIANT EnabledRestored
INVARIANT StillRecording
INVARIANT EvaluationRecorded
INVARIANT NothingRecordedIfOpRaises

CONSTANTS
  Depth = 8
  Types = {"A", "B"}
  MaxUses = 2
  RawToo = TRUE
  SeedIds = {0, 1, 2, 3, 4}
  Subjects = {1}
  Pick = TRUE
SPECIFICATION Spec
CONSTRAINT Small

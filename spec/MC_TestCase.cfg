CONSTANTS
  Depth = 1
  Types = {"A", "B"}
  MaxUses = 1
  RawToo = TRUE
  SeedIds = {0, 1, 3}
  Subjects = {1}
  Pick = FALSE
SPECIFICATION Spec
INVARIANT Emit
CONSTRAINT Small

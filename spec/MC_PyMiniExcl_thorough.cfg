CONSTANTS
  MaxMarkers = 2
  ScopeCfgs = {"none"}
SPECIFICATION Spec
INVARIANT Emit

CONSTANTS
  Depth = 12
  Types = {"A", "B"}
  MaxUses = 2
  RawToo = FALSE
  SeedIds = {0, 1, 2, 3, 4}
  Subjects = {1, 2}
  Pick = TRUE
SPECIFICATION Spec
CONSTRAINT Small

CONSTANTS
  N = 2
  Programs <- DesignPrograms
  TraceIsThreadLocal = FALSE
  CheckOnCallback = FALSE
  Controlled = FALSE
SPECIFICATION Spec
INVARIANT NoPollution

CONSTANTS
  N = 2
  Programs <- DesignPrograms
  TraceIsThreadLocal = TRUE
  CheckOnCallback = TRUE
  Controlled = FALSE
SPECIFICATION Spec
INVARIANT TypeOK
INVARIANT NoPollution
INVARIANT ResultIsOwnTrace
INVARIANT OutputRestored
PROPERTY TimeoutReported
PROPERTY ExecuteReturns

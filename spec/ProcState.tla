------------------------------ MODULE ProcState -------------------------------
(***************************************************************************)
(* Process state touched by executing test cases in-process (C30):         *)
(* pynguin.testcase.execution.TestCaseExecutor.execute +                   *)
(* execution_isolation.OutputSuppressionContext / _make_deterministic.     *)
(*                                                                         *)
(* State: where sys.stdout/sys.stderr point, whether the shared null file  *)
(* and the OS-level descriptors 1/2 are open, the process-wide logging     *)
(* disable level, Pynguin's own random stream, the `random` module's       *)
(* stream used by the SUT, and a module global of the SUT (hidden state).  *)
(* A test case is a sequence of SUT steps; the executor brackets it with   *)
(* Enter (reseed `random`, save fds, redirect streams) and Exit (restore). *)
(* RestoreLogging / ReopenNull name what the executor must do for the      *)
(* property to hold; with FALSE they model an executor that does not.      *)
(***************************************************************************)
EXTENDS Naturals, Sequences, FiniteSets, TLC

CONSTANTS Steps,          \* SUT step kinds
          MaxTests,       \* test cases per history
          MaxSteps,       \* SUT steps per test case
          RestoreLogging, \* the executor restores logging.disable after a test case
          ReopenNull      \* the executor never hands a closed null file to the SUT

VARIABLES out,       \* "orig" | "null": what sys.stdout / sys.stderr point to
          nullOpen,  \* the shared /dev/null file object is open
          fdOpen,    \* OS descriptors 1 and 2 are open
          savedFds,  \* the executor holds duplicates of the descriptors
          logOff,    \* logging.disable level is raised
          prng,      \* Pynguin's own random stream position
          srng,      \* position of the `random` module's stream: "seeded" | "moved"
          glob,      \* SUT module global (hidden state)
          phase,     \* "idle" | "running"
          n,         \* test cases executed so far
          k,         \* SUT steps taken by the running test case
          res        \* results of the executed test cases: sequence of sets of observations
vars == <<out, nullOpen, fdOpen, savedFds, logOff, prng, srng, glob, phase, n, k, res>>

Init == /\ out = "orig" /\ nullOpen = TRUE /\ fdOpen = TRUE /\ savedFds = FALSE /\ logOff = FALSE
        /\ prng = 0 /\ srng = "moved" /\ glob = 0 /\ phase = "idle" /\ n = 0 /\ k = 0 /\ res = <<>>

(* execute(): _make_deterministic, OutputSuppressionContext.__enter__ *)
Enter ==
  /\ phase = "idle" /\ n < MaxTests
  /\ phase' = "running" /\ srng' = "seeded" /\ savedFds' = TRUE /\ out' = "null"
  /\ nullOpen' = IF ReopenNull THEN TRUE ELSE nullOpen
  /\ res' = Append(res, {}) /\ k' = 0
  /\ UNCHANGED <<fdOpen, logOff, prng, glob, n>>

Obs(o) == res' = [res EXCEPT ![Len(res)] = @ \cup {o}]

(* one SUT statement *)
SutStep(s) ==
  /\ phase = "running" /\ k < MaxSteps /\ k' = k + 1
  /\ CASE s = "print" ->
            /\ Obs(IF nullOpen THEN "printed" ELSE "print-raised")
            /\ UNCHANGED <<out, nullOpen, fdOpen, savedFds, logOff, prng, srng, glob, phase, n>>
       [] s = "raise" ->
            /\ Obs("raised")
            /\ UNCHANGED <<out, nullOpen, fdOpen, savedFds, logOff, prng, srng, glob, phase, n>>
       [] s = "close_stdout" ->
            /\ nullOpen' = FALSE /\ Obs("closed")
            /\ UNCHANGED <<out, fdOpen, savedFds, logOff, prng, srng, glob, phase, n>>
       [] s = "close_fd" ->
            /\ fdOpen' = FALSE /\ Obs("fd-closed")
            /\ UNCHANGED <<out, nullOpen, savedFds, logOff, prng, srng, glob, phase, n>>
       [] s = "log_disable" ->
            /\ logOff' = TRUE /\ Obs("log")
            /\ UNCHANGED <<out, nullOpen, fdOpen, savedFds, prng, srng, glob, phase, n>>
       [] s = "seed" ->
            /\ srng' = "moved" /\ Obs("seeded")
            /\ UNCHANGED <<out, nullOpen, fdOpen, savedFds, logOff, prng, glob, phase, n>>
       [] s = "draw" ->
            /\ Obs(IF srng = "seeded" THEN "draw-first" ELSE "draw-later") /\ srng' = "moved"
            /\ UNCHANGED <<out, nullOpen, fdOpen, savedFds, logOff, prng, glob, phase, n>>
       [] s = "draw_inst" ->       \* draws from a module-level random.Random(seed) instance of the SUT
            /\ Obs(IF srng = "seeded" THEN "draw-first" ELSE "draw-later") /\ srng' = "moved"
            /\ UNCHANGED <<out, nullOpen, fdOpen, savedFds, logOff, prng, glob, phase, n>>
       [] s = "log_hang" ->        \* disables logging, then never returns (the executor times out)
            /\ logOff' = TRUE /\ Obs("timeout")
            /\ UNCHANGED <<out, nullOpen, fdOpen, savedFds, prng, srng, glob, phase, n>>
       [] s = "mutate_global" ->
            /\ glob' = 1 /\ Obs(IF glob = 0 THEN "glob-first" ELSE "glob-later")
            /\ UNCHANGED <<out, nullOpen, fdOpen, savedFds, logOff, prng, srng, phase, n>>

(* OutputSuppressionContext.restore (+ what the executor must restore besides) *)
Exit ==
  /\ phase = "running"
  /\ phase' = "idle" /\ n' = n + 1
  /\ out' = "orig" /\ fdOpen' = (fdOpen \/ savedFds) /\ savedFds' = FALSE
  /\ logOff' = IF RestoreLogging THEN FALSE ELSE logOff
  /\ UNCHANGED <<nullOpen, prng, srng, glob, res, k>>

Next == Enter \/ Exit \/ \E s \in Steps : SutStep(s)
Spec == Init /\ [][Next]_vars

Short == \A i \in DOMAIN res : Cardinality(res[i]) <= 2

(* ---- C30 ---- *)
Restored == phase = "idle" => (out = "orig" /\ fdOpen /\ ~logOff /\ prng = 0)
(* without hidden state the observations of a test case depend only on its own steps:   *)
(* a step never observes something that an EARLIER test case caused                      *)
NoCarryOver == \A i \in DOMAIN res : "print-raised" \in res[i] => "closed" \in res[i]
=============================================================================

CONSTANTS
  RaiseKinds = {"none", "cmp_incomparable", "bool_raises", "len_raises", "contains_raises", "eq_raises", "attr_error", "user_raise", "nomatch_handler", "in_noniterable", "lt_nan", "eq_decimal_float", "cmp_huge"}
  MaxLen = 3
SPECIFICATION Spec
INVARIANT Emit

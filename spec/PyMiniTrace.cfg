SPECIFICATION Spec
INVARIANT InstrumentationSucceeds
INVARIANT BehaviourPreserved
INVARIANT ReportedLinesExact
INVARIANT NoForeignLines
INVARIANT BranchOutcomesExact
INVARIANT PredicatesRegistered
INVARIANT CodeObjectEntered
INVARIANT ConformLines
INVARIANT ConformOutcomes
INVARIANT ConformBehaviour

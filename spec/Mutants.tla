------------------------------- MODULE Mutants --------------------------------
(***************************************************************************)
(* Design model for C28: one shared syntax tree, the mutant enumerations   *)
(* of FirstOrderMutator (historical order / `_select_mutations` with caps  *)
(* and reorder) and HighOrderMutator (generator stacks), driven by every   *)
(* consumer schedule: Start (call `mutate` / `create_mutants`: a generator *)
(* object, nothing runs), Next, Close (GeneratorExit delivered at the      *)
(* yield), Abandon (drop the reference; the collector closes it later),    *)
(* Collect, Count (`mutation_count` / `mutant_count`).                     *)
(*                                                                         *)
(* AsCoded = TRUE  : the pinned code -- the write-back after a yield is not *)
(*                   in a `finally`, and HighOrderMutator inherits          *)
(*                   FirstOrderMutator.mutation_count.                      *)
(* AsCoded = FALSE : the suggested fixes (write-back in `finally`, the      *)
(*                   regenerating generators closed in a `finally`, HOM     *)
(*                   count = number of groups).                             *)
(* EarlyExit       : whether the consumer may close / abandon a suspended   *)
(*                   enumeration.                                           *)
(* FinishReversed  : `_finish_generators` resumes the stack in reverse.     *)
(***************************************************************************)
EXTENDS MutantsOps

CONSTANTS AsCoded, EarlyExit, FinishReversed,
          FiniteCaps,   \* the `maximum_mutants` values >= 0 explored (besides -1)
          Strats,       \* subset of {"each", "ftl"}
          Orders,       \* HOM orders
          MaxActs, MaxStarts

VARIABLES slot,    \* the shared tree
          enum,    \* the (single) enumeration object of the consumer
          held,    \* the consumer still holds a reference to it
          cnt,     \* last Count: [n |-> reported, expect |-> mutants the full enumeration yields]
          failed,  \* an `assert` of the mutator fired
          halt,    \* exploration stops after a Count (see Count)
          nact, nstart
vars == <<slot, enum, held, cnt, failed, halt, nact, nstart>>

Unlimited == -1

(* the tree used by the .cfg files (cfg files cannot write tuples):                  *)
(*   root list = [1, 3, 4], node 2 is a child of node 1.  Operator "A" mutates node 3, *)
(*   "B" nodes 1, 2, 3 and "C" node 4; "A" is timeout-prone (scheduled last on reorder) *)
T1Parent == <<0, 1, 0, 0>>
T1Alt == <<<<"B">>, <<"B">>, <<"A", "B">>, <<"C">>>>
T1OpSeq == <<"A", "B", "C">>
Configs ==
  {[mode |-> IF c < 0 /\ ~r THEN "plain" ELSE "select", cap |-> c, reorder |-> r,
    strat |-> "none", order |-> 1] : c \in FiniteCaps \cup {Unlimited}, r \in BOOLEAN}
  \cup {[mode |-> "hom", cap |-> Unlimited, reorder |-> FALSE, strat |-> s, order |-> o] :
          s \in Strats, o \in Orders}

NoCfg == [mode |-> "none", cap |-> Unlimited, reorder |-> FALSE, strat |-> "none", order |-> 1]
NewEnum(c, st) ==
  [cfg |-> c, st |-> st,
   opi |-> 0,          \* plain: index of the operator whose walk is running
   gens |-> <<>>,      \* live operator generators: <<walk>> | <<only>> | HOM stack
   todoM |-> <<>>,     \* select: mutations still to regenerate
   todoG |-> <<>>,     \* hom: groups still to apply
   full |-> <<>>,      \* ghost: the full first-order enumeration seen when the body started
   yielded |-> <<>>]   \* ghost: what has been yielded so far (sequence of mutation lists)
NoEnum == NewEnum(NoCfg, "none")

Live == enum.st \in {"fresh", "susp"}

Init == /\ slot = Pristine /\ enum = NoEnum /\ held = FALSE
        /\ cnt = [n |-> 0, expect |-> 0, hom |-> FALSE] /\ failed = FALSE /\ halt = FALSE
        /\ nact = 0 /\ nstart = 0

(* ----------------------------------------------------------------------- *)
(* the bodies of the three `mutate` generators, from resume to next yield   *)
(* ----------------------------------------------------------------------- *)
Result(e, s, f) == [enum |-> e, slot |-> s, failed |-> f]

Susp(e, gens, muts) == [e EXCEPT !.st = "susp", !.gens = gens, !.yielded = Append(@, muts)]
Done(e) == [e EXCEPT !.st = "done", !.gens = <<>>]

(* historical order: for op in operators: for mutation, mutant in op.mutate(...): yield *)
RECURSIVE AdvPlain(_, _, _, _)
AdvPlain(e, opi, stack, s) ==
  IF opi > Len(OpSeq) THEN Result(Done([e EXCEPT !.opi = opi]), s, FALSE)
  ELSE LET g == WalkGen(OpSeq[opi])
           r == Run(g, stack, s)
       IN IF r.out = "yield"
          THEN Result(Susp([e EXCEPT !.opi = opi], <<[g |-> g, stack |-> r.stack]>>, <<Yielded(r.stack)>>),
                      r.slot, FALSE)
          ELSE AdvPlain(e, opi + 1, Fresh, r.slot)

(* `_select_mutations` path: regenerate each selected mutation with its own generator *)
ContSelect(e, todo, s) ==
  IF todo = <<>> THEN Result(Done([e EXCEPT !.todoM = <<>>]), s, FALSE)
  ELSE LET g == OnlyGen(Head(todo))
           r == Run(g, Fresh, s)
       IN IF r.out = "yield"
          THEN Result(Susp([e EXCEPT !.todoM = Tail(todo)], <<[g |-> g, stack |-> r.stack]>>,
                           <<Yielded(r.stack)>>), r.slot, FALSE)
          ELSE Result(Done(e), r.slot, TRUE)   \* "Selected mutation could not be regenerated"

ResumeSelect(e, s) ==
  LET r == Run(e.gens[1].g, e.gens[1].stack, s) IN
  IF r.out = "done" THEN ContSelect(e, e.todoM, r.slot)
  ELSE Result(Done(e), r.slot, TRUE)           \* "Mutation operator yielded more than once"

(* HighOrderMutator.mutate: apply the group one generator after the other on the SAME tree *)
RECURSIVE ApplyGroup(_, _, _, _)
ApplyGroup(group, gens, s, ok) ==
  IF group = <<>> THEN [gens |-> gens, slot |-> s, ok |-> ok]
  ELSE LET g == OnlyGen(Head(group))
           r == Run(g, Fresh, s)
       IN IF r.out = "yield"
          THEN ApplyGroup(Tail(group), Append(gens, [g |-> g, stack |-> r.stack]), r.slot, ok)
          ELSE [gens |-> gens, slot |-> r.slot, ok |-> FALSE]   \* assert next_value is not None

ContHom(e, groups, s) ==
  IF groups = <<>> THEN Result(Done([e EXCEPT !.todoG = <<>>]), s, FALSE)
  ELSE LET a == ApplyGroup(Head(groups), <<>>, s, TRUE) IN
       IF a.ok THEN Result(Susp([e EXCEPT !.todoG = Tail(groups)], a.gens, Head(groups)), a.slot, FALSE)
       ELSE Result([e EXCEPT !.st = "done"], a.slot, TRUE)

(* `_finish_generators` *)
RECURSIVE Finish(_, _, _)
Finish(gens, s, ok) ==
  IF gens = <<>> THEN [slot |-> s, ok |-> ok]
  ELSE LET ix == IF FinishReversed THEN Len(gens) ELSE 1
           r == Run(gens[ix].g, gens[ix].stack, s)
       IN Finish(RemoveAt(gens, ix), r.slot, ok /\ r.out = "done")

ResumeHom(e, s) ==
  LET f == Finish(e.gens, s, TRUE) IN
  IF f.ok THEN ContHom(e, e.todoG, f.slot) ELSE Result(Done(e), f.slot, TRUE)

(* ----------------------------------------------------------------------- *)
(* consumer actions                                                         *)
(* ----------------------------------------------------------------------- *)
Commit(r) == /\ enum' = r.enum /\ slot' = r.slot /\ failed' = (failed \/ r.failed)

Start ==
  /\ ~halt /\ ~Live /\ nstart < MaxStarts
  /\ \E c \in Configs : enum' = NewEnum(c, "fresh")
  /\ held' = TRUE /\ nstart' = nstart + 1 /\ nact' = nact + 1
  /\ UNCHANGED <<slot, cnt, failed, halt>>

Next ==
  /\ ~halt /\ held /\ Live
  /\ \E r \in
        IF enum.st = "fresh" THEN
          LET po == PerOpAt(slot)                       \* ghost for plain, real work otherwise
              e1 == [enum EXCEPT !.full = Flatten(po.lists)]
          IN IF enum.cfg.mode = "plain" THEN {AdvPlain(e1, 1, Fresh, slot)}
             ELSE IF enum.cfg.mode = "select"
             THEN {ContSelect(e1, sel, po.slot) : sel \in Selections(po.lists, enum.cfg.cap)}
             ELSE {ContHom(e1, Groups(Flatten(po.lists), enum.cfg.strat, enum.cfg.order), po.slot)}
        ELSE IF enum.cfg.mode = "plain" THEN {AdvPlain(enum, enum.opi, enum.gens[1].stack, slot)}
             ELSE IF enum.cfg.mode = "select" THEN {ResumeSelect(enum, slot)}
             ELSE {ResumeHom(enum, slot)} :
        Commit(r)
  /\ nact' = nact + 1
  /\ UNCHANGED <<held, cnt, halt, nstart>>

(* GeneratorExit at the yield.  As coded nothing is written back.  With the fix every *)
(* frame writes its old value back (for a HOM stack: last generator first).            *)
RECURSIVE UnwindAll(_, _)
UnwindAll(gens, s) ==
  IF gens = <<>> THEN s
  ELSE UnwindAll(SubSeq(gens, 1, Len(gens) - 1), Unwind(gens[Len(gens)].stack, s))

Exit == /\ enum' = [enum EXCEPT !.st = "closed", !.gens = <<>>]
        /\ slot' = IF enum.st = "susp" /\ ~AsCoded THEN UnwindAll(enum.gens, slot) ELSE slot

Close ==
  /\ ~halt /\ held /\ Live /\ (enum.st = "susp" => EarlyExit)
  /\ Exit
  /\ nact' = nact + 1
  /\ UNCHANGED <<held, cnt, failed, halt, nstart>>

Abandon ==
  /\ ~halt /\ held /\ Live /\ (enum.st = "susp" => EarlyExit)
  /\ held' = FALSE
  /\ nact' = nact + 1
  /\ UNCHANGED <<slot, enum, cnt, failed, halt, nstart>>

Collect ==          \* the garbage collector finalises an unreferenced generator: close()
  /\ ~halt /\ ~held /\ Live
  /\ Exit
  /\ UNCHANGED <<held, cnt, failed, halt, nact, nstart>>

(* mutation_count of a first-order mutator (any cap / reorder) or of a HOM mutator, in   *)
(* every quiescent state.  It changes nothing but the tree (and RestoredAtQuiescence     *)
(* is checked on its result), so what can follow a Count is what can follow its          *)
(* pre-state: exploration halts there instead of multiplying the state space.            *)
Count ==
  /\ ~halt /\ ~Live
  /\ \E po \in {PerOpAt(slot)} :
       \E c \in Configs :
         LET full == Flatten(po.lists)
             yields == IF c.mode = "hom" THEN Len(Groups(full, c.strat, c.order)) ELSE Len(full)
         IN /\ cnt' = [n |-> IF AsCoded THEN Len(full) ELSE yields, expect |-> yields,
                        hom |-> c.mode = "hom"]
            /\ slot' = po.slot
  /\ halt' = TRUE
  /\ UNCHANGED <<enum, held, failed, nact, nstart>>

NextStep == Start \/ Next \/ Close \/ Abandon \/ Collect \/ Count
Spec == Init /\ [][NextStep]_vars
Bound == nact <= MaxActs

(* ----------------------------------------------------------------------- *)
(* C28                                                                      *)
(* ----------------------------------------------------------------------- *)
TypeOK == /\ slot \in [Nodes -> Nat] /\ held \in BOOLEAN /\ failed \in BOOLEAN
          /\ enum.st \in {"none", "fresh", "susp", "done", "closed"}

(* whenever no generator is suspended (finished, closed, or abandoned and collected) *)
(* the tree is the original one                                                      *)
RestoredAtQuiescence == enum.st # "susp" => slot = Pristine

LastYield == enum.yielded[Len(enum.yielded)]
MutantDiffersOnlyAtNode ==
  (enum.st = "susp" /\ ~failed) =>
     \A s \in Nodes :
        slot[s] = IF \E i \in 1..Len(LastYield) : LastYield[i][1] = s
                  THEN LastYield[CHOOSE i \in 1..Len(LastYield) : LastYield[i][1] = s][2]
                  ELSE 0

AllYielded == Flatten(enum.yielded)
SampleSubsetOfFull ==
  /\ ElemsOf(AllYielded) \subseteq ElemsOf(enum.full)
  /\ enum.cfg.mode \in {"plain", "select"} => Distinct(AllYielded)
  /\ (enum.st = "done" /\ ~failed /\ enum.cfg.mode = "plain") => AllYielded = enum.full
  /\ (enum.st = "done" /\ ~failed /\ enum.cfg.mode = "select"
        /\ (enum.cfg.cap < 0 \/ enum.cfg.cap >= Len(enum.full)))
       => ElemsOf(AllYielded) = ElemsOf(enum.full)
  /\ (enum.st = "done" /\ ~failed /\ enum.cfg.mode = "select" /\ enum.cfg.cap >= 0)
       => Len(AllYielded) <= enum.cfg.cap

CountEqualsFull == cnt.n = cnt.expect
CountEqualsFullFirstOrder == ~cnt.hom => cnt.n = cnt.expect
NoAssertion == ~failed
=============================================================================

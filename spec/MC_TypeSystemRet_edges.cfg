CONSTANTS
  NUser = 2
  Level = 0
  MaxSteps = 0
  Deviations = {}
  Prov = "G"
  FixedRoots = TRUE
  Depth = 5
  EmitLevel = 0
  WithEdges = TRUE
SPECIFICATION RetSpec
INVARIANT RetEmit

------------------------- MODULE SubprocessExecOps --------------------------
(***************************************************************************)
(* Pure operators shared by the design model of the subprocess executor    *)
(* (SubprocessExec.tla), the behaviour extraction (MC_SubprocessExec.tla)  *)
(* and the trace validation (SubprocessExecTrace.tla) of property C31.     *)
(*                                                                         *)
(* A test case is a sequence of statements [op, att, bnd]:                 *)
(*   op   what the statement does when executed (statement kind)           *)
(*   att  which assertions are attached to it when the                     *)
(*        assertion-verification observer runs                             *)
(*   bnd  TRUE: assignment `var_k = <call>`; FALSE: expression statement   *)
(*        `<call>` that binds no variable (what                            *)
(*        TestCase.remove_unused_variables() makes of an unused result)    *)
(*                                                                         *)
(* ExecResultAt(p, obs, n) is the abstract action  Execute(tc) -> result   *)
(* of Executor.tla: the result the in-process executor delivers for p when *)
(* no watchdog fires spuriously.  In Executor.tla's vocabulary a statement *)
(* of kind Records is a "rec" op, Raises is "raise", "spin"/"nap" are the  *)
(* same ops; result.timeout/items/exc are the fields of Executor!Res, atr  *)
(* and vtr are what the two remote observers of assertion generation add.  *)
(***************************************************************************)
EXTENDS Naturals, Sequences, FiniteSets

(* ---- statement kinds ---------------------------------------------------- *)
Plain   == {"lit"}                    \* primitive assignment, no SUT code runs
Records == {"recT", "recF",           \* SUT call, predicate true / false
            "obj", "mut",             \* SUT object construction / mutation of a watched object
            "objR",                   \* SUT object whose pickling hooks (__getstate__/__setstate__)
                                      \* are instrumented SUT code
            "slow",                   \* SUT call that sleeps SlowDur time units in uninstrumented
                                      \* code and then returns normally
            "flt", "coll", "enum",    \* float / collection / enum results (assertion kinds)
            "prt",                    \* the SUT writes to stdout and stderr
            "cnt"}                    \* the SUT reads and increments hidden module state (what-if)
RaisesP == {"exc", "excS", "exit",     \* raises; the exception object survives a pickle round trip
            "excR"}                   \* ... through a custom __reduce__ that is instrumented SUT code
                                      \* (the exception carries an "objR" object)
RaisesU == {"excU"}                   \* raises; pickle.loads cannot rebuild the exception object
Raises  == RaisesP \cup RaisesU
Spins   == {"spin"}                   \* instrumented endless loop: killed by the tracer after the timeout
Naps    == {"nap"}                    \* uninstrumented endless wait: cannot be killed
Dies    == {"die"}                    \* kills the process executing it, but only inside a child process
                                      \* (fault injection; such a test case is not deterministic)
AllOps  == Plain \cup Records \cup Raises \cup Spins \cup Naps \cup Dies
Objs    == {"obj", "objR"}            \* results the trace observer keeps on its watch list
Slows   == {"slow"}
Hooked  == {"excR"}                   \* pickling the result runs instrumented code of the SUT

Atts == {"none",     \* no assertion attached
         "gen",      \* the assertions the trace observer generated for this statement (they hold)
         "fail",     \* a value assertion with a wrong expected value
         "err",      \* an assertion on a name that does not exist
         "xwrong"}   \* only an ExceptionAssertion naming an exception the statement does not raise

ObsModes == {"trace",    \* RemoteAssertionTraceObserver attached
             "verify"}   \* RemoteAssertionVerificationObserver attached

St(op, att) == [op |-> op, att |-> att, bnd |-> TRUE]
Unb(st) == [st EXCEPT !.bnd = FALSE]          \* the same statement as expression statement
Uniform(ops, att) == [k \in DOMAIN ops |-> St(ops[k], att)]

Min(a, b) == IF a < b THEN a ELSE b

(* ---- control flow of one test case -------------------------------------- *)
Stops(o) == o \in Raises \cup Spins \cup Naps
\* position of the statement at which the execution of p ends early (0: runs to the end)
StopAt(p) == IF \E k \in DOMAIN p : Stops(p[k].op)
             THEN CHOOSE k \in DOMAIN p : Stops(p[k].op) /\ \A j \in 1..(k - 1) : ~Stops(p[j].op)
             ELSE 0
\* last statement that is executed
Last(p) == IF StopAt(p) = 0 THEN Len(p) ELSE StopAt(p)
NonTerm(p) == StopAt(p) # 0 /\ p[StopAt(p)].op \in Spins \cup Naps
\* a "die" statement is reached (before anything stops the test case)
HasDie(p) == \E k \in 1..Last(p) : p[k].op \in Dies
\* deterministic test case: same behaviour in every process
Det(p) == ~HasDie(p)
CntIn(p) == Cardinality({k \in 1..Last(p) : p[k].op = "cnt"})
CntBefore(p, k) == Cardinality({j \in 1..(k - 1) : p[j].op = "cnt"})
Stateless(p) == CntIn(p) = 0

(* ---- time (abstract units) ----------------------------------------------- *)
\* Only "slow" statements take time while they terminate: SlowDur units each.
SlowDur == 3
Dur(p) == SlowDur * Cardinality({k \in 1..Last(p) : p[k].op \in Slows})
\* THE budget of one test case: thread.join(timeout) of TestCaseExecutor.execute - in the
\* process that calls it in-process and, with the settings (m, per) that were handed to the child,
\* inside the child of the subprocess executor; also poll(timeout) of a job of one test case
TestBudget(p, m, per) == Min(m, per * Len(p))
T1(p, m, per) == TestBudget(p, m, per)
\* a terminating test case that is still sleeping when its budget is used up
OverBudget(p, m, per) == ~NonTerm(p) /\ Dur(p) >= TestBudget(p, m, per)
TimesOut(p, m, per) == NonTerm(p) \/ OverBudget(p, m, per)
\* hidden SUT state after the first i test cases of ts ran in one process
RECURSIVE CntUpTo(_, _)
CntUpTo(ts, i) == IF i = 0 THEN 0 ELSE CntUpTo(ts, i - 1) + CntIn(ts[i])

(* ---- results ------------------------------------------------------------ *)
NoRes      == [none |-> TRUE,  timeout |-> FALSE, exc |-> 0, exct |-> "none",
               items |-> {}, atr |-> {}, vtr |-> {}]
TimeoutRes == [none |-> FALSE, timeout |-> TRUE,  exc |-> 0, exct |-> "none",
               items |-> {}, atr |-> {}, vtr |-> {}]

\* what the verification observer records for one executed statement
Verif(st, raised) ==
  CASE st.att \in {"none", "gen"} -> "none"
    [] st.att = "fail"   -> IF raised \/ ~st.bnd THEN "error" ELSE "failed"  \* the variable is unbound
    [] st.att = "err"    -> "error"
    [] st.att = "xwrong" -> IF raised THEN "error" ELSE "failed"  \* other exception / none raised

\* assertion-trace entries after statement k: <<position, source>>; source = position of the
\* statement that bound the variable, 0 = static field of the module, Len(p)+1.. = exception
\* (an expression statement that does not raise is not observed at all)
AtrAt(p, k) ==
  IF k = StopAt(p) THEN {<<k, Len(p) + 1>>}
  ELSE IF ~p[k].bnd THEN {}
  ELSE {<<k, k>>, <<k, 0>>} \cup {<<k, j>> : j \in {i \in 1..(k - 1) : p[i].op \in Objs /\ p[i].bnd}}

\* Execute(tc) -> result, started with hidden SUT state n0, by an executor with the settings
\* maximum_test_execution_timeout = m, test_execution_time_per_statement = per
ExecResultAt(p, obs, n0, m, per) ==
  IF TimesOut(p, m, per) THEN TimeoutRes
  ELSE LET last == Last(p)
           ran == {j \in 1..last : p[j].op \in Records \cup Raises}
           chk == {j \in 1..last : Verif(p[j], j = StopAt(p)) # "none"}
       IN [none |-> FALSE, timeout |-> FALSE,
           exc |-> StopAt(p),
           exct |-> IF StopAt(p) = 0 THEN "none" ELSE p[StopAt(p)].op,
           items |-> {<<k, p[k].op, IF p[k].op = "cnt" THEN n0 + CntBefore(p, k) ELSE 0>> : k \in ran},
           atr |-> IF obs = "trace" THEN UNION {AtrAt(p, k) : k \in 1..last} ELSE {},
           vtr |-> IF obs = "verify" THEN {<<k, Verif(p[k], k = StopAt(p))>> : k \in chk} ELSE {}]
ExecResult(p, obs, m, per) == ExecResultAt(p, obs, 0, m, per)

(* ---- what the subprocess protocol does to a result ----------------------- *)
\* _fix_result_for_pickle: "ascoded" drops exceptions that dill cannot round-trip from
\* result.exceptions (the assertion trace keeps its ExceptionAssertion: it only holds names)
PickleFix(r, mode) ==
  IF mode = "ascoded" /\ r.exc # 0 /\ r.exct \in RaisesU
  THEN [r EXCEPT !.exc = 0, !.exct = "none"]
  ELSE r

\* _create_variable_binding: statement position -> name of the variable it binds; expression
\* statements bind nothing and have no entry
Bind(p) == [k \in {j \in 1..Len(p) : p[j].bnd} |-> k]
\* _fix_assertion_trace: memo = {new name -> old name}; sources not in the memo stay; EVERY entry
\* of the trace is re-added, also those at positions without a binding
Relinked(a, oldb, newb) ==
  <<a[1], IF \E q \in DOMAIN newb : newb[q] = a[2]
          THEN oldb[CHOOSE q \in DOMAIN newb : newb[q] = a[2]]
          ELSE a[2]>>
Relink(atr, oldb, newb) == {Relinked(a, oldb, newb) : a \in atr}
\* what-if: only the positions that bind a variable are re-added
RelinkBoundOnly(atr, oldb, newb) == {Relinked(a, oldb, newb) : a \in {b \in atr : b[1] \in DOMAIN newb}}

(* ---- cost ----------------------------------------------------------------- *)
\* the sleep during which the budget b runs out ends at the next multiple of SlowDur
SleepEnd(b) == ((b \div SlowDur) + 1) * SlowDur
\* time the in-process executor (also the one inside the child) spends on p
Cost(p, m, per) ==
  IF ~TimesOut(p, m, per) THEN Dur(p)
  ELSE IF OverBudget(p, m, per) THEN SleepEnd(T1(p, m, per))  \* killed when it is back in instrumented code
  ELSE IF p[StopAt(p)].op \in Spins THEN T1(p, m, per)        \* join(timeout), thread dies at once
  ELSE T1(p, m, per) + m                                      \* second join waits the maximum
RECURSIVE SumSizes(_, _)
SumSizes(job, tests) == IF job = <<>> THEN 0 ELSE Len(tests[Head(job)]) + SumSizes(Tail(job), tests)
\* _calculate_timeout_for_multiple
Budget(job, tests, M, Per) == Min(M * Len(job), Per * SumSizes(job, tests))
=============================================================================

------------------------- MODULE SubprocessExecOps --------------------------
(***************************************************************************)
(* Pure operators shared by the design model of the subprocess executor    *)
(* (SubprocessExec.tla), the behaviour extraction (MC_SubprocessExec.tla)  *)
(* and the trace validation (SubprocessExecTrace.tla) of property C31.     *)
(*                                                                         *)
(* A test case is a sequence of statements [op, att]:                      *)
(*   op   what the statement does when executed (statement kind)           *)
(*   att  which assertions are attached to it when the                     *)
(*        assertion-verification observer runs                             *)
(*                                                                         *)
(* ExecResultAt(p, obs, n) is the abstract action  Execute(tc) -> result   *)
(* of Executor.tla: the result the in-process executor delivers for p when *)
(* no watchdog fires spuriously.  In Executor.tla's vocabulary a statement *)
(* of kind Records is a "rec" op, Raises is "raise", "spin"/"nap" are the  *)
(* same ops; result.timeout/items/exc are the fields of Executor!Res, atr  *)
(* and vtr are what the two remote observers of assertion generation add.  *)
(***************************************************************************)
EXTENDS Naturals, Sequences, FiniteSets

(* ---- statement kinds ---------------------------------------------------- *)
Plain   == {"lit"}                    \* primitive assignment, no SUT code runs
Records == {"recT", "recF",           \* SUT call, predicate true / false
            "obj", "mut",             \* SUT object construction / mutation of a watched object
            "flt", "coll", "enum",    \* float / collection / enum results (assertion kinds)
            "prt",                    \* the SUT writes to stdout and stderr
            "cnt"}                    \* the SUT reads and increments hidden module state (what-if)
RaisesP == {"exc", "excS", "exit"}    \* raises; the exception object survives a pickle round trip
RaisesU == {"excU"}                   \* raises; pickle.loads cannot rebuild the exception object
Raises  == RaisesP \cup RaisesU
Spins   == {"spin"}                   \* instrumented endless loop: killed by the tracer after the timeout
Naps    == {"nap"}                    \* uninstrumented endless wait: cannot be killed
Dies    == {"die"}                    \* kills the process executing it, but only inside a child process
                                      \* (fault injection; such a test case is not deterministic)
AllOps  == Plain \cup Records \cup Raises \cup Spins \cup Naps \cup Dies

Atts == {"none",     \* no assertion attached
         "gen",      \* the assertions the trace observer generated for this statement (they hold)
         "fail",     \* a value assertion with a wrong expected value
         "err",      \* an assertion on a name that does not exist
         "xwrong"}   \* only an ExceptionAssertion naming an exception the statement does not raise

ObsModes == {"trace",    \* RemoteAssertionTraceObserver attached
             "verify"}   \* RemoteAssertionVerificationObserver attached

St(op, att) == [op |-> op, att |-> att]
Uniform(ops, att) == [k \in DOMAIN ops |-> St(ops[k], att)]

Min(a, b) == IF a < b THEN a ELSE b

(* ---- control flow of one test case -------------------------------------- *)
Stops(o) == o \in Raises \cup Spins \cup Naps
\* position of the statement at which the execution of p ends early (0: runs to the end)
StopAt(p) == IF \E k \in DOMAIN p : Stops(p[k].op)
             THEN CHOOSE k \in DOMAIN p : Stops(p[k].op) /\ \A j \in 1..(k - 1) : ~Stops(p[j].op)
             ELSE 0
\* last statement that is executed
Last(p) == IF StopAt(p) = 0 THEN Len(p) ELSE StopAt(p)
NonTerm(p) == StopAt(p) # 0 /\ p[StopAt(p)].op \in Spins \cup Naps
\* a "die" statement is reached (before anything stops the test case)
HasDie(p) == \E k \in 1..Last(p) : p[k].op \in Dies
\* deterministic test case: same behaviour in every process
Det(p) == ~HasDie(p)
CntIn(p) == Cardinality({k \in 1..Last(p) : p[k].op = "cnt"})
CntBefore(p, k) == Cardinality({j \in 1..(k - 1) : p[j].op = "cnt"})
Stateless(p) == CntIn(p) = 0
\* hidden SUT state after the first i test cases of ts ran in one process
RECURSIVE CntUpTo(_, _)
CntUpTo(ts, i) == IF i = 0 THEN 0 ELSE CntUpTo(ts, i - 1) + CntIn(ts[i])

(* ---- results ------------------------------------------------------------ *)
NoRes      == [none |-> TRUE,  timeout |-> FALSE, exc |-> 0, exct |-> "none",
               items |-> {}, atr |-> {}, vtr |-> {}]
TimeoutRes == [none |-> FALSE, timeout |-> TRUE,  exc |-> 0, exct |-> "none",
               items |-> {}, atr |-> {}, vtr |-> {}]

\* what the verification observer records for one executed statement
Verif(st, raised) ==
  CASE st.att \in {"none", "gen"} -> "none"
    [] st.att = "fail"   -> IF raised THEN "error" ELSE "failed"  \* raised: the variable is unbound
    [] st.att = "err"    -> "error"
    [] st.att = "xwrong" -> IF raised THEN "error" ELSE "failed"  \* other exception / none raised

\* assertion-trace entries after statement k: <<position, source>>; source = position of the
\* statement that bound the variable, 0 = static field of the module, Len(p)+1.. = exception
AtrAt(p, k) ==
  IF k = StopAt(p) THEN {<<k, Len(p) + 1>>}
  ELSE {<<k, k>>, <<k, 0>>} \cup {<<k, j>> : j \in {i \in 1..(k - 1) : p[i].op = "obj"}}

\* Execute(tc) -> result, started with hidden SUT state n0
ExecResultAt(p, obs, n0) ==
  IF NonTerm(p) THEN TimeoutRes
  ELSE LET last == Last(p)
           ran == {j \in 1..last : p[j].op \in Records \cup Raises}
           chk == {j \in 1..last : Verif(p[j], j = StopAt(p)) # "none"}
       IN [none |-> FALSE, timeout |-> FALSE,
           exc |-> StopAt(p),
           exct |-> IF StopAt(p) = 0 THEN "none" ELSE p[StopAt(p)].op,
           items |-> {<<k, p[k].op, IF p[k].op = "cnt" THEN n0 + CntBefore(p, k) ELSE 0>> : k \in ran},
           atr |-> IF obs = "trace" THEN UNION {AtrAt(p, k) : k \in 1..last} ELSE {},
           vtr |-> IF obs = "verify" THEN {<<k, Verif(p[k], k = StopAt(p))>> : k \in chk} ELSE {}]
ExecResult(p, obs) == ExecResultAt(p, obs, 0)

(* ---- what the subprocess protocol does to a result ----------------------- *)
\* _fix_result_for_pickle: "ascoded" drops exceptions that dill cannot round-trip from
\* result.exceptions (the assertion trace keeps its ExceptionAssertion: it only holds names)
PickleFix(r, mode) ==
  IF mode = "ascoded" /\ r.exc # 0 /\ r.exct \in RaisesU
  THEN [r EXCEPT !.exc = 0, !.exct = "none"]
  ELSE r

\* _create_variable_binding: statement position -> name of the variable it binds
Bind(p) == [k \in 1..Len(p) |-> k]
\* _fix_assertion_trace: memo = {new name -> old name}; sources not in the memo stay
Relink(atr, oldb, newb) ==
  {<<a[1], IF \E q \in DOMAIN newb : newb[q] = a[2]
           THEN oldb[CHOOSE q \in DOMAIN newb : newb[q] = a[2]]
           ELSE a[2]>> : a \in atr}

(* ---- time (abstract units) ----------------------------------------------- *)
\* timeout of one test case: thread.join in the in-process executor, poll for a single test
T1(p, M, Per) == Min(M, Per * Len(p))
\* time the in-process executor (also the one inside the child) spends on p beyond "no time"
Cost(p, M, Per) ==
  IF ~NonTerm(p) THEN 0
  ELSE IF p[StopAt(p)].op \in Spins THEN T1(p, M, Per)   \* join(timeout), thread dies at once
  ELSE T1(p, M, Per) + M                                 \* second join waits the maximum
RECURSIVE SumSizes(_, _)
SumSizes(job, tests) == IF job = <<>> THEN 0 ELSE Len(tests[Head(job)]) + SumSizes(Tail(job), tests)
\* _calculate_timeout_for_multiple
Budget(job, tests, M, Per) == Min(M * Len(job), Per * SumSizes(job, tests))
=============================================================================

------------------------------ MODULE MC_CacheX ------------------------------
(* MC_Cache under a second module name: the two-suite family (MC_Cache_xo.cfg,  *)
(* modes PXfit/PXisc/PXcov) is extracted by its own TLC run next to the one of  *)
(* MC_Cache.cfg (the harness keeps one work directory per module name).         *)
EXTENDS MC_Cache
=============================================================================

------------------------- MODULE GoalsManagerTrace --------------------------
(* Trace validation for the dynamic half of C07.  A trace carries the goal graph exported   *)
(* from the real _BranchFitnessGraph (n, roots, edges) and one event per call: the first     *)
(* event is the state right after _GoalsManager.__init__, every further one the state after  *)
(* update(solutions) where the stub solutions cover exactly the goals in `cover`.            *)
(* cur / cov / objs are read from the real manager and the real CoverageArchive.             *)
EXTENDS GraphsOps, TLCExt, Json, IOUtils

Traces == ndJsonDeserialize(IOEnv.TRACE_FILE)
ToSet(q) == {q[i] : i \in DOMAIN q}

VARIABLES tid, l, cur, prev
vars == <<tid, l, cur, prev>>

NoEv == [cover |-> <<>>, cur |-> <<>>, cov |-> <<>>, objs |-> <<>>]
Init == /\ tid \in 1..Len(Traces) /\ l = 0 /\ cur = NoEv /\ prev = NoEv
Next == /\ l < Len(Traces[tid].ev)
        /\ l' = l + 1
        /\ cur' = Traces[tid].ev[l + 1]
        /\ prev' = cur
        /\ UNCHANGED tid
Spec == Init /\ [][Next]_vars

Goals   == 1..Traces[tid].n
Roots   == ToSet(Traces[tid].roots)
Edges   == ToSet(Traces[tid].edges)
Current == ToSet(cur.cur)
Covered == ToSet(cur.cov)
Objs    == ToSet(cur.objs)

InitialGoals == l = 1 => (Current = Roots /\ Covered = {})
\* C07: each goal is a root or becomes current once all goals it structurally depends on are covered
GoalReachable ==
  l > 0 => \A g \in Goals : \/ g \in Roots
                            \/ /\ ParentsOf(Edges, g) # {}
                               /\ ParentsOf(Edges, g) \subseteq Covered => g \in Current \cup Covered
Disjoint == l > 0 => Current \cap Covered = {}
\* no goal lost
NoGoalLost   == l > 1 => ToSet(prev.cur) \subseteq Current \cup Covered
CoveredGrows == l > 1 => ToSet(prev.cov) \subseteq Covered
OnlyCovered  == l > 1 => (Covered \ ToSet(prev.cov)) \subseteq ToSet(cur.cover)
Tracked      == l > 0 => Current \cup Covered \subseteq Objs
\* nothing left to do only when everything is covered
Complete == (l > 0 /\ Current = {}) => Covered = Goals

(* model agreement (DRIFT only): the observed post-state is UpdateLoop of the observed pre-state *)
Children(E, g) == {e[2] : e \in {x \in E : x[1] = g}}
RECURSIVE UpdateLoop(_, _, _, _, _)
UpdateLoop(E, c, cov, ob, S) ==
  LET cov2 == cov \cup (S \cap ob)
      kids == UNION {Children(E, g) : g \in c \cap cov2}
      newk == {k \in kids : k \notin c /\ k \notin cov2}
      c2 == (c \ cov2) \cup newk
      ob2  == ob \cup c2
  IN IF newk = {} THEN <<c2, cov2, ob2>> ELSE UpdateLoop(E, c2, cov2, ob2, S)
AsModel == l > 1 =>
  <<Current, Covered, Objs>> =
     UpdateLoop(Edges, ToSet(prev.cur), ToSet(prev.cov), ToSet(prev.objs), ToSet(cur.cover))
=============================================================================

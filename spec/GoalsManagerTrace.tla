------------------------- MODULE GoalsManagerTrace --------------------------
(* Trace validation for the dynamic half of C07.  A trace carries the goal graph exported   *)
(* from the real _BranchFitnessGraph (n, roots, edges) and one event per call: the first     *)
(* event is the state right after _GoalsManager.__init__, every further one the state after  *)
(* update(solutions) where the stub solutions cover exactly the goals in `cover`.            *)
(* cur / cov / objs are read from the real manager and the real CoverageArchive.             *)
EXTENDS GraphsOps, TLCExt, Json, IOUtils

Traces == ndJsonDeserialize(IOEnv.TRACE_FILE)
ToSet(q) == {q[i] : i \in DOMAIN q}

VARIABLES tid, l, cur, prev,
          mroots,   \* structural root goals: GraphsOps.GoalRoots of the registered CDGs + registry
          mpar,     \* goal id -> structural parents: GraphsOps.GoalEdges of the registered CDGs
          rpar, rkid  \* goal id -> parents / children in the exported real goal graph (tables built once)
vars == <<tid, l, cur, prev, mroots, mpar, rpar, rkid>>

(* The goals a goal "structurally depends on" are defined by the control-dependence graphs and the *)
(* predicate registry the instrumentation registered (trace header `cos`, `goals`), not by the    *)
(* _BranchFitnessGraph under test: TLC derives them once per trace with the GraphsOps operators.  *)
GoalRecs(t) == ToSet(t.goals)                   \* <<gid, kind, code object, predicate id, outcome>>
StructGoalGraph(t) ==
  LET gidof == TLCEval([k \in {<<x[3], x[4], x[5]>> : x \in {y \in GoalRecs(t) : y[2] = "b"}} |->
                 (CHOOSE y \in GoalRecs(t) : y[2] = "b" /\ <<y[3], y[4], y[5]>> = k)[1]])
      keys == DOMAIN gidof
      perco(co) ==
        LET C == ToSet(co.cdg)  Ns == ToSet(co.nodes)
            P == {p[2] : p \in ToSet(co.preds)}
            pid == TLCEval([n \in P |-> (CHOOSE p \in ToSet(co.preds) : p[2] = n)[1]])
            known(gl) == gl[1] \in P /\ <<co.cid, pid[gl[1]], gl[2]>> \in keys
            gid(gl) == gidof[<<co.cid, pid[gl[1]], gl[2]>>]
        IN [roots |-> {gid(gl) : gl \in {x \in GoalRootsFast(C, Ns, P) : known(x)}},
            edges |-> {<<IF known(e[1]) THEN gid(e[1]) ELSE 0, gid(e[2])>> :
                         e \in {x \in GoalEdgesFast(C, Ns, P) : known(x[2])}}]
      all == TLCEval([i \in DOMAIN t.cos |-> perco(t.cos[i])])
  IN [roots |-> UNION {all[i].roots : i \in DOMAIN t.cos} \cup {y[1] : y \in {z \in GoalRecs(t) : z[2] = "c"}},
      edges |-> UNION {all[i].edges : i \in DOMAIN t.cos}]   \* parent 0 = a dependency without registered goal

NoEv == [cover |-> <<>>, cur |-> <<>>, cov |-> <<>>, objs |-> <<>>]
Init == /\ tid \in 1..Len(Traces) /\ l = 0 /\ cur = NoEv /\ prev = NoEv /\ mroots = {} /\ mpar = <<>>
        /\ rpar = <<>> /\ rkid = <<>>
Next == /\ l < Len(Traces[tid].ev)
        /\ l' = l + 1
        /\ cur' = Traces[tid].ev[l + 1]
        /\ prev' = cur
        /\ IF l = 0
           THEN LET sg == StructGoalGraph(Traces[tid])
                IN /\ mroots' = sg.roots
                   /\ mpar' = TLCEval([g \in 1..Traces[tid].n |-> {e[1] : e \in {x \in sg.edges : x[2] = g}}])
                   /\ LET E == ToSet(Traces[tid].edges) IN
                        /\ rpar' = TLCEval([g \in 1..Traces[tid].n |-> {e[1] : e \in {x \in E : x[2] = g}}])
                        /\ rkid' = TLCEval([g \in 1..Traces[tid].n |-> {e[2] : e \in {x \in E : x[1] = g}}])
           ELSE UNCHANGED <<mroots, mpar, rpar, rkid>>
        /\ UNCHANGED tid
Spec == Init /\ [][Next]_vars

Goals   == 1..Traces[tid].n
Roots   == ToSet(Traces[tid].roots)
Current == ToSet(cur.cur)
Covered == ToSet(cur.cov)
Objs    == ToSet(cur.objs)

InitialGoals == l = 1 => (Current = Roots /\ Covered = {})
\* C07: each goal is a root or becomes current once all goals it structurally depends on are covered
\*   \A g \in Goals : g \in Roots \/ (ParentsOf(Edges, g) # {} /\
\*                                      (ParentsOf(Edges, g) \subseteq Covered => g \in Current \cup Covered))
\* with ParentsOf(Edges, g) = rpar[g] (table built from the exported edges when the trace starts)
GoalReachable ==
  l > 0 => \A g \in Goals \ Roots : rpar[g] # {} /\ (rpar[g] \subseteq Covered => g \in Current \cup Covered)
\* the same with the structural roots / parents derived by TLC from the registered CDGs: a structural
\* root goal is an initial goal; any other goal has structural parents, all of them are goals, and it
\* is current or covered once they are covered
GoalReachableStructural ==
  l > 0 => \A g \in Goals :
             IF g \in mroots THEN (l = 1 => g \in Current)
             ELSE /\ mpar[g] # {} /\ 0 \notin mpar[g]
                  /\ mpar[g] \subseteq Covered => g \in Current \cup Covered
Disjoint == l > 0 => Current \cap Covered = {}
\* no goal lost
NoGoalLost   == l > 1 => ToSet(prev.cur) \subseteq Current \cup Covered
CoveredGrows == l > 1 => ToSet(prev.cov) \subseteq Covered
OnlyCovered  == l > 1 => (Covered \ ToSet(prev.cov)) \subseteq ToSet(cur.cover)
Tracked      == l > 0 => Current \cup Covered \subseteq Objs
\* nothing left to do only when everything is covered
Complete == (l > 0 /\ Current = {}) => Covered = Goals

(* model agreement (DRIFT only): the observed post-state is UpdateLoop of the observed pre-state *)
RECURSIVE UpdateLoop(_, _, _, _)
UpdateLoop(c, cov, ob, S) ==
  LET cov2 == cov \cup (S \cap ob)
      kids == UNION {rkid[g] : g \in c \cap cov2}
      newk == {k \in kids : k \notin c /\ k \notin cov2}
      c2 == (c \ cov2) \cup newk
      ob2  == ob \cup c2
  IN IF newk = {} THEN <<c2, cov2, ob2>> ELSE UpdateLoop(c2, cov2, ob2, S)
AsModel == l > 1 =>
  <<Current, Covered, Objs>> =
     UpdateLoop(ToSet(prev.cur), ToSet(prev.cov), ToSet(prev.objs), ToSet(cur.cover))
=============================================================================

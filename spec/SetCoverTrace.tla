----------------------------- MODULE SetCoverTrace -----------------------------
(***************************************************************************)
(* Trace validation for C21: TLC evaluates the property formulas on what   *)
(* the real code did.  One event per trace:                                *)
(*                                                                         *)
(*  "Sel"    one call of _select_minimal_assertions: km (kill sets in key  *)
(*           order), keep (positions of the returned keys)                 *)
(*  "Score"  one count tuple (c created, k killed, t timeout, u unchecked) *)
(*           through real _MutantInfo lists -> get_metrics().get_score():  *)
(*           s = score as a fraction, base = real score of the population  *)
(*           without its timed-out and unchecked mutants                   *)
(*  "Min"    one call of _handle_add_assertions (stubbed environment in    *)
(*           P2, a real end-to-end run in P1): nA[t] assertions before,    *)
(*           col[m] / out[t][m] what the mutation executor answered,       *)
(*           rem[t] the assertions left (original numbers), sel the calls  *)
(*           of the selection function that happened inside, s the         *)
(*           MutationScore that was reported                               *)
(*  "Rerun"  P1: the mutants executed once more with the assertions left   *)
(*           (col2 / out2, original assertion numbers)                     *)
(*  "Kept"   P1: one final test case re-executed on the unmutated module   *)
(*           with the real RemoteAssertionVerificationObserver: bad = the  *)
(*           assertions that failed or erred                               *)
(***************************************************************************)
EXTENDS SetCoverOps, TLC, TLCExt, Json, IOUtils

Traces == ndJsonDeserialize(IOEnv.TRACE_FILE)

VARIABLES tid, l, cur
vars == <<tid, l, cur>>

NoEv == [ev |-> "none"]
Init == /\ tid \in 1..Len(Traces) /\ l = 0 /\ cur = NoEv
Next == /\ l < Len(Traces[tid].ev)
        /\ l' = l + 1
        /\ cur' = Traces[tid].ev[l + 1]
        /\ UNCHANGED tid
Spec == Init /\ [][Next]_vars

Is(k) == l > 0 /\ cur.ev = k
KM(s) == [a \in DOMAIN s |-> ToSet(s[a])]
Obs(e) == <<e.n, e.d>>
Usable(e) == e.tag \in {"ok", "approx"}

(* the selection calls an event carries: the event itself ("Sel") or its sel list ("Min") *)
Calls == IF Is("Sel") THEN IF cur.crashed THEN <<>> ELSE <<cur>>
         ELSE IF Is("Min") THEN cur.sel ELSE <<>>

(* ------------------------------------------------------------------ C21 *)
(* "assertion minimization keeps a subset of assertions ..."                *)
SelSubset == \A i \in DOMAIN Calls : IsSubset(ToSet(Calls[i].keep), KM(Calls[i].km))
(* "... that together still kill every mutant killed by the full set"       *)
SelKillsPreserved == \A i \in DOMAIN Calls : KillsPreservedBy(ToSet(Calls[i].keep), KM(Calls[i].km))

Tests == DOMAIN cur.nA
Rem(t) == ToSet(cur.rem[t])
MapOf(t) == TLCEval(TestKillMap(cur.out, cur.col, t, cur.nA[t]))

(* on the test cases themselves: what is left is a duplicate-free subset ... *)
Subset == Is("Min") /\ ~cur.crashed =>
            \A t \in Tests : /\ Rem(t) \subseteq 1..cur.nA[t]
                             /\ Cardinality(Rem(t)) = Len(cur.rem[t])
(* ... whose members still kill every (checked, not timed-out) mutant that any
   assertion of the test case killed, judged on the raw answers of the executor *)
KillsPreserved == Is("Min") /\ ~cur.crashed =>
                    \A t \in Tests : KillsPreservedBy(Rem(t), MapOf(t))

(* P1: executed again with the remaining assertions only, every such mutant is
   still caught by a remaining assertion (mutants that time out or are not
   reached in the second pass are undecided) *)
RerunKillsPreserved ==
  Is("Rerun") /\ ~cur.crashed =>
    \A t \in Tests :
      \A m \in Kills(1..cur.nA[t], MapOf(t)) :
        (m \in Checked(cur.col2) /\ ~Timed(cur.out2, m)) =>
          \E a \in Rem(t) : Violated(cur.out2, t, a, m)

(* "every assertion left on a test case after assertion generation holds when
   the test case is re-executed on the unmutated module" *)
KeptAssertionsHold == Is("Kept") => cur.tmo \/ cur.bad = <<>>

(* "the reported mutation score lies in [0, 1]" *)
HasScore == Is("Score") \/ (Is("Min") /\ cur.has_score)
ScoreIn01 == HasScore => Usable(cur.s) /\ In01(Obs(cur.s))

(* "... and ignores timed-out and unchecked mutants": it is the ratio killed /
   population over the checked mutants that did not time out *)
ScoreIgnoresTimeoutsAndUnchecked ==
  /\ Is("Score") =>
       LET d == cur.c - cur.t - cur.u
       IN /\ Usable(cur.s) /\ Usable(cur.base)
          /\ FracEq(Obs(cur.s), Obs(cur.base))
          /\ d > 0 => cur.s.tag = "ok" /\ FracEq(Obs(cur.s), <<cur.k, d>>)
  /\ (Is("Min") /\ cur.has_score) =>
       LET pop == Scored(cur.out, cur.col)
           k == Cardinality(Killed(cur.out, cur.col))
       IN pop # {} => cur.s.tag = "ok" /\ FracEq(Obs(cur.s), <<k, Cardinality(pop)>>)

(* the real call returned *)
Returns == (Is("Sel") \/ Is("Min") \/ Is("Rerun")) => ~cur.crashed

(* --------------------------------------------------- conformance (DRIFT) *)
ConformSelect == \A i \in DOMAIN Calls : ToSet(Calls[i].keep) = Select(KM(Calls[i].km))
ConformArgUntouched == Is("Sel") => ~cur.argmut
ConformCounts == Is("Min") /\ ~cur.crashed =>
  /\ cur.r_created = cur.nM
  /\ cur.r_checked = Cardinality(Checked(cur.col))
  /\ cur.r_timeout = Cardinality({m \in Checked(cur.col) : Timed(cur.out, m)})
  /\ cur.r_killed = Cardinality(Killed(cur.out, cur.col))
ConformOrder == Is("Min") /\ ~cur.crashed =>
  \A t \in Tests : \A i, j \in DOMAIN cur.rem[t] : i < j => cur.rem[t][i] < cur.rem[t][j]
\* (docstring of __minimize_assertions; the plain removal drops exception assertions that kill nothing)
ConformExceptionKept == Is("Min") /\ ~cur.crashed /\ cur.minimize =>
  \A t \in Tests : ToSet(cur.xonly[t]) \subseteq Rem(t)
EmptyPopulation == IF Is("Score") THEN cur.c - cur.t - cur.u = 0
                   ELSE Is("Min") /\ Scored(cur.out, cur.col) = {}
ConformScoreOne == (HasScore /\ Usable(cur.s) /\ EmptyPopulation) => FracEq(Obs(cur.s), <<1, 1>>)
ConformMetrics == Is("Score") =>
  cur.mc = cur.c - cur.u /\ cur.mk = cur.k /\ cur.mt = cur.t
=============================================================================

CONSTANTS
  NUser = 3
  Level = 0
  MaxSteps = 0
  Deviations = {"NoProviderClearOnAddEdge"}
  Prov = "G"
  FixedRoots = TRUE
SPECIFICATION TSpec
INVARIANT CachedEqualsRecomputed_KnownNoClearOnAddEdge
INVARIANT CachedEqualsRecomputed_Other
INVARIANT OfferedCompatibleHist
INVARIANT Drift_Answer
INVARIANT Drift_ReturnType
INVARIANT Drift_Generators
INVARIANT Drift_Final
INVARIANT Drift_Table

"""C34 Ordered sets behave as insertion-ordered sets and sequences.

Design: OrderedSet.tla (sequence semantics implements the ghost set + insertion stamps).
P2: every (initial content, call) pair of MC_OrderedSet and random multi-call histories are
executed on the real classes; OrderedSetTrace.tla evaluates Post/Res on every recorded call.
"""

from __future__ import annotations

from harness.adapters import orderedset as ad
from harness.core import Ctx, parallel_map


def signature(ev: dict, clause: str) -> str:
    op = ev["op"]
    if op == "getitem":
        site = "negative-index" if ev["i"] < 0 else "index"
    elif ev["kind"] == "iter":
        site = "one-shot-iterator"
    else:
        site = ev["kind"]
    return f"C34/{clause}/{ev['cls']}.{op}/{site}"


def run(ctx: Ctx) -> None:
    ctx.rule = ("case = (class, initial content, method, argument kind, argument) enumerated by TLC "
                "from MC_OrderedSet (all duplicate-free contents over 3 elements x all calls) plus "
                "random multi-call histories (-simulate); non-trivial = distinct (class, method, "
                "argument kind, pre-state, argument) whose call changed the state or returned a value")
    ctx.assumptions = ["elements are hashable values with value equality (ints; types for OrderedTypeSet)",
                       "argument of kind 'set' is iterated in the order the real set iterates"]
    ctx.design("OrderedSet", "OrderedSet.cfg" if ctx.quick else "OrderedSet_thorough.cfg")
    behs = ctx.behaviours("MC_OrderedSet")
    exhaustive_n = len(behs)
    n_sim = 300 if ctx.quick else 5000
    for st in ctx.simulate("MC_OrderedSet", "MC_OrderedSet_sim.cfg", num=n_sim, depth=7):
        behs.append({"s0": st["s0"], "hist": st["hist"]})
    ctx.notes["behaviours_exhaustive_depth1"] = exhaustive_n
    ctx.notes["behaviours_simulated"] = len(behs) - exhaustive_n
    ctx.exhaustive = True
    traces = [ad.replay(b) for b in behs]
    ctx.evaluations = len(traces)
    for t in traces:
        for e in t["ev"]:
            if e["post"] != e["pre"] or e["rt"] != "none":
                ctx.nontriv((e["cls"], e["op"], e["kind"], tuple(e["pre"]), tuple(e["a"]), e["x"], e["i"]))
    verdicts = ctx.validate("OrderedSetTrace", traces)
    for idx, bad in sorted(verdicts.items()):
        tr = traces[idx]
        for clause, step in bad:
            if clause == "Chained":
                raise RuntimeError(f"harness bug: trace {idx} not chained")
            ev = tr["ev"][step - 1]
            ctx.bad(clause, signature(ev, clause),
                    f"{ev['cls']}({ev['pre']}).{ev['op']}(x={ev['x']}, i={ev['i']}, {ev['kind']} {ev['a']}) "
                    f"-> state {ev['post']} result {ev['rt']}:{ev['rs'] or ev['ri'] or ev['rb']}",
                    trace=tr, behaviour=behs[idx])
    for t in traces[:2] + traces[-2:]:
        ctx.sample(t["ev"])


def replay(ctx: Ctx, rec: dict) -> int:
    tr = ad.replay(rec["behaviour"])
    verdicts = ctx.validate("OrderedSetTrace", [tr])
    print("replayed trace:", tr)
    if verdicts:
        print(f"VIOLATION property=C34 replay=(this) clauses={verdicts[0]}")
        return 1
    print("OK")
    return 0

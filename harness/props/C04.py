"""C04 Branch distances are non-negative and zero exactly for the outcome taken.

Design: Tracer.tla (per-thread tracer state, min-accumulation, well-formed records) over the
abstract distance domain of TracerOps.tla.  P2: TLC enumerates every comparison kind x pair of
value classes (MC_Tracer); each case is executed on the real ExecutionTracer callbacks with
concrete representatives; TracerTrace.tla is evaluated by TLC on the observed distances with the
outcome of Python's own operator as the reference.
"""

from __future__ import annotations

from harness.adapters import tracer_values as tv
from harness.adapters import values as V
from harness.core import Ctx, parallel_map

CLAUSES = {"DistancesWellFormed", "OnlyRaisesIfOpRaises", "RecordedOnce"}


def tla_set(names) -> str:
    return "{" + ", ".join(f'"{n}"' for n in names) + "}"


def cases(ctx: Ctx) -> list[dict]:
    cfg = ctx.work / "MC_Tracer.gen.cfg"
    cfg.parent.mkdir(parents=True, exist_ok=True)
    cfg.write_text("CONSTANTS\n"
                   f"  Values = {tla_set(V.VALUE_NAMES)}\n"
                   f"  ExcLeft = {tla_set(V.EXC_LEFT)}\n"
                   f"  ExcRight = {tla_set(V.EXC_RIGHT)}\n"
                   "SPECIFICATION Spec\nINVARIANT Emit\n")
    return ctx.behaviours("MC_Tracer", str(cfg))


def observe(ctx: Ctx):
    cs = cases(ctx)
    evs = parallel_map(tv.evaluate, cs, procs=8, chunksize=2000)
    return cs, evs


ONE_SHOT = ("it_12", "it_empty", "gen_12")


def signature(prop: str, clause: str, e: dict) -> str:
    if clause == "EvaluationRecorded" and e["b"] in ONE_SHOT:
        return f"{prop}/{clause}/{e['kind']}/*~{e['b']}"  # independent of the left operand
    return f"{prop}/{clause}/{e['kind']}/{e['a']}~{e['b']}"


def describe(e: dict) -> str:
    return (f"{e['kind']}({e['a']}, {e['b']}): python={e['py']}{'/' + e['py_exc'] if e['py_exc'] else ''} "
            f"dT={e['dT']} dF={e['dF']} raised={e['raised_exc'] or e['raised']} enabled_after={e['enabled_after']} "
            f"extra_calls={e['extra_calls']} consumed={e['consumed']}/{e['consumed_orig']}")


def run_clauses(ctx: Ctx, clauses: set[str], prop: str) -> None:
    ctx.design("Tracer")
    cs, evs = observe(ctx)
    ctx.evaluations = len(evs)
    ctx.exhaustive = True
    for e in evs:
        if e["py"] != "Raise":
            ctx.nontriv((e["kind"], e["a"], e["b"]))
    traces = [{"ev": [e]} for e in evs]
    # TLC reports only the first violated invariant of a state: check exactly the requested clauses
    cfg = ctx.work / f"TracerTrace.{prop}.cfg"
    cfg.write_text("SPECIFICATION Spec\n" + "".join(f"INVARIANT {c}\n" for c in sorted(clauses)))
    verdicts = ctx.validate("TracerTrace", traces, cfg=str(cfg))
    for idx, bad in sorted(verdicts.items()):
        for clause, _ in bad:
            if clause in clauses:
                e = evs[idx]
                ctx.bad(clause, signature(prop, clause, e), describe(e), trace=traces[idx], behaviour=cs[idx])
    picks = [e for e in evs if e["kind"] in ("LT", "EQ") and e["a"] in ("f_nan", "i_2p60p1", "i_huge", "u_lt_only")][:4]
    for e in picks + evs[:1]:
        ctx.sample(e)
    ctx.notes["value_classes"] = len(V.VALUE_NAMES)
    ctx.notes["python_op_raises_cases"] = sum(1 for e in evs if e["py"] == "Raise")


def run(ctx: Ctx) -> None:
    ctx.rule = ("case = (comparison kind, value class a, value class b) enumerated by TLC from MC_Tracer over "
                f"{len(V.VALUE_NAMES)} value classes (ints incl. >2**53 and >1e308, floats incl. NaN/inf/-0.0/"
                "subnormal, complex, Decimal, Fraction, str/bytes incl. surrogates, containers, one-shot "
                "iterators, user classes with partial comparison protocols), truthiness and exception "
                "matching; non-trivial = distinct case where Python's own operator does not raise")
    ctx.assumptions = ["one concrete representative per value class (plus boundary members); numeric accuracy "
                       "of a non-zero distance is not checked",
                       "outcome reference = Python's operator evaluated on fresh equal representatives as a "
                       "branch condition (bool(a OP b)); for the auxiliary container[key] predicate the "
                       "reference is 'key in container' or 'not in' when membership is undefined"]
    run_clauses(ctx, CLAUSES, "C04")


def replay_clauses(ctx: Ctx, rec: dict, clauses: set[str], prop: str) -> int:
    from harness.core import load_findings  # noqa: PLC0415

    e = tv.evaluate(rec["behaviour"])
    print(describe(e))
    cfg = ctx.work / f"TracerTrace.{prop}.cfg"
    cfg.parent.mkdir(parents=True, exist_ok=True)
    cfg.write_text("SPECIFICATION Spec\n" + "".join(f"INVARIANT {c}\n" for c in sorted(clauses)))
    v = ctx.validate("TracerTrace", [{"ev": [e]}], cfg=str(cfg))
    known = load_findings()
    bad = [c for c, _ in v.get(0, []) if c in clauses and signature(prop, c, e) not in known]
    if bad:
        print(f"VIOLATION property={prop} replay=(this) clauses={bad}")
        return 1
    print("OK")
    return 0


def replay(ctx: Ctx, rec: dict) -> int:
    return replay_clauses(ctx, rec, CLAUSES, "C04")

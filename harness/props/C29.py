"""C29 Filesystem isolation never modifies or deletes pre-existing paths.

Design: FsIsolation.tla (intended design satisfies C29; code-as-is model violates it only through
the named deviations).  P2: TLC enumerates call histories of the code under test (MC_FsIsolation);
each is executed in its own real sandbox tree under the real FilesystemIsolation; FsIsolationTrace
evaluates the C29 clauses on the real before/after snapshots (verdict) and FsIsolationOps!Eff on
every recorded call (conformance of the code with the model: DRIFT only).
"""

from __future__ import annotations

import gc
import os
import shutil
import time
from pathlib import Path

from harness.adapters import fsisolation as ad
from harness.core import Ctx, parallel_map

PAR = {"a": "", "ag": "a", "an": "a", "g": "", "n": "", "ng": "n", "e": "", "eg": "e"}
BASE = {"a": "a", "ag": "g", "an": "n", "g": "g", "n": "n", "ng": "g", "e": "e", "eg": "g"}
OPWORD = {"OpenR": "open-read", "OpenW": "open-write", "OpenA": "open-append", "OpenX": "open-exclusive",
          "OpenRP": "open-update", "Mkdir": "mkdir", "MkdirOk": "mkdir-exist-ok", "Touch": "touch",
          "WriteText": "write-text", "Remove": "remove", "Rmdir": "rmdir", "Rmtree": "rmtree",
          "Rename": "rename", "Replace": "replace", "Copy": "copy", "Copytree": "copytree", "Move": "move"}
VERDICT = ("PreExistingPreserved", "CreatedGone")
DRIFT = ("FsFollows", "CrFollows", "ResFollows")


_PROC_DIR: dict[int, str] = {}


def _job(item):
    """Worker: every process works below its own directory (own TMPDIR for the isolation's private
    temporary directory) so that processes do not contend on one parent directory."""
    beh, base, i = item
    pid = os.getpid()
    d = _PROC_DIR.get(pid)
    if d is None:
        gc.disable()  # forked worker: short-lived, cyclic GC only causes copy-on-write faults
        d = _PROC_DIR[pid] = os.path.join(base, f"p{pid}")
        os.makedirs(d, exist_ok=True)
        ad.setup(Path(d))
    return ad.replay(beh, os.path.join(d, f"t{i}"))


def _opword(e: dict) -> str:
    if e["op"] == "OsOpen":
        w = "os-open-" + e["fl"].lower()
    elif e["op"] == "Makedirs":
        w = "makedirs-exist-ok" if e["eo"] else "makedirs"
    else:
        w = OPWORD.get(e["op"], e["op"].lower())
    return w + ("-kw" if e["kw"] else "")


def _role(e: dict, x: str) -> str:
    if not e["q"]:
        return "" if x == e["p"] else "-other"
    if x == e["p"]:
        return "-source"
    if x == e["q"]:
        return "-onto"
    if PAR[x] == e["q"] and BASE[x] == BASE[e["p"]]:
        return "-into-dir-onto"
    if PAR[x] == e["q"]:
        return "-below-dst"
    return "-other"


def _state(node: dict) -> tuple:
    return node["k"], node["c"]


def _owned(cr: list, x: str) -> bool:
    return x in cr or PAR[x] in cr


def culprits(tr: dict, clause: str) -> list[str]:
    """Labels (for the finding signature only) of the calls that lost a pre-existing path or left a
    created one.  The verdict itself is TLC's; this only names the call site.

    PreExistingPreserved: for every lost path (and its parent) the FIRST call that changed it or put
    it into `_created` while it was not isolated; later calls on an already compromised path (or
    below a compromised directory) are consequences, not causes.
    CreatedGone: for every topmost leftover path the LAST call after which it existed without being
    covered by `_created`."""
    pre, evs = tr["pre"], tr["ev"]
    final = evs[-1]["fs1"]
    labels: list[str] = []
    if clause == "PreExistingPreserved":
        lost = {p for p in pre if pre[p]["k"] != "absent" and _state(final[p]) != _state(pre[p])}
        rel = lost | {PAR[p] for p in lost if PAR[p]}
        if not evs[-1]["r1"]:
            labels.append("sandbox-root-removed")
        ex = evs[-1]
        if any(_state(ex["fs1"][p]) != _state(ex["fs0"][p]) and not _owned(ex["cr0"], p) for p in lost):
            labels.append("exit-removed-unrecorded-path")
        compromised: set[str] = set()
        for e in evs[:-1]:
            hit = []
            for x in sorted(p for p in pre if pre[p]["k"] != "absent"):
                if x in compromised or PAR[x] in compromised or _owned(e["cr0"], x):
                    continue
                recorded = x in e["cr1"]
                modified = _state(e["fs1"][x]) != _state(e["fs0"][x])
                if recorded or modified:
                    hit.append(x)
                    if x in rel:
                        labels.append(f"{_opword(e)}{_role(e, x)}-existing-{e['fs0'][x]['k']}:"
                                      f"{'recorded' if recorded else 'modified'}")
            compromised.update(hit)
    else:
        left = {p for p in pre if pre[p]["k"] == "absent" and final[p]["k"] != "absent"}
        left = {p for p in left if PAR[p] not in left}  # topmost leftovers
        if evs[-1]["x1"]:
            labels.append("path-outside-model-left")
        for x in sorted(left):
            if _owned(evs[-1]["cr0"], x):
                labels.append("recorded-but-not-removed-by-exit")
                continue
            for e in reversed(evs[:-1]):
                if e["fs1"][x]["k"] == "absent" or _owned(e["cr1"], x):
                    break
                if e["fs0"][x]["k"] == "absent":
                    labels.append(f"{_opword(e)}{_role(e, x)}:created-not-recorded")
                    break
                if _owned(e["cr0"], x):
                    labels.append(f"{_opword(e)}{_role(e, x)}:forgotten-but-present")
                    break
    return sorted(set(labels)) or ["unattributed"]


def _describe(tr: dict) -> str:
    calls = []
    for e in tr["ev"][:-1]:
        args = ad.REL[e["p"]] + (f" -> {ad.REL[e['q']]}" if e["q"] else "")
        extra = "".join([f" {e['fl']}" if e["fl"] else "", " exist_ok" if e["eo"] else "", " kw" if e["kw"] else ""])
        calls.append(f"{e['via']}[{e['op']}{extra}]({args})={e['res']}")
    pre, fin = tr["pre"], tr["ev"][-1]["fs1"]
    diff = [f"{ad.REL[p]}: {pre[p]['k']}{pre[p]['t'] or ''} -> {fin[p]['k']}{fin[p]['t'] or ''}"
            for p in ad.ORDER if _state(pre[p]) != _state(fin[p])]
    return "; ".join(calls) + " || after __exit__: " + (", ".join(diff) or "no difference") + \
        (f" extra={tr['ev'][-1]['x1']}" if tr["ev"][-1]["x1"] else "")


def execute(ctx: Ctx, behs: list[dict]) -> list[dict]:
    """One sandbox tree per behaviour at ctx.work/fs/t<i>, removed after the behaviour.

    ctx.work/fs is backed by tmpfs when /dev/shm is usable (rmdir on the ext4 volume of this
    machine takes 4 ms and is serialised across processes: 4 rmdirs per behaviour); the real
    calls and the wrapper only ever see paths below ctx.work/fs.  VERIF_C29_NO_SHM=1 keeps the
    trees on the disk."""
    base = ctx.work / "fs"
    shm = None
    if not base.exists():
        cand = f"/dev/shm/verif-{ctx.prop}-{ctx.tier}-{os.getpid()}"
        if os.environ.get("VERIF_C29_NO_SHM") != "1" and os.path.isdir("/dev/shm") and os.access("/dev/shm", os.W_OK):
            shutil.rmtree(cand, ignore_errors=True)
            os.mkdir(cand)
            os.symlink(cand, base)
            shm = cand
        else:
            base.mkdir(parents=True)
    try:
        _PROC_DIR.clear()
        items = [(b, str(base), i) for i, b in enumerate(behs)]
        gc.freeze()
        try:
            traces = [ad.expand(t) for t in parallel_map(_job, items, chunksize=64)]
        finally:
            gc.unfreeze()
            gc.enable()
            _PROC_DIR.clear()
        for pd in os.listdir(base):
            left = [x for x in os.listdir(base / pd) if x != "tmp"]
            if left:
                raise RuntimeError(f"sandbox trees not removed: {pd}/{left[:5]}")
            if os.listdir(base / pd / "tmp"):
                raise RuntimeError("isolation left temporary directories behind")
        ctx.notes["sandbox_backing"] = "tmpfs (/dev/shm) behind ctx.work/fs" if shm else "ctx.work/fs on disk"
        return traces
    finally:
        if shm:
            shutil.rmtree(shm, ignore_errors=True)
            os.unlink(base)


SLIM = ("op", "p", "q", "kw", "fl", "eo", "via", "res", "fs1", "cr1", "x1", "r1")


def slim(tr: dict) -> dict:
    """What TLC needs: the state before a call is the state after the previous one."""
    return {"pre": tr["pre"], "ev": [{k: e[k] for k in SLIM} for e in tr["ev"]]}


def judge(ctx: Ctx, behs: list[dict], traces: list[dict]) -> None:
    chunk = min(20000, max(2000, -(-len(traces) // 3)))  # three JVMs run side by side
    verdicts = ctx.validate("FsIsolationTrace", [slim(t) for t in traces], chunk=chunk)
    seen: set[str] = set()
    drift_seen: set[str] = set()
    for idx, bad in sorted(verdicts.items()):
        tr = traces[idx]
        for clause, step in bad:
            if clause in VERDICT:
                for lab in culprits(tr, clause):
                    sig = f"C29/{clause}/{lab}"
                    if sig not in seen:
                        seen.add(sig)
                        ctx.bad(clause, sig, _describe(tr), trace=tr, behaviour=behs[idx])
            elif clause in DRIFT:
                e = tr["ev"][step - 1]
                key = f"{clause}:{e['op']}:{e['via']}:{e['res']}"
                if key not in drift_seen:
                    drift_seen.add(key)
                    ctx.drift.append(f"{clause} step {step}: {_describe(tr)} cr0={e['cr0']} cr1={e['cr1']} "
                                     f"other={e['co1']}")
            else:
                raise RuntimeError(f"harness bug: {clause} false on trace {idx} step {step}: {_describe(tr)}")
    ctx.notes["violating_traces"] = sum(1 for b in verdicts.values() if any(c in VERDICT for c, _ in b))
    ctx.notes["drift_kinds"] = len(drift_seen)


def run(ctx: Ctx) -> None:
    ctx.rule = ("case = one history of calls (open r/w/a/x/r+, os.open flags, mkdir, makedirs(exist_ok), "
                "touch, write_text, rename, replace, copy*, copytree, move, remove, rmdir, rmtree; every "
                "API variant, positional and keyword) enumerated by TLC from MC_FsIsolation over a 8-node "
                "sandbox (pre-existing dir with file, file, empty dir; absent paths), executed in a real "
                "temporary tree under the real FilesystemIsolation, followed by __exit__; non-trivial = "
                "distinct (call, tree state, bookkeeping) whose call succeeded and changed the tree or "
                "the bookkeeping")
    ctx.assumptions = ["POSIX file system semantics (Linux), no symlinks/hardlinks/special files",
                       "absolute paths; the working directory is outside the sandbox and never changes",
                       "only the patched entry points are exercised (os.truncate, os.symlink, os.link, "
                       "os.removedirs, os.chmod ... are not wrapped by the isolation at all)",
                       "content equality by raw bytes; metadata (mtime, mode) is not part of the property"]
    # design: intended design satisfies C29; as-is model loses paths only through named deviations
    thorough = not ctx.quick
    ctx.design("FsIsolation", "FsIsolation_thorough.cfg" if thorough else "FsIsolation.cfg")
    ctx.design("FsIsolation", "FsIsolation_asis_thorough.cfg" if thorough else "FsIsolation_asis_quick.cfg")
    if thorough:  # sanity: the code-as-is model does exhibit the loss (TLC counterexample expected)
        cex = ctx.design("FsIsolation", "FsIsolation_asis_cex.cfg", expect_ok=False)
        if not cex.violations:
            raise RuntimeError("code-as-is design model no longer violates Isolation: deviations fixed? "
                               "update FsIsolationOps/known_findings.d/C29.json")
        ctx.notes["asis_model_violates_Isolation"] = True

    behs = ctx.behaviours("MC_FsIsolation")
    n1 = len(behs)
    if ctx.quick:   # two calls that both change the tree or the bookkeeping (canonical API variants)
        d2 = ctx.behaviours("MC_FsIsolation", "MC_FsIsolation_d2_quick.cfg")
    else:           # + any second call (canonical variants) + both-changing pairs over all API variants
        seen_h = set()
        d2 = []
        for cfg in ("MC_FsIsolation_d2.cfg", "MC_FsIsolation_d2_thorough.cfg"):
            for b in ctx.behaviours("MC_FsIsolation", cfg):
                key = repr(b)
                if key not in seen_h:
                    seen_h.add(key)
                    d2.append(b)
    behs += d2
    n2 = len(d2)
    # histories that end with a stale bookkeeping entry next to a live one (a recorded path whose
    # directory was renamed/removed): __exit__ must survive the failing removal and carry on
    stale = ctx.behaviours("MC_FsIsolation", "MC_FsIsolation_stale3.cfg", timeout=1500)
    if thorough:
        more = ctx.behaviours("MC_FsIsolation", "MC_FsIsolation_stale4.cfg", timeout=3600)
        rng = ctx.rng("stale4")
        rng.shuffle(more)
        stale += more[:15000]
        ctx.notes["behaviours_stale_depth4_enumerated"] = len(more)
    behs += stale
    ctx.notes["behaviours_stale_bookkeeping"] = len(stale)
    if thorough:    # random long histories (every non-final call changes the model state)
        for st in ctx.simulate("MC_FsIsolation", "MC_FsIsolation_sim.cfg", num=600, depth=8):
            if st.get("hist"):
                behs.append({"hist": st["hist"]})
    ctx.notes["behaviours_exhaustive_depth1_all_variants"] = n1
    ctx.notes["behaviours_depth2_executed"] = n2
    ctx.notes["behaviours_simulated"] = len(behs) - n1 - n2 - len(stale)
    ctx.exhaustive = True

    t_exec = time.time()
    traces = execute(ctx, behs)
    ctx.notes["replay_wall_s"] = round(time.time() - t_exec, 1)
    ctx.evaluations = len(traces)
    for t in traces:
        for e in t["ev"][:-1]:
            if e["res"] == "ok" and (e["fs1"] != e["fs0"] or e["cr1"] != e["cr0"]):
                ctx.nontriv((e["op"], e["p"], e["q"], e["kw"], e["fl"], e["eo"], e["via"],
                             tuple(e["fs0"][p]["k"] for p in ad.ORDER), tuple(e["cr0"])))
    judge(ctx, behs, traces)
    for t in traces[:1] + traces[n1:n1 + 1] + traces[-1:]:
        ctx.sample({"calls": [{k: e[k] for k in ("op", "p", "q", "kw", "fl", "eo", "via", "res", "cr1")}
                              for e in t["ev"]],
                    "pre": {p: t["pre"][p]["k"] for p in ad.ORDER},
                    "after_exit": {p: t["ev"][-1]["fs1"][p]["k"] for p in ad.ORDER}})


def replay(ctx: Ctx, rec: dict) -> int:
    traces = execute(ctx, [rec["behaviour"]])
    verdicts = ctx.validate("FsIsolationTrace", [slim(t) for t in traces])
    print("replayed:", _describe(traces[0]))
    shutil.rmtree(ctx.work, ignore_errors=True)
    bad = [c for c, _ in verdicts.get(0, []) if c in VERDICT]
    if bad:
        for c in bad:
            print(f"VIOLATION property=C29 replay=(this) clause={c} culprits={culprits(traces[0], c)}")
        return 1
    print("OK")
    return 0

"""C19 Generated regression assertions are kept in the exported file.

Design: Pipeline.tla (assertion generation -> statement minimisation -> unused-variable removal ->
export over all small test cases; KeepAsserts; the pre-1355a01 variant must fail).
P2: TLC enumerates small test cases over harness/sut/pp_sut.py (MC_PipelineProg); each runs through the
real AssertionGenerator, generator._minimize (every strategy and direction) and TestSuiteWriter.
P1: end-to-end runs; every statement that carries assertions after assertion generation and
assertion minimisation must appear in the exported file followed by as many assert lines.
"""

from __future__ import annotations

import json

from harness.core import Ctx
from harness.props import _pipeline as P


def run(ctx: Ctx) -> None:
    ctx.rule = ("case = statement with reference assertions after assertion generation/minimisation in an "
                "end-to-end run (6 modules x algorithms x SIMPLE/MUTATION_ANALYSIS x minimisation strategies x "
                "seeds); non-trivial = distinct (run, statement) pairs")
    ctx.assumptions = ["a statement is located in the exported file by its whitespace-normalised source line; its "
                       "assertions are the assert lines directly following it"]
    P.design(ctx)
    runs = [r for r in P.runs_for(ctx) if r["cfg"]["assertions"] != "NONE"]
    traces, kept = [], []
    for r in runs:
        evs = P.asserted_events(r)
        if evs:
            traces.append({"ev": evs})
            kept.append(r)
            for e in evs:
                ctx.nontriv((json.dumps(r["cfg"], sort_keys=True), e["test"], e["code"]))
    ctx.notes["asserted_statements"] = sum(len(t["ev"]) for t in traces)
    P.validate(ctx, "C19", {"AssertionsKept"}, kept, traces,
               lambda r, e: f"run {r['cfg']}: statement `{e['code']}` of test {e['test']} had {e['attached']} "
                            f"assertion(s), exported file has it={e['found']} followed by {e['exported']} assert line(s)",
               kind=lambda r, e: "whole-test-removed" if e["test_removed"] else "statement-dropped")
    for t in traces[:2]:
        ctx.sample(t["ev"][:3])
    n_e2e = ctx.evaluations
    # P2: TLC-enumerated test cases (calls that change the state of an object, so that assertions are
    # attached to statements whose own variable is not asserted) through the real pipeline
    ctx.evaluations = n_e2e + P.replay_progs(ctx, "C19", {"AssertionsKept"})


def replay(ctx: Ctx, rec: dict) -> int:
    if "replay" in rec["behaviour"]:
        return P.replay_one(ctx, rec, "C19", {"AssertionsKept"})
    from harness.adapters import e2e  # noqa: PLC0415

    r = e2e.run_many([rec["behaviour"]])[0]
    evs = P.asserted_events(r)
    v = ctx.validate("PipelineTrace", [{"ev": evs}]) if evs else {}
    print(json.dumps(evs)[:3000])
    bad = [c for c, _ in v.get(0, []) if c == "AssertionsKept"]
    if bad:
        print("VIOLATION property=C19 replay=(this)")
        return 1
    print("OK")
    return 0

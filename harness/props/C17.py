"""C17 Search stops as soon as a configured budget is exhausted.

Design: Search.tla (loop shape shared by all algorithms, stopping conditions as counters with
limits; TLC checks IterBound, NoIterationAfterBudget and termination; the variants with `>` instead
of `>=` and with a loop that does not consult the conditions must fail).
P1: real search runs (harness/adapters/e2e_runner, in-process, all algorithms x small budgets);
every resources_left() consultation, after_search_iteration and test execution is recorded with
the stopping conditions' own counters; SearchTrace.tla is evaluated by TLC on each run.
"""

from __future__ import annotations

import json

from harness.adapters import e2e
from harness.core import Ctx, MachineryError

ALGS = ["DYNAMOSA", "MOSA", "MIO", "WHOLE_SUITE", "RANDOM", "RANDOM_TEST_SUITE_SEARCH",
        "RANDOM_TEST_CASE_SEARCH"]


def configs(ctx: Ctx) -> list[dict]:
    rng = ctx.rng("cfg")
    budgets = [(1, -1, -1), (2, -1, -1), (3, 12, -1), (10, 9, -1), (10, -1, 30), (4, 25, 60), (10, 1, -1),
               (20, 6, 100000)]
    out = []
    mods = e2e.MODULES
    for ai, alg in enumerate(ALGS):
        picks = budgets if not ctx.quick else [budgets[(ai + k) % len(budgets)] for k in (0, 3)]
        for bi, (it, ex, st) in enumerate(picks):
            out.append({"module": mods[(ai + bi) % len(mods)], "seed": 1 + rng.randrange(50), "algorithm": alg,
                        "iterations": it, "executions": ex, "statements": st, "assertions": "NONE",
                        "metrics": "BRANCH", "population": 4, "min_strategy": "NONE"})
    # statement budgets around the cost of the initial population and of the first generations, for the
    # algorithms that execute tests before the first iteration (the budget must be charged from the start)
    for ai, alg in enumerate(("MOSA", "DYNAMOSA", "WHOLE_SUITE")):
        for st in ((25, 40) if ctx.quick else (20, 25, 32, 40, 48, 55, 70)):
            out.append({"module": mods[ai % len(mods)], "seed": 7 + ai, "algorithm": alg, "iterations": 10,
                        "executions": -1, "statements": st, "assertions": "NONE", "metrics": "BRANCH",
                        "population": 4, "min_strategy": "NONE"})
    # a module whose tests time out: budget accounting must count those executions too
    for alg in (["DYNAMOSA", "RANDOM"] if ctx.quick else ALGS):
        out.append({"module": "c_hang", "seed": 4, "algorithm": alg, "iterations": 30, "executions": 8,
                    "statements": -1, "assertions": "NONE", "metrics": "BRANCH", "population": 4,
                    "min_strategy": "NONE",
                    "extra": ["--maximum-test-execution-timeout", "1", "--test-execution-time-per-statement", "1"]})
    return out


def project(run: dict) -> dict:
    """Counters: iterations from the iteration condition, test executions counted by the harness
    (every executor.execute during the search, timeouts included), statements = max(the statement
    condition's count, the harness's sum of num_executed_statements over the results); LIMITS from the run's configuration, not from the conditions that happen to exist."""
    cfg = run["cfg"]
    lim = {"itlim": max(int(cfg.get("iterations", -1)), 0), "exlim": max(int(cfg.get("executions", -1)), 0),
           "stlim": max(int(cfg.get("statements", -1)), 0)}

    def counters(conds, execs_seen, stmts_seen=0):
        d = {"iters": 0, "execs": int(execs_seen), "stmts": 0, **lim, "has_it": False, "has_ex": False, "has_st": False}
        for c in conds:
            if c["name"] == "MaxIterationsStoppingCondition":
                d["iters"], d["has_it"] = c["cur"], True
            elif c["name"] == "MaxTestExecutionsStoppingCondition":
                d["execs"], d["has_ex"] = max(c["cur"], int(execs_seen)), True
            elif c["name"] == "MaxStatementExecutionsStoppingCondition":
                # the larger of the condition's own count and the harness's sum over the results: a
                # condition that forgets statements (a reset in the wrong hook) must not hide them
                d["stmts"], d["has_st"] = max(c["cur"], int(stmts_seen)), True
        return d

    evs = []
    init = None
    for e in run["events"]:
        if e["ev"] == "SearchStart":
            init = {"ev": "SearchStart", "res": True, **counters(e["conds"], 0)}
        elif e["ev"] in ("LoopTest", "IterEnd", "FirstIter", "SearchEnd"):
            evs.append({"ev": e["ev"], "res": bool(e.get("result", True)), **counters(e["conds"], e.get("execs", 0), e.get("stmts", 0))})
    return {"init": init, "ev": evs}


def run(ctx: Ctx) -> None:
    ctx.rule = ("case = real search run (algorithm x module x seed x budgets: 1..10 iterations, 1..25 test "
                "executions, 30..60 statement executions); every loop test and iteration end recorded; "
                "non-trivial = distinct run in which a configured budget was reached")
    ctx.assumptions = ["iteration boundary = call of after_search_iteration; an iteration starts at the first "
                       "resources_left() that succeeds after the previous boundary",
                       "budget reached is recomputed in TLA+ from the stopping conditions' counters and limits, "
                       "independently of their is_fulfilled()"]
    ctx.design("Search", deadlock=False)
    for cfg, key in (("Search_gt.cfg", "design_with_gt_violates"), ("Search_noconsult.cfg", "design_no_consult_violates")):
        r = ctx.design("Search", cfg, expect_ok=False, deadlock=False)
        ctx.notes[key] = sorted({v.name for v in r.violations})
        if not r.violations:
            raise MachineryError(f"{cfg} should violate the property")
    cfgs = configs(ctx)
    runs = e2e.run_many(cfgs, timeout=600, parallel=6)
    traces = []
    kept = []
    for r in runs:
        t = project(r)
        if t["init"] is None or r["hung"]:
            raise MachineryError(f"search run produced no SearchStart (hung={r['hung']}): {r['cfg']}\n{r['stderr_tail'][-800:]}")
        traces.append(t)
        kept.append(r)
        last = t["ev"][-1] if t["ev"] else t["init"]
        if (last["itlim"] and last["iters"] >= last["itlim"]) or (last["exlim"] and last["execs"] >= last["exlim"]) \
                or (last["stlim"] and last["stmts"] >= last["stlim"]):
            ctx.nontriv(json.dumps(r["cfg"], sort_keys=True))
    ctx.evaluations = len(traces)
    ctx.notes["runs_cached"] = sum(1 for r in runs if r["cached"])
    ctx.notes["algorithms"] = ALGS
    verdicts = ctx.validate("SearchTrace", traces)
    for idx, bad in sorted(verdicts.items()):
        for clause, step in bad:
            c = kept[idx]["cfg"]
            ev = traces[idx]["ev"][step - 1] if step > 0 else traces[idx]["init"]
            ctx.bad(clause, f"C17/{clause}/{c['algorithm']}",
                    f"run {c}: at event {step} {ev}", trace=traces[idx], behaviour=c)
    for r, t in list(zip(kept, traces))[:2]:
        ctx.sample({"cfg": {k: r["cfg"][k] for k in ("algorithm", "module", "iterations", "executions", "statements")},
                    "events": [{k: e[k] for k in ("ev", "res", "iters", "execs", "stmts")} for e in t["ev"][:12]]})


def replay(ctx: Ctx, rec: dict) -> int:
    r = e2e.run_many([rec["behaviour"]])[0]
    t = project(r)
    v = ctx.validate("SearchTrace", [t])
    print(json.dumps(t)[:3000])
    if v:
        print(f"VIOLATION property=C17 replay=(this) clauses={v[0]}")
        return 1
    print("OK")
    return 0

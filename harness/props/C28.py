"""C28 Mutation analysis yields genuine mutants and leaves the original intact.

Design: Mutants.tla (+ MutantsOps.tla) -- the mutate-and-restore generators as coded, the three
`mutate` bodies (historical order, `_select_mutations`, HOM generator stacks) and every consumer
schedule (Start / Next / Close / Abandon / Collect / Count).  TLC checks
  * the model as coded, consumers that run every enumeration to its end: all C28 invariants hold;
  * the model as coded with early exits: RestoredAtQuiescence is violated (prediction);
  * the model as coded, HOM count: CountEqualsFull is violated (prediction);
  * the model with the suggested fixes: everything holds for every schedule.
P2: consumer schedules enumerated by TLC (MC_Mutants) are replayed on the real
FirstOrderMutator / HighOrderMutator / MutationController over generated modules (thorough:
also stdlib modules); MutantsTrace.tla evaluates OriginalIntact, MutantDiffersOnlyAtMutatedNodes,
SampledSubsetOfFull and CountEqualsFull on every recorded event.
"""

from __future__ import annotations

import json
from concurrent.futures import ThreadPoolExecutor

from harness.adapters import mutants as ad
from harness.core import Ctx, parallel_map
from harness.tlc import MachineryError

KIND_NAME = {"plain": "FirstOrderMutator[historical-order]",
             "select": "FirstOrderMutator[select]",
             "hom": "HighOrderMutator"}
CLAUSES = ("OriginalIntact", "MutantDiffersOnlyAtMutatedNodes", "SampledSubsetOfFull",
           "CountEqualsFull")


def signature(tr: dict, ev: dict, clause: str) -> str:
    kind = KIND_NAME[tr["kind"]]
    if clause == "OriginalIntact":
        if ev["op"] in ("close", "abandon"):
            site = f"{ev['op']}-while-{'suspended' if ev['was'] == 'susp' else ev['was']}"
        elif ev["op"] == "next":
            site = f"next-{ev['st']}" + (f":{ev['exc']}" if ev["exc"] else "")
        else:
            site = ev["op"]
    elif clause == "CountEqualsFull":
        if ev["rt"] != "count":
            site = f"raised:{ev['exc']}"
        elif tr["kind"] == "hom" and ev["n"] == len(tr["full"]):
            site = "reports-first-order-count"
        else:
            site = "other-count"
    elif clause == "MutantDiffersOnlyAtMutatedNodes":
        site = "+".join(sorted(set(ev.get("ops", [])))) or "?"
    elif clause == "SampledSubsetOfFull":
        if ev["rt"] == "mutant":
            site = "mutant-not-in-full-enumeration"
        elif len(set(ev["seen"])) != len(ev["seen"]):
            site = "duplicate-mutant"
        else:
            site = "not-all-mutants"
    else:
        site = "?"
    return f"C28/{clause}/{kind}/{site}"


def _detail(tr: dict, ev: dict, step: int) -> str:
    return (f"module {tr['mod']!r}, {tr['cfg']} via {'MutationController' if tr['route'] == 'ctl' else 'mutator'}: "
            f"step {step} {ev['op']} (generator {ev['was']} -> {ev['st']}) tree {ev['pre']} -> {ev['post']} "
            f"(0 = as parsed; enumeration began on {ev['base']}), result {ev['rt']}{' ' + ev['exc'] if ev['exc'] else ''}"
            f"{', count ' + str(ev['n']) + ' vs ' + str(len(tr['ref'])) + ' mutants of the full enumeration' if ev['op'] == 'count' else ''}"
            f"{', mutated nodes ' + str(ev['mpaths']) + ' differs at ' + str(ev['dpaths']) if ev['rt'] == 'mutant' else ''}")


def _designs(ctx: Ctx) -> dict:
    """The five TLC runs of the design model (they run while the schedules are replayed)."""
    q = ctx.quick
    # thorough: longer consumer schedules (three enumerations, 18 actions)
    deeper = {"MaxActs = 10": "MaxActs = 18", "MaxStarts = 2": "MaxStarts = 3"}

    # quick: the fixed model explores one enumeration (exit at every yield, Count everywhere)
    shallow = {"MaxActs = 10": "MaxActs = 8", "MaxStarts = 2": "MaxStarts = 1"}

    def cfg(name: str) -> str:
        text = (ad_spec_dir() / name).read_text()
        subst = deeper if not q else (shallow if name == "Mutants_fixed.cfg" else {})
        for a, b in subst.items():
            text = text.replace(a, b)
        out = ctx.work / f"{'q' if q else 't'}-{name}"
        out.write_text(text)
        return str(out)

    runs = [("as-coded/run-to-end", "Mutants.cfg", True),
            ("as-coded/early-exit", "Mutants_exit.cfg", False),
            ("as-coded/hom-count", "Mutants_homcount.cfg", False),
            ("fixed/any-schedule", "Mutants_fixed.cfg", True)]
    runs.append(("as-coded/finish-forward", "Mutants_fwd.cfg", False))
    res = {}
    for label, name, ok in runs:            # one after the other: ctx.design uses one work directory
        r = ctx.design("Mutants", cfg(name), expect_ok=ok, workers=2 if q else 4, timeout=1500)
        viol = sorted({v.name for v in r.violations})
        res[label] = {"distinct": r.distinct, "violated": viol}
        if not ok and not viol:
            ctx.drift.append(f"design model {label}: expected a counterexample, TLC found none")
    return res


def ad_spec_dir():
    from harness.core import SPEC
    return SPEC


def _jobs(ctx: Ctx) -> tuple[list[dict], dict]:
    """TLC-enumerated schedules x programs."""
    q = ctx.quick
    info = {}
    life = ctx.behaviours("MC_Mutants", "MC_Mutants_q.cfg" if q else "MC_Mutants.cfg")
    each = ctx.behaviours("MC_Mutants", "MC_Mutants_each_q.cfg" if q else "MC_Mutants_each.cfg")
    sims = [{"cfg": s["cfg"], "route": s["route"], "hist": s["hist"]}
            for s in ctx.simulate("MC_Mutants", "MC_Mutants_sim.cfg", num=150 if q else 2000, depth=10)]
    info["schedules_lifecycle"] = len(life)
    info["schedules_exit_at_each_yield"] = len(each)
    info["schedules_simulated"] = len(sims)
    tiny = ad.TINY
    nm = {m: len(ad.reference(m, "fo:plain")["full"]) for m in tiny}
    jobs = []
    order = lambda b: (b["cfg"], b["route"], json.dumps(b["hist"]))  # noqa: E731
    # programs rotate over the schedules (quick: one program per schedule; thorough: two per life-cycle
    # schedule, every program for an exit at each yield through MutationController, three otherwise)
    for i, b in enumerate(sorted(life, key=order)):
        for j in range(1 if q else 2):
            jobs.append({**b, "mod": tiny[(i + 3 * j) % len(tiny)]})
    for i, b in enumerate(sorted(each, key=order)):
        k = b["hist"][1]["k"]
        if q:
            mods = [tiny[i % len(tiny)]]
        elif b["route"] == "ctl":
            mods = tiny
        else:
            mods = [tiny[(i + 3 * j) % len(tiny)] for j in range(3)]
        for m in mods:
            if q or k <= nm[m] + 1:          # larger k repeat the schedule with k = n + 1
                jobs.append({**b, "mod": m})
    for i, b in enumerate(sims):
        jobs.append({**b, "mod": tiny[i % len(tiny)]})
    if not q:
        # pure stdlib modules: every configuration, a few schedules each
        cfgs = sorted({b["cfg"] for b in life})
        A = lambda op, k=0: {"op": op, "k": k}  # noqa: E731, N806
        for m in ad.STDLIB:
            for c in cfgs:
                for r in ("ctl", "mut"):
                    hs = [[A("count"), A("start"), A("exhaust"), A("count")]]
                    if r == "mut":
                        hs += [[A("start"), A("next", 7), A("close"), A("count")],
                               [A("start"), A("next", 40), A("abandon"), A("start"), A("next", 3)]]
                    for h in hs:
                        jobs.append({"cfg": c, "route": r, "hist": h, "mod": m})
        info["stdlib_modules"] = ad.STDLIB
    jobs.sort(key=lambda b: (b["mod"], b["cfg"], b["route"]))
    return jobs, info


def _strip(tr: dict) -> dict:
    return {k: v for k, v in tr.items() if k != "meta"}


def run(ctx: Ctx) -> None:
    ctx.rule = ("case = (program, mutator configuration, route, consumer schedule); schedules are all "
                "histories of MC_Mutants (start / next k / exhaust / close / abandon / count; an early "
                "close or abandon at every yield index) plus random longer ones (-simulate); programs are "
                "10 generated modules in which all 28 registered operators produce mutants (thorough: also "
                "bisect, heapq, textwrap from the stdlib); non-trivial = distinct executed case in which "
                "the real code yielded at least one mutant or reported a count")
    ctx.assumptions = [
        "tree equality = equality of ast.dump(tree) (structure and values; line/column attributes are "
        "compared separately and reported as drift)",
        "abandoning = dropping the only reference and running gc.collect() (CPython finalises the "
        "generator at once)",
        "mutation descriptor = (operator class, visitor name, position of the node in the tree as "
        "parsed, ast.dump of the replacement node); RandomHOMStrategy runs with a fixed seed of "
        "pynguin.utils.randomness.RNG",
        "one enumeration at a time; mutant_count() is only scheduled while no enumeration is suspended",
    ]
    _ = ctx.work                              # create the scratch directory before threads use it
    with ThreadPoolExecutor(max_workers=1) as bg:
        fut = bg.submit(_designs, ctx)
        jobs, info = _jobs(ctx)
        traces = parallel_map(ad.replay, jobs, chunksize=8)
        designs = fut.result()
    ctx.notes["design_runs"] = designs
    ctx.notes.update(info)
    ctx.exhaustive = True

    # identical traces (same program, configuration, route and events) are validated once
    uniq: dict[str, int] = {}
    keep, keep_jobs = [], []
    for tr, job in zip(traces, jobs):
        key = json.dumps(_strip(tr), sort_keys=True)
        if key not in uniq:
            uniq[key] = len(keep)
            keep.append(tr)
            keep_jobs.append(job)
    ctx.notes["replays"] = len(traces)
    ctx.notes["distinct_traces"] = len(keep)
    nev = 0
    identical = attr = 0
    resets = 0
    ops_seen, cfg_seen = set(), set()
    for tr, job in zip(keep, keep_jobs):
        nev += len(tr["ev"])
        identical += tr["meta"]["identical_mutants"]
        attr += 1 if tr["meta"]["attr_changed"] else 0
        resets += sum(1 for e in tr["ev"] if e["op"] == "reset")
        if any(e["rt"] in ("mutant", "count") for e in tr["ev"]):
            ctx.nontriv((tr["mod"], tr["cfg"], tr["route"], json.dumps(job["hist"])))
        cfg_seen.add((tr["cfg"], tr["route"]))
        for e in tr["ev"]:
            ops_seen.update(e.get("ops", []))
    ctx.evaluations = nev * len(CLAUSES)
    ctx.notes["events_validated"] = nev
    ctx.notes["operators_that_yielded_mutants"] = len(ops_seen)
    ctx.notes["configurations_x_routes"] = len(cfg_seen)
    ctx.notes["harness_resets_after_damage"] = resets
    referr = sorted({t["meta"]["reference_raised"] for t in keep if t["meta"]["reference_raised"]})
    if referr:
        ctx.drift.append(f"the reference (full) enumeration itself raised {referr}; the recorded prefix is used")
    over = sum(1 for t in keep if t["kind"] == "select" and t["cap"] >= 0
               for e in t["ev"] if e["rt"] == "stop" and e["base"] == 0 and len(e["seen"]) > t["cap"])
    if over:
        ctx.drift.append(f"{over} capped enumeration(s) yielded more mutants than `maximum_mutants` "
                         "(the design model's `_stratified_counts` keeps at most the cap)")
    if identical:
        ctx.drift.append(f"{identical} yielded mutant(s) do not differ from the original tree at all")
    if attr:
        ctx.drift.append(f"{attr} trace(s): tree structurally intact but line/column attributes changed")

    verdicts = ctx.validate("MutantsTrace", [_strip(t) for t in keep], chunk=4000)
    for idx, bad in sorted(verdicts.items()):
        tr = keep[idx]
        for clause, step in bad:
            if clause == "Chained":
                raise MachineryError(f"harness bug: trace {idx} not chained at step {step}")
            ev = tr["ev"][step - 1]
            ctx.bad(clause, signature(tr, ev, clause), _detail(tr, ev, step), trace=_strip(tr),
                    behaviour=keep_jobs[idx])

    # vacuity guard -- only meaningful when the enumerations ran (a broken enumeration is a verdict above)
    if len(ops_seen) < len(ad.ALL_OPERATORS) and not any(
            b.clause != "CountEqualsFull" and not b.signature.endswith("-while-suspended") for b in ctx.bads):
        raise MachineryError(f"only {len(ops_seen)} of {len(ad.ALL_OPERATORS)} operators produced a mutant")

    # drift: what the as-coded design model predicts vs what the real code showed
    predicted_exit = "RestoredAtQuiescence" in designs["as-coded/early-exit"]["violated"]
    seen_exit = any(b.clause == "OriginalIntact" and b.signature.endswith("-while-suspended")
                    for b in ctx.bads)
    if predicted_exit != seen_exit:
        ctx.drift.append("design model (as coded) predicts a mutated tree after close/abandon at a yield: "
                         f"{predicted_exit}; real code showed it: {seen_exit}")
    predicted_cnt = "CountEqualsFull" in designs["as-coded/hom-count"]["violated"]
    seen_cnt = any(b.clause == "CountEqualsFull" for b in ctx.bads)
    if predicted_cnt != seen_cnt:
        ctx.drift.append(f"design model (as coded) predicts HOM count != mutants yielded: {predicted_cnt}; "
                         f"real code showed it: {seen_cnt}")
    for t in keep[:2] + keep[-1:]:
        ctx.sample({"mod": t["mod"], "cfg": t["cfg"], "route": t["route"],
                    "events": [{k: e[k] for k in ("op", "was", "st", "pre", "post", "rt", "muts", "n")}
                               for e in t["ev"][:8]]})


def replay(ctx: Ctx, rec: dict) -> int:
    tr = ad.replay(rec["behaviour"])
    verdicts = ctx.validate("MutantsTrace", [_strip(tr)])
    for e in tr["ev"]:
        print(e)
    if verdicts:
        sigs = sorted({signature(tr, tr["ev"][step - 1], clause) for clause, step in verdicts[0]})
        print(f"VIOLATION property=C28 replay=(this) clauses={verdicts[0]} signatures={sigs}")
        return 1
    print("OK")
    return 0

"""C24 Exported tests round-trip through the seed parser.

P1: the file every end-to-end run exports is parsed back by the real seed parser
(analyses.seeding.parse_seed_module on a real test cluster) and re-exported by the real
TestSuiteWriter; for every exported test function TLC compares the hash of its code with the hash
of the code rendered from the re-parsed test case (PipelineTrace.tla: SeedRoundTrip).  The corpus
of shapes comes from the shared end-to-end runs (Pipeline.tla is their design model).
"""

from __future__ import annotations

import json
import os
import subprocess
import sys
from concurrent.futures import ThreadPoolExecutor
from pathlib import Path

from harness.adapters import e2e
from harness.core import ROOT, Ctx
from harness.props import _pipeline as P


def reparse(run: dict) -> dict:
    d = Path(run["dir"])
    out = d / "reparse.json"
    if not out.exists():
        env = dict(os.environ, PYNGUIN_DANGER_AWARE="1", PYTHONHASHSEED="0")
        subprocess.run([sys.executable, "-m", "harness.adapters.e2e_reparse", str(d)], cwd=str(ROOT), env=env,
                       capture_output=True, text=True, timeout=600)
    return json.loads(out.read_text()) if out.exists() else {"ok": False, "error": "reparse runner died"}


def events(run: dict, rp: dict) -> list[dict]:
    exp = e2e.first(run["events"], "Export")
    if exp is None or not exp["text"]:
        return []
    f1 = P.functions_of(exp["text"])
    f2 = P.functions_of(rp.get("text", "")) if rp.get("ok") else {}
    # re-parsed test cases are numbered consecutively; an exported function that could not be parsed at all
    # shifts the numbering, so match by content first and by name second
    by_code = {"".join(e2e.norm(x) for x in body): name for name, body in f2.items()}
    evs = []
    for name, body in sorted(f1.items()):
        code1 = "".join(e2e.norm(x) for x in body)
        if code1 in by_code:
            code2 = code1
        else:
            code2 = "".join(e2e.norm(x) for x in f2.get(name, []))
        evs.append({"ev": "Reparse", "name": name, "h_exported": P.h(code1), "h_reparsed": P.h(code2) if code2 else 0,
                    "exported": body, "reparsed": f2.get(name, []), "error": rp.get("error", "")[:300]})
    return evs


def kind(r, e):
    exported, reparsed = e["exported"], e["reparsed"]
    if not reparsed:
        return "function-not-parsed"
    from pynguin.utils.naming import get_module_alias  # noqa: PLC0415

    alias = get_module_alias(r["cfg"]["module"]) + "."
    if [e2e.norm(x).replace(alias, "") for x in exported] == [e2e.norm(x).replace(alias, "") for x in reparsed]:
        return "sut-name-qualified-with-alias"
    a = [x for x in exported if x.startswith("assert")]
    b = [x for x in reparsed if x.startswith("assert")]
    if len(a) != len(b):
        return "assertions-lost" if len(b) < len(a) else "assertions-added"
    if any("pytest.raises" in x for x in exported) != any("pytest.raises" in x for x in reparsed):
        return "raises-wrapper"
    return "statement-differs"


def run(ctx: Ctx) -> None:
    ctx.level = "other"
    ctx.rule = ("case = exported test function of an end-to-end run, parsed back with parse_seed_module and rendered "
                "again; non-trivial = distinct exported test functions with at least one call statement")
    ctx.assumptions = ["both files are formatted by the writer (black); comparison on whitespace-normalised lines",
                       "fidelity of a parser is sampled over generated suites; TLA+ supplies the pipeline model and "
                       "the formula evaluation, not exhaustiveness"]
    ctx.notes["explanation"] = ("Trace validation of sampled end-to-end runs: for every exported test function the "
                                "code rendered from the re-parsed test case must equal the exported code "
                                "(TLC evaluates SeedRoundTrip on interned hashes).")
    P.design(ctx)
    runs = P.runs_for(ctx)
    with ThreadPoolExecutor(max_workers=6) as ex:
        rps = list(ex.map(reparse, runs))
    traces, kept = [], []
    for r, rp in zip(runs, rps):
        evs = events(r, rp)
        if evs:
            traces.append({"ev": evs})
            kept.append(r)
            for e in evs:
                if any("(" in ln for ln in e["exported"]):
                    ctx.nontriv((json.dumps(r["cfg"], sort_keys=True), e["name"]))
        if not rp.get("ok"):
            ctx.drift.append(f"re-parse failed for {r['cfg']}: {rp.get('error', '')[:200]}")

    P.validate(ctx, "C24", {"SeedRoundTrip"}, kept, traces,
               lambda r, e: f"run {r['cfg']}: {e['name']} exported {e['exported']} re-parsed {e['reparsed']} {e['error']}",
               kind=kind, with_strategy=False)
    for t in traces[:2]:
        ctx.sample([{k: e[k] for k in ("name", "exported", "reparsed")} for e in t["ev"][:2]])
    n_e2e = ctx.evaluations
    # P2: TLC-enumerated test cases over harness/sut/pp_sut.py (calls, property reads, instances of a
    # nested class, enum members, a raising call; with and without statement minimisation, which turns
    # unused bindings into bare expression statements) exported, re-parsed and exported again
    ctx.evaluations = n_e2e + P.replay_progs(ctx, "C24", {"SeedRoundTrip"}, kind=kind)


def replay(ctx: Ctx, rec: dict) -> int:
    if "replay" in rec["behaviour"]:
        return P.replay_one(ctx, rec, "C24", {"SeedRoundTrip"})
    r = e2e.run_many([rec["behaviour"]])[0]
    evs = events(r, reparse(r))
    print(json.dumps(evs)[:3000])
    v = ctx.validate("PipelineTrace", [{"ev": evs}]) if evs else {}
    if any(c == "SeedRoundTrip" for c, _ in v.get(0, [])):
        print("VIOLATION property=C24 replay=(this)")
        return 1
    print("OK")
    return 0

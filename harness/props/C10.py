"""C10 Fitness values, coverage values and covered verdicts agree.

Design: Fitness.tla (FitnessOps semantics satisfies the laws on every trace the tracer can produce).
Replay: every abstract (registry, trace, exclusions) of MC_Fitness is materialised as a real
SubjectProperties / ExecutionTrace; every public fitness / coverage / goal function is called;
FitnessTrace.tla evaluates the C10 clauses on the returned values.
"""

from __future__ import annotations

import json
import os
import subprocess
import sys
from concurrent.futures import ThreadPoolExecutor

from harness.adapters import fitness as ad
from harness.core import REPO, ROOT, Ctx, parallel_map
from harness.tlc import MachineryError

#: clauses of FitnessTrace.cfg that compare the real code with the model (drift, never a verdict)
DRIFT = {"ObservedTraceWF", "ConformsFitness", "ConformsCovered", "ConformsCoverage", "ConformsMerge"}

_REALS: dict[str, ad.Real] = {}


def real_for(reg: dict) -> ad.Real:
    key = json.dumps(reg, sort_keys=True)
    r = _REALS.get(key)
    if r is None:
        r = _REALS[key] = ad.Real(reg)
    return r


def plain(x):
    """TLA+ value parsed by tlc.parse_tla_value -> plain JSON-like value (sets -> sorted lists)."""
    if isinstance(x, dict):
        if "__set__" in x:
            items = [plain(y) for y in x["__set__"]]
            return sorted(items, key=lambda v: json.dumps(v, sort_keys=True))
        return {k: plain(v) for k, v in x.items()}
    if isinstance(x, list):
        return [plain(y) for y in x]
    return x


def order_exs(exs: list[dict]) -> list[dict]:
    return sorted(exs, key=lambda e: (len(e["code"]) + len(e["tr"]) + len(e["fa"]), json.dumps(e, sort_keys=True)))


def _eval_job(job) -> dict:
    reg, exs, t, pal = job
    return ad.eval_event(real_for(reg), t, exs, ad.PALETTES[pal])


SUTS = {
    "fit_sut_a": '''
def classify(x: int, y: int) -> str:
    if x > y:
        if x > 100:
            return "big"
        if x - y == 4242:
            return "magic"
        return "gt"
    elif x == y:
        return "eq"
    return "lt"


def noop() -> int:
    return 1
''',
    "fit_sut_b": '''
class Acc:
    def __init__(self, start: int):
        self.v = start % 10

    def add(self, n: int) -> int:
        n = n % 5
        while n > 0:
            self.v += 1
            n -= 1
        if self.v == 7:
            return -1
        return self.v


def pick(s: str, k: int) -> str:
    if s in ("a", "bb", "ccc"):
        return s * 2
    if k < 0 or len(s) > 3:
        return "neg"
    return s
''',
}


def search_run(spec: dict) -> dict:
    """One real search (pynguin CLI entry point, in a subprocess) with the recording hook of
    harness/adapters/fitness_search.py; returns its record."""
    work = spec["work"]
    sut = os.path.join(work, "sut")
    os.makedirs(sut, exist_ok=True)
    for name, src in SUTS.items():
        path = os.path.join(sut, name + ".py")
        if not os.path.exists(path):
            with open(path, "w") as f:
                f.write(src.lstrip())
    tag = f"{spec['module']}-{spec['algorithm']}-{spec['seed']}"
    out = os.path.join(work, f"search-{tag}.json")
    env = dict(os.environ, PYTHONPATH=f"{ROOT}:{REPO}/src", PYNGUIN_DANGER_AWARE="1", PYTHONHASHSEED="0")
    cmd = [sys.executable, "-m", "harness.adapters.fitness_search", out,
           "--project-path", sut, "--module-name", spec["module"], "--output-path", os.path.join(work, "out-" + tag),
           "--algorithm", spec["algorithm"], "--maximum-iterations", str(spec["iterations"]),
           "--maximum-search-time", "-1", "--seed", str(spec["seed"]), "--no-rich",
           "--use-master-worker", "False",
           "--coverage-metrics", "BRANCH" if spec["algorithm"] == "DYNAMOSA" else "BRANCH,LINE"]
    p = subprocess.run(cmd, cwd=work, env=env, capture_output=True, text=True, timeout=1500)
    if not os.path.exists(out):
        raise MachineryError(f"search run {tag} produced no record (exit {p.returncode}):\n{p.stderr[-1500:]}")
    with open(out) as f:
        rec = json.load(f)
    if rec["errors"]:
        raise MachineryError(f"recording hook failed in search run {tag}:\n{rec['errors'][0]}")
    return rec


def offenders(ev: dict, clause: str) -> str:
    """Human readable hint which recorded entries look wrong (for the report only)."""
    e = ev["post"]
    z, o, top = ev["z"], ev["o"], ev["top"]
    out = []
    for f in e["fits"] + e["goals"]:
        bad = ((clause == "FitnessFiniteNonNeg" and not (z <= f["v"] < top))
               or (clause.startswith("ZeroImpliesCovered") and f["c"] == "F" and f["v"] == z)
               or (clause == "CoveredImpliesZero" and f["c"] == "T" and f["v"] != z)
               or (clause == "VerdictIsBool" and f["c"] == "exc"))
        if bad:
            g = f" goal={f['k']}(c={f['gc']},p={f['gp']},{f['gb']},l={f['gl']})" if "k" in f else ""
            out.append(f"{f['n']}[ex={ev['exs'][f['x']] if ev['exs'] else {}}]{g} fitness_rank={f['v']} (zero={z}) covered={f['c']}")
    for c in e["covs"]:
        if clause == "CoverageIn01" and not (z <= c["v"] <= o):
            out.append(f"{c['n']} coverage_rank={c['v']} (0.0={z}, 1.0={o})")
    if clause == "SuiteZeroIffCoverageOne":
        out.append("branch fitness / branch coverage: "
                   + str([(f["n"], f["x"], f["v"] == z) for f in e["fits"] if f["cls"] == "branch"])
                   + str([(c["n"], c["v"] == o) for c in e["covs"] if c["cls"] == "branch"]))
    return "; ".join(out[:4]) + (" " + "; ".join(e["errs"][:3]) if e["errs"] else "")


def signature(clause: str, ev: dict) -> str:
    # clause names of FitnessTrace.tla already carry direction, function level and input class
    return f"C10/{clause}"


def run(ctx: Ctx) -> None:
    ctx.rule = ("case = (registry, execution trace, exclusion sets) enumerated by TLC from MC_Fitness: ALL "
                "well-formed abstract traces (predicate counts, true/false distances zero/finite/inf, executed "
                "code objects, covered and checked lines) over all registries in bounds, plus the test traces of "
                "random tracer-callback behaviours (-simulate) and the best suite after every iteration of real "
                "search runs; each abstract trace is materialised as a real ExecutionTrace / "
                "SubjectProperties and every fitness, coverage and goal function is called. non-trivial = "
                "distinct (registry, trace, float palette) with a non-empty registry; evaluations = function "
                "results checked by TLC")
    ctx.assumptions = [
        "traces are what the tracer can produce (FitnessOps!WF, shown inductive by Fitness.tla): every predicate "
        "execution records exactly one zero distance, its code object is entered first, ids are registered",
        "abstract distances P<Q are represented by several float pairs (1.0/3.0 exact, 5e-324/1e308, ...); "
        "floats are compared by TLC through their rank",
        "test cases / executor are stubs returning the materialised ExecutionResult; chromosomes, fitness and "
        "coverage function classes, goals, CFG and CDG objects are the real classes",
        "assertion-checked coverage is exercised only with traces that contain no executed assertions",
        "real search runs: pynguin CLI entry point on two small modules (branch + line coverage), best suite after "
        "every iteration, all functions attached to the suite plus fresh instances; first 8 test cases for goals",
    ]
    # real suites from real search runs (best suite after every iteration); started now, collected later
    work = str(ctx.work / "search")
    if ctx.quick:
        specs = [{"module": "fit_sut_a", "algorithm": "DYNAMOSA", "seed": ctx.seed + 1, "iterations": 3}]
    else:
        specs = [{"module": m, "algorithm": a, "seed": ctx.seed + sd, "iterations": 10}
                 for m in SUTS for a in ("WHOLE_SUITE", "MOSA", "DYNAMOSA", "MIO") for sd in (1, 2)]
    for sp_ in specs:
        sp_["work"] = work
    pool = ThreadPoolExecutor(max_workers=1 if ctx.quick else 4)
    futures = [pool.submit(search_run, sp_) for sp_ in specs]
    q = ctx.quick
    design = ctx.design("Fitness", "Fitness.cfg" if q else "Fitness_thorough.cfg",
                        coverage_actions=["ExecutedCodeObject", "ExecutedPredicate", "TrackLineVisit", "CheckedLine"])
    groups = ctx.behaviours("MC_Fitness", "MC_Fitness.cfg" if q else "MC_Fitness_thorough.cfg")
    # the traces replayed on the real code are exactly the traces on which TLC checked the laws
    n_traces = sum(len(g["traces"]) for g in groups)
    ctx.notes["abstract_traces_enumerated"] = n_traces
    ctx.notes["design_reachable_traces"] = design.distinct
    if design.distinct != n_traces:
        raise MachineryError(f"Fitness.tla reaches {design.distinct} traces but MC_Fitness enumerates {n_traces}: "
                             "the bounds of the two cfg files are out of sync")
    jobs, origin = [], []
    for g in groups:
        exs = order_exs(g["exs"])
        for t in g["traces"]:
            jobs.append((g["reg"], exs, t, 0))
            origin.append({"reg": g["reg"], "exs": exs, "trace": t, "palette": 0})
            if any(d in ("P", "Q") for d in t["dT"] + t["dF"]) or any(c >= 2 for c in t["cnt"]):
                # the same case with other float representatives of P and Q
                pal = 1 + len(jobs) % (len(ad.PALETTES) - 1)
                jobs.append((g["reg"], exs, t, pal))
                origin.append({"reg": g["reg"], "exs": exs, "trace": t, "palette": pal})
    n_enum = len(jobs)
    rng = ctx.rng("palette")
    finals = ctx.simulate("MC_Fitness", "MC_Fitness_sim.cfg", num=150 if q else 3000, depth=60)
    for st in finals:
        reg, ex = plain(st["reg"]), plain(st["ex"])
        exs = order_exs([{"code": [], "tr": [], "fa": []}] + ([ex] if ex["code"] or ex["tr"] or ex["fa"] else []))
        for t in plain(st["tests"]) + [plain(st["cur"])]:
            pal = rng.randrange(len(ad.PALETTES))
            jobs.append((reg, exs, t, pal))
            origin.append({"reg": reg, "exs": exs, "trace": t, "palette": pal, "from": "simulate"})
    ctx.exhaustive = True
    events = parallel_map(_eval_job, jobs, chunksize=64)
    records = [f.result() for f in futures]
    pool.shutdown()
    n_search = 0
    for sp_, rec in zip(specs, records):
        for ev in rec["events"]:
            events.append(ev)
            jobs.append((ev["reg"], ev["exs"], ev["post"]["tr"], -1))
            origin.append({"from": "search", "spec": {k: v for k, v in sp_.items() if k != "work"}})
            n_search += 1
    ctx.notes["search_runs"] = [{k: v for k, v in s_.items() if k != "work"} | {"iterations_seen": r["iterations"],
                                                                              "events": len(r["events"])}
                                for s_, r in zip(specs, records)]
    ctx.notes["cases_from_search_runs"] = n_search
    if n_search == 0:
        raise MachineryError("search runs recorded no suite")
    ctx.notes["cases_enumerated"] = n_enum
    ctx.notes["cases_simulated"] = len(jobs) - n_enum - n_search
    ctx.notes["registries"] = len(groups)
    ctx.notes["functions"] = ad.LEGEND
    n_eval = 0
    for job, ev in zip(jobs, events):
        e = ev["post"]
        n_eval += len(e["fits"]) + len(e["goals"]) + len(e["covs"])
        if ev["reg"]["cos"] or ev["reg"]["nl"]:
            ctx.nontriv(json.dumps([ev["reg"], job[2], job[3], ev["post"]["fits"][:1]], sort_keys=True))
    ctx.evaluations = n_eval
    traces = [{"ev": [ev]} for ev in events]
    verdicts = ctx.validate("FitnessTrace", traces, chunk=4000)
    drift_seen: dict[str, int] = {}
    for idx, bad in sorted(verdicts.items()):
        ev = events[idx]
        for clause, _step in bad:
            if clause in DRIFT:
                drift_seen[clause] = drift_seen.get(clause, 0) + 1
                if drift_seen[clause] <= 3:
                    ctx.drift.append(f"{clause}: real code and FitnessOps disagree on {json.dumps(origin[idx])[:400]}")
                continue
            ctx.bad(clause, signature(clause, ev),
                    f"registry {ev['reg']} trace {ev['post']['tr']}: {offenders(ev, clause)}",
                    trace=ev, behaviour=origin[idx])
    for c, n in drift_seen.items():
        ctx.drift.append(f"{c}: {n} cases in total")
    for i in (0, n_enum // 2, n_enum - 1, len(events) - 1):
        e = events[i]
        ctx.sample({"case": origin[i], "observed": {"fits": e["post"]["fits"][:3], "covs": e["post"]["covs"][:2],
                                                      "zero_rank": e["z"], "one_rank": e["o"]}})


def replay(ctx: Ctx, rec: dict) -> int:
    b = rec["behaviour"]
    if b.get("from") == "search":
        evs = search_run(dict(b["spec"], work=str(ctx.work / "search")))["events"]
    else:
        evs = [_eval_job((b["reg"], b["exs"], b["trace"], b["palette"]))]
    verdicts = ctx.validate("FitnessTrace", [{"ev": [ev]} for ev in evs])
    print("replayed event:", json.dumps(evs[0])[:2000])
    from harness.core import load_findings
    known = load_findings()
    bad = []
    for c in sorted({c for v in verdicts.values() for c, _ in v if c not in DRIFT}):
        if f"C10/{c}" in known:
            print(f"KNOWN-FINDING: property=C10 C10/{c}")
        else:
            bad.append(c)
    if bad:
        print(f"VIOLATION property=C10 replay=(this) clauses={bad}")
        return 1
    print("OK")
    return 0

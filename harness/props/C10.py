"""C10 Fitness values, coverage values and covered verdicts agree.

Design: Fitness.tla (FitnessOps semantics satisfies the laws on every trace the tracer can produce).
Replay: every abstract (registry, trace, exclusions) of MC_Fitness is materialised as a real
SubjectProperties / ExecutionTrace; every public fitness / coverage / goal function is called;
FitnessTrace.tla evaluates the C10 clauses on the returned values.
"""

from __future__ import annotations

import json

from harness.adapters import fitness as ad
from harness.core import Ctx, parallel_map

#: clauses of FitnessTrace.cfg that compare the real code with the model (drift, never a verdict)
DRIFT = {"ObservedTraceWF", "ConformsFitness", "ConformsCovered", "ConformsCoverage", "ConformsMerge"}

_REALS: dict[str, ad.Real] = {}


def real_for(reg: dict) -> ad.Real:
    key = json.dumps(reg, sort_keys=True)
    r = _REALS.get(key)
    if r is None:
        r = _REALS[key] = ad.Real(reg)
    return r


def plain(x):
    """TLA+ value parsed by tlc.parse_tla_value -> plain JSON-like value (sets -> sorted lists)."""
    if isinstance(x, dict):
        if "__set__" in x:
            items = [plain(y) for y in x["__set__"]]
            return sorted(items, key=lambda v: json.dumps(v, sort_keys=True))
        return {k: plain(v) for k, v in x.items()}
    if isinstance(x, list):
        return [plain(y) for y in x]
    return x


def order_exs(exs: list[dict]) -> list[dict]:
    return sorted(exs, key=lambda e: (len(e["code"]) + len(e["tr"]) + len(e["fa"]), json.dumps(e, sort_keys=True)))


def _eval_job(job) -> dict:
    reg, exs, t, pal = job
    return ad.eval_event(real_for(reg), t, exs, ad.PALETTES[pal])


def offenders(ev: dict, clause: str) -> str:
    """Human readable hint which recorded entries look wrong (for the report only)."""
    e = ev["post"]
    z, o, top = ev["z"], ev["o"], ev["top"]
    out = []
    for f in e["fits"] + e["goals"]:
        bad = ((clause == "FitnessFiniteNonNeg" and not (z <= f["v"] < top))
               or (clause.startswith("ZeroImpliesCovered") and f["c"] == "F" and f["v"] == z)
               or (clause == "CoveredImpliesZero" and f["c"] == "T" and f["v"] != z)
               or (clause == "VerdictIsBool" and f["c"] == "exc"))
        if bad:
            g = f" goal={f['k']}(c={f['gc']},p={f['gp']},{f['gb']},l={f['gl']})" if "k" in f else ""
            out.append(f"{f['n']}[ex={ev['exs'][f['x']] if ev['exs'] else {}}]{g} fitness_rank={f['v']} (zero={z}) covered={f['c']}")
    for c in e["covs"]:
        if clause == "CoverageIn01" and not (z <= c["v"] <= o):
            out.append(f"{c['n']} coverage_rank={c['v']} (0.0={z}, 1.0={o})")
    if clause == "SuiteZeroIffCoverageOne":
        out.append("branch fitness / branch coverage: "
                   + str([(f["n"], f["x"], f["v"] == z) for f in e["fits"] if f["cls"] == "branch"])
                   + str([(c["n"], c["v"] == o) for c in e["covs"] if c["cls"] == "branch"]))
    return "; ".join(out[:4]) + (" " + "; ".join(e["errs"][:3]) if e["errs"] else "")


def signature(clause: str, ev: dict) -> str:
    # clause names of FitnessTrace.tla already carry direction, function level and input class
    return f"C10/{clause}"


def run(ctx: Ctx) -> None:
    ctx.rule = ("case = (registry, execution trace, exclusion sets) enumerated by TLC from MC_Fitness: ALL "
                "well-formed abstract traces (predicate counts, true/false distances zero/finite/inf, executed "
                "code objects, covered and checked lines) over all registries in bounds, plus the test traces of "
                "random tracer-callback behaviours (-simulate); each is materialised as a real ExecutionTrace / "
                "SubjectProperties and every fitness, coverage and goal function is called. non-trivial = "
                "distinct (registry, trace, float palette) with a non-empty registry; evaluations = function "
                "results checked by TLC")
    ctx.assumptions = [
        "traces are what the tracer can produce (FitnessOps!WF, shown inductive by Fitness.tla): every predicate "
        "execution records exactly one zero distance, its code object is entered first, ids are registered",
        "abstract distances P<Q are represented by several float pairs (1.0/3.0 exact, 5e-324/1e308, ...); "
        "floats are compared by TLC through their rank",
        "test cases / executor are stubs returning the materialised ExecutionResult; chromosomes, fitness and "
        "coverage function classes, goals, CFG and CDG objects are the real classes",
        "assertion-checked coverage is exercised only with traces that contain no executed assertions",
    ]
    q = ctx.quick
    ctx.design("Fitness", "Fitness.cfg" if q else "Fitness_thorough.cfg",
               coverage_actions=["ExecutedCodeObject", "ExecutedPredicate", "TrackLineVisit", "CheckedLine"])
    groups = ctx.behaviours("MC_Fitness", "MC_Fitness.cfg" if q else "MC_Fitness_thorough.cfg")
    jobs, origin = [], []
    for g in groups:
        exs = order_exs(g["exs"])
        for t in g["traces"]:
            jobs.append((g["reg"], exs, t, 0))
            origin.append({"reg": g["reg"], "exs": exs, "trace": t, "palette": 0})
            if any(d in ("P", "Q") for d in t["dT"] + t["dF"]) or any(c >= 2 for c in t["cnt"]):
                # the same case with other float representatives of P and Q
                pal = 1 + len(jobs) % (len(ad.PALETTES) - 1)
                jobs.append((g["reg"], exs, t, pal))
                origin.append({"reg": g["reg"], "exs": exs, "trace": t, "palette": pal})
    n_enum = len(jobs)
    rng = ctx.rng("palette")
    finals = ctx.simulate("MC_Fitness", "MC_Fitness_sim.cfg", num=150 if q else 3000, depth=60)
    for st in finals:
        reg, ex = plain(st["reg"]), plain(st["ex"])
        exs = order_exs([{"code": [], "tr": [], "fa": []}] + ([ex] if ex["code"] or ex["tr"] or ex["fa"] else []))
        for t in plain(st["tests"]) + [plain(st["cur"])]:
            pal = rng.randrange(len(ad.PALETTES))
            jobs.append((reg, exs, t, pal))
            origin.append({"reg": reg, "exs": exs, "trace": t, "palette": pal, "from": "simulate"})
    ctx.exhaustive = True
    events = parallel_map(_eval_job, jobs, chunksize=64)
    ctx.notes["cases_enumerated"] = n_enum
    ctx.notes["cases_simulated"] = len(jobs) - n_enum
    ctx.notes["registries"] = len(groups)
    ctx.notes["functions"] = ad.LEGEND
    n_eval = 0
    for job, ev in zip(jobs, events):
        e = ev["post"]
        n_eval += len(e["fits"]) + len(e["goals"]) + len(e["covs"])
        if ev["reg"]["cos"] or ev["reg"]["nl"]:
            ctx.nontriv(json.dumps([ev["reg"], job[2], job[3]], sort_keys=True))
    ctx.evaluations = n_eval
    traces = [{"ev": [ev]} for ev in events]
    verdicts = ctx.validate("FitnessTrace", traces, chunk=4000)
    drift_seen: dict[str, int] = {}
    for idx, bad in sorted(verdicts.items()):
        ev = events[idx]
        for clause, _step in bad:
            if clause in DRIFT:
                drift_seen[clause] = drift_seen.get(clause, 0) + 1
                if drift_seen[clause] <= 3:
                    ctx.drift.append(f"{clause}: real code and FitnessOps disagree on {json.dumps(origin[idx])[:400]}")
                continue
            ctx.bad(clause, signature(clause, ev),
                    f"registry {ev['reg']} trace {ev['post']['tr']}: {offenders(ev, clause)}",
                    trace=ev, behaviour=origin[idx])
    for c, n in drift_seen.items():
        ctx.drift.append(f"{c}: {n} cases in total")
    for i in (0, n_enum // 2, n_enum - 1, len(events) - 1):
        e = events[i]
        ctx.sample({"case": origin[i], "observed": {"fits": e["post"]["fits"][:3], "covs": e["post"]["covs"][:2],
                                                      "zero_rank": e["z"], "one_rank": e["o"]}})


def replay(ctx: Ctx, rec: dict) -> int:
    b = rec["behaviour"]
    ev = _eval_job((b["reg"], b["exs"], b["trace"], b["palette"]))
    verdicts = ctx.validate("FitnessTrace", [{"ev": [ev]}])
    print("replayed event:", json.dumps(ev)[:2000])
    bad = [c for c, _ in verdicts.get(0, []) if c not in DRIFT]
    if bad:
        print(f"VIOLATION property=C10 replay=(this) clauses={bad}")
        return 1
    print("OK")
    return 0

"""C16 The same seed and budget reproduce the same test suite.

Two end-to-end runs per configuration (same seed, iteration budget, algorithm) in fresh interpreters
with different PYTHONHASHSEED values; both must be Pipeline behaviours and the exported files must be
byte-identical.  TLC compares the file hashes (PipelineTrace.tla: SameSeedSameSuite) and the first
diverging pipeline event is reported for localisation (ConformSameEvents, drift only).
"""

from __future__ import annotations

import json

from harness.adapters import e2e
from harness.core import Ctx, MachineryError
from harness.props import _pipeline as P

STAGES = ["SearchEnd", "Assertions", "AssertMin", "Minimize", "Export"]


def stage_digest(run: dict) -> list[tuple[str, int]]:
    out = []
    for name in STAGES:
        e = e2e.first(run["events"], name)
        if e is None:
            continue
        if name == "SearchEnd":
            payload = [e["suite"], e["execs"]]
        elif name == "Assertions":
            payload = e["suite"]
        elif name == "AssertMin":
            payload = e["after"]
        elif name == "Minimize":
            payload = e["after"]
        else:
            payload = e["text"]
        out.append((name, P.h(json.dumps(payload, sort_keys=True))))
    return out


def run(ctx: Ctx) -> None:
    ctx.level = "other"
    ctx.rule = ("case = pair of end-to-end runs with identical configuration and seed but PYTHONHASHSEED 0 vs 4242 "
                "(6 modules x DYNAMOSA/MIO/WHOLE_SUITE x assertion modes x seeds); non-trivial = distinct pairs "
                "whose exported file contains at least one test function")
    ctx.assumptions = ["corpus modules are deterministic; budgets are iteration-bounded",
                       "a hyperproperty over two whole runs is sampled, not enumerated; TLA+ contributes the shared "
                       "pipeline model, the formula evaluation and the localisation of the first divergence"]
    ctx.notes["explanation"] = ("Two-run trace validation: TLC evaluates SameSeedSameSuite on the hashes of the two "
                                "exported files of every pair; the first diverging pipeline stage is reported.")
    P.design(ctx)
    base = e2e.pipe_configs(ctx.quick)
    if ctx.quick:
        # five ordinary modules plus every configuration of c_hashy (the module built around
        # iteration over sets of names: enum methods, optional parameters, exception imports)
        base = [c for c in base if c["module"] != "c_hashy"][:5] + [c for c in base if c["module"] == "c_hashy"]
    # c_hashy additionally with more iterations: its hazards need several statements per test
    base += [dict(c, iterations=12, assertions="SIMPLE") for c in base if c["module"] == "c_hashy"][:2]
    cfgs = []
    for c in base:
        cfgs.append(dict(c, hashseed=0))
        cfgs.append(dict(c, hashseed=4242))
    runs = e2e.run_many(cfgs, timeout=900, parallel=6)
    traces, kept = [], []
    for a, b in zip(runs[0::2], runs[1::2]):
        ea, eb = e2e.first(a["events"], "Export"), e2e.first(b["events"], "Export")
        if a["hung"] or b["hung"]:
            ctx.drift.append(f"end-to-end run exceeded the time limit and was skipped: {a['cfg']}")
            continue
        if ea is None or eb is None:
            ctx.drift.append(f"pair without export: {a['cfg']}")
            continue
        da, db = stage_digest(a), stage_digest(b)
        first_div = 0
        for i, (x, y) in enumerate(zip(da, db), start=1):
            if x != y:
                first_div = i
                break
        ev = {"ev": "Twin", "h_file_a": P.h(ea["text"]), "h_file_b": P.h(eb["text"]), "first_divergence": first_div,
              "stage": da[first_div - 1][0] if first_div else "", "n_tests": len(P.functions_of(ea["text"]))}
        traces.append({"ev": [ev]})
        kept.append(a)
        if ev["n_tests"] > 0:
            ctx.nontriv(json.dumps(a["cfg"], sort_keys=True))
    P.validate(ctx, "C16", {"SameSeedSameSuite", "ConformSameEvents"}, kept, traces,
               lambda r, e: f"pair {r['cfg']}: exported files differ={e['h_file_a'] != e['h_file_b']}; first diverging "
                            f"stage: {e['stage'] or '-'}",
               kind=lambda r, e: f"first-divergence-{e['stage'] or 'none'}/{r['cfg']['algorithm']}", with_strategy=False)
    for t in traces[:3]:
        ctx.sample(t["ev"][0])


def replay(ctx: Ctx, rec: dict) -> int:
    c = rec["behaviour"]
    a, b = e2e.run_many([dict(c, hashseed=0), dict(c, hashseed=4242)])
    same = e2e.first(a["events"], "Export")["text"] == e2e.first(b["events"], "Export")["text"]
    print("files identical:", same, stage_digest(a), stage_digest(b))
    if not same:
        print("VIOLATION property=C16 replay=(this)")
        return 1
    print("OK")
    return 0

"""C25 Subtyping is a preorder consistent with the class hierarchy.

Design: TypeSystem.tla -- the laws Refl, Trans, AnyTop, UnionAll, InstFollowsClass,
AgreesWithIssubclass, DistDefinedOnlyWhenMaybeSub, DistZeroOnIdentity hold on the declarative
relations (TypeSystemOps.tla) for every class hierarchy within the bounds; with the known
deviations of the code as it is (TypeSystemOps.AllDeviations, state after the fixes
bee086b..1991def) enabled TLC must report exactly the expected laws as violated.
P2: every hierarchy enumerated by MC_TypeSystem (plus sampled larger / simulated ones) is
rendered as a module, analysed by the real generate_test_cluster; the full matrices of
is_subtype / is_maybe_subtype / subtype_distance / is_subclass / issubclass are recorded and
TypeSystemTrace.tla evaluates the same law operators on the recorded matrices.
"""

from __future__ import annotations

import re

from harness.adapters import typesystem as ad
from harness.core import Ctx, parallel_map
from harness.tlc import MachineryError

PROP = "C25"
TRACE_CFG = "TypeSystemTrace.cfg"
# laws that the declarative model violates when it models the code as it is (Deviations =
# DistCovariantArgs, DistUndefinedForAnyBelowNoneOrTuple, PrimitiveRequestEmpty).
# DistZeroOnIdentity left this set with 7303de6 (subtype_distance(None, None) == 0).
EXPECTED_DEVIATION_LAWS = {"DistDefinedOnlyWhenMaybeSub", "DistDefinedIffMaybeSub",
                           "OfferedCompatible", "ProvidersAgree"}


def make_threadsafe(ctx: Ctx) -> None:
    """Serialise the bookkeeping of TLC runs: independent TLC runs of one check overlap in time."""
    import threading
    lock, orig = threading.Lock(), ctx._account

    def locked(*a, **k):
        with lock:
            orig(*a, **k)
    ctx._account = locked


def design_runs(ctx: Ctx, cfgs: list[str], expect_violation: tuple[str, ...] = ()) -> dict:
    """Independent TLC runs of the design model TypeSystem.tla, concurrently (own work dirs).
    Same contract as ctx.design: a violated invariant is a MACHINERY error unless the cfg is
    listed in expect_violation (deviation models, which must fail)."""
    import json
    from concurrent.futures import ThreadPoolExecutor

    from harness import tlc

    def one(cfg):
        return tlc.run_tlc("TypeSystem", cfg, workdir=ctx.work / f"d-{cfg}", workers=4, timeout=6000)

    with ThreadPoolExecutor(max_workers=len(cfgs)) as ex:
        results = dict(zip(cfgs, ex.map(one, cfgs)))
    for cfg, res in results.items():
        ctx._account(f"TypeSystem[{cfg}]", res, "design")
        if res.violations and cfg not in expect_violation:
            v = res.violations[0]
            raise MachineryError(f"design model TypeSystem ({cfg}) violates {v.name}: the specification itself "
                                 f"is wrong (not a verdict about the code)\n" + json.dumps(v.states[-2:], indent=1)[:3000])
        if cfg in expect_violation and not res.violations:
            raise MachineryError(f"deviation model {cfg} must violate an invariant but TLC found none")
    return results


def check_deviation_model(ctx: Ctx, res=None) -> None:
    """With the known deviations enabled TLC must find exactly the expected laws violated."""
    if res is None:
        res = ctx.design("TypeSystem", "TypeSystem_dev_static.cfg")
    m = re.search(r'"VIOLATED",\s*\{([^}]*)\}', res.output)
    got = set(re.findall(r'"(\w+)"', m.group(1))) if m else set()
    ctx.notes["laws_violated_by_deviation_model"] = sorted(got)
    if got != EXPECTED_DEVIATION_LAWS:
        raise MachineryError(f"deviation model violates {sorted(got)}, expected {sorted(EXPECTED_DEVIATION_LAWS)}")


def hierarchy_cases(ctx: Ctx) -> list[dict]:
    """(case, number of random extra types) for this tier."""
    rng = ctx.rng("cases")
    jobs = []
    if ctx.quick:
        cases = ctx.behaviours("MC_TypeSystem", "MC_TypeSystem_quick.cfg", timeout=3000)
        ctx.notes["hierarchies_exhaustive_3_classes"] = len(cases)
        jobs += [(c, 6) for c in cases]
        n_sim = 8
    else:
        cases = ctx.behaviours("MC_TypeSystem", "MC_TypeSystem.cfg", timeout=3000)
        ctx.notes["hierarchies_exhaustive_3_classes"] = len(cases)
        jobs += [(c, 12) for c in cases]
        four = ctx.behaviours("MC_TypeSystem", "MC_TypeSystem_n4.cfg", timeout=3000)
        ctx.notes["hierarchies_enumerated_4_classes"] = len(four)
        four.sort(key=lambda c: str(c["hier"]))
        pick = rng.sample(four, min(150, len(four)))
        ctx.notes["hierarchies_sampled_4_classes"] = len(pick)
        jobs += [(c, 12) for c in pick]
        n_sim = 100
    # tuple family: every hierarchy over 2 user classes with the universe of tuples of arity 0..3
    # that share prefixes, alone and nested in generics / tuples / unions (TypeSystem.TupleUniverse)
    tup = ctx.behaviours("MC_TypeSystem", "MC_TypeSystem_tuples.cfg", timeout=3000)
    ctx.notes["hierarchies_tuple_family_2_classes"] = len(tup)
    jobs += [(c, 4 if ctx.quick else 10) for c in tup]
    sims = ctx.simulate("MC_TypeSystem", "MC_TypeSystem_sim.cfg", num=n_sim, depth=8, timeout=3000)
    import json
    seen = set()
    for st in sims:
        if not st.get("out"):
            continue
        c = json.loads(st["out"])
        if len(c["hier"]) != len(c["user"]) or len(c["user"]) < 5 or str(c["hier"]) in seen:
            continue
        seen.add(str(c["hier"]))
        c["types"] = []          # random universe (adapter): atoms + random proper types
        jobs.append((c, 45 if ctx.quick else 70))
    ctx.notes["hierarchies_simulated_5_classes"] = len(seen)
    return jobs


def run_cases(ctx: Ctx, jobs: list) -> tuple[list[dict], list[dict]]:
    d = ctx.work / "mods"
    d.mkdir(parents=True, exist_ok=True)
    items = [(c, str(d), f"tsm_{ctx.prop.lower()}_{i}", ctx.seed, nr) for i, (c, nr) in enumerate(jobs)]
    traces = parallel_map(ad.analyse_static, items, procs=8, chunksize=2)
    behs = [{"case": it[0], "n_random": it[4], "mod": it[2], "seed": it[3]} for it in items]
    return traces, behs


# ----------------------------------------------------------------- reporting helpers (no verdict)
def tstr(t) -> str:
    k = t["k"]
    if k in ("any", "none"):
        return k.capitalize()
    args = ", ".join(tstr(x) for x in t["a"])
    if k == "inst":
        return t["c"] + (f"[{args}]" if args else "")
    if k == "tuple":
        return f"tuple[{args}]"
    return " | ".join(tstr(x) for x in t["a"])


def shape(t) -> str:
    if t["k"] == "inst":
        return "generic" if t["a"] else "class"
    return t["k"]


def any_free(t) -> bool:
    return t["k"] != "any" and all(any_free(x) for x in t["a"])


class _Model:
    """Python rendering of SubR / DistR of TypeSystemOps.tla for ONE purpose: the reporting helper
    picks, among the pairs that falsify a law, one that the named deviation does (not) explain, so
    that the shape in the signature belongs to the clause TLC found violated.  Never a verdict."""

    ARITY = {"list": 1, "set": 1, "dict": 2}

    def __init__(self, ev: dict):
        self.anyd = ev["anyd"]
        succ: dict[str, set] = {}
        for a, b in ev["edges"]:
            succ.setdefault(a, set()).add(b)
        self.plen: dict[tuple, int] = {}
        for c in ev["classes"]:
            seen, frontier, n = {c}, {c}, 0
            while frontier:
                for x in frontier:
                    self.plen[c, x] = n
                frontier = {y for x in frontier for y in succ.get(x, ())} - seen
                seen |= frontier
                n += 1

    def sub(self, strict: bool, l, r) -> bool:
        if r["k"] == "any":
            return True
        if r["k"] == "union" and l["k"] != "union":
            return any(self.sub(strict, l, x) for x in r["a"])
        k = l["k"]
        if k == "any":
            return True
        if k == "none":
            return r["k"] == "none"
        if k == "inst":
            if r["k"] != "inst" or (r["c"], l["c"]) not in self.plen:
                return False
            ar = self.ARITY.get(l["c"], 0)
            if ar and ar == self.ARITY.get(r["c"], 0):
                return all(self.sub(strict, x, y) and self.sub(strict, y, x) for x, y in zip(l["a"], r["a"]))
            return True
        if k == "tuple":
            return (r["k"] == "tuple" and len(l["a"]) == len(r["a"])
                    and all(self.sub(strict, x, y) for x, y in zip(l["a"], r["a"])))
        return (all if strict else any)(self.sub(strict, x, r) for x in l["a"])

    @staticmethod
    def _sum(q):
        return None if any(x is None for x in q) else sum(q)

    @staticmethod
    def _min(q):
        q = [x for x in q if x is not None]
        return min(q) if q else None

    def dist(self, dev: set, t, s):
        k = t["k"]
        if k == "any":
            return self.anyd
        if k == "union":
            return self._min([self.dist(dev, x, s) for x in t["a"]])
        if s["k"] == "union":
            return self._min([self.dist(dev, t, x) for x in s["a"]])
        if k in ("none", "tuple"):
            if s["k"] == "any":
                return None if "DistUndefinedForAnyBelowNoneOrTuple" in dev else self.anyd
            if k == "none":
                return 0 if s["k"] == "none" else None
            if s["k"] == "tuple" and len(s["a"]) == len(t["a"]):
                return self._sum([self.dist(dev, x, y) for x, y in zip(t["a"], s["a"])])
            return None
        if s["k"] == "any":
            return self.anyd
        if s["k"] != "inst":
            return None
        p = self.plen.get((t["c"], s["c"]))
        if t["a"] and s["a"]:
            q = self._sum([self.dist(dev, x, y) for x, y in zip(t["a"], s["a"])])
            if "DistCovariantArgs" in dev:
                return None if p is None or q is None else p + q
            return q if self.sub(False, s, t) else None
        return p

    def known_generic_args_only(self, t, s) -> bool:
        return self.dist({"DistCovariantArgs"}, t, s) is not None and self.dist(set(), t, s) is None


def witness(ev: dict, clause: str) -> tuple[str, str]:
    """(shape for the signature, human readable witness) located in the recorded matrices."""
    ut, sub, maybe, dist = ev["types"], ev["sub"], ev["maybe"], ev["dist"]
    n = range(len(ut))
    base = clause.split("_")[0]
    if ev["raised"] and clause == "Total":
        return "exception", "; ".join(ev["raised"][:3])
    if base == "Refl":
        for i in n:
            if not sub[i][i]:
                return shape(ut[i]), f"not is_subtype({tstr(ut[i])}, {tstr(ut[i])})"
    if base == "Trans":
        for j in n:
            if not any_free(ut[j]):
                continue
            for i in n:
                if sub[i][j]:
                    for k in n:
                        if sub[j][k] and not sub[i][k]:
                            return (f"{shape(ut[i])}-{shape(ut[j])}-{shape(ut[k])}",
                                    f"{tstr(ut[i])} <: {tstr(ut[j])} <: {tstr(ut[k])} but not {tstr(ut[i])} <: {tstr(ut[k])}")
    if base == "AnyTop":
        for j in n:
            if ut[j]["k"] == "any":
                for i in n:
                    if not sub[i][j] or not maybe[i][j]:
                        return shape(ut[i]), f"{tstr(ut[i])} is not a (maybe) subtype of Any"
    if base == "UnionAll":
        idx = {ad.tkey(t): i for i, t in enumerate(ut)}
        for i in n:
            if ut[i]["k"] == "union":
                ms = [idx[ad.tkey(m)] for m in ut[i]["a"]]
                for j in n:
                    if sub[i][j] != all(sub[m][j] for m in ms):
                        return shape(ut[j]), (f"is_subtype({tstr(ut[i])}, {tstr(ut[j])}) = {sub[i][j]} but members: "
                                              f"{[sub[m][j] for m in ms]}")
    if base == "InstFollowsClass":
        cs = ev["cs"]
        for i in n:
            for j in n:
                if ut[i]["k"] == ut[j]["k"] == "inst" and not ut[i]["a"] and not ut[j]["a"]:
                    a, b = cs.index(ut[i]["c"]), cs.index(ut[j]["c"])
                    if sub[i][j] != ev["subc"][a][b]:
                        return "class", f"is_subtype({tstr(ut[i])}, {tstr(ut[j])}) = {sub[i][j]} but is_subclass = {ev['subc'][a][b]}"
    if base == "AgreesWithIssubclass":
        cs, issub, subc = ev["cs"], ev["issub"], ev["subc"]
        tower = {("bool", "int"), ("int", "float"), ("float", "complex")}
        m = len(cs)
        reach = [[i == j or issub[i][j] or (cs[i], cs[j]) in tower for j in range(m)] for i in range(m)]
        for k in range(m):
            for i in range(m):
                for j in range(m):
                    reach[i][j] = reach[i][j] or (reach[i][k] and reach[k][j])
        for i in range(m):
            for j in range(m):
                if subc[i][j] != reach[i][j]:
                    kind = "builtin" if cs[i] in ad.BUILTIN_NAMES and cs[j] in ad.BUILTIN_NAMES else "user"
                    return kind, f"is_subclass({cs[i]}, {cs[j]}) = {subc[i][j]}, issubclass+tower = {reach[i][j]}"
    if base == "DistDefinedOnlyWhenMaybeSub":
        model = _Model(ev)
        want_known = clause.endswith("_KnownGenericArgsOnly")
        pairs = [(i, j) for i in n for j in n if dist[i][j] != -1 and not maybe[j][i]]
        # a pair of the kind the violated clause talks about; any falsifying pair otherwise
        pick = next((p for p in pairs if model.known_generic_args_only(ut[p[0]], ut[p[1]]) == want_known),
                    pairs[0] if pairs else None)
        if pick:
            i, j = pick
            return (f"{shape(ut[i])}-{shape(ut[j])}",
                    f"subtype_distance({tstr(ut[i])}, {tstr(ut[j])}) = {dist[i][j]} but not "
                    f"is_maybe_subtype({tstr(ut[j])}, {tstr(ut[i])})")
    if base == "DistZeroOnIdentity":
        for i in n:
            if any_free(ut[i]) and dist[i][i] != 0:
                return shape(ut[i]), f"subtype_distance({tstr(ut[i])}, {tstr(ut[i])}) = {dist[i][i]}"
    return "unlocated", "(witness not located by the reporting helper)"


def signature(ev: dict, clause: str) -> tuple[str, str]:
    law, _, cls = clause.partition("_")
    sh, detail = witness(ev, clause)
    if cls.startswith("Known"):
        return f"{PROP}/{law}/{cls[len('Known'):]}", detail
    return f"{PROP}/{law}/{sh}", detail


def judge(ctx: Ctx, traces: list[dict], behs: list[dict], cfg: str, sig) -> None:
    n = len(traces)
    chunk = max(8, -(-n // 3))
    verdicts = ctx.validate("TypeSystemTrace", traces, cfg=cfg, chunk=chunk, workers=4, timeout=6000)
    for idx, bad in sorted(verdicts.items()):
        ev = traces[idx]["ev"][0]
        for clause, _step in bad:
            if clause == "SameGenerators":
                raise RuntimeError(f"harness: the two clusters of {ev['mod']} registered different generators")
            if clause.startswith("Drift_"):
                ctx.drift.append(f"{clause} on hierarchy {ev['edges']} ({ev['mod']})")
                continue
            s, detail = sig(ev, clause)
            ctx.bad(clause, s, f"hierarchy {[e for e in ev['edges'] if e[1] in ev['user']]}: {detail}",
                    trace={"note": "matrices omitted; re-run with --replay", "mod": ev["mod"]},
                    behaviour=behs[idx])
    for t in traces:
        ev = t["ev"][0]
        for c in ev["converted"]:
            ctx.drift.append(f"annotation converted differently: {c}")
    for line in sorted(set(ctx.drift))[:6]:
        print(f"DRIFT (no verdict): {line[:300]}")


def run(ctx: Ctx) -> None:
    ctx.rule = ("case = one class hierarchy (every hierarchy over 3 user classes with bases among earlier "
                "classes / object / int / list enumerated by TLC from MC_TypeSystem, plus sampled 4-class and "
                "simulated 5-class hierarchies) rendered as a module and analysed by the real "
                "generate_test_cluster, with a universe of proper types of depth <= 2 (TLC universe + random "
                "types), plus every hierarchy over 2 user classes with the tuple family (tuples of arity 0..3 "
                "with shared prefixes, alone and nested in list / set / dict / tuple / union; the empty tuple "
                "is built directly, no annotation denotes it); evaluation = one recorded answer of is_subtype / is_maybe_subtype / subtype_distance "
                "/ is_subclass; non-trivial = distinct (hierarchy, ordered type pair) whose is_subtype or "
                "subtype_distance answer is positive/defined")
    ctx.assumptions = ["classes are plain classes (no metaclass __subclasscheck__, no ABC.register)",
                       "Any is consistent with every type in both directions (PEP 483): transitivity is "
                       "required for chains whose middle type contains no Any, zero distance on identity for "
                       "types that contain no Any (Any is at generator_any_distance from itself by design)",
                       "numeric tower = reflexive transitive closure of issubclass + bool<:int<:float<:complex"]
    from concurrent.futures import ThreadPoolExecutor
    make_threadsafe(ctx)
    _ = ctx.work            # create the scratch directory before any thread needs it
    main_cfg = "TypeSystem.cfg" if ctx.quick else "TypeSystem_thorough.cfg"
    pool = ThreadPoolExecutor(max_workers=1)
    design = pool.submit(design_runs, ctx, [main_cfg, "TypeSystem_tuples.cfg",
                                            "TypeSystem_dev_static.cfg"])   # overlaps with the replay
    jobs = hierarchy_cases(ctx)
    traces, behs = run_cases(ctx, jobs)
    ctx.exhaustive = True
    ev_count = 0
    for t in traces:
        ev = t["ev"][0]
        n = len(ev["types"])
        ev_count += 3 * n * n + len(ev["cs"]) ** 2
        hk = tuple(sorted(tuple(e) for e in ev["edges"]))
        for i in range(n):
            for j in range(n):
                if (ev["sub"][i][j] or ev["dist"][i][j] > 0) and i != j and ev["types"][j]["k"] != "any" \
                        and ev["types"][i]["k"] != "any":
                    ctx.nontriv(hash((hk, ad.tkey(ev["types"][i]), ad.tkey(ev["types"][j]))))
    ctx.evaluations = ev_count
    ctx.notes["hierarchies_checked"] = len(traces)
    ctx.notes["universe_sizes"] = sorted({len(t["ev"][0]["types"]) for t in traces})
    judge(ctx, traces, behs, TRACE_CFG, signature)
    check_deviation_model(ctx, design.result()["TypeSystem_dev_static.cfg"])
    pool.shutdown()
    for t in traces[:2]:
        ev = t["ev"][0]
        ctx.sample({"user_edges": [e for e in ev["edges"] if e[1] in ev["user"]],
                    "types": [tstr(x) for x in ev["types"][:25]],
                    "is_subtype_row_of_" + tstr(ev["types"][8]): ev["sub"][8][:25]})


def replay(ctx: Ctx, rec: dict) -> int:
    b = rec["behaviour"]
    d = ctx.work / "mods"
    d.mkdir(parents=True, exist_ok=True)
    tr = ad.analyse_static((b["case"], str(d), b["mod"], b.get("seed", 0), b["n_random"]))
    verdicts = ctx.validate("TypeSystemTrace", [tr], cfg=TRACE_CFG)
    ev = tr["ev"][0]
    bad = [c for c, _ in verdicts.get(0, []) if not c.startswith("Drift_")]
    for c in bad:
        print(c, "->", signature(ev, c))
    if any(signature(ev, c)[0] == rec["signature"] for c in bad):
        print(f"VIOLATION property={PROP} replay=(this) clauses={bad}")
        return 1
    print("OK (signature not reproduced)" if bad else "OK")
    return 0

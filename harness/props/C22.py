"""C22 Minimization never reduces coverage.

Design: Pipeline.tla (MinKeeps over all small test cases).  P1: end-to-end runs with every
minimisation strategy and direction; coverage per optimised coverage function is recomputed on
cache-free clones before and after generator._minimize; statements after are matched against
statements before; asserted statements must survive.
P2: TLC enumerates small suites over harness/sut/pp_sut.py (MC_PipelineProg); each runs through the
real AssertionGenerator and generator._minimize (CASE/SUITE/COMBINED/NONE x FORWARD/BACKWARD).
"""

from __future__ import annotations

import json

from harness.core import Ctx
from harness.props import _pipeline as P

CLAUSES = {"CoveragePreserved", "OnlyOriginalStatements", "AssertedStatementsKept"}


def run(ctx: Ctx) -> None:
    ctx.rule = ("case = statement minimisation of the suite of an end-to-end run (CASE/SUITE/COMBINED/NONE x "
                "FORWARD/BACKWARD x modules x algorithms x assertion modes x seeds); non-trivial = distinct run in "
                "which minimisation removed at least one statement")
    ctx.assumptions = ["coverage before/after is recomputed by re-executing cache-free clones of the suite with the "
                       "algorithm's own coverage functions; floats compared by rank",
                       "statements are compared by whitespace-normalised source"]
    P.design(ctx)
    runs = P.runs_for(ctx)
    traces, kept = [], []
    for r in runs:
        ev = P.minimize_event(r)
        if ev is None:
            continue
        traces.append({"ev": [ev]})
        kept.append(r)
        if ev["n_after"] < ev["n_before"]:
            ctx.nontriv(json.dumps(r["cfg"], sort_keys=True))
        if ev["error"]:
            ctx.drift.append(f"_minimize raised {ev['error']} in {r['cfg']}")
    P.validate(ctx, "C22", CLAUSES, kept, traces,
               lambda r, e: f"run {r['cfg']}: coverage before {e['raw_before']} after {e['raw_after']}; "
                            f"{e['n_before']} -> {e['n_after']} statements, new={e['new_statements']} "
                            f"asserted_dropped={e['asserted_dropped']} error={e['error']}",
               kind=lambda r, e: "tests-removed" if e["tests_after"] < e["tests_before"] else "same-tests")
    for t in traces[:3]:
        ctx.sample({k: t["ev"][0][k] for k in ("raw_before", "raw_after", "n_before", "n_after", "asserted_dropped")})
    n_e2e = ctx.evaluations
    # P2: TLC-enumerated suites (one or two test cases over harness/sut/pp_sut.py) through the real
    # assertion generation and generator._minimize with every strategy and direction
    ctx.evaluations = n_e2e + P.replay_progs(ctx, "C22", CLAUSES)


def replay(ctx: Ctx, rec: dict) -> int:
    if "replay" in rec["behaviour"]:
        return P.replay_one(ctx, rec, "C22", CLAUSES)
    from harness.adapters import e2e  # noqa: PLC0415

    r = e2e.run_many([rec["behaviour"]])[0]
    ev = P.minimize_event(r)
    print(json.dumps(ev)[:3000])
    v = ctx.validate("PipelineTrace", [{"ev": [ev]}]) if ev else {}
    bad = [c for c, _ in v.get(0, []) if c in CLAUSES]
    if bad:
        print(f"VIOLATION property=C22 replay=(this) clauses={bad}")
        return 1
    print("OK")
    return 0

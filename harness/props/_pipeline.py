"""Shared machinery of the end-to-end pipeline properties (C16 C18 C19 C22 C24)."""

from __future__ import annotations

import hashlib
import json
import re

from harness.adapters import e2e
from harness.core import Ctx, MachineryError, parallel_map

PREFIX_OK = {"-", ""}


def design(ctx: Ctx) -> None:
    ctx.design("Pipeline")
    r = ctx.design("Pipeline", "Pipeline_prefix.cfg", expect_ok=False)
    ctx.notes["design_dropping_asserted_bindings_violates"] = sorted({v.name for v in r.violations})
    if not r.violations:
        raise MachineryError("Pipeline_prefix.cfg should violate KeepAsserts")
    r = ctx.design("Pipeline", "Pipeline_carriers.cfg", expect_ok=False)
    ctx.notes["design_minimisation_not_protecting_carriers_violates"] = sorted({v.name for v in r.violations})
    if not r.violations:
        raise MachineryError("Pipeline_carriers.cfg should violate KeepAsserts/MinKeeps")
    if not ctx.quick:
        ctx.design("Pipeline", "Pipeline_noxfail.cfg")


def runs_for(ctx: Ctx) -> list[dict]:
    cfgs = e2e.pipe_configs(ctx.quick)
    runs = e2e.run_many(cfgs, timeout=900, parallel=6)
    good = []
    for r in runs:
        if r["hung"]:
            # no verdict either way from a run that was killed after the time limit (under load the
            # mutation analysis of c_numeric's loop can exceed it); the number of complete runs is checked
            ctx.drift.append(f"end-to-end run exceeded the time limit and was skipped: {r['cfg']}")
            continue
        if e2e.first(r["events"], "Return") is None:
            ctx.drift.append(f"run did not return: {r['cfg']} :: {r['stderr_tail'][-300:]}")
            continue
        good.append(r)
    if len(good) < max(2, len(cfgs) // 2):
        raise MachineryError(f"only {len(good)} of {len(cfgs)} end-to-end runs completed")
    ctx.notes["runs"] = len(good)
    ctx.notes["runs_cached"] = sum(1 for r in good if r["cached"])
    return good


def functions_of(text: str) -> dict[str, list[str]]:
    """name -> body lines (stripped) of every top-level test function of an exported file."""
    funcs: dict[str, list[str]] = {}
    cur = None
    for ln in text.splitlines():
        m = re.match(r"^def (test_\w+)\(", ln)
        if m:
            cur = m.group(1)
            funcs[cur] = []
        elif cur is not None:
            if ln and not ln.startswith((" ", "\t")):
                cur = None
            elif ln.strip():
                funcs[cur].append(ln.strip())
    return funcs


def decorated_xfail(text: str) -> set[str]:
    out = set()
    lines = text.splitlines()
    for i, ln in enumerate(lines):
        m = re.match(r"^def (test_\w+)\(", ln)
        if m and i > 0 and "xfail" in lines[i - 1]:
            out.add(m.group(1))
    return out


# ------------------------------------------------------------------ C19
def asserted_events(run: dict) -> list[dict]:
    """One event per statement that carries reference assertions after assertion generation and
    assertion minimisation; `exported` = assert lines directly following the statement in the file."""
    exp = e2e.first(run["events"], "Export")
    am = e2e.first(run["events"], "AssertMin")
    ag = e2e.first(run["events"], "Assertions")
    suite = am["after"] if am else (ag["suite"] if ag else None)
    if exp is None or suite is None:
        return []
    funcs = functions_of(exp["text"])
    evs = []
    for ti, t in enumerate(suite):
        for st in t["stmts"]:
            refs = [a for a in st["asserts"] if not a.startswith("ExceptionAssertion")]
            if not refs:
                continue
            code = e2e.norm(st["code"])
            # an unused binding may legitimately be exported as a bare expression statement
            rhs = e2e.norm(st["code"].split("=", 1)[1]) if st["var"] and "=" in st["code"] else code
            best, found = 0, False
            for body in funcs.values():
                for i, ln in enumerate(body):
                    if e2e.norm(ln) in (code, rhs):
                        found = True
                        k = 0
                        while i + 1 + k < len(body) and body[i + 1 + k].startswith("assert "):
                            k += 1
                        best = max(best, k)
            all_lines = {e2e.norm(ln) for body in funcs.values() for ln in body}
            test_removed = not any(
                e2e.norm(s2["code"]) in all_lines
                or (s2["var"] and "=" in s2["code"] and e2e.norm(s2["code"].split("=", 1)[1]) in all_lines)
                for s2 in t["stmts"] if "(" in s2["code"])
            evs.append({"ev": "Asserted", "test": ti, "code": st["code"], "attached": len(refs),
                        "exported": best, "found": found,
                        "test_removed": test_removed or len(funcs) < len([x for x in suite if x["stmts"]])})
    return evs


# ------------------------------------------------------------------ C22
def minimize_event(run: dict) -> dict | None:
    m = e2e.first(run["events"], "Minimize")
    if m is None:
        return None
    names = sorted(set(m["cov_before"]) | set(m["cov_after"]))
    vals = sorted({v for d in (m["cov_before"], m["cov_after"]) for v in d.values() if isinstance(v, float)})

    def rank(v):
        return vals.index(v) if isinstance(v, float) else -1

    def rhs(st):
        # post-processing may turn an unused binding `v = f()` into the expression `f()`
        c = st["code"]
        return e2e.norm(c.split("=", 1)[1]) if st["var"] and "=" in c else e2e.norm(c)

    before_codes = [rhs(s) for t in m["before"] for s in t["stmts"]]
    after_codes = [rhs(s) for t in m["after"] for s in t["stmts"]]
    pool = list(before_codes)
    new = 0
    for c in after_codes:
        if c in pool:
            pool.remove(c)
        else:
            new += 1
    asserted_before = [rhs(s) for t in m["before"] for s in t["stmts"]
                       if any(not a.startswith("ExceptionAssertion") for a in s["asserts"])]
    pool2 = list(after_codes)
    dropped = 0
    for c in asserted_before:
        if c in pool2:
            pool2.remove(c)
        else:
            dropped += 1
    return {"ev": "Minimize", "cov_before": [rank(m["cov_before"].get(n)) for n in names],
            "cov_after": [rank(m["cov_after"].get(n)) for n in names], "functions": names,
            "new_statements": new, "asserted_dropped": dropped, "error": m.get("error", ""),
            "n_before": len(before_codes), "n_after": len(after_codes),
            "tests_before": len([t for t in m["before"] if t["stmts"]]),
            "tests_after": len([t for t in m["after"] if t["stmts"]]),
            "raw_before": m["cov_before"], "raw_after": m["cov_after"]}


# ------------------------------------------------------------------ C18
def pytest_events(run: dict) -> list[dict]:
    exp = e2e.first(run["events"], "Export")
    if exp is None or not exp["text"]:
        return []
    res = e2e.run_pytest(run)
    marked = decorated_xfail(exp["text"])
    funcs = functions_of(exp["text"])
    evs = [{"ev": "File", "collected": bool(res["collected"]) and set(res["tests"]) >= set(funcs),
            "syntax_error": bool(res["syntax_error"]), "rc": res["rc"], "tail": res["tail"][-400:]}]
    for name in sorted(funcs):
        evs.append({"ev": "Test", "name": name, "xfail_marked": name in marked,
                    "outcome": res["tests"].get(name, "missing")})
    return evs


def h(text: str) -> int:
    return int(hashlib.sha1(text.encode()).hexdigest()[:7], 16) + 1


def validate(ctx: Ctx, prop: str, clauses: set[str], runs: list[dict], traces: list[dict], describe,
             kind=lambda run, ev: "-", with_strategy: bool = True) -> None:
    ctx.evaluations = len(traces)
    verdicts = ctx.validate("PipelineTrace", traces)
    for idx, bad in sorted(verdicts.items()):
        for clause, step in bad:
            ev = traces[idx]["ev"][step - 1]
            if clause.startswith("Conform"):
                if clause in clauses:
                    ctx.drift.append(f"{clause}: {describe(runs[idx], ev)[:400]}")
                continue
            if clause not in clauses:
                continue
            c = runs[idx]["cfg"]
            sig = (f"{prop}/{clause}/strategy={c.get('min_strategy')}/{kind(runs[idx], ev)}" if with_strategy
                   else f"{prop}/{clause}/{kind(runs[idx], ev)}")
            ctx.bad(clause, sig,
                    describe(runs[idx], ev), trace={"ev": [ev]}, behaviour=c)


# ------------------------------------------------------------------ P2: pipeline replay (C19, C22)
def _replay_case(args):
    import logging  # noqa: PLC0415

    logging.disable(logging.CRITICAL)
    from harness.adapters import pipeline_prog  # noqa: PLC0415

    return pipeline_prog.run_case(args)


def replay_cases(ctx: Ctx, wide: bool = False) -> list[dict]:
    if wide:  # all statement kinds (property read, nested class, enum, raising call), up to 4 statements
        progs = [b["prog"] for b in ctx.behaviours("MC_PipelineProg", "MC_PipelineProg_wide.cfg")]
        rng = ctx.rng("wide")
        rng.shuffle(progs)
        ctx.notes["replay_wide_programs_enumerated"] = len(progs)
        return [{"tests": [p], "roundtrip": True} for p in (progs[:220] if ctx.quick else progs)]
    progs = [b["prog"] for b in ctx.behaviours("MC_PipelineProg", "MC_PipelineProg.cfg" if ctx.quick
                                               else "MC_PipelineProg_thorough.cfg")]
    ctx.notes["replay_programs_enumerated"] = len(progs)
    rng = ctx.rng("replay")
    if not ctx.quick and len(progs) > 1300:
        short = [p for p in progs if len(p) <= 4]
        long = [p for p in progs if len(p) > 4]
        rng.shuffle(long)
        progs = short + long[:1100]
    cases = [{"tests": [p]} for p in progs]
    # suites of two test cases (suite-level and combined minimisation compare across test cases)
    pool = [p for p in progs if len(p) <= 4]
    for _ in range(60 if ctx.quick else 400):
        cases.append({"tests": [rng.choice(pool), rng.choice(pool)]})
    return cases


def replay_progs(ctx: Ctx, prop: str, clauses: set[str], kind=None, only_kinds: set | None = None) -> int:
    """TLC-enumerated test cases through the real assertion generation, `generator._minimize` (every
    strategy and direction) and export; PipelineTrace clauses on what comes out."""
    cases = replay_cases(ctx, wide=prop in ("C24", "C20"))
    if only_kinds:
        cases = [c for c in cases if any(s["k"] in only_kinds for t in c["tests"] for s in t)]
    if prop == "C24":
        # without assertions the unused bindings become bare expression statements (`var_0.total`)
        cases = cases + [dict(c, assertions=False) for c in cases[: len(cases) // 2]]
    if prop == "C20":
        cases = [dict(c, filter=False, roundtrip=False) for c in cases]
    if prop == "C18":
        cases = cases + [dict(c, roundtrip=False) for c in replay_cases(ctx, wide=True)[:150]]
        # assertions filtered irregularly, as the mutation-analysis based generation does
        cases = cases + [dict(c, mask=m) for c in cases for m in ("odd", "even")]
    if prop == "C22":
        # also without assertion generation (assertion_generation NONE): statements that carry
        # assertions are protected, so only then does minimisation remove calls freely
        cases = cases + [dict(c, assertions=False) for c in cases]
    jobs = [(c, str(ctx.work / "pp" / f"w{n % 64}")) for n, c in enumerate(cases)]
    results = parallel_map(_replay_case, jobs, procs=8, chunksize=4)
    traces, meta = [], []
    for c, r in zip(cases, results):
        by_cfg: dict[str, list] = {}
        for e in r["ev"]:
            if e["ev"] != {"C19": "Asserted", "C22": "Minimize", "C18": "Test", "C24": "Reparse", "C20": "Test"}[prop]:
                continue
            by_cfg.setdefault(e["cfg"], []).append(e)
        for cfg, evs in by_cfg.items():
            traces.append({"ev": evs})
            meta.append((c, cfg))
            ctx.nontriv(("replay", json.dumps(c["tests"]), c.get("assertions", True), cfg))
    verdicts = ctx.validate("PipelineTrace", traces)
    for idx, bad in sorted(verdicts.items()):
        c, cfg = meta[idx]
        for clause, step in bad:
            if clause not in clauses:
                continue
            ev = traces[idx]["ev"][step - 1]
            strategy = cfg.split("/")[0]
            if ev["ev"] == "Reparse":
                sig_kind = kind({"cfg": {"module": "pp_sut"}}, ev)
                ctx.bad(clause, f"{prop}/{clause}/{sig_kind}",
                        f"test case {json.dumps(c['tests'])} ({cfg}): exported {ev['exported']} re-parsed {ev['reparsed']} "
                        f"{ev['error']}", trace=traces[idx], behaviour={"replay": c, "cfg": cfg})
                continue
            if ev["ev"] == "Test":
                kind = f"replay/{ev['outcome'].split(':')[0]}"
                detail = (f"suite {json.dumps(c['tests'])} (assertions kept on {c.get('mask') or 'all'} statements) minimised "
                          f"with {cfg}: exported {ev['name']} -> {ev['outcome']} (xfail-marked={ev['xfail_marked']})")
            elif ev["ev"] == "Asserted":
                kind = "whole-test-removed" if ev["test_removed"] else \
                    ("replay/own-variable" if ev["own"] else "replay/state-of-another-object")
                detail = (f"suite {json.dumps(c['tests'])} minimised with {cfg}: `{ev['code']}` of test {ev['test']} carried "
                          f"{ev['attached']} assertion(s) after assertion generation; exported: statement found={ev['found']}, "
                          f"{ev['exported']} of its assertion(s) right after it")
            else:
                kind = "replay" if len(c["tests"]) == 1 else "replay/tests-removed"
                if not c.get("assertions", True):
                    kind = "replay-no-assertions" if len(c["tests"]) == 1 else "replay-no-assertions/two-tests"
                detail = (f"suite {json.dumps(c['tests'])} minimised with {cfg}: coverage ranks {ev['cov_before']} -> "
                          f"{ev['cov_after']}, new statements {ev['new_statements']}, asserted statements dropped "
                          f"{ev['asserted_dropped']} {ev['error']}")
            sig = f"{prop}/{clause}/strategy={strategy}/{kind}"
            if sig.endswith("replay/tests-removed"):
                sig = f"{prop}/{clause}/strategy={strategy}/tests-removed"
            ctx.bad(clause, sig, detail, trace=traces[idx], behaviour={"replay": c, "cfg": cfg})
    ctx.notes["replay_suites"] = len(cases)
    ctx.notes["replay_minimisation_configs"] = 6
    return len(traces)


def replay_one(ctx: Ctx, rec: dict, prop: str, clauses: set[str]) -> int:
    from harness.core import load_findings  # noqa: PLC0415

    beh = rec["behaviour"]
    r = _replay_case((beh["replay"], str(ctx.work / "pp")))
    evs = [e for e in r["ev"] if e["cfg"] == beh["cfg"] and e["ev"] == {"C19": "Asserted", "C22": "Minimize", "C18": "Test", "C24": "Reparse", "C20": "Test"}[prop]]
    print(json.dumps(r["baseline"], indent=1)[:2000])
    print(json.dumps(evs, indent=1)[:3000])
    v = ctx.validate("PipelineTrace", [{"ev": evs}])
    bad = [c for c, _ in v.get(0, []) if c in clauses]
    known = load_findings()
    if bad and rec.get("signature") not in known:
        print(f"VIOLATION property={prop} replay=(this) clauses={bad}")
        return 1
    print("OK")
    return 0

"""C07 Every branch goal is reachable in the DynaMOSA goal graph.

Design: GoalsManager.tla (every goal graph over 3 goals, cycles included, x every update
sequence: GoalReachable, NoGoalLost, Complete, liveness AllCoveredEventually) and Graphs.tla
(theorem: with the full CDG and every branch node registered all goals are reachable from roots).
P1: for every corpus module, without and with exclusions (inline pragma / pynguin no-cover markers on
compound-statement headers, no_cover / only_cover name lists) the real instrumentation registers
predicates and covered CDGs, the real _BranchFitnessGraph is built like _GoalsManager builds it and
exported; GraphsTrace.tla (GraphsTrace_C07.cfg): BuildSucceeds, AllGoalsReachable, DepsResolve,
OrphansAreRoots.
P2: TLC (MC_GoalsManager) draws coverage orders on the exported real goal graphs; they are replayed
on the real _GoalsManager + CoverageArchive with stub solutions; GoalsManagerTrace.tla: GoalReachable,
NoGoalLost, Complete, ... on the recorded current / covered sets.
"""

from __future__ import annotations

import json

from harness.core import Ctx

HEADER_WORDS = ("if ", "elif ", "else:", "for ", "while ", "try:", "except", "finally:", "with ",
                "match ", "case ", "def ", "class ", "async ")
DRIFT_CLAUSES = {"GoalGraphAsModel", "AsModel"}


def header_lines(src: str) -> list[int]:
    return [i for i, ln in enumerate(src.splitlines(), start=1) if ln.strip().startswith(HEADER_WORDS)]


def variants(ctx: Ctx, modname: str, src: str, names: list[str], rng, *, every_line: bool) -> list[dict]:
    """Exclusion configurations of one module: dicts {tag, src, no_cover, only_cover}."""
    from harness.adapters import graphs as ad  # noqa: PLC0415

    hdr = header_lines(src)
    out = [{"tag": "plain", "src": src, "no_cover": [], "only_cover": []}]
    if every_line:
        for ln in hdr:
            marker = "pragma: no cover" if ln % 2 else "pynguin: no cover"
            out.append({"tag": f"line{ln}", "src": ad.with_markers(src, [ln], marker),
                        "no_cover": [], "only_cover": []})
        return out
    inner = [ln for ln in hdr if not src.splitlines()[ln - 1].startswith(("def ", "class "))]
    for marker, tag in (("pragma: no cover", "pragma"), ("pynguin: no cover", "pynguin")):
        if inner:
            k = rng.randint(1, min(3, len(inner)))
            out.append({"tag": tag, "src": ad.with_markers(src, sorted(rng.sample(inner, k)), marker),
                        "no_cover": [], "only_cover": []})
    if hdr:
        out.append({"tag": "pragma-any", "src": ad.with_markers(src, [rng.choice(hdr)], "pragma: no cover"),
                    "no_cover": [], "only_cover": []})
    if names:
        out.append({"tag": "no_cover", "src": src, "no_cover": rng.sample(names, min(len(names), rng.randint(1, 2))),
                    "only_cover": []})
        out.append({"tag": "only_cover", "src": src, "no_cover": [],
                    "only_cover": rng.sample(names, min(len(names), rng.randint(1, 2)))})
        if inner:
            out.append({"tag": "only+pragma", "only_cover": [rng.choice(names)], "no_cover": [],
                        "src": ad.with_markers(src, [rng.choice(inner)], "pragma: no cover")})
    return out


def shape_of(ev: dict) -> str:
    return "with-exclusions" if ev["tag"] != "plain" else "plain"


def run(ctx: Ctx) -> None:  # noqa: C901, PLR0912, PLR0915
    from harness.adapters import graphs as ad  # noqa: PLC0415

    ctx.rule = ("case = (module, exclusion configuration): generated modules and a hand-written one, "
                "plain / inline no-cover markers on random (thorough: on each single) compound-statement "
                "header / no_cover and only_cover name lists; for each the real goal structures are "
                "exported (structural clauses) and TLC-drawn coverage orders are replayed on the real "
                "_GoalsManager (dynamic clauses); non-trivial = distinct exported goal graph with at "
                "least one dependency edge, and distinct (goal graph, coverage order) pairs")
    ctx.assumptions = ["solutions are stubs whose get_is_covered answers come from the behaviour; "
                       "fitness values and real execution are not involved",
                       "the archive is the real CoverageArchive created empty as for DynaMOSA",
                       "modules whose instrumentation itself raises (C06 finding: dead-code cycle) are "
                       "counted and skipped"]
    import time  # noqa: PLC0415

    phase = ctx.notes.setdefault("phase_wall_s", {})
    t0 = time.time()
    ctx.design("GoalsManager", "GoalsManager.cfg", workers=2)
    if not ctx.quick:
        ctx.design("GoalsManager", "GoalsManager_thorough.cfg", workers=2)
    hz = ctx.design("GoalsManager", "GoalsManager_hazard.cfg", expect_ok=False, workers=1)
    ctx.notes["design_hazard_unreachable_goal"] = (
        "GoalsManager_hazard.cfg (goal graphs with goals not reachable from the roots): TLC "
        + ("finds Complete violated, i.e. the manager cannot recover from a structurally unreachable goal"
           if hz.violations else "finds no violation (unexpected)"))
    if not ctx.quick:
        ctx.design("Graphs", "Graphs.cfg", workers=2)   # theorem GoalsReachable (also part of C06)

    phase["design"] = round(time.time() - t0, 1)
    t0 = time.time()
    rng = ctx.rng("corpus")
    work = ctx.work / "corpus"
    work.mkdir(parents=True, exist_ok=True)
    sources = [("c07hand", ad.HAND, ["h_try", "h_nested", "h_nested.inner", "h_match", "h_gen"], True)]
    for i in range(8 if ctx.quick else 45):
        pg = ad.ProgGen(rng, depth=rng.choice([2, 2, 3]))
        src = pg.module(rng.randint(3, 5))
        sources.append((f"c07gen_{i}", src, pg.names, False))

    events: list[dict] = []
    keep: list[tuple] = []      # (sp, order) per event, for the dynamic part
    failed = []
    uid = 0
    for modname, src, names, hand in sources:
        vs = variants(ctx, modname, src, names, rng, every_line=hand)
        if hand and ctx.quick:
            vs = vs[:1] + rng.sample(vs[1:], 14)
        for v in vs:
            uid += 1
            name = f"{modname}_v{uid}"
            (work / f"{name}.py").write_text(v["src"])
            try:
                sp, _ = ad.load_module(name, work, to_cover=ad.to_cover(v["no_cover"], v["only_cover"]))
            except Exception as ex:  # noqa: BLE001
                failed.append(f"{name}[{v['tag']}]:{type(ex).__name__}")
                continue
            ev, _graph, order = ad.export_goal_structures(sp, f"{name}[{v['tag']}]")
            ev["tag"] = v["tag"]
            ev["no_cover"] = v["no_cover"]
            ev["only_cover"] = v["only_cover"]
            ev["src"] = v["src"] if len(v["src"]) < 6000 else v["src"][:6000]
            events.append(ev)
            keep.append((sp, order))
    ctx.notes["modules_x_configurations"] = len(events)
    ctx.notes["instrumentation_failed_skipped"] = failed
    ctx.notes["goal_graphs_with_exclusions"] = sum(1 for e in events if e["tag"] != "plain")
    ctx.notes["goals_total"] = sum(len(e["goals"]) for e in events)

    phase["instrument+export"] = round(time.time() - t0, 1)
    t0 = time.time()

    def slim(e):
        return {k: e[k] for k in e if k not in ("src",)}

    traces = [{"ev": [slim(e)]} for e in events]
    for e in events:
        if e["gedges"]:
            ctx.nontriv(("graph", json.dumps([e["goals"], e["roots"], e["gedges"]])))
    verdicts = ctx.validate("GraphsTrace", traces, cfg="GraphsTrace_C07.cfg", chunk=20000, workers=2)
    for idx, bad in sorted(verdicts.items()):
        ev = events[idx]
        for clause, _step in bad:
            if clause in DRIFT_CLAUSES:
                ctx.drift.append(f"{clause}: {ev['name']}: real goal graph differs from GraphsOps.GoalGraph "
                                 f"of the registered CDGs")
                continue
            ctx.bad(clause, f"C07/{clause}/{shape_of(ev)}",
                    f"{ev['name']} no_cover={ev['no_cover']} only_cover={ev['only_cover']}: built={ev['built']} "
                    f"err={ev['err']!r} goals={ev['goals']} roots={ev['roots']} edges={ev['gedges']}",
                    trace={"ev": [slim(ev)]}, behaviour=ev)

    phase["validate-structure"] = round(time.time() - t0, 1)
    t0 = time.time()
    # ---- dynamic part: coverage orders drawn by TLC on the real goal graphs
    usable = [i for i, e in enumerate(events) if e["built"] and 0 < len(e["goals"]) <= (60 if ctx.quick else 120)]
    gfile = ctx.work / "goalgraphs.ndjson"
    with gfile.open("w") as f:
        for i in usable:
            e = events[i]
            f.write(json.dumps({"n": len(e["goals"]), "roots": e["roots"], "edges": e["gedges"]}) + "\n")
    dyn_traces, dyn_src = [], []
    if usable:
        sims = ctx.simulate("MC_GoalsManager", "MC_GoalsManager_sim.cfg",
                            num=100 if ctx.quick else 400, depth=75 if ctx.quick else 120, env={"GRAPHS_FILE": str(gfile)})
        seen = set()
        for st in sims:
            gi = st["gi"]
            hist = [sorted(s["__set__"]) if isinstance(s, dict) else sorted(s) for s in st["hist"]]
            key = (gi, json.dumps(hist))
            if key in seen:
                continue
            seen.add(key)
            i = usable[gi - 1]
            sp, order = keep[i]
            tr = ad.step_goals_manager(sp, order, hist)
            e = events[i]
            tr.update(n=len(e["goals"]), roots=e["roots"], edges=e["gedges"], goals=e["goals"], cos=e["cos"])
            dyn_traces.append(tr)
            dyn_src.append((i, hist))
            ctx.nontriv(("order", gi, json.dumps(hist)))
        # plus the canonical complete order on every graph: always cover the first current goal
        cap = 40 if ctx.quick else 150
        canon = usable if len(usable) <= cap else sorted(rng.sample(usable, cap))
        for i in canon:
            sp, order = keep[i]
            e = events[i]
            hist = first_current_order(ad, sp, order, len(e["goals"]))
            tr = ad.step_goals_manager(sp, order, hist)
            tr.update(n=len(e["goals"]), roots=e["roots"], edges=e["gedges"], goals=e["goals"], cos=e["cos"])
            dyn_traces.append(tr)
            dyn_src.append((i, hist))
        ctx.notes["coverage_orders_replayed"] = len(dyn_traces)
        ctx.notes["coverage_orders_complete"] = sum(1 for t in dyn_traces if not t["ev"][-1]["cur"])
        dv = ctx.validate("GoalsManagerTrace", dyn_traces, chunk=5000, workers=2)
        for idx, bad in sorted(dv.items()):
            i, hist = dyn_src[idx]
            ev = events[i]
            for clause, step in bad:
                if clause in DRIFT_CLAUSES:
                    ctx.drift.append(f"{clause}: {ev['name']} order {hist[:step]}: real update differs from UpdateLoop")
                    continue
                ctx.bad(clause, f"C07/{clause}/{shape_of(ev)}",
                        f"{ev['name']}: goal graph roots={ev['roots']} edges={ev['gedges']}; after updates "
                        f"{hist[:max(step - 1, 0)]} the manager is in {dyn_traces[idx]['ev'][max(step - 1, 0)]}",
                        trace=dyn_traces[idx],
                        behaviour={"event": ev, "hist": hist})
    phase["orders+replay+validate"] = round(time.time() - t0, 1)
    ctx.evaluations = len(events) + len(dyn_traces)
    ctx.exhaustive = False
    for e in events[:2]:
        ctx.sample({k: e[k] for k in ("name", "goals", "roots", "gedges")})
    if dyn_traces:
        ctx.sample(dyn_traces[0]["ev"][:4])


def first_current_order(ad, sp, order, n: int) -> list[list[int]]:
    """Coverage order 'always cover the first current goal' (driven by the real manager's own
    current-goal list; only used to make sure every graph gets one complete order)."""
    from pynguin.ga.algorithms import dynamosaalgorithm as dyn  # noqa: PLC0415
    from pynguin.ga.algorithms.archive import CoverageArchive  # noqa: PLC0415
    from pynguin.utils.orderedset import OrderedSet  # noqa: PLC0415

    gid = {f: i + 1 for i, f in enumerate(order)}
    archive = CoverageArchive(OrderedSet())
    mgr = dyn._GoalsManager(OrderedSet(order), archive, sp)  # noqa: SLF001
    hist = []
    for _ in range(n + 2):
        cur = list(mgr.current_goals)
        if not cur:
            break
        hist.append([gid[cur[0]]])
        mgr.update([ad.StubSolution({cur[0]})])
    return hist


def replay(ctx: Ctx, rec: dict) -> int:
    from harness.adapters import graphs as ad  # noqa: PLC0415

    beh = rec["behaviour"]
    ev = beh.get("event", beh)
    work = ctx.work / "replay"
    work.mkdir(parents=True, exist_ok=True)
    name = "c07replay_mod"
    (work / f"{name}.py").write_text(ev["src"])
    sp, _ = ad.load_module(name, work, to_cover=ad.to_cover(ev["no_cover"], ev["only_cover"]))
    ev2, _graph, order = ad.export_goal_structures(sp, ev["name"])
    ev2["tag"] = ev["tag"]
    bad = dict(ctx.validate("GraphsTrace", [{"ev": [ev2]}], cfg="GraphsTrace_C07.cfg"))
    if "hist" in beh:
        tr = ad.step_goals_manager(sp, order, beh["hist"])
        tr.update(n=len(ev2["goals"]), roots=ev2["roots"], edges=ev2["gedges"], goals=ev2["goals"], cos=ev2["cos"])
        bad.update({f"dyn{k}": v for k, v in ctx.validate("GoalsManagerTrace", [tr]).items()})
    bad = {k: [c for c in v if c[0] not in DRIFT_CLAUSES] for k, v in bad.items()}
    bad = {k: v for k, v in bad.items() if v}
    print("replayed:", ev2["name"], "roots", ev2["roots"], "edges", ev2["gedges"], "built", ev2["built"], ev2["err"])
    if bad:
        print(f"VIOLATION property=C07 replay=(this) clauses={bad}")
        return 1
    print("OK")
    return 0

"""C12 Cached fitness and coverage values are never stale.

Design: Cache.tla / CacheOps.tla (chromosomes, changed flags, last execution results, the three
caches with the content version each entry was computed from).  The model is checked twice: with
the four known code defects repaired (NeverStale, QueryTotal must hold) and as the code is (TLC
must find the violations; their histories are among the replayed ones).
P2: histories enumerated by TLC from MC_Cache (one per distinct way the model can answer a query)
and random long ones are executed on real TestCaseChromosome/TestSuiteChromosome objects;
CacheTrace.tla evaluates NeverStale / QueryTotal on what the real code returned and checks that
the design model explains every observed call (ModelFollows, drift only).
"""

from __future__ import annotations

from harness.core import Ctx
from harness.tlc import MachineryError

QUERY = ("tq", "sq")
GETTER = {"fit": "get_fitness_for", "isc": "get_is_covered", "cov": "get_coverage_for",
          "fitsum": "get_fitness", "covmean": "get_coverage"}


# --------------------------------------------------------------------------------------
# reporting helpers (signatures only; the verdicts are TLC's)
# --------------------------------------------------------------------------------------
def _worlds(tr: dict):
    """observed world before/after every event (deltas applied)."""
    cur = {"t": list(tr["w0full"]["t"]), "s": list(tr["w0full"]["s"])}
    out = []
    for e in tr["ev"]:
        pre = {"t": list(cur["t"]), "s": list(cur["s"])}
        for d in e["tp"]:
            cur["t"][d["id"] - 1] = d["r"]
        for d in e["sp"]:
            cur["s"][d["id"] - 1] = d["r"]
        out.append((pre, {"t": list(cur["t"]), "s": list(cur["s"])}))
    return out


def _dirty(rec: dict) -> bool:
    """unchanged flag but the last execution result is of other statements."""
    return rec["al"] and not rec["chg"] and rec["res"] != -1 and rec["res"] != rec["c"]


def _cause_of_dirty(tr: dict, worlds, upto: int, tslot: int) -> str:
    """which call first left test `tslot` with changed=False and an outdated result."""
    first = None
    for i in range(upto, -1, -1):
        pre, post = worlds[i]
        if _dirty(post["t"][tslot - 1]) and not _dirty(pre["t"][tslot - 1]):
            first = i
            break
        if not _dirty(post["t"][tslot - 1]):
            break
    if first is None:
        return "outdated-result/unknown-origin"
    e = tr["ev"][first]
    pre, post = worlds[first]
    p, q = pre["t"][tslot - 1], post["t"][tslot - 1]
    # a clone inherits flag, result and caches: look for the cause in the original
    src = None
    if e["op"] == "tclone" and e["b"] == tslot:
        src = e["a"]
    elif e["op"] == "sclone" and tslot in post["s"][e["b"] - 1]["mem"]:
        src = pre["s"][e["a"] - 1]["mem"][post["s"][e["b"] - 1]["mem"].index(tslot)]
    elif e["op"] == "sxo" and not p["al"] and tslot in post["s"][e["a"] - 1]["mem"]:
        j = post["s"][e["a"] - 1]["mem"].index(tslot)
        keep = min(e["p"], len(pre["s"][e["a"] - 1]["mem"]))
        src = pre["s"][e["b"] - 1]["mem"][e["q"] + j - keep]
    if src is not None and first > 0:
        return _cause_of_dirty(tr, worlds, first - 1, src)
    if e["op"] in ("tmut", "smut"):
        if p["al"] and p["c"] != q["c"] and not q["chg"]:
            return "silent-edit/TestCaseMutation.mutate/" + ("no-sut-call" if not p["sut"] else "with-sut-call")
    if e["op"] == "tq" and e["k"] in ("fitsum", "covmean") and p["chg"] and not q["chg"]:
        funcs = p["cf"] if e["k"] == "covmean" else p["ff"]
        if not funcs:
            return "flag-cleared-by-empty-aggregate"
    if e["op"] == "txo" and p["c"] != q["c"] and not q["chg"]:
        return "silent-edit/splice_test_case_chromosomes"
    return f"outdated-result/after-{e['op']}" + (f"-{e['k']}" if e["op"] in QUERY else "")


def signature(tr: dict, clause: str, step: int) -> tuple[str, str]:
    worlds = _worlds(tr)
    e = tr["ev"][step - 1]
    pre, post = worlds[step - 1]
    lvl = "t" if e["op"] == "tq" else "s"
    rec = (pre["t"] if lvl == "t" else pre["s"])[e["a"] - 1]
    who = ("TestCaseChromosome" if lvl == "t" else "TestSuiteChromosome") + "." + GETTER.get(e["k"], e["k"])
    cachekey = {"fit": "fk", "fitsum": "fk", "isc": "ik", "cov": "ck", "covmean": "ck"}[e["k"]]
    registered = set(rec["cf"] if e["k"] in ("cov", "covmean") else rec["ff"])
    polluted = bool(set(rec[cachekey]) - registered) and not rec["chg"]
    detail = (f"{who}({e['f']}) on slot {e['a']} at step {step}: returned value id {e['ret']}, from scratch "
              f"{e['fresh']}, raised={e['exc'] or False}; before the call changed={rec['chg']} "
              f"registered={sorted(registered)} cached={rec[cachekey]}")
    if clause == "QueryTotal":
        cause = "unregistered-cache-entry" if polluted else "other"
        return f"C12/QueryTotal/{e['exc']}/{cause}", detail
    # NeverStale
    if polluted and e["k"] in ("fitsum", "covmean"):
        return "C12/NeverStale/aggregate/unregistered-cache-entry", detail
    if lvl == "t":
        if _dirty(post["t"][e["a"] - 1]) or _dirty(rec):
            return "C12/NeverStale/" + _cause_of_dirty(tr, worlds, step - 1, e["a"]), detail
        return f"C12/NeverStale/test-cache-not-invalidated/{_last_edit(tr, worlds, step - 1, [e['a']])}", detail
    members = post["s"][e["a"] - 1]["mem"]
    sharer = _shared_since(tr, worlds, step - 1, e["a"])
    if sharer:
        return f"C12/NeverStale/test-shared-between-suites/{sharer}", detail
    for m in members:
        if _dirty(post["t"][m - 1]):
            return "C12/NeverStale/" + _cause_of_dirty(tr, worlds, step - 1, m), detail
    return f"C12/NeverStale/suite-cache-not-invalidated/{_last_edit(tr, worlds, step - 1, members, e['a'])}", detail


def _shared_since(tr, worlds, upto, sslot) -> str:
    """the call after which suite `sslot` first held a test object that another live suite holds too
    (looking back from event `upto` while that is the case); '' if it holds none now."""
    def shares(world):
        mine = set(world["s"][sslot - 1]["mem"])
        return any(r["al"] and j != sslot - 1 and mine & set(r["mem"]) for j, r in enumerate(world["s"]))
    if not shares(worlds[upto][0]) and not shares(worlds[upto][1]):
        # the shared test may have been dropped again: look for an edit of a then-shared member
        pass
    first = ""
    for i in range(upto, -1, -1):
        pre, post = worlds[i]
        if shares(post) and not shares(pre):
            first = tr["ev"][i]["op"]
            break
    return first


def _last_edit(tr, worlds, upto, tslots, sslot=None) -> str:
    for i in range(upto - 1, -1, -1):
        pre, post = worlds[i]
        if any(pre["t"][m - 1]["c"] != post["t"][m - 1]["c"] for m in tslots):
            return tr["ev"][i]["op"]
        if sslot is not None and pre["s"][sslot - 1]["mem"] != post["s"][sslot - 1]["mem"]:
            return tr["ev"][i]["op"]
    return "no-edit"


# --------------------------------------------------------------------------------------
def run(ctx: Ctx) -> None:
    ctx.rule = ("case = history of public calls (queries get_fitness_for/get_is_covered/get_coverage_for/"
                "get_fitness/get_coverage, add_*_function, invalidate_cache, clone, mutate, cross_over, "
                "suite add/delete/set) on real test case and test suite chromosomes; TLC enumerates one "
                "shortest history per distinct (model state, query report, last call) of MC_Cache up to the "
                "depth bound, plus random long histories (-simulate); non-trivial = distinct (level, getter, "
                "registered?, changed flag, cached keys, result current?, raised, stale) at a query")
    ctx.assumptions = [
        "fitness/coverage functions are deterministic functions of the execution results (stubs derived from "
        "the real base classes; executor stub returns the content version of the statements it is given)",
        "compute_is_covered(x) == (compute_fitness(x) == 0), as ComputationCache assumes",
        "a test chromosome held by a suite is edited only through that suite's operators",
        "suite-level stub functions ignore tests without statements (as the real trace-merging ones do)",
    ]
    q = ctx.quick
    from concurrent.futures import ThreadPoolExecutor

    # 1. design: the intended design (defects repaired) must satisfy the property ...
    def _design():
        return ctx.design("Cache", "Cache.cfg" if q else "Cache_thorough.cfg", workers=8 if q else "auto")

    # 2. ... and behaviours of the model of the code as it is
    def _mc():
        return ctx.behaviours("MC_Cache", "MC_Cache.cfg" if q else "MC_Cache_thorough.cfg",
                              workers=8 if q else "auto")

    def _xo():
        # two live suites: [query both] cross_over [query] mutate query query (every such call sequence)
        return ctx.behaviours("MC_CacheX", "MC_Cache_xo.cfg", workers=6 if q else "auto")

    def _sim():
        return ctx.simulate("MC_Cache", "MC_Cache_sim.cfg", num=150 if q else 600, depth=20 if q else 30)

    faults = ("all", "size_check", "agg_over_cache", "flag_reset", "silent_restore")
    with ThreadPoolExecutor(max_workers=4) as ex:
        f1, f2, f3, f4 = ex.submit(_design), ex.submit(_mc), ex.submit(_sim), ex.submit(_xo)
        extra = {}
        if not q:
            # random deep behaviours of the repaired design; and the model of the code as it is (all
            # four defects, and each alone) must violate the property: the model is not vacuous about
            # the known findings
            extra["sim"] = ex.submit(lambda: ctx.design("Cache", "Cache_sim.cfg", simulate="num=200", depth=30,
                                                        workers=1))
            for fault in faults:
                extra[fault] = ex.submit(lambda f=fault: ctx.design("Cache", "Cache_asis.cfg", expect_ok=False,
                                                                    env={"C12_FAULTS": f}, workers=4))
        r1, emitted, sims, emitted_xo = f1.result(), f2.result(), f3.result(), f4.result()
        done = {k: f.result() for k, f in extra.items()}
    ctx.notes["design_repaired_states"] = r1.distinct
    ctx.notes["two_suite_histories_emitted"] = len(emitted_xo)
    emitted = list(emitted) + list(emitted_xo)
    if not q:
        per_fault = {f: sorted({v.name for v in done[f].violations}) for f in faults}
        ctx.notes["design_with_code_defects_violates"] = per_fault
        if not all(per_fault.values()):
            raise MachineryError(f"the model of the code as it is does not violate C12 for some defect: {per_fault}")

    def is_bad(p):
        return bool(p) and bool(p.get("stale") or (p.get("raised") and p.get("reg")))

    # one replay per distinct call sequence (TLC emits one history per distinct model state; the
    # real outcome of the random operators is not the model's choice), several seeds if random
    seqs: dict[str, dict] = {}
    for b in emitted:
        key = repr((sorted(b["ip"].items()), [sorted(a.items()) for a in b["hist"]]))
        cur = seqs.get(key)
        if cur is None or (is_bad(b["pred"]) and not is_bad(cur["pred"])):
            seqs[key] = b
    ctx.notes["model_states_reached_by_a_query"] = len(emitted)
    ctx.notes["distinct_call_sequences"] = len(seqs)
    ctx.notes["model_predicted_defect_sequences"] = sum(is_bad(b["pred"]) for b in seqs.values())
    reps = 1 if q else 2
    chosen = sorted(seqs)
    # Which of the enumerated sequences are replayed.  Always: every sequence on which the model
    # predicts a defect, every sequence of the focus and pattern modes, one sequence per shape
    # (calls and query kinds; slots, function ids and registration ignored).  Of the remaining
    # sequences of the broad modes "T"/"S" the quick tier takes a deterministic fill-up to a budget;
    # the thorough tier takes all but the deepest layer, of which it takes a deterministic part.
    import hashlib

    def h(key):
        return hashlib.sha1(f"{ctx.seed}/{key}".encode()).hexdigest()

    def shape(b):
        return (b["ip"]["mode"], tuple((a["op"], a["k"]) for a in b["hist"]))
    budget = 6000 if q else 22000
    broad = ("T", "S")
    deepest = {m: max((len(seqs[k]["hist"]) for k in chosen if seqs[k]["ip"]["mode"] == m), default=0)
               for m in broad}
    # two-suite family (PX*): the quick tier replays a deterministic quarter of its call sequences
    def is_x(k):
        return str(seqs[k]["ip"]["mode"]).startswith("PX")
    x_all = [k for k in chosen if is_x(k)]
    x_take = set(x_all) if not q else {k for k in x_all if int(h(k), 16) % 4 == 0}
    ctx.notes["two_suite_sequences"] = f"{len(x_take)} of {len(x_all)} replayed"
    pick = {k for k in chosen if (is_bad(seqs[k]["pred"]) and not is_x(k)) or k in x_take
            or (seqs[k]["ip"]["mode"] not in broad and not is_x(k))}
    by_shape: dict = {}
    for k in sorted(chosen, key=h):
        if not is_x(k):
            by_shape.setdefault(shape(seqs[k]), k)
    pick |= set(by_shape.values())
    if not q:
        pick |= {k for k in chosen if len(seqs[k]["hist"]) < deepest.get(seqs[k]["ip"]["mode"], 0)}
    budget += len(x_take)   # the two-suite family comes on top of the budget of the other families
    for k in sorted(chosen, key=h):
        if len(pick) >= budget:
            break
        if not is_x(k):
            pick.add(k)
    ctx.notes["replayed_sample"] = (f"{len(pick)} of {len(chosen)} call sequences ({len(by_shape)} shapes; "
                                    f"all of the focus/pattern modes and all model-predicted defects)")
    ctx.exhaustive = len(pick) == len(chosen)
    chosen = sorted(pick)
    behs = []
    for key in chosen:
        b = seqs[key]
        n = reps if any(a["op"] in ("tmut", "txo", "smut") for a in b["hist"]) else 1
        for r in range(n):
            behs.append({"ip": b["ip"], "hist": b["hist"], "pred": b["pred"], "rep": r})
    n_exh = len(behs)
    for st in sims:
        if st.get("hist"):
            behs.append({"ip": st["ip"], "hist": st["hist"], "pred": {}, "rep": 0})
    for k, b in enumerate(behs):
        b["k"] = k
    ctx.notes["replays_from_exhaustive_extraction"] = n_exh
    ctx.notes["replays_from_simulation"] = len(behs) - n_exh

    # 3. replay on the real code (import and set up before forking the workers)
    from harness.adapters import cache as ad
    ad.env()
    traces = [ad.replay(b, ctx.seed) for b in behs]  # ~1.5 ms each; a fork pool is slower here
    ctx.evaluations = sum(len(t["ev"]) for t in traces)
    ends: dict[str, int] = {}
    skipped = 0
    for t in traces:
        ends[t["end"]] = ends.get(t["end"], 0) + 1
        skipped += t["skipped"]
    ctx.notes["trace_ends"] = ends
    ctx.notes["calls_not_applicable_on_real_state"] = skipped
    if ends.get("done", 0) < 0.9 * len(traces):
        raise MachineryError(f"too many replays ended early: {ends}")
    queries = stale = raised = 0
    for t in traces:
        ws = None
        for i, e in enumerate(t["ev"]):
            if e["op"] in QUERY:
                queries += 1
                if ws is None:
                    ws = _worlds(t)
                pre = ws[i][0]
                rec = (pre["t"] if e["op"] == "tq" else pre["s"])[e["a"] - 1]
                ck = {"fit": "fk", "fitsum": "fk", "isc": "ik", "cov": "ck", "covmean": "ck"}[e["k"]]
                ctx.nontriv((e["op"], e["k"], e["reg"], rec["chg"], tuple(rec[ck]), len(rec["ff"]), len(rec["cf"]),
                             e["raised"], (not e["raised"]) and e["ret"] != e["fresh"]))
                stale += (not e["raised"]) and e["ret"] != e["fresh"]
                raised += e["raised"]
    ctx.notes["queries_observed"] = queries
    ctx.notes["queries_stale_observed"] = stale
    ctx.notes["queries_raised_observed"] = raised
    pred_bad = {i for i, b in enumerate(behs) if is_bad(b["pred"])}

    # 4. TLC evaluates the clauses on the recorded traces
    payload = [{"w0": t["w0"], "ev": t["ev"]} for t in traces]
    verdicts = ctx.validate("CacheTrace", payload, chunk=max(500, -(-len(payload) // 3)), workers=1 if q else 4)
    confirmed = 0
    drifting = []
    shared = 0
    for idx, bad in sorted(verdicts.items()):
        tr = traces[idx]
        for clause, step in bad:
            if clause == "ModelFollows":
                drifting.append((idx, step))
                continue
            if clause == "Isolated":
                # conformance with the design (chromosomes own their tests); the C12 verdict on a shared
                # test is NeverStale at the query that is served the other chromosome's edit
                e = tr["ev"][step - 1]
                shared += 1
                if shared <= 5:
                    ctx.drift.append(f"trace {idx} step {step}: {e['op']} on chromosome {e['a']} changed the "
                                     f"tests of another chromosome (design: chromosomes own their test cases; "
                                     f"calls {[(a['op'], a['a'], a['b'], a['p'], a['q']) for a in behs[idx]['hist'][:step]]})"[:500])
                continue
            sig, detail = signature(tr, clause, step)
            ctx.bad(clause, sig, detail, trace={"w0": tr["w0"], "w0full": tr["w0full"], "ev": tr["ev"][:step]},
                    behaviour=behs[idx])
        if idx in pred_bad and any(c in ("NeverStale", "QueryTotal") for c, _ in bad):
            confirmed += 1
    if drifting:
        # the model of the code as it is does not explain these traces; does the intended design
        # (known defects repaired) explain them?  Only what neither explains is reported as drift.
        again = ctx.validate("CacheTrace", [payload[i] for i, _ in drifting], cfg="CacheTrace_repaired.cfg",
                             chunk=max(500, -(-len(drifting) // 3)))
        explained = 0
        for n, (idx, step) in enumerate(drifting):
            if any(c == "ModelFollows" for c, _ in again.get(n, [])):
                e = traces[idx]["ev"][step - 1] if 0 < step <= len(traces[idx]["ev"]) else {}
                ctx.drift.append(f"trace {idx} step {step}: neither the model of the code as it is nor the "
                                 f"repaired design explains {e.get('op')} {e.get('k', '')} "
                                 f"(calls {[(a['op'], a['a'], a['k'], a['f']) for a in behs[idx]['hist'][:step]]})"[:500])
            else:
                explained += 1
        ctx.notes["traces_explained_only_by_repaired_design"] = explained
    ctx.notes["calls_that_changed_tests_of_another_chromosome"] = shared
    ctx.notes["model_predicted_defect_replays"] = len(pred_bad)
    ctx.notes["model_predicted_defect_replays_confirmed_on_code"] = confirmed
    ctx.notes["drift_traces"] = len(ctx.drift)
    for t in traces[:2] + traces[-2:]:
        ctx.sample([{k: e[k] for k in ("op", "a", "b", "f", "k", "reg", "raised", "ret", "fresh")} for e in t["ev"]][:8])


def replay(ctx: Ctx, rec: dict) -> int:
    from harness.adapters import cache as ad
    tr = ad.replay(rec["behaviour"], rec.get("seed", ctx.seed))
    verdicts = ctx.validate("CacheTrace", [{"w0": tr["w0"], "ev": tr["ev"]}])
    for e in tr["ev"]:
        print({k: e[k] for k in ("op", "a", "b", "f", "k", "reg", "raised", "exc", "ret", "fresh")})
    bad = [(c, s) for c, s in verdicts.get(0, []) if c not in ("ModelFollows", "Isolated")]
    if bad:
        for c, s in bad:
            print("  ", signature(tr, c, s))
        print(f"VIOLATION property=C12 replay=(this) clauses={bad}")
        return 1
    print("OK")
    return 0

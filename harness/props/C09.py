"""C09 Dynamic slices are sound and checked lines were executed.

Spec: PyMiniData.tla - a big-step semantics of a Python fragment with locals, globals, attributes (instance
and class level, public and underscore names), list/dict elements, calls of helper functions (frames; helper
bodies are programs of the same language, some with their own branching / loop), closures defined in the
function under test that read / write (`nonlocal`) one of its locals, `if x:` / `for` / `while x:` / early
`return`, that computes the DYNAMIC DEPENDENCE relation along the executed path (data: last definition of
everything a statement instance reads; control: the decisions that let it execute, the call that runs the
callee) and Slice(criterion) = backward closure.
MC_PyMiniData.tla builds programs (skeleton x statements x inputs): exhaustively for the straight-line
skeletons (full / core and themed alphabets), by `-simulate` for all 22 skeletons with branching / loops /
nesting depth 2 (full alphabet; closure, helper and underscore alphabets).

Every case is rendered as a SUT module; the test `var_0 = f(a, b)` (+ `assert var_0 == v`) is executed
by the REAL TestCaseExecutor under CHECKED instrumentation with the real
RemoteStatementSlicingObserver / RemoteAssertionExecutionObserver and sliced by the real DynamicSlicer
(compute_statement_checked_lines / compute_assertion_checked_coverage); the uninstrumented module
runs under sys.monitoring for the executed lines.  PyMiniDataTrace.tla is evaluated by TLC on the
observations: the oracle (Run of the semantics) is computed by TLC inside the trace spec.
"""

from __future__ import annotations

import json
import logging
import re
import sys
from concurrent.futures import ThreadPoolExecutor

from harness.core import SPEC, Ctx, parallel_map
from harness.tlc import MachineryError

PROPERTY_CLAUSES = {"CheckedLinesWereExecuted", "AssertionCheckedLinesWereExecuted", "SliceOnlyExecuted",
                    "AssertionSliceOnlyExecuted", "CriterionInSlice", "AssertionCriterionInSlice", "SliceSound",
                    "AssertionSliceSound"}


def _run(args):
    sys.path.insert(0, str(SPEC.parent / "harness" / "sut"))
    from harness.adapters import pymini_data  # noqa: PLC0415

    logging.disable(logging.CRITICAL)
    return pymini_data.run_case(args)


_JS = re.compile(r'^/\\ js = (".*")$', re.M)


def _sim_cases(ctx: Ctx, num: int, seed: int, tag: str, cfg: str = "MC_PyMiniData_sim.cfg") -> list[dict]:
    """`tlc -simulate` of the program builder: every behaviour ends in a state whose variable `js` holds the
    case as JSON (the dump files of TLC are read like Ctx.simulate does; own work dir so that several
    simulations can run side by side)."""
    from harness import tlc  # noqa: PLC0415

    wd = ctx.work / f"sim-{tag}"
    out = wd / "sim"
    out.mkdir(parents=True, exist_ok=True)
    res = tlc.run_tlc("MC_PyMiniData", cfg, workdir=wd, workers=1, timeout=2400,
                      simulate=f"file={out}/tr,num={num}", depth=12, seed=seed)
    m = re.search(r"The number of states generated: (\d+)", res.output)
    if m:
        res.generated = int(m.group(1))
    if res.violations:
        raise MachineryError(f"MC_PyMiniData (simulation) violates {res.violations[0].name}: the specification "
                             f"itself is wrong\n" + json.dumps(res.violations[0].states[-1:], indent=1)[:3000])
    cases_ = []
    for f in sorted(out.iterdir()):
        found = _JS.findall(f.read_text())
        if found:
            js = json.loads(found[-1])
            if js:
                cases_.append(json.loads(js))
    return res, cases_


def _key(c: dict) -> str:
    return json.dumps([c["prog"], c["inp"]], sort_keys=True)


def _walk(prog):
    for s in prog:
        yield s
        for k in ("a", "b"):
            if isinstance(s.get(k), list):
                yield from _walk(s[k])


def shape(c: dict) -> str:
    kinds = sorted({s["t"] for s in _walk(c["prog"])} - {"ret"})
    return "+".join(kinds)


def _slice_paths(c: dict) -> set:
    return {tuple(p) for p in c["exp"]["slice"]}


def _two_vars(c: dict) -> bool:
    """An attribute is loaded through one of o / p and stored through the other one (alias or second object)."""
    st = {(s["o"], s["f"]) for s in c["prog"] if s["t"] == "store"}
    return any(s["t"] == "load" and s["o"] in "op" and ("p" if s["o"] == "o" else "o", s["f"]) in st for s in c["prog"])


_FOCUS = {
    "attr": _two_vars,
    # the body of an inner function is in the slice
    "clo": lambda c: any(p[0] == 0 and 3 in p[2::2] for p in _slice_paths(c)),
    # a class-level attribute or an instance attribute with an underscore name is in the slice
    "uattr": lambda c: bool({(8, 6), (8, 7)} & _slice_paths(c)) or _two_vars(c) or any(
        s["t"] == "store" and s["f"] == 2 and c["exp"]["slice"].count([0, i]) for i, s in enumerate(c["prog"], 1)),
    # a line of a helper with its own branching (k, m) is in the slice
    "hlp": lambda c: any(p[:2] in ((9, 3), (9, 4)) for p in _slice_paths(c)),
}


def cases(ctx: Ctx) -> list[dict]:
    q = ctx.quick
    # simulations: the families of the full alphabet, and the families of the closure / helper / underscore alphabets
    nsim, per, nsim_new, per_new = (1, 200, 1, 210) if q else (3, 1000, 1, 1000)
    with ThreadPoolExecutor(max_workers=nsim + nsim_new + 1) as ex:
        f_exh = ex.submit(ctx.behaviours, "MC_PyMiniData",
                          "MC_PyMiniData.cfg" if q else "MC_PyMiniData_thorough.cfg", timeout=2400)
        f_sims = [ex.submit(_sim_cases, ctx, per, ctx.seed * 1000 + i, str(i)) for i in range(nsim)]
        f_sims += [ex.submit(_sim_cases, ctx, per_new, ctx.seed * 1000 + 500 + i, f"n{i}", "MC_PyMiniData_sim_new.cfg")
                   for i in range(nsim_new)]
        exh = f_exh.result()
        sim = []
        for f in f_sims:
            res, cs_ = f.result()
            ctx._account("MC_PyMiniData", res, "simulate")  # noqa: SLF001
            sim += cs_
    ctx.notes["cases_enumerated_exhaustively"] = len(exh)
    ctx.notes["cases_simulated"] = len(sim)
    rng = ctx.rng("pick")
    exh.sort(key=_key)
    rng.shuffle(exh)
    # a stratified sample of the enumerated families (thorough: only the new, large ones are sampled); two thirds of
    # the sample of a themed family are programs that exercise its feature: the returned value depends (per the spec)
    # on an inner function / a class-level or underscore attribute / a branching helper; an attribute is stored
    # through one variable and loaded through the other
    quota = {"full": 50, "attr": 80, "uattr": 50, "clo": 75} if q else {"uattr": 600, "clo": 800, "hlp": 500}
    focus = {a: (2 * n) // 3 for a, n in quota.items() if a in _FOCUS}
    picked, taken = [], set()
    for want_focus in (True, False):
        for i, c in enumerate(exh):
            a = c["alpha"]
            if i in taken or (q and a not in quota):
                continue
            if a in quota:
                if quota[a] <= 0 or (want_focus and (focus.get(a, 0) <= 0 or not _FOCUS[a](c))):
                    continue
                if want_focus:
                    focus[a] -= 1
                quota[a] -= 1
            elif want_focus:
                continue
            taken.add(i)
            picked.append(c)
    exh = picked
    seen, out = set(), []
    for c in exh + sim:
        k = _key(c)
        if k not in seen and c["exp"]["flow"] == "r":
            seen.add(k)
            out.append(c)
    return out


def _paths(ps) -> set:
    return {tuple(p) for p in ps}


def _enclosing(prog: list, path: tuple) -> list[str]:
    """Kinds of the compound statements enclosing the statement at *path* (outermost first)."""
    out, blk = [], prog
    for j in range(0, len(path) - 2, 2):
        s = blk[path[j + 1] - 1]
        out.append(s["t"])
        if path[j + 2] == 3:      # the body of an inner function
            break
        blk = s["a"] if path[j + 2] == 1 else s["b"]
    return out


def _kind(kinds: dict, p: tuple) -> str:
    return kinds.get(",".join(map(str, p)), "test")


def _edge_class(c: dict, kinds: dict, src: tuple, dst: tuple) -> tuple[str, bool]:
    """(class of the dependence edge `dependent<-depended-on`, sticky).  A sticky class names a dependent
    whose reads the slicer is known not to follow at all: broken links found behind such an edge (behind
    lines that are only reported for other reasons) belong to the same class."""
    ks, kd = _kind(kinds, src), _kind(kinds, dst)
    if ks == "ret" and src[0] == 0 and "for" in _enclosing(c["prog"], src) and kd not in ("if", "for", "while"):
        return "ret-in-for<-any", True           # the value returned from inside a for loop
    if ks in ("lstore", "dstore"):
        return f"{ks}<-any", True                # a subscript store that is reported without what it reads
    if kd.startswith("w.") and not ks.startswith("w."):
        return "use<-nonlocal-store", False      # a read of a captured variable whose last definition is the body of w
    if ks == "while" and dst[:len(src)] == src and len(dst) > len(src):
        return "while<-loop-carried", False      # the loop test reads a definition made by the loop body
    return f"{ks}<-{kd}", False


def _frontier(c: dict, e: dict, reported: list) -> list[str]:
    """Classes of the first broken links: walk the spec's dependence edges from the criterion through
    reported lines only; an edge from a reached line to a line that is not reported is a broken link."""
    line_of = {tuple(m["p"]): m["n"] for m in e["lmap"]}
    rep = set(reported)
    succ: dict[tuple, list[tuple]] = {}
    for src, dst in c["exp"]["edges"]:
        succ.setdefault(tuple(src), []).append(tuple(dst))
    out, seen, work = set(), {((7, 1), None)}, [((7, 1), None)]
    while work:
        src, tag = work.pop()
        for dst in succ.get(src, []):
            if dst not in line_of:
                continue
            cls, sticky = _edge_class(c, e["_kinds"], src, dst)
            if line_of[dst] in rep:
                nxt = (dst, tag or (cls if sticky else None))
                if nxt not in seen:
                    seen.add(nxt)
                    work.append(nxt)
            else:
                out.add(tag or cls)
    return sorted(out)


def _strip(e: dict) -> dict:
    return {k: v for k, v in e.items() if not k.startswith("_")}


def run(ctx: Ctx) -> None:
    ctx.rule = ("case = (program, inputs a, b): programs of the PyMiniData fragment built by MC_PyMiniData: skeleton "
                "(22 shapes: straight line, if, if/else, early return, for, while, return inside a loop, nesting depth "
                "2; <= 7 body statements + creation of the containers used + return) x alphabet (full: 37 simple "
                "statements over locals, one global, attributes of a Box and of an alias / a second Box, list and dict "
                "elements, calls of helper functions with locals named like the caller's; themed: attributes whose name "
                "starts with an underscore incl. class-level attributes read through an instance and shadowed by an "
                "instance attribute; closures `def r(z): return y + z` / `def w(z): nonlocal y; y = z + 1` defined in f "
                "before or after the assignments of y, called from f; helpers with their own branching: k (value of the "
                "condition computed on the line before an if/else), m (for loop with an if), g (early return, reads the "
                "global)) x inputs in {0,1,2}^2. quick: a stratified sample (255) of the exhaustively enumerated "
                "two/three/four-statement programs (full, attribute, underscore-attribute, closure alphabets; two thirds "
                "of the closure / underscore sample depend on the feature per the spec) + ~190 simulated programs over "
                "all skeletons with the full alphabet + ~200 with the closure / helper / underscore alphabets; thorough: "
                "all ~4000 enumerated programs of the core, attribute, container, global alphabets, 1900 sampled from "
                "the ~10000 of the underscore, closure, helper alphabets, ~2900 + ~950 simulated. "
                "non-trivial = distinct cases whose spec slice has >= 3 lines of f")
    ctx.assumptions = [
        "executed = lines executed by the import or by the call (sys.monitoring LINE events of all code objects of the "
        "uninstrumented module); every Pynguin trace starts from the import trace",
        "supported fragment: attribute/element loads depend on the last store to that attribute/element of the same "
        "object (class-level attribute: the line of the class body), not on the definition of the variable holding the "
        "reference (documented in stacksimulation.py); the line `def r(z):` does not depend on the captured variable; no "
        "generators, exceptions, mutating method calls (list.append/sort: documented expected failures)",
        "the statements of a callee are control dependent on the call (a callee that assigns a global or a captured "
        "variable pulls its call site into the slice)",
        "soundness is only demanded when the semantics conforms with the interpreter on the case (lines, return value)",
    ]
    cs = cases(ctx)
    jobs = [(c, str(ctx.work / "pd" / f"w{n % 24}"), f"{ctx.seed}x{n}") for n, c in enumerate(cs)]
    evs = parallel_map(_run, jobs, procs=6, chunksize=8)
    ctx.evaluations = len(evs)
    shapes: dict[str, int] = {}
    for c in cs:
        if len([p for p in c["exp"]["slice"] if p[0] == 0]) >= 3:
            ctx.nontriv(_key(c))
        shapes[shape(c)] = shapes.get(shape(c), 0) + 1
    ctx.notes["statement_kind_sets"] = len(shapes)
    traces = [{"ev": [_strip(e)]} for e in evs]
    # PyMiniDataTrace evaluates one clause per state (phase variable `ph`), so one TLC run with -continue already lists
    # every violated formula of every trace: the per-formula completion pass of Ctx.validate is not needed
    verdicts = ctx.validate("PyMiniDataTrace", traces, timeout=2400, _single=True)
    drift_counts: dict[str, int] = {}
    for idx, bad in sorted(verdicts.items()):
        e, c = evs[idx], cs[idx]
        src = None
        for clause, _ in bad:
            if clause.startswith("Drift_"):
                drift_counts[clause] = drift_counts.get(clause, 0) + 1
                if clause in ("Drift_Conforms", "Drift_Ran", "Drift_CheckedAreSliceLines", "Drift_AssertionCoverage") \
                        and len(ctx.drift) < 12:
                    ctx.drift.append(f"{clause} on {json.dumps(c['prog'])} inp={c['inp']}: spec lines "
                                     f"{sorted(c['exp']['lines'])} retv {c['exp']['retv']} vs interpreter "
                                     f"{e.get('gt_exec')} ret {e.get('gt_ret')} exc {e.get('gt_exc')}; ok={e.get('ok')} "
                                     f"error={e.get('error')} st_exc={e.get('st_exc')} as_n={e.get('as_n')} "
                                     f"slice_error={e.get('st_slice_error')}|{e.get('as_slice_error')}")
                continue
            if clause not in PROPERTY_CLAUSES:
                raise MachineryError(f"unknown clause {clause}")
            if src is None:
                from harness.adapters import pymini_data  # noqa: PLC0415
                src = pymini_data.render(c["prog"])[0]
            line_of = {tuple(m["p"]): m["n"] for m in e["lmap"]}
            want = sorted(line_of[tuple(p)] for p in c["exp"]["slice"])
            detail = (f"program {json.dumps(c['prog'])} inputs={c['inp']}: test `var_0 = f({c['inp'][0]}, {c['inp'][1]})`; "
                      f"executed lines {e['gt_exec']}; spec slice lines {want}; statement checked lines "
                      f"{e['st_checked']} slice {e['st_slice']} criterion in slice {e['st_crit_in_slice']}; assertion "
                      f"checked lines {e['as_checked']} slice {e['as_slice']}; module source:\n{src}")
            if clause in ("SliceSound", "AssertionSliceSound"):
                rep = e["st_checked"] if clause == "SliceSound" else e["as_checked"]
                fr = _frontier(c, e, rep) or ["?"]
                if not rep:
                    fr = ["nothing-reported"]
                for k in fr:
                    ctx.bad(clause, f"C09/{clause}/{k}", f"missing dependence {k}; " + detail,
                            trace=traces[idx], behaviour=c)
            else:
                ctx.bad(clause, f"C09/{clause}/{shape(c)}", detail, trace=traces[idx], behaviour=c)
    ctx.notes["drift_counts"] = drift_counts
    ctx.notes["cases_where_slicer_over_approximates"] = drift_counts.get("Drift_Precise", 0)
    ctx.notes["cases_missing_the_reference_definition_(strict_relation)"] = drift_counts.get("Drift_StrictSound", 0)
    if drift_counts.get("Drift_Conforms", 0) > len(cs) // 20:
        raise MachineryError(f"PyMiniData semantics disagrees with the interpreter on {drift_counts['Drift_Conforms']} "
                             f"of {len(cs)} cases: the specification is wrong")
    if drift_counts.get("Drift_Precise"):
        ctx.drift.append(f"slicer reports lines outside the spec's (strict) slice in {drift_counts['Drift_Precise']} of "
                         f"{len(cs)} cases (over-approximation, allowed)")
    if drift_counts.get("Drift_StrictSound"):
        ctx.drift.append(f"the definition of the variable holding an object reference is not in the slice in "
                         f"{drift_counts['Drift_StrictSound']} cases (documented design of the slicer)")
    if drift_counts.get("Drift_TraceLines"):
        ctx.drift.append(f"lines of the trace's executed instructions differ from sys.monitoring in "
                         f"{drift_counts['Drift_TraceLines']} cases")
    for c, e in list(zip(cs, evs))[:3]:
        ctx.sample({"prog": c["prog"], "inp": c["inp"], "spec_slice_paths": c["exp"]["slice"],
                    "statement_checked_lines": e["st_checked"], "assertion_checked_lines": e["as_checked"],
                    "executed_lines": e.get("gt_exec")})


def replay(ctx: Ctx, rec: dict) -> int:
    e = _run((rec["behaviour"], str(ctx.work / "pd"), "replay"))
    print(json.dumps(_strip(e), indent=1)[:4000])
    v = ctx.validate("PyMiniDataTrace", [{"ev": [_strip(e)]}])
    bad = [c for c, _ in v.get(0, []) if c in PROPERTY_CLAUSES]
    if bad:
        print(f"VIOLATION property=C09 replay=(this) clauses={bad}")
        return 1
    print("OK")
    return 0

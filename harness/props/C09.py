"""C09 Dynamic slices are sound and checked lines were executed.

Spec: PyMiniData.tla - a big-step semantics of a Python fragment with locals, globals, attributes,
list/dict elements, calls of helper functions, `if x:` / `for` / early `return`, that computes the
DYNAMIC DEPENDENCE relation along the executed path (data: last definition of everything a statement
instance reads; control: the decisions that let it execute) and Slice(criterion) = backward closure.
MC_PyMiniData.tla builds programs (skeleton x statements x inputs): exhaustively for the two-statement
skeleton, by `-simulate` for the 18 skeletons with branching / loops / nesting depth 2.

Every case is rendered as a SUT module; the test `var_0 = f(a, b)` (+ `assert var_0 == v`) is executed
by the REAL TestCaseExecutor under CHECKED instrumentation with the real
RemoteStatementSlicingObserver / RemoteAssertionExecutionObserver and sliced by the real DynamicSlicer
(compute_statement_checked_lines / compute_assertion_checked_coverage); the uninstrumented module
runs under sys.monitoring for the executed lines.  PyMiniDataTrace.tla is evaluated by TLC on the
observations: the oracle (Run of the semantics) is computed by TLC inside the trace spec.
"""

from __future__ import annotations

import json
import logging
import re
import sys
from concurrent.futures import ThreadPoolExecutor

from harness.core import SPEC, Ctx, parallel_map
from harness.tlc import MachineryError

PROPERTY_CLAUSES = {"CheckedLinesWereExecuted", "AssertionCheckedLinesWereExecuted", "SliceOnlyExecuted",
                    "AssertionSliceOnlyExecuted", "CriterionInSlice", "AssertionCriterionInSlice", "SliceSound",
                    "AssertionSliceSound"}


def _run(args):
    sys.path.insert(0, str(SPEC.parent / "harness" / "sut"))
    from harness.adapters import pymini_data  # noqa: PLC0415

    logging.disable(logging.CRITICAL)
    return pymini_data.run_case(args)


_JS = re.compile(r'^/\\ js = (".*")$', re.M)


def _sim_cases(ctx: Ctx, num: int, seed: int, tag: str) -> list[dict]:
    """`tlc -simulate` of the program builder: every behaviour ends in a state whose variable `js` holds the
    case as JSON (the dump files of TLC are read like Ctx.simulate does; own work dir so that several
    simulations can run side by side)."""
    from harness import tlc  # noqa: PLC0415

    wd = ctx.work / f"sim-{tag}"
    out = wd / "sim"
    out.mkdir(parents=True, exist_ok=True)
    res = tlc.run_tlc("MC_PyMiniData", "MC_PyMiniData_sim.cfg", workdir=wd, workers=1, timeout=2400,
                      simulate=f"file={out}/tr,num={num}", depth=12, seed=seed)
    m = re.search(r"The number of states generated: (\d+)", res.output)
    if m:
        res.generated = int(m.group(1))
    if res.violations:
        raise MachineryError(f"MC_PyMiniData (simulation) violates {res.violations[0].name}: the specification "
                             f"itself is wrong\n" + json.dumps(res.violations[0].states[-1:], indent=1)[:3000])
    cases_ = []
    for f in sorted(out.iterdir()):
        found = _JS.findall(f.read_text())
        if found:
            js = json.loads(found[-1])
            if js:
                cases_.append(json.loads(js))
    return res, cases_


def _key(c: dict) -> str:
    return json.dumps([c["prog"], c["inp"]], sort_keys=True)


def _walk(prog):
    for s in prog:
        yield s
        for k in ("a", "b"):
            if isinstance(s.get(k), list):
                yield from _walk(s[k])


def shape(c: dict) -> str:
    kinds = sorted({s["t"] for s in _walk(c["prog"])} - {"ret"})
    return "+".join(kinds)


def cases(ctx: Ctx) -> list[dict]:
    q = ctx.quick
    nsim, per = (1, 300) if q else (4, 850)
    with ThreadPoolExecutor(max_workers=nsim + 1) as ex:
        f_exh = ex.submit(ctx.behaviours, "MC_PyMiniData",
                          "MC_PyMiniData.cfg" if q else "MC_PyMiniData_thorough.cfg", timeout=2400)
        f_sims = [ex.submit(_sim_cases, ctx, per, ctx.seed * 1000 + i, str(i)) for i in range(nsim)]
        exh = f_exh.result()
        sim = []
        for f in f_sims:
            res, cs_ = f.result()
            ctx._account("MC_PyMiniData", res, "simulate")  # noqa: SLF001
            sim += cs_
    ctx.notes["cases_enumerated_exhaustively"] = len(exh)
    ctx.notes["cases_simulated"] = len(sim)
    rng = ctx.rng("pick")
    exh.sort(key=_key)
    rng.shuffle(exh)
    exh = exh[:110 if q else 1500]
    seen, out = set(), []
    for c in exh + sim:
        k = _key(c)
        if k not in seen and c["exp"]["flow"] == "r":
            seen.add(k)
            out.append(c)
    return out


def _paths(ps) -> set:
    return {tuple(p) for p in ps}


def _enclosing(prog: list, path: tuple) -> list[str]:
    """Kinds of the compound statements enclosing the statement at *path* (outermost first)."""
    out, blk = [], prog
    for j in range(0, len(path) - 2, 2):
        s = blk[path[j + 1] - 1]
        out.append(s["t"])
        blk = s["a"] if path[j + 2] == 1 else s["b"]
    return out


def _edge_label(c: dict, kinds: dict, src: tuple, dst: tuple) -> str:
    """Class of a broken dependence edge `dependent<-depended-on` (signature of a soundness finding)."""
    ks = kinds.get(",".join(map(str, src)), "test")
    kd = kinds[",".join(map(str, dst))]
    if ks == "ret" and src[0] == 0 and "for" in _enclosing(c["prog"], src):
        return "ret-in-for<-any"                 # the value returned from inside a for loop
    if ks == "while" and dst[:len(src)] == src and len(dst) > len(src):
        return "while<-loop-carried"             # the loop test reads a definition made by the loop body
    if ks in ("lstore", "dstore"):
        return f"{ks}<-any"                      # a subscript store that is reported without what it depends on
    return f"{ks}<-{kd}"


def _frontier(c: dict, e: dict, reported: list) -> list[str]:
    """Classes of the first broken links: walk the spec's dependence edges from the criterion through
    reported lines only; an edge from a reached line to a line that is not reported is a broken link
    (lines that are reported for other reasons behind a broken link are not looked at)."""
    line_of = {tuple(m["p"]): m["n"] for m in e["lmap"]}
    rep = set(reported)
    succ: dict[tuple, list[tuple]] = {}
    for src, dst in c["exp"]["edges"]:
        succ.setdefault(tuple(src), []).append(tuple(dst))
    out, seen, work = set(), {(7, 1)}, [(7, 1)]
    while work:
        src = work.pop()
        for dst in succ.get(src, []):
            if dst not in line_of:
                continue
            if line_of[dst] in rep:
                if dst not in seen:
                    seen.add(dst)
                    work.append(dst)
            else:
                out.add(_edge_label(c, e["_kinds"], src, dst))
    return sorted(out)


def _strip(e: dict) -> dict:
    return {k: v for k, v in e.items() if not k.startswith("_")}


def run(ctx: Ctx) -> None:
    ctx.rule = ("case = (program, inputs a, b in {0,1}): programs of the PyMiniData fragment built by "
                "MC_PyMiniData (skeleton x alphabet of 36 simple statements over locals, a global, Box attributes "
                "with an alias, list and dict elements, helper calls; skeletons: straight line, if, if/else, early "
                "return, for, return inside a loop, nesting depth 2; <= 7 body statements + container creation + "
                "return). quick: 170 of the exhaustively enumerated two-statement programs + ~300 simulated "
                "programs over all 18 skeletons; thorough: 2600 of the exhaustively enumerated 2/3-statement "
                "programs + ~5000 simulated. non-trivial = distinct cases whose spec slice has >= 3 lines of f")
    ctx.assumptions = [
        "executed = lines executed by the import or by the call (sys.monitoring LINE events of all code objects of the "
        "uninstrumented module); every Pynguin trace starts from the import trace",
        "supported fragment: attribute/element loads depend on the last store to that attribute/element of the same "
        "object, not on the definition of the variable holding the reference (documented in stacksimulation.py); no "
        "closures, generators, exceptions, mutating method calls (list.append/sort: documented expected failures)",
        "soundness is only demanded when the semantics conforms with the interpreter on the case (lines, return value)",
    ]
    cs = cases(ctx)
    jobs = [(c, str(ctx.work / "pd" / f"w{n % 24}"), f"{ctx.seed}x{n}") for n, c in enumerate(cs)]
    evs = parallel_map(_run, jobs, procs=6, chunksize=8)
    ctx.evaluations = len(evs)
    shapes: dict[str, int] = {}
    for c in cs:
        if len([p for p in c["exp"]["slice"] if p[0] == 0]) >= 3:
            ctx.nontriv(_key(c))
        shapes[shape(c)] = shapes.get(shape(c), 0) + 1
    ctx.notes["statement_kind_sets"] = len(shapes)
    traces = [{"ev": [_strip(e)]} for e in evs]
    verdicts = ctx.validate("PyMiniDataTrace", traces, timeout=2400)
    drift_counts: dict[str, int] = {}
    for idx, bad in sorted(verdicts.items()):
        e, c = evs[idx], cs[idx]
        src = None
        for clause, _ in bad:
            if clause.startswith("Drift_"):
                drift_counts[clause] = drift_counts.get(clause, 0) + 1
                if clause in ("Drift_Conforms", "Drift_Ran", "Drift_CheckedAreSliceLines", "Drift_AssertionCoverage") \
                        and len(ctx.drift) < 12:
                    ctx.drift.append(f"{clause} on {json.dumps(c['prog'])} inp={c['inp']}: spec lines "
                                     f"{sorted(c['exp']['lines'])} retv {c['exp']['retv']} vs interpreter "
                                     f"{e.get('gt_exec')} ret {e.get('gt_ret')} exc {e.get('gt_exc')}; ok={e.get('ok')} "
                                     f"error={e.get('error')} st_exc={e.get('st_exc')} as_n={e.get('as_n')} "
                                     f"slice_error={e.get('st_slice_error')}|{e.get('as_slice_error')}")
                continue
            if clause not in PROPERTY_CLAUSES:
                raise MachineryError(f"unknown clause {clause}")
            if src is None:
                from harness.adapters import pymini_data  # noqa: PLC0415
                src = pymini_data.render(c["prog"])[0]
            line_of = {tuple(m["p"]): m["n"] for m in e["lmap"]}
            want = sorted(line_of[tuple(p)] for p in c["exp"]["slice"])
            detail = (f"program {json.dumps(c['prog'])} inputs={c['inp']}: test `var_0 = f({c['inp'][0]}, {c['inp'][1]})`; "
                      f"executed lines {e['gt_exec']}; spec slice lines {want}; statement checked lines "
                      f"{e['st_checked']} slice {e['st_slice']} criterion in slice {e['st_crit_in_slice']}; assertion "
                      f"checked lines {e['as_checked']} slice {e['as_slice']}; module source:\n{src}")
            if clause in ("SliceSound", "AssertionSliceSound"):
                rep = e["st_checked"] if clause == "SliceSound" else e["as_checked"]
                fr = _frontier(c, e, rep) or ["?"]
                if not rep:
                    fr = ["nothing-reported"]
                for k in fr:
                    ctx.bad(clause, f"C09/{clause}/{k}", f"missing dependence {k}; " + detail,
                            trace=traces[idx], behaviour=c)
            else:
                ctx.bad(clause, f"C09/{clause}/{shape(c)}", detail, trace=traces[idx], behaviour=c)
    ctx.notes["drift_counts"] = drift_counts
    ctx.notes["cases_where_slicer_over_approximates"] = drift_counts.get("Drift_Precise", 0)
    ctx.notes["cases_missing_the_reference_definition_(strict_relation)"] = drift_counts.get("Drift_StrictSound", 0)
    if drift_counts.get("Drift_Conforms", 0) > len(cs) // 20:
        raise MachineryError(f"PyMiniData semantics disagrees with the interpreter on {drift_counts['Drift_Conforms']} "
                             f"of {len(cs)} cases: the specification is wrong")
    if drift_counts.get("Drift_Precise"):
        ctx.drift.append(f"slicer reports lines outside the spec's (strict) slice in {drift_counts['Drift_Precise']} of "
                         f"{len(cs)} cases (over-approximation, allowed)")
    if drift_counts.get("Drift_StrictSound"):
        ctx.drift.append(f"the definition of the variable holding an object reference is not in the slice in "
                         f"{drift_counts['Drift_StrictSound']} cases (documented design of the slicer)")
    if drift_counts.get("Drift_TraceLines"):
        ctx.drift.append(f"lines of the trace's executed instructions differ from sys.monitoring in "
                         f"{drift_counts['Drift_TraceLines']} cases")
    for c, e in list(zip(cs, evs))[:3]:
        ctx.sample({"prog": c["prog"], "inp": c["inp"], "spec_slice_paths": c["exp"]["slice"],
                    "statement_checked_lines": e["st_checked"], "assertion_checked_lines": e["as_checked"],
                    "executed_lines": e.get("gt_exec")})


def replay(ctx: Ctx, rec: dict) -> int:
    e = _run((rec["behaviour"], str(ctx.work / "pd"), "replay"))
    print(json.dumps(_strip(e), indent=1)[:4000])
    v = ctx.validate("PyMiniDataTrace", [{"ev": [_strip(e)]}])
    bad = [c for c, _ in v.get(0, []) if c in PROPERTY_CLAUSES]
    if bad:
        print(f"VIOLATION property=C09 replay=(this) clauses={bad}")
        return 1
    print("OK")
    return 0

"""C23 Literal values round-trip through generated source.

Design: Literals.tla / LiteralsOps.tla (see C20).  (a) TLC enumerates the value grammar up to depth 2
(MC_Literals, Mode "render"); every value goes through the real literalgen.literal_to_cst -> source ->
eval and through parse_literal.  (b) TLC enumerates (requested type x configuration flag combination x
draw index) (Mode "draws"); every case is one seeded generate_literal call followed by a chain of
mutate_literal calls (and chains started from rendered representatives).  (c) TLC enumerates parse-only
literal inputs (integer literal tokens <<sign, base, digits with underscores, letter case>> alone, as
complex components and in containers; LiteralsOps!LitValue states their value as sign + base-16 limbs);
each is given as source text to parse_literal / get_literal_value / set_literal_value and starts a
mutate_literal chain.  LiteralsTrace.tla is evaluated
by TLC on the observed descriptors: RenderedLiteralIsValidPython, EvaluatesToRequestedType, RoundTrip,
ParseBackAgrees with ~ = same type, equal, sign of zero preserved, NaN matches NaN.
"""

from __future__ import annotations

import json

from harness.adapters import literals as ad
from harness.core import Ctx, MachineryError
from harness.props.C20 import brief, design, leaves

CLAUSES = {"RenderedLiteralIsValidPython", "EvaluatesToRequestedType", "RoundTrip", "ParseBackAgrees"}
MODEL = {"RaiseFollowsModel", "ShapeFollowsModel", "BackFollowsModel", "FallbackIsNone"}
SELFCHECK = {"LitValueIsPythonValue"}
NEGZERO = (-0.0).hex()


def _has_negzero(d: dict) -> bool:
    return (d["k"] == "float" and d["c"] == NEGZERO) or any(_has_negzero(e) for e in d["es"])


def _flags(f: dict) -> str:
    return ",".join(f"{k}={f[k]}" for k in sorted(f))


def _short(d: dict) -> dict:
    """Descriptor with long canonical keys (huge ints, long strings) abbreviated, for messages."""
    c = d["c"] if len(d["c"]) <= 40 else d["c"][:24] + f"...({len(d['c'])} chars)"
    return {"k": d["k"], "c": c, "es": [_short(e) for e in d["es"]]}


def _xshort(d: dict) -> str:
    """Exact descriptor (sign + base-16 limbs) as text, long limb sequences abbreviated."""
    if d["k"] in ("int", "float"):
        if d["sg"] == 2:
            return f"{d['k']}(?)"
        h = "".join("0123456789abcdef"[x] for x in d["hx"]) or "0"
        h = h if len(h) <= 24 else h[:16] + f"...({len(h)} hex digits)"
        return f"{d['k']}({'-' if d['sg'] < 0 else ''}0x{h})"
    return d["k"] + ("[" + ",".join(_xshort(e) for e in d["es"]) + "]" if d["es"] else "")


def culprit(ev: dict, clause: str) -> str:
    """Attribution only (makes the signature; the verdict is TLC's)."""
    if ev["op"] == "render":
        present = set(leaves(ev["case"]))
        if clause == "RenderedLiteralIsValidPython" and ev["raised"] == "ValueError" and "i_digits" in present:
            return "i_digits"
        if clause in ("RoundTrip", "ParseBackAgrees") and _has_negzero(ev["v"]):
            return "f_negzero"
        return brief(ev["case"]) + (f"#{ev['m']}" if ev["m"] else "")
    if ev["op"] == "parse":
        return ev["label"]
    if ev.get("seeded") and _has_negzero(ev["seedv"]):
        return f"{ev['req']}/seeded-f_negzero"
    if ev.get("origin"):        # mutation chain started from a parse-only literal
        return f"{ev['req']}/from-literal:{ev['origin']}/draw{ev['i']}"
    if ev["start"]["k"] != "-" and ev["op"] == "mut":   # ... from a rendered representative
        return f"{ev['req']}/from:{brief(ev['start'])}/{_flags(ev['flags'])}/draw{ev['i']}"
    return f"{ev['req']}/{_flags(ev['flags'])}/draw{ev['i']}"


def signature(ev: dict, clause: str) -> str:
    return f"C23/{clause}/{ev['op']}/{culprit(ev, clause)}"


def describe(ev: dict) -> str:
    if ev["op"] == "render":
        return (f"literal_to_cst({brief(ev['case'])} member {ev['m']}) -> {ev['code']!r} raised={ev['raised'] or '-'} "
                f"compiles={ev['compiles']} evalok={ev['evalok']} value={_short(ev['v'])} back={_short(ev['back'])} "
                f"parsed={'-' if not ev['p_some'] else _short(ev['parsed'])}")
    if ev["op"] == "parse":
        return (f"source text {ev['code'][:60]!r}{'...' if ev['code_len'] > 60 else ''} ({ev['code_len']} chars, {ev['label']}) "
                f"as {ev['req']}: python value={_xshort(ev['xv']) if ev['evalok'] else '-'}; parse_literal "
                f"raised={ev['p_raised'] or '-'} value={_xshort(ev['pv']) if ev['p_some'] else None}; get_literal_value "
                f"raised={ev['g_raised'] or '-'} value={_xshort(ev['gv']) if ev['g_some'] else None}; set_literal_value "
                f"wrote={ev['w_wrote']} raised={ev['w_raised'] or '-'} -> {ev['w_code'][:60]!r} evaluates to "
                f"{_xshort(ev['w_xv']) if ev['w_evalok'] else '-'}, read back {_xshort(ev['wv']) if ev['w_some'] else None}")
    origin = f" chain from {ev['origin']}" if ev.get("origin") else (
        f" chain from {brief(ev['start'])}" if ev["start"]["k"] != "-" else "")
    return (f"{ev['op']} {ev['req']} [{_flags(ev['flags'])}] draw {ev['i']}{origin} -> {ev['code']!r} raised={ev['raised'] or '-'} "
            f"compiles={ev['compiles']} evalok={ev['evalok']} back={_short(ev['back'])} re-rendered={_short(ev['back2'])} "
            f"seeded={_short(ev['seedv']) if ev['seeded'] else '-'} "
            f"parsed={'-' if not ev['p_some'] else _short(ev['parsed'])}")


def observe(ctx: Ctx):
    ra = ctx.behaviours("MC_Literals", "MC_Literals_render.cfg" if ctx.quick else "MC_Literals_render_thorough.cfg")
    ra.sort(key=lambda c: json.dumps(c, sort_keys=True))
    rb = ctx.behaviours("MC_Literals", "MC_Literals_draws.cfg" if ctx.quick else "MC_Literals_draws_thorough.cfg")
    rb.sort(key=lambda c: json.dumps(c, sort_keys=True))
    # one trace per observed event (ctx.validate reports one violation per clause and trace)
    owners = list(ra)
    traces = [{"ev": [ad.render_value(c["v"], c["m"], ctx.seed)]} for c in ra]
    for c in rb:
        for e in ad.draw(c, ctx.seed)["ev"]:
            if e["op"] == "parse" and c["i"] != 1:
                continue        # the same literal starts several mutation chains; it is parsed once
            owners.append(c)
            traces.append({"ev": [e]})
    ctx.notes["cases_render"] = len(ra)
    ctx.notes["cases_draw_chains"] = sum(1 for c in rb if c["op"] != "parse")
    ctx.notes["cases_parse_only_literals"] = sum(1 for c in rb if c["op"] == "parse" and c["i"] == 1)
    ctx.notes["cases_parse_only_chains"] = sum(1 for c in rb if c["op"] == "parse")
    return owners, traces


def run(ctx: Ctx) -> None:
    ctx.level = "other"
    ctx.rule = ("case (a) = (value term, member index) enumerated by TLC from MC_Literals (value grammar up to depth 2: "
                "every leaf class alone and as single element / key / value of every container kind, pairs and nesting "
                "over a core of classes) through literal_to_cst -> source -> eval and parse_literal; case (b) = "
                "(requested literal type, configuration flag combination, draw index) and (representative, flags, draw "
                "index): one seeded generate_literal (or rendered representative) followed by 3 mutate_literal calls; "
                "case (c) = parse-only literal input enumerated by TLC: integer literal token (sign -, +, none x base "
                "10/16/2/8 x digit pattern zero/one/max digit/4 digits/leading zeros/> 2^32/> 2^64/>= 10^4300 x "
                "underscore placement none/groups/every digit/after the prefix x letter case), alone, as real / "
                "imaginary argument of complex(..) and inside list/tuple/set/dict/nested containers, given as source "
                "text to parse_literal, get_literal_value, set_literal_value and as start of mutate_literal chains; "
                "non-trivial = distinct (case, step) whose literal was rendered")
    ctx.assumptions = ["one canonical representative per leaf class (thorough: plus 2 seeded random members per class)",
                       "random draws are sampled (seeded from the check seed), not enumerated",
                       "flag combinations: seeding off/always (pool with signed zero, NaN, inf, huge ints, quotes, "
                       "surrogates), sizes default/tiny/large, element pool none/references, random_perturbation 0/1, "
                       "token assembly off/on; sizes 0 (string_length=0, collection_size=0) are not exercised",
                       "requested types are literalgen.LITERAL_TYPES (callers map ABCs with map_abstract_collection "
                       "first; the mapping table is recorded as evidence only)",
                       "parse-only inputs: integer literals only (no float / string literal spellings Pynguin does not "
                       "render itself); decimal literals stay below the 4300 digit limit of the interpreter; int "
                       "arguments of complex(..) stay below 2^53; their expected values are computed by TLC "
                       "(LiteralsOps!LitValue, sign + base-16 limbs) and TLC also checks that Python evaluates the "
                       "source text to that value (LitValueIsPythonValue, machinery error otherwise)"]
    ctx.notes["explanation"] = (
        "Case partition plus seeded sampling, not an exhaustive check: literal values form an unbounded domain.  TLC "
        "enumerates a partition of the value grammar and the (type x flags x draw) cases; the real literalgen functions "
        "run on one representative per class / one seeded draw per case; TLC evaluates the four clauses on exact value "
        "descriptors (hex floats, NaN collapsed, sign of zero and type kept).  parse_literal answering None (not "
        "parseable, e.g. float('inf')) is not counted as a violation; only a disagreeing answer is.")
    design(ctx)
    cases, traces = observe(ctx)
    n = 0
    for c, t in zip(cases, traces):
        if t["ev"][0]["op"] != "start":
            n += 1
            ctx.nontriv((json.dumps(c, sort_keys=True), t["ev"][0]["op"], t["ev"][0]["code"]))
    ctx.evaluations = n
    ctx.notes["parse_literal_not_parseable"] = sum(1 for t in traces for e in t["ev"]
                                                   if e["op"] == "render" and not e["p_some"] and not e["raised"])
    ctx.notes["map_abstract_collection"] = ad.mapping_table()
    verdicts = ctx.validate("LiteralsTrace", traces)
    seen = set()
    for idx, bad in sorted(verdicts.items()):
        for clause, step in bad:
            ev = traces[idx]["ev"][step - 1]
            if clause in SELFCHECK:
                raise MachineryError(f"{clause}: the value LiteralsOps!LitValue states for a parse-only input is not "
                                     f"what Python evaluates its source text to (specification / adapter error): "
                                     + describe(ev))
            if clause in CLAUSES:
                ctx.bad(clause, signature(ev, clause), describe(ev), trace={"ev": [ev]}, behaviour=cases[idx])
            elif clause in MODEL:
                key = (clause, brief(ev["case"]))
                if key not in seen:
                    seen.add(key)
                    ctx.drift.append(f"{clause}: {brief(ev['case'])}: code {ev['code']!r} raised {ev['raised'] or '-'} "
                                     f"shape {ev['shape']} back {ev['backc']}")
    for t in (traces[0], traces[len(traces) // 3], traces[-1]):
        ctx.sample({k: v for k, v in t["ev"][0].items() if k not in ("shape", "backc", "lit")})
    for t in traces:
        if t["ev"][0]["op"] == "parse" and t["ev"][0]["ctx"] == "cre":
            ctx.sample({k: v for k, v in t["ev"][0].items() if k != "lit"}, limit=6)
            break


def replay(ctx: Ctx, rec: dict) -> int:
    c = rec["behaviour"]
    seed = rec.get("seed", ctx.seed)
    tr = {"ev": [ad.render_value(c["v"], c["m"], seed)]} if c["op"] == "render" else ad.draw(c, seed)
    for e in tr["ev"]:
        print(describe(e) if e["op"] != "start" else e["code"])
    v = ctx.validate("LiteralsTrace", [tr])
    bad = [x for x, _ in v.get(0, []) if x in CLAUSES]
    if bad:
        print(f"VIOLATION property=C23 replay=(this) clauses={bad}")
        return 1
    print("OK")
    return 0

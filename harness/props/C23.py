"""C23 Literal values round-trip through generated source.

Design: Literals.tla / LiteralsOps.tla (see C20).  (a) TLC enumerates the value grammar up to depth 2
(MC_Literals, Mode "render"); every value goes through the real literalgen.literal_to_cst -> source ->
eval and through parse_literal.  (b) TLC enumerates (requested type x configuration flag combination x
draw index) (Mode "draws"); every case is one seeded generate_literal call followed by a chain of
mutate_literal calls (and chains started from rendered representatives).  LiteralsTrace.tla is evaluated
by TLC on the observed descriptors: RenderedLiteralIsValidPython, EvaluatesToRequestedType, RoundTrip,
ParseBackAgrees with ~ = same type, equal, sign of zero preserved, NaN matches NaN.
"""

from __future__ import annotations

import json

from harness.adapters import literals as ad
from harness.core import Ctx
from harness.props.C20 import brief, design, leaves

CLAUSES = {"RenderedLiteralIsValidPython", "EvaluatesToRequestedType", "RoundTrip", "ParseBackAgrees"}
MODEL = {"RaiseFollowsModel", "ShapeFollowsModel", "BackFollowsModel", "FallbackIsNone"}
NEGZERO = (-0.0).hex()


def _has_negzero(d: dict) -> bool:
    return (d["k"] == "float" and d["c"] == NEGZERO) or any(_has_negzero(e) for e in d["es"])


def _flags(f: dict) -> str:
    return ",".join(f"{k}={f[k]}" for k in sorted(f))


def _short(d: dict) -> dict:
    """Descriptor with long canonical keys (huge ints, long strings) abbreviated, for messages."""
    c = d["c"] if len(d["c"]) <= 40 else d["c"][:24] + f"...({len(d['c'])} chars)"
    return {"k": d["k"], "c": c, "es": [_short(e) for e in d["es"]]}


def culprit(ev: dict, clause: str) -> str:
    """Attribution only (makes the signature; the verdict is TLC's)."""
    if ev["op"] == "render":
        present = set(leaves(ev["case"]))
        if clause == "RenderedLiteralIsValidPython" and ev["raised"] == "ValueError" and "i_digits" in present:
            return "i_digits"
        if clause in ("RoundTrip", "ParseBackAgrees") and _has_negzero(ev["v"]):
            return "f_negzero"
        return brief(ev["case"]) + (f"#{ev['m']}" if ev["m"] else "")
    if ev.get("seeded") and _has_negzero(ev["seedv"]):
        return f"{ev['req']}/seeded-f_negzero"
    return f"{ev['req']}/{_flags(ev['flags'])}/draw{ev['i']}"


def signature(ev: dict, clause: str) -> str:
    return f"C23/{clause}/{ev['op']}/{culprit(ev, clause)}"


def describe(ev: dict) -> str:
    if ev["op"] == "render":
        return (f"literal_to_cst({brief(ev['case'])} member {ev['m']}) -> {ev['code']!r} raised={ev['raised'] or '-'} "
                f"compiles={ev['compiles']} evalok={ev['evalok']} value={_short(ev['v'])} back={_short(ev['back'])} "
                f"parsed={'-' if not ev['p_some'] else _short(ev['parsed'])}")
    return (f"{ev['op']} {ev['req']} [{_flags(ev['flags'])}] draw {ev['i']} -> {ev['code']!r} raised={ev['raised'] or '-'} "
            f"compiles={ev['compiles']} evalok={ev['evalok']} back={_short(ev['back'])} re-rendered={_short(ev['back2'])} "
            f"seeded={_short(ev['seedv']) if ev['seeded'] else '-'} "
            f"parsed={'-' if not ev['p_some'] else _short(ev['parsed'])}")


def observe(ctx: Ctx):
    ra = ctx.behaviours("MC_Literals", "MC_Literals_render.cfg" if ctx.quick else "MC_Literals_render_thorough.cfg")
    ra.sort(key=lambda c: json.dumps(c, sort_keys=True))
    rb = ctx.behaviours("MC_Literals", "MC_Literals_draws.cfg" if ctx.quick else "MC_Literals_draws_thorough.cfg")
    rb.sort(key=lambda c: json.dumps(c, sort_keys=True))
    # one trace per observed event (ctx.validate reports one violation per clause and trace)
    owners = list(ra)
    traces = [{"ev": [ad.render_value(c["v"], c["m"], ctx.seed)]} for c in ra]
    for c in rb:
        for e in ad.draw(c, ctx.seed)["ev"]:
            owners.append(c)
            traces.append({"ev": [e]})
    ctx.notes["cases_render"] = len(ra)
    ctx.notes["cases_draw_chains"] = len(rb)
    return owners, traces


def run(ctx: Ctx) -> None:
    ctx.level = "other"
    ctx.rule = ("case (a) = (value term, member index) enumerated by TLC from MC_Literals (value grammar up to depth 2: "
                "every leaf class alone and as single element / key / value of every container kind, pairs and nesting "
                "over a core of classes) through literal_to_cst -> source -> eval and parse_literal; case (b) = "
                "(requested literal type, configuration flag combination, draw index) and (representative, flags, draw "
                "index): one seeded generate_literal (or rendered representative) followed by 3 mutate_literal calls; "
                "non-trivial = distinct (case, step) whose literal was rendered")
    ctx.assumptions = ["one canonical representative per leaf class (thorough: plus 2 seeded random members per class)",
                       "random draws are sampled (seeded from the check seed), not enumerated",
                       "flag combinations: seeding off/always (pool with signed zero, NaN, inf, huge ints, quotes, "
                       "surrogates), sizes default/tiny/large, element pool none/references, random_perturbation 0/1, "
                       "token assembly off/on; sizes 0 (string_length=0, collection_size=0) are not exercised",
                       "requested types are literalgen.LITERAL_TYPES (callers map ABCs with map_abstract_collection "
                       "first; the mapping table is recorded as evidence only)"]
    ctx.notes["explanation"] = (
        "Case partition plus seeded sampling, not an exhaustive check: literal values form an unbounded domain.  TLC "
        "enumerates a partition of the value grammar and the (type x flags x draw) cases; the real literalgen functions "
        "run on one representative per class / one seeded draw per case; TLC evaluates the four clauses on exact value "
        "descriptors (hex floats, NaN collapsed, sign of zero and type kept).  parse_literal answering None (not "
        "parseable, e.g. float('inf')) is not counted as a violation; only a disagreeing answer is.")
    design(ctx)
    cases, traces = observe(ctx)
    n = 0
    for c, t in zip(cases, traces):
        if t["ev"][0]["op"] != "start":
            n += 1
            ctx.nontriv((json.dumps(c, sort_keys=True), t["ev"][0]["op"], t["ev"][0]["code"]))
    ctx.evaluations = n
    ctx.notes["parse_literal_not_parseable"] = sum(1 for t in traces for e in t["ev"]
                                                   if e["op"] == "render" and not e["p_some"] and not e["raised"])
    ctx.notes["map_abstract_collection"] = ad.mapping_table()
    verdicts = ctx.validate("LiteralsTrace", traces)
    seen = set()
    for idx, bad in sorted(verdicts.items()):
        for clause, step in bad:
            ev = traces[idx]["ev"][step - 1]
            if clause in CLAUSES:
                ctx.bad(clause, signature(ev, clause), describe(ev), trace={"ev": [ev]}, behaviour=cases[idx])
            elif clause in MODEL:
                key = (clause, brief(ev["case"]))
                if key not in seen:
                    seen.add(key)
                    ctx.drift.append(f"{clause}: {brief(ev['case'])}: code {ev['code']!r} raised {ev['raised'] or '-'} "
                                     f"shape {ev['shape']} back {ev['backc']}")
    for t in (traces[0], traces[len(traces) // 3], traces[-1]):
        ctx.sample({k: v for k, v in t["ev"][0].items() if k not in ("shape", "backc")})


def replay(ctx: Ctx, rec: dict) -> int:
    c = rec["behaviour"]
    seed = rec.get("seed", ctx.seed)
    tr = {"ev": [ad.render_value(c["v"], c["m"], seed)]} if c["op"] == "render" else ad.draw(c, seed)
    for e in tr["ev"]:
        print(describe(e) if e["op"] != "start" else e["code"])
    v = ctx.validate("LiteralsTrace", [tr])
    bad = [x for x, _ in v.get(0, []) if x in CLAUSES]
    if bad:
        print(f"VIOLATION property=C23 replay=(this) clauses={bad}")
        return 1
    print("OK")
    return 0

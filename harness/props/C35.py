"""C35 Coverage reports agree with the computed coverage.

Design: Report.tla ("annotate every line, then sum" equals "count over the registries" for all small
modules and traces).  P1: end-to-end runs with both metrics; the report object, the coverage values
Pynguin tracked and counts recomputed from the final suite's merged trace are recorded and
ReportTrace.tla is evaluated by TLC on every generated suite.
"""

from __future__ import annotations

import json
from fractions import Fraction

from harness.adapters import e2e
from harness.core import Ctx, MachineryError


def configs(ctx: Ctx) -> list[dict]:
    out = []
    algs = [("MOSA", "BRANCH,LINE"), ("WHOLE_SUITE", "BRANCH,LINE"), ("DYNAMOSA", "BRANCH"), ("RANDOM", "LINE"),
            ("MIO", "BRANCH,LINE")]
    seeds = [2] if ctx.quick else [2, 11, 23]
    for mi, mod in enumerate(e2e.MODULES):
        for ai, (alg, metrics) in enumerate(algs):
            if ctx.quick and (mi + ai) % 3 != 0 and not (mod == "c_report" and ai in (0, 4)):
                continue
            for seed in seeds:
                out.append({"module": mod, "seed": seed + mi, "algorithm": alg, "iterations": 3,
                            "assertions": "NONE", "metrics": metrics, "population": 4})
    return out


def rat(x) -> dict:
    f = Fraction(float(x)).limit_denominator(10 ** 6)
    return {"num": f.numerator, "den": f.denominator}


def pair(p) -> dict:
    return {"cov": int(p[0]), "ex": int(p[1])} if p else {"cov": 0, "ex": 0}


def xml_lines(run: dict) -> list[dict]:
    """<line number, hits> of the cov_report.xml the run rendered."""
    import xml.etree.ElementTree as ET  # noqa: PLC0415
    from pathlib import Path  # noqa: PLC0415

    f = Path(run["dir"]) / "report" / "cov_report.xml"
    if not f.exists():
        return []
    text = f.read_text().split("?>", 1)[-1]
    if text.lstrip().startswith("<!DOCTYPE"):
        text = text.split(">", 1)[1]
    try:
        root = ET.fromstring(text)
    except ET.ParseError:
        return []
    return [{"line": int(ln.get("number")), "hits": int(ln.get("hits"))} for ln in root.iter("line")]


def project(run: dict) -> dict | None:
    rep = e2e.first(run["events"], "Report")
    st = e2e.first(run["events"], "Stats")
    if rep is None or st is None or "error" in rep["tracked"]:
        return None
    trk = st["tracked"]
    has_b = rep["branch_coverage"] is not None
    has_l = rep["line_coverage"] is not None
    ev = {
        "ev": "Report", "has_branch": has_b, "has_line": has_l,
        "rep_b": pair(rep["branches"]), "rep_bl": pair(rep["branchless"]), "rep_l": pair(rep["lines"]),
        "rep_bc": rat(rep["branch_coverage"] or 0), "rep_lc": rat(rep["line_coverage"] or 0),
        "trk_bc": rat(trk.get("FinalBranchCoverage", trk.get("BranchCoverage", 0)) if has_b else 0),
        "trk_lc": rat(trk.get("FinalLineCoverage", trk.get("LineCoverage", 0)) if has_l else 0),
        "ind_b": {"cov": rep["tracked"]["branch_covered"], "ex": rep["tracked"]["branch_existing"]},
        "ind_l": {"cov": rep["tracked"]["line_covered"], "ex": rep["tracked"]["line_existing"]},
        "covered_lines": rep["tracked"]["covered_lines"],
        "xml": xml_lines(run),
        "ann": [{"line": a["line"], "b": pair(a["branches"]), "bl": pair(a["branchless"]), "l": pair(a["lines"]),
                 "t": pair(a["total"])} for a in rep["annotations"]],
    }
    return {"ev": [ev]}


def run(ctx: Ctx) -> None:
    ctx.rule = ("case = generated suite of an end-to-end run (module x algorithm x metrics x seed) with its coverage "
                "report; non-trivial = distinct run whose suite covers something but not everything")
    ctx.assumptions = ["tracked coverage = RuntimeVariable Final*Coverage recorded by the run; recomputed counts come "
                       "from the final suite's last execution results merged with analyze_results",
                       "coverage floats are compared as rationals (limit_denominator 10^6)"]
    ctx.design("Report")
    cfgs = configs(ctx)
    runs = e2e.run_many(cfgs, timeout=600, parallel=6)
    traces, kept = [], []
    for r in runs:
        t = project(r)
        if t is None:
            if r["hung"]:
                raise MachineryError(f"e2e run hung: {r['cfg']}")
            ctx.drift.append(f"run without report: {r['cfg']} :: {r['stderr_tail'][-300:]}")
            continue
        traces.append(t)
        kept.append(r)
        e = t["ev"][0]
        if 0 < e["ind_b"]["cov"] < e["ind_b"]["ex"] or 0 < e["ind_l"]["cov"] < e["ind_l"]["ex"]:
            ctx.nontriv(json.dumps(r["cfg"], sort_keys=True))
    if len(traces) < max(2, len(cfgs) // 2):
        raise MachineryError(f"only {len(traces)} of {len(cfgs)} end-to-end runs produced a coverage report")
    ctx.evaluations = len(traces)
    verdicts = ctx.validate("ReportTrace", traces)
    for idx, bad in sorted(verdicts.items()):
        for clause, _ in bad:
            c = kept[idx]["cfg"]
            e = traces[idx]["ev"][0]
            ctx.bad(clause, f"C35/{clause}/{c['algorithm']}/{c['metrics']}",
                    f"run {c}: report b={e['rep_b']} bl={e['rep_bl']} l={e['rep_l']} bc={e['rep_bc']} lc={e['rep_lc']} "
                    f"tracked bc={e['trk_bc']} lc={e['trk_lc']} recomputed b={e['ind_b']} l={e['ind_l']}",
                    trace=traces[idx], behaviour=c)
    for r, t in list(zip(kept, traces))[:2]:
        e = t["ev"][0]
        ctx.sample({"cfg": r["cfg"], "report": {k: e[k] for k in ("rep_b", "rep_bl", "rep_l", "rep_bc", "rep_lc",
                                                                     "trk_bc", "trk_lc", "ind_b", "ind_l")}})


def replay(ctx: Ctx, rec: dict) -> int:
    r = e2e.run_many([rec["behaviour"]])[0]
    t = project(r)
    v = ctx.validate("ReportTrace", [t]) if t else {}
    print(json.dumps(t)[:2000])
    if v:
        print(f"VIOLATION property=C35 replay=(this) clauses={v[0]}")
        return 1
    print("OK")
    return 0

"""C21 Kept assertions hold on the original module and preserve mutant kills.

Design: SetCover.tla (mutation-analysis outcome -> kill map -> greedy set cover -> reverse pruning ->
removal, over all kill maps and mutant statuses; Subset, KillsPreserved, loop invariants, ScorePreserved,
ScoreIn01, ScoreIgnores, score laws over all count tuples; a removal that iterates forwards must violate).
P2: every kill map enumerated by TLC (MC_SetCover) -> the real `_select_minimal_assertions` and the real
`MutationAnalysisAssertionGenerator._handle_add_assertions` (real TestCase/Assertion/ExecutionResult objects,
stubbed controller/executor/clock); every count tuple -> real `_MutationSummary.get_metrics().get_score()`;
random two-test outcomes with timeouts, invalid mutants, time budget, both removal modes (-simulate).
P1: end-to-end MUTATION_ANALYSIS runs (first-order and higher-order strategies): what the real mutation
executor answered, the assertions left, a second pass over the real mutants with the assertions left, and
every final test case re-executed on the unmutated module with the real RemoteAssertionVerificationObserver.
SetCoverTrace.tla evaluates Subset / KillsPreserved / KeptAssertionsHold / ScoreIn01 /
ScoreIgnoresTimeoutsAndUnchecked on every recorded event.
"""

from __future__ import annotations

import json

from harness.adapters import setcover as ad
from harness.core import Ctx, MachineryError

PROPERTY_CLAUSES = {"Returns", "SelSubset", "SelKillsPreserved", "Subset", "KillsPreserved",
                    "RerunKillsPreserved", "KeptAssertionsHold", "ScoreIn01", "ScoreIgnoresTimeoutsAndUnchecked"}

MIN_FIELDS = ("ev", "nA", "nM", "col", "out", "rem", "crashed", "xonly", "r_created", "r_checked", "r_killed",
              "r_timeout", "has_score", "s", "minimize")


def slim(e: dict) -> dict:
    """What TLC needs of an event (fixed field types, no free text)."""
    k = e["ev"]
    if k == "Min":
        out = {f: e[f] for f in MIN_FIELDS}
        out["sel"] = [{"km": s["km"], "keep": s["keep"]} for s in e["sel"]]
        return out
    if k == "Rerun":
        return {f: e[f] for f in ("ev", "nA", "col", "out", "rem", "col2", "out2", "crashed")}
    if k == "Kept":
        return {"ev": "Kept", "tmo": bool(e["tmo"]), "bad": e["bad"]}
    if k == "Sel":
        return {f: e[f] for f in ("ev", "km", "keep", "crashed", "argmut")}
    if k == "Score":
        return {f: e[f] for f in ("ev", "c", "k", "t", "u", "mc", "mk", "mt", "s", "base")}
    raise ValueError(k)


def p2_events(beh: dict) -> list[tuple[dict, dict]]:
    """behaviour -> [(event, replay record)]"""
    mode = beh["mode"]
    if mode == "tuple":
        c, k, t, u = beh["q"]
        return [(ad.replay_score(c, k, t, u), {"family": "score", "q": beh["q"]})]
    out = []
    if mode == "map":
        n, m, viol = beh["nA"][0], beh["nM"], beh["viol"][0]
        lay = (n + m + sum(len(v) for v in viol)) % 4
        out.append((ad.replay_select(n, m, viol, lay), {"family": "sel", "n": n, "m": m, "viol": viol, "lay": lay}))
        beh = dict(beh, lay=[lay + 1])
    out.append((ad.replay_wide(beh), {"family": "min", "beh": beh}))
    return out


def nontrivial_key(e: dict):
    k = e["ev"]
    if k == "Sel":
        killed = {m for s in e["km"] for m in s}
        return ("sel", json.dumps(e["km"])) if killed and len(e["keep"]) < len(e["km"]) else None
    if k == "Score":
        return ("score", e["c"], e["k"], e["t"], e["u"]) if e["c"] - e["t"] - e["u"] > 0 else None
    if k == "Min":
        removed = sum(e["nA"]) - sum(len(r) for r in e["rem"])
        kills = any(cell["viol"] for row in e["out"] for cell in row if not cell["none"])
        return ("min", json.dumps([e["nA"], e["col"], e["out"], e["minimize"]])) if removed and kills else None
    return None


def signature(clause: str, e: dict, rec: dict) -> str:
    fam = rec["family"]
    if fam == "sel":
        return f"C21/{clause}/_select_minimal_assertions"
    if fam == "score":
        return f"C21/{clause}/get_score"
    if fam == "min":
        b = rec["beh"]
        return (f"C21/{clause}/_handle_add_assertions/minimize={b['minimize']}/"
                f"{'subprocess' if b['sub'] else 'inprocess'}")
    cfg = rec["cfg"]
    strat = "FIRST_ORDER"
    if "--mutation_strategy" in cfg["extra"]:
        strat = cfg["extra"][cfg["extra"].index("--mutation_strategy") + 1]
    if e["ev"] == "Kept":
        kinds = sorted({d["kind"] + ":" + d["how"] for d in e.get("detail", [])}) or ["?"]
        return f"C21/{clause}/e2e/{cfg['assertions']}/{e['phase']}/{e['where']}/{cfg['module']}/{'+'.join(kinds)}"
    return f"C21/{clause}/e2e/{strat}/{cfg['module']}"


def describe(e: dict, rec: dict) -> str:
    k = e["ev"]
    if k == "Sel":
        return f"_select_minimal_assertions(kill sets {e['km']}) returned positions {e['keep']} {e.get('err', '')}"
    if k == "Score":
        return (f"(created={e['c']}, killed={e['k']}, timeout={e['t']}, unchecked={e['u']}): metrics "
                f"({e['mc']},{e['mk']},{e['mt']}) score {e['s']} base {e['base']} {e.get('err', '')}")
    if k == "Kept":
        return (f"{rec['cfg']['module']} {rec['cfg']['assertions']} seed {rec['cfg']['seed']}: test {e['test']} "
                f"re-executed ({e['phase']}, {e['where']} executor): not holding {e['detail']}\n{e['code']}")
    return (f"{k}: nA={e['nA']} col={e['col']} rem={e['rem']} score={e.get('s')} reported "
            f"(created,checked,killed,timeout)=({e.get('r_created')},{e.get('r_checked')},{e.get('r_killed')},"
            f"{e.get('r_timeout')}) err={e.get('err')!r} out={json.dumps(e['out'])[:600]}"
            + (f" out2={json.dumps(e['out2'])[:600]}" if k == "Rerun" else ""))


def e2e_events(ctx: Ctx) -> list[tuple[dict, dict]]:
    cfgs = ad.e2e_configs(ctx.quick)
    runs = ad.run_many(cfgs, timeout=600, parallel=5)
    # a run that did not finish (machine overloaded) is repeated once, alone
    for i, r in enumerate(runs):
        if r["hung"] or not any(e["ev"] == "Return" for e in r["events"]):
            runs[i] = ad.run_many([cfgs[i]], timeout=600, parallel=1)[0]
    good = 0
    out = []
    undecided = 0
    leaky_inproc = [0, 0]
    for r in runs:
        names = [e["ev"] for e in r["events"]]
        if r["hung"] or "Return" not in names:
            ctx.drift.append(f"end-to-end run did not finish: {r['cfg']} hung={r['hung']} :: {r['stderr_tail'][-200:]}")
            continue
        good += 1
        rec = {"family": "e2e", "cfg": r["cfg"]}
        for e in r["events"]:
            if e["ev"] == "Kept" and e["where"] == "plain" and r["cfg"]["module"] in ad.LEAKY:
                # state leaks between executions of one process: only the fresh-process re-execution counts
                leaky_inproc[0] += e["n"]
                leaky_inproc[1] += len(e["bad"])
                continue
            if e["ev"] in ("Min", "Rerun", "Kept"):
                out.append((e, rec))
                if e["ev"] == "Rerun":
                    undecided += sum(1 for m in range(len(e["col"]))
                                     if e["col"][m] == "ok" and (e["col2"][m] != "ok" or any(
                                         not row[m]["none"] and row[m]["tmo"] for row in e["out2"])))
            elif e["ev"] == "KeptError":
                ctx.drift.append(f"re-verification failed to run: {r['cfg']['module']} {e}")
        if r["cfg"]["assertions"] == "MUTATION_ANALYSIS" and "Min" not in names:
            ctx.drift.append(f"no mutation analysis observed in {r['cfg']}")
    if good < max(2, (len(cfgs) * 2) // 3):
        raise MachineryError(f"only {good} of {len(cfgs)} end-to-end runs completed")
    ctx.notes["e2e_runs"] = good
    ctx.notes["e2e_runs_cached"] = sum(1 for r in runs if r["cached"])
    ctx.notes["e2e_rerun_undecided_mutants"] = undecided
    ctx.notes["e2e_rerun_different_mutants"] = sum(e.get("different_mutants", 0) for e, _ in out if e["ev"] == "Rerun")
    ctx.notes["leaky_module_inprocess_reexecution_not_counted"] = {"assertions": leaky_inproc[0],
                                                                   "not_holding": leaky_inproc[1]}
    return out


def run(ctx: Ctx) -> None:
    ctx.rule = ("case = (a) one kill map (all <= 4 assertions x 3 mutants in the quick tier, all <= 4 x 4 in the thorough "
                "tier, plus 32 prune-critical maps 5x7..7x9 of SetCoverCritical.tla) through the "
                "real selection function and through the real _handle_add_assertions, (b) one mutation-analysis "
                "outcome with mutant kinds ok/timeout/invalid, exceptions, time budget, 1-2 test cases, both removal "
                "modes, both executor kinds (exhaustive small + TLC -simulate), (c) one (created, killed, timeout, "
                "unchecked) tuple <= 5 through the real summary/metrics classes, (d) one test case / one mutation "
                "analysis of an end-to-end run; non-trivial = distinct kill maps with a kill where something was "
                "removed, outcomes with a kill and a removal, tuples with a non-empty scored population, e2e test "
                "cases with assertions")
    ctx.assumptions = [
        "count tuples are consistent (killed + timeout + unchecked <= created), as produced by _MutationSummary",
        "a mutant that times out or is not reached in the second end-to-end pass is undecided for RerunKillsPreserved",
        "end-to-end modules are deterministic (harness/sut/corpus); the unmutated module is re-executed in-process "
        "and, when the generator filtered in a subprocess, in that subprocess executor too",
        "P2 stubs only the environment of _handle_add_assertions (mutation controller, mutation executor, "
        "monotonic clock, statistics sink)"]
    # the end-to-end runs (subprocesses) proceed while TLC works on the design model and the P2 replays
    from concurrent.futures import ThreadPoolExecutor  # noqa: PLC0415

    pool = ThreadPoolExecutor(max_workers=1)
    e2e_future = pool.submit(e2e_events, ctx)
    # ---------------------------------------------------------------- design
    if ctx.quick:
        ctx.design("SetCover", workers=4)
    else:
        ctx.design("SetCover", workers=4)
        ctx.design("SetCover", "SetCover_thorough.cfg", coverage_actions=["Pick", "Prune", "Remove"])
        ctx.design("SetCover", "SetCover_full.cfg")
        r = ctx.design("SetCover", "SetCover_hazard.cfg", expect_ok=False)
        ctx.notes["design_forward_removal_violates"] = sorted({v.name for v in r.violations})
        if "KillsPreserved" not in {v.name for v in r.violations}:
            raise MachineryError("SetCover_hazard.cfg should violate KillsPreserved")
        ctx.design("SetCover", "SetCover_critical.cfg")
        r = ctx.design("SetCover", "SetCover_stale.cfg", expect_ok=False)
        ctx.notes["design_stale_pruning_violates_on_critical_maps"] = sorted({v.name for v in r.violations})
        if "KillsPreserved" not in {v.name for v in r.violations}:
            raise MachineryError("SetCover_stale.cfg should violate KillsPreserved")
    # ---------------------------------------------------------------- P2
    behs = [ad.normalise(b) for b in
            ctx.behaviours("MC_SetCover", "MC_SetCover.cfg" if ctx.quick else "MC_SetCover_thorough.cfg")]
    n_exh = len(behs)
    if n_exh != ctx.tlc_runs[-1]["distinct"]:
        raise MachineryError(f"behaviour extraction lost lines: {n_exh} parsed, {ctx.tlc_runs[-1]['distinct']} states")
    for st in ctx.simulate("MC_SetCover", "MC_SetCover_sim.cfg", num=150 if ctx.quick else 4000, depth=24):
        b = ad.normalise(st["b"])
        if st["todo"] == "kind" and len(b["kind"]) == b["nM"]:
            behs.append(b)
    ctx.notes["behaviours_exhaustive"] = n_exh
    ctx.notes["behaviours_simulated"] = len(behs) - n_exh
    ctx.notes["behaviours_by_mode"] = {m: sum(1 for b in behs if b["mode"] == m) for m in ("map", "wide", "tuple", "sim")}
    ctx.exhaustive = True
    pairs: list[tuple[dict, dict]] = []
    for i, b in enumerate(behs):
        evs = p2_events(b)
        if ctx.quick and b["mode"] == "map" and i % 2 and b["nA"][0] <= 4:
            evs = evs[:1]  # quick tier: every kill map through the selection, every second one through the wide entry
        pairs.extend(evs)
    n_p2 = len(pairs)
    # ---------------------------------------------------------------- P1
    pairs.extend(e2e_future.result())
    pool.shutdown()
    ctx.notes["events_p2"] = n_p2
    ctx.notes["events_e2e"] = {k: sum(1 for e, _ in pairs[n_p2:] if e["ev"] == k) for k in ("Min", "Rerun", "Kept")}
    for e, rec in pairs:
        key = nontrivial_key(e)
        if key is not None:
            ctx.nontriv(key)
        if rec["family"] == "e2e" and e["ev"] == "Kept" and e["n"]:
            ctx.nontriv(("kept", json.dumps(rec["cfg"], sort_keys=True), e["phase"], e["where"], e["test"]))
        if rec["family"] == "e2e" and e["ev"] == "Min":
            ctx.nontriv(("e2e-min", json.dumps(rec["cfg"], sort_keys=True)))
    ctx.notes["e2e_assertions_reverified"] = sum(e["n"] for e, r in pairs[n_p2:] if e["ev"] == "Kept")
    ctx.notes["e2e_assertions_before_after"] = [
        [sum(e["nA"]), sum(len(x) for x in e["rem"])] for e, r in pairs[n_p2:] if e["ev"] == "Min"][:40]
    ctx.notes["e2e_scores"] = [[e["r_created"], e["r_checked"], e["r_killed"], e["r_timeout"], e["s"]["n"], e["s"]["d"]]
                               for e, r in pairs[n_p2:] if e["ev"] == "Min"][:40]
    # ---------------------------------------------------------------- TLC on the recorded events
    traces = [{"ev": [slim(e)]} for e, _ in pairs]
    ctx.evaluations = len(traces)
    verdicts = ctx.validate("SetCoverTrace", traces, chunk=30000, workers=4)
    for idx, bad in sorted(verdicts.items()):
        e, rec = pairs[idx]
        for clause, _ in bad:
            if clause in PROPERTY_CLAUSES:
                ctx.bad(clause, signature(clause, e, rec), describe(e, rec), trace={"ev": [slim(e)]}, behaviour=rec)
            elif sum(1 for d in ctx.drift if d.startswith(clause)) < 3:
                ctx.drift.append(f"{clause}: {describe(e, rec)[:300]}")
    for i in (0, n_exh // 2, n_p2 - 1, len(pairs) - 1):
        if 0 <= i < len(pairs):
            ctx.sample(slim(pairs[i][0]))
    # ---------------------------------------------------------------- (e) the filtering pass itself
    # every combination of holds / fails / cannot-be-evaluated over two statements with up to three
    # assertions each (MC_AssertFilter), through the real __remove_non_holding_assertions
    from harness.adapters import assert_filter  # noqa: PLC0415

    fcases = ctx.behaviours("MC_AssertFilter")
    ftraces = [assert_filter.run_case(c) for c in fcases]
    fverd = ctx.validate("AssertFilterTrace", ftraces)
    for idx, bad in sorted(fverd.items()):
        ev = ftraces[idx]["ev"][0]
        for clause, _ in bad:
            kinds = "+".join(sorted(set(ev["s1"]) | set(ev["s2"])))
            ctx.bad(clause, f"C21/{clause}/filter/{kinds}",
                    f"outcomes of the filtering execution {ev['s1']} / {ev['s2']}: kept assertions {ev['kept1']} / {ev['kept2']} "
                    f"{ev['error']}", trace=ftraces[idx], behaviour={"family": "filter", "case": fcases[idx]})
    ctx.notes["filter_cases"] = len(fcases)
    ctx.evaluations += len(ftraces)


def replay(ctx: Ctx, rec: dict) -> int:
    b = rec["behaviour"]
    fam = b["family"]
    if fam == "filter":
        from harness.adapters import assert_filter  # noqa: PLC0415

        tr = assert_filter.run_case(b["case"])
        print(tr)
        v = ctx.validate("AssertFilterTrace", [tr])
        print("VIOLATION property=C21 replay=(this)" if v else "OK")
        return 1 if v else 0
    if fam == "sel":
        evs = [ad.replay_select(b["n"], b["m"], b["viol"], b["lay"])]
    elif fam == "score":
        evs = [ad.replay_score(*b["q"])]
    elif fam == "min":
        evs = [ad.replay_wide(b["beh"])]
    else:
        r = ad.run_many([b["cfg"]])[0]
        evs = [e for e in r["events"] if e["ev"] in ("Min", "Rerun", "Kept")]
    verdicts = ctx.validate("SetCoverTrace", [{"ev": [slim(e)]} for e in evs])
    bad = sorted({c for v in verdicts.values() for c, _ in v if c in PROPERTY_CLAUSES})
    print(json.dumps([slim(e) for e in evs])[:4000])
    if rec.get("clause") in bad or (bad and fam != "e2e"):
        print(f"VIOLATION property=C21 replay=(this) clauses={bad}")
        return 1
    print("OK", bad)
    return 0

"""C32 Non-terminating tests time out without polluting later executions.

Design: Executor.tla (threads of TestCaseExecutor.execute + tracer ownership/thread-local traces),
TLC exhaustive incl. liveness (TimeoutReported, ExecuteReturns) over all interleavings.
P2: every reproducible schedule of MC_Executor (program per test case, when each blocked call is
released: in time, after its own timeout, while a later test runs, after everything) is replayed
on the real TestCaseExecutor with generated instrumented SUT functions; ExecutorTrace.tla is
evaluated by TLC on the real results.
"""

from __future__ import annotations

import json
import logging
import sys

from harness.core import Ctx, MachineryError, parallel_map, SPEC


def _run(args):
    from harness.adapters import exec_threads as et  # noqa: PLC0415

    logging.disable(logging.CRITICAL)
    return et.run_behaviour(args)


def signature(clause: str, ev: dict) -> str:
    return f"C32/{clause}/prog={'-'.join(ev['prog'])}"


def run(ctx: Ctx) -> None:
    sys.path.insert(0, str(SPEC.parent / "harness" / "sut"))
    from harness.adapters import exec_threads as et  # noqa: PLC0415

    ctx.rule = ("case = schedule (program of each test case over ops rec/gate/spin/nap/raise, order of "
                "Spawn/Park/Release/Timeout/Result/Dead events) enumerated by TLC from MC_Executor and "
                "deduplicated to what a harness can enforce; non-trivial = schedule with at least one "
                "non-terminating or blocked test case")
    ctx.assumptions = [f"test timeout {et.TIMEOUT}s, grace {et.GRACE}s for 'reports a timeout within the bound'",
                       "abandoned threads resume only at harness-controlled gates (uninstrumented blocking "
                       "calls); CPU scheduling inside instrumented code is the interpreter's",
                       "own lines of a test case = lines of its own SUT function + import-time lines"]
    ctx.design("Executor", deadlock=False, coverage_actions=["JoinTimeout", "Unwind", "Release", "SecondJoin"])
    if not ctx.quick:
        # what-if variants of the design: they document WHY the property holds (and must fail)
        for cfg, key in (("Executor_whatif_shared.cfg", "whatif_shared_trace"),
                         ("Executor_whatif_nocheck.cfg", "whatif_shared_trace_no_check")):
            r = ctx.design("Executor", cfg, expect_ok=False, deadlock=False)
            names = sorted({v.name for v in r.violations})
            ctx.notes[key + "_violates"] = names
            if "NoPollution" not in names:
                raise MachineryError(f"what-if model {cfg} should violate NoPollution")
        r = ctx.design("Executor", "Executor_hazard.cfg", expect_ok=False, deadlock=False)
        ctx.notes["hazard_NoSpuriousTimeout_violated_in_design"] = bool(r.violations)
    behs = ctx.behaviours("MC_Executor", "MC_Executor.cfg" if ctx.quick else "MC_Executor_thorough.cfg",
                          timeout=1500)
    seen: dict[str, dict] = {}
    for b in behs:
        if not et.enforceable(b):
            continue
        seen.setdefault(json.dumps(et.skeleton(b)), b)
    cases = list(seen.values())
    ctx.notes["model_behaviours"] = len(behs)
    ctx.notes["distinct_enforceable_schedules"] = len(cases)
    if ctx.quick:
        rng = ctx.rng("pick")
        rng.shuffle(cases)
        cases = cases[:160]
    else:
        rng = ctx.rng("pick")
        rng.shuffle(cases)
        cases = cases[:1500]
    ctx.exhaustive = len(cases) == len(seen)
    # every third schedule runs on the TypeTracingTestCaseExecutor (the executor of the generator when
    # type tracing is on: terminating test cases are executed twice, timed-out ones must not be)
    jobs = [(b, str(ctx.work / "sut" / f"w{n % 64}"), f"{ctx.seed}x{n}", n % 3 == 2) for n, b in enumerate(cases)]
    results = parallel_map(_run, jobs, procs=12, chunksize=4)
    # "within the configured bound (plus a grace period)" is a wall-clock statement: a schedule whose only
    # blemish is lateness is run again on its own (no sibling processes of this check), and the machine's
    # own scheduling delay is measured next to it; lateness that does not repeat, or that coincides with a
    # machine that cannot even keep a 0.25 s sleep within a second, is drift, not a verdict
    import multiprocessing as mp  # noqa: PLC0415
    import time  # noqa: PLC0415

    retried = 0
    for n, r in enumerate(results):
        if any(e["late"] and e["timeout"] and not e["hung"] for e in r["ev"]):
            for _ in range(2):
                t0 = time.time()
                time.sleep(0.25)
                delay = time.time() - t0 - 0.25
                with mp.get_context("fork").Pool(1) as pool:  # own process: abandoned threads die with it
                    again = pool.map(_run, [jobs[n]])[0]
                retried += 1
                if not any(e["late"] for e in again["ev"]):
                    ctx.drift.append(f"late timeout report did not repeat when the schedule ran alone: "
                                     f"{[e['elapsed_ms'] for e in r['ev']]} -> {[e['elapsed_ms'] for e in again['ev']]} ms")
                    results[n] = again
                    break
                if delay > 1.0:
                    ctx.drift.append(f"machine too loaded to judge lateness (a 0.25 s sleep took {delay + 0.25:.1f} s)")
                    for e in again["ev"]:
                        e["late"] = False
                    results[n] = again
                    break
                results[n] = again
    ctx.notes["late_schedules_rerun_alone"] = retried
    traces = [{"ev": r["ev"]} for r in results]
    ctx.evaluations = len(traces)
    for b, r in zip(cases, results):
        if r["mismatch"]:
            ctx.drift.append(f"schedule not reproducible: {r['mismatch']} :: {json.dumps(et.skeleton(b))[:300]}")
        if any(e["nonterm"] for e in r["ev"]):
            ctx.nontriv(json.dumps(et.skeleton(b)))
    verdicts = ctx.validate("ExecutorTrace", traces)
    for idx, bad in sorted(verdicts.items()):
        for clause, step in bad:
            ev = traces[idx]["ev"][step - 1]
            if clause.startswith("Conform"):
                ctx.drift.append(f"{clause}: test {ev['i']} prog {ev['prog']} timeout={ev['timeout']} "
                                 f"model={ev['expect_timeout']} :: {json.dumps(et.skeleton(cases[idx]))[:300]}")
                continue
            ctx.bad(clause, signature(clause, ev),
                    f"test {ev['i']} prog {ev['prog']}: timeout={ev['timeout']} lines={ev['lines']} own={ev['own']} "
                    f"pred_lines={ev['pred_lines']} exc={ev['exc']} elapsed_ms={ev['elapsed_ms']} starts={ev['starts']} "
                    f"type_tracing={ev['type_tracing']} {ev['error']}",
                    trace=traces[idx], behaviour=dict(cases[idx], type_tracing=ev["type_tracing"]))
    ctx.notes["drift_count"] = len(ctx.drift)
    ctx.notes["schedules_on_type_tracing_executor"] = sum(1 for j in jobs if j[3])
    for b, t in list(zip(cases, traces))[:3]:
        ctx.sample({"schedule": et.skeleton(b), "results": [
            {k: e[k] for k in ("i", "prog", "timeout", "lines", "exc", "elapsed_ms")} for e in t["ev"]]})


def replay(ctx: Ctx, rec: dict) -> int:
    sys.path.insert(0, str(SPEC.parent / "harness" / "sut"))
    r = _run((rec["behaviour"], str(ctx.work / "sut"), "replay", bool(rec["behaviour"].get("type_tracing"))))
    print(json.dumps(r, indent=1))
    v = ctx.validate("ExecutorTrace", [{"ev": r["ev"]}])
    bad = [c for c, _ in v.get(0, []) if not c.startswith("Conform")]
    if bad:
        print(f"VIOLATION property=C32 replay=(this) clauses={bad}")
        return 1
    print("OK")
    return 0

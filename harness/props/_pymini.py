"""Shared driver of the PyMini properties (C01 part c, C02, C03)."""

from __future__ import annotations

import json
import logging
import sys

from harness.core import SPEC, Ctx, parallel_map

CLAUSES = {
    "C01": {"InstrumentationSucceeds", "BehaviourPreserved"},
    "C02": {"ReportedLinesExact", "NoForeignLines"},
    "C03": {"BranchOutcomesExact", "PredicatesRegistered", "CodeObjectEntered"},
}


def _run(args):
    sys.path.insert(0, str(SPEC.parent / "harness" / "sut"))
    from harness.adapters import pymini  # noqa: PLC0415

    logging.disable(logging.CRITICAL)
    return pymini.run_case(args)


def kinds(prog) -> str:
    out = set()

    def walk(blk):
        for s in blk:
            out.add(s["t"])
            for k in ("a", "b", "e", "h", "f", "o"):
                if k in s and isinstance(s[k], list):
                    walk(s[k])
    walk(prog)
    return "+".join(sorted(out - {"mark"})) or "mark"


def cases(ctx: Ctx) -> list[dict]:
    cs = ctx.behaviours("MC_PyMini", timeout=1500)
    ctx.notes["programs_depth1_x_dvecs"] = len(cs)
    if not ctx.quick:
        deep = ctx.behaviours("MC_PyMini", "MC_PyMini_thorough.cfg", timeout=3000)
        ctx.notes["programs_depth2_x_dvecs"] = len(deep)
        rng = ctx.rng("deep")
        rng.shuffle(deep)
        cs += deep[:12000]
    elif len(cs) > 1600:
        # quick: every program once with a rotating decision vector + a random third of the rest
        rng = ctx.rng("quick")
        by_prog: dict[str, list[dict]] = {}
        for c in cs:
            by_prog.setdefault(json.dumps(c["prog"], sort_keys=True), []).append(c)
        pick = []
        for i, (_, lst) in enumerate(sorted(by_prog.items())):
            lst.sort(key=lambda c: c["dvec"])
            pick.append(lst[i % len(lst)])
            pick.append(lst[(i * 5 + 3) % len(lst)])
            pick.append(lst[rng.randrange(len(lst))])
        cs = pick
    return cs


METRIC_SETS = [("BRANCH", "LINE"), ("LINE",), ("BRANCH",), ("BRANCH", "LINE", "CHECKED"), ("CHECKED",)]


def run_prop(ctx: Ctx, prop: str) -> None:
    cs = cases(ctx)
    if prop == "C01":
        # behaviour must be preserved under every combination of metrics Pynguin installs
        jobs = [(c, str(ctx.work / "pm" / f"w{n % 32}"), f"{ctx.seed}x{n}", METRIC_SETS[n % len(METRIC_SETS)])
                for n, c in enumerate(cs)]
        ctx.notes["metric_sets"] = [list(m) for m in METRIC_SETS]
    else:
        jobs = [(c, str(ctx.work / "pm" / f"w{n % 32}"), f"{ctx.seed}x{n}") for n, c in enumerate(cs)]
    evs = parallel_map(_run, jobs, procs=8, chunksize=16)
    ctx.evaluations = len(evs)
    for c, e in zip(cs, evs):
        if len(e["gt_lines"]) > 2:
            ctx.nontriv(json.dumps([c["prog"], c["dvec"]], sort_keys=True))
    traces = [{"ev": [e]} for e in evs]
    verdicts = ctx.validate("PyMiniTrace", traces)
    want = CLAUSES[prop]
    ndrift = 0
    for idx, bad in sorted(verdicts.items()):
        e, c = evs[idx], cs[idx]
        for clause, _ in bad:
            if clause.startswith("Conform"):
                ndrift += 1
                if len(ctx.drift) < 15:
                    ctx.drift.append(f"{clause}: PyMini semantics differs from the interpreter on {json.dumps(c['prog'])} "
                                     f"dvec={c['dvec']}: spec lines {e['spec_lines']} out {e['spec_out']} vs interpreter "
                                     f"{e['gt_lines']} {e['gt_out']}")
                continue
            if clause not in want:
                continue
            ctx.bad(clause, f"{prop}/{clause}/{kinds(c['prog'])}",
                    f"program {json.dumps(c['prog'])} dvec={c['dvec']}: interpreter lines={e['gt_lines']} out={e['gt_out']} "
                    f"jumps={e['gt_njumps']} ret={e['gt_ret']} exc={e['gt_exc']} marks={e['gt_marks']} | pynguin "
                    f"lines={e['py_lines']} foreign={e['py_foreign_lines']} out={e['py_out']} preds={e['py_npreds']} "
                    f"ret={e['py_ret']} exc={e['py_exc']} marks={e['py_marks']} error={e['error']}",
                    trace=traces[idx], behaviour=c)
    ctx.notes["semantics_vs_interpreter_mismatches"] = ndrift
    for c, e in list(zip(cs, evs))[:2]:
        ctx.sample({"prog": c["prog"], "dvec": c["dvec"], "interpreter_lines": e["gt_lines"], "pynguin_lines": e["py_lines"],
                    "interpreter_outcomes": e["gt_out"], "pynguin_outcomes": e["py_out"]})


def replay_prop(ctx: Ctx, rec: dict, prop: str) -> int:
    e = _run((rec["behaviour"], str(ctx.work / "pm"), "replay"))
    print(json.dumps(e, indent=1)[:3000])
    v = ctx.validate("PyMiniTrace", [{"ev": [e]}])
    bad = [c for c, _ in v.get(0, []) if c in CLAUSES[prop]]
    if bad:
        print(f"VIOLATION property={prop} replay=(this) clauses={bad}")
        return 1
    print("OK")
    return 0

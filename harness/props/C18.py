"""C18 Generated test files pass when run against the module under test.

Design: Pipeline.tla (export decision table: a raising statement is wrapped in pytest.raises when
expected, otherwise the function is marked xfail(strict); ExportVerdict).  P1: the file every
end-to-end run exports is run with the real pytest in a fresh interpreter against the original
module; per-test outcomes are validated by TLC (PipelineTrace.tla: FileImportsCleanly, TestVerdicts).
P2: TLC enumerates small suites over harness/sut/pp_sut.py (MC_PipelineProg); real assertion
generation (with irregularly filtered assertions), generator._minimize (all strategies/directions)
and export; the exported functions are executed and must pass.
"""

from __future__ import annotations

import json
from concurrent.futures import ThreadPoolExecutor

from harness.core import Ctx
from harness.props import _pipeline as P

CLAUSES = {"FileImportsCleanly", "TestVerdicts"}


def run(ctx: Ctx) -> None:
    ctx.rule = ("case = exported test function of an end-to-end run (6 corpus modules: numeric, string, container, "
                "class-state, enum, float x algorithms x assertion modes x seeds) executed by pytest against the "
                "uninstrumented module; non-trivial = distinct exported test functions")
    ctx.assumptions = ["corpus modules are deterministic; pytest runs in a fresh interpreter with only the corpus "
                       "directory on PYTHONPATH"]
    P.design(ctx)
    runs = P.runs_for(ctx)
    with ThreadPoolExecutor(max_workers=6) as ex:
        all_evs = list(ex.map(P.pytest_events, runs))
    traces, kept = [], []
    for r, evs in zip(runs, all_evs):
        if not evs:
            continue
        traces.append({"ev": evs})
        kept.append(r)
        for e in evs:
            if e["ev"] == "Test":
                ctx.nontriv((json.dumps(r["cfg"], sort_keys=True), e["name"]))
    ctx.notes["exported_tests"] = sum(1 for t in traces for e in t["ev"] if e["ev"] == "Test")
    ctx.notes["xfail_marked"] = sum(1 for t in traces for e in t["ev"] if e["ev"] == "Test" and e["xfail_marked"])
    P.validate(ctx, "C18", CLAUSES, kept, traces,
               lambda r, e: f"run {r['cfg']}: {json.dumps(e)[:600]}")
    for t in traces[:2]:
        ctx.sample(t["ev"][:4])
    n_e2e = ctx.evaluations
    # P2: TLC-enumerated suites over harness/sut/pp_sut.py through the real assertion generation (all
    # assertions, and assertions kept on every other statement only, as after the mutation-analysis
    # filter), generator._minimize with every strategy and direction, export; every exported function
    # is executed against the module
    ctx.evaluations = n_e2e + P.replay_progs(ctx, "C18", {"TestVerdicts"})


def replay(ctx: Ctx, rec: dict) -> int:
    if "replay" in rec["behaviour"]:
        return P.replay_one(ctx, rec, "C18", {"TestVerdicts"})
    from harness.adapters import e2e  # noqa: PLC0415

    r = e2e.run_many([rec["behaviour"]])[0]
    evs = P.pytest_events(r)
    print(json.dumps(evs)[:3000])
    v = ctx.validate("PipelineTrace", [{"ev": evs}]) if evs else {}
    bad = [c for c, _ in v.get(0, []) if c in CLAUSES]
    if bad:
        print(f"VIOLATION property=C18 replay=(this) clauses={bad}")
        return 1
    print("OK")
    return 0

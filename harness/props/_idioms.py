"""Shared driver of the idiom corpus (C01 part d, C02, C03): Python constructs outside the PyMini
grammar, reference = the interpreter (sys.monitoring on the uninstrumented module), verdict by
IdiomTrace.tla.  Every metric combination runs in its own forked child; a function whose
instrumented code crashes the interpreter is re-run alone, so the crash is an observation."""

from __future__ import annotations

import json
from concurrent.futures import ThreadPoolExecutor

from harness.core import Ctx

METRICS = {
    "C01": [("BRANCH", "LINE"), ("CHECKED",), ("BRANCH", "LINE", "CHECKED"), ("LINE",), ("BRANCH",),
            ("BRANCH", "CHECKED"), ("LINE", "CHECKED")],
    "C02": [("LINE",), ("BRANCH", "LINE"), ("LINE", "CHECKED"), ("BRANCH", "LINE", "CHECKED")],
    "C03": [("BRANCH",), ("BRANCH", "LINE"), ("BRANCH", "CHECKED"), ("BRANCH", "LINE", "CHECKED")],
    "C05": [("BRANCH", "LINE"), ("BRANCH", "LINE", "CHECKED")],
}
CLAUSES = {
    "C01": {"InstrumentationSucceeds", "BehaviourPreserved"},
    "C02": {"InstrumentationSucceeds", "ReportedLinesExact", "NoForeignLines", "SuiteAnalysisKeepsLines",
            "MergedLinesAreUnion"},
    "C03": {"InstrumentationSucceeds", "BranchOutcomesExact", "PredicatesRegistered", "SuiteAnalysisKeepsOutcomes"},
    "C05": {"InstrumentationSucceeds", "RecordingContinuesLines", "RecordingContinuesOutcomes", "EnabledRestored"},
}


def _intern(obs, table):
    return [table.setdefault(json.dumps(part), len(table)) for part in obs]


def run(ctx: Ctx, prop: str, only: set | None = None) -> int:
    from harness.adapters import idiom_cov, idioms  # noqa: PLC0415

    moddir = idioms.split(ctx.work / "idioms")
    names = sorted(idioms.baseline()) + idioms.split_stdlib(moddir, ctx.quick and only is None)
    names = [n for n in names if only is None or n in only]
    gt = {n: idiom_cov.ground(n, moddir) for n in names}
    msets = METRICS[prop]
    if ctx.quick and only is None:
        msets = msets[:4]  # thorough: every combination listed for the property
    with ThreadPoolExecutor(max_workers=4) as ex:  # one forked child per metric combination
        per_metric = list(ex.map(idiom_cov.instrumented_all, [(names, m, moddir) for m in msets]))
    table: dict = {}
    jobs, traces = [], []
    for m, res in zip(msets, per_metric):
        for name in names:
            r, g = res[name], gt[name]
            static = {"has_line": "LINE" in m, "has_branch": "BRANCH" in m, "gt_njumps": g["njumps"],
                      "module_lines": g["module_lines"]}
            evs = []
            if not r.get("ok") and r.get("timeout"):
                ctx.drift.append(f"idiom {name} metrics={'+'.join(m)}: no answer within the time limit (machine load?), skipped")
                continue
            if not r.get("ok"):
                evs.append({"ok": False})
            else:
                for gx, px in zip(g["per_x"], r["per_x"]):
                    evs.append({"ok": True, **static, "py_npreds": r["npreds"],
                                "gt": _intern(gx["obs"], table), "py": _intern(px["obs"], table),
                                "gt_lines": gx["lines"], "py_lines": px["lines"], "gt_raised": gx["raised"],
                                "gt_out": gx["out"], "py_out": px["out"], "enabled_after": px["enabled_after"],
                                "py_lines_after": px["lines_after"], "py_out_after": px["out_after"],
                                "merged_lines": px["merged_lines"]})
            jobs.append((name, m))
            traces.append({"ev": evs})
            ctx.nontriv(f"idiom:{name}:{'+'.join(m)}")
    verdicts = ctx.validate("IdiomTrace", traces, cfg=f"IdiomTrace_{prop}.cfg")
    for idx, bad in sorted(verdicts.items()):
        (name, m), tr = jobs[idx], traces[idx]
        for clause, step in bad:
            if clause not in CLAUSES[prop]:
                continue
            if clause == "InstrumentationSucceeds":
                detail = per_metric[msets.index(m)][name].get("error", "")
            else:
                e = tr["ev"][max(step, 1) - 1]
                x = idioms.INPUTS[max(step, 1) - 1]
                if clause == "BehaviourPreserved":
                    g, p = gt[name]["per_x"][max(step, 1) - 1]["obs"], per_metric[msets.index(m)][name]["per_x"][max(step, 1) - 1]["obs"]
                    detail = f"input {x}: uninstrumented {g} instrumented {p}"
                elif clause == "EnabledRestored":
                    detail = f"input {x}: the tracer is disabled after the execution"
                elif clause in ("SuiteAnalysisKeepsLines", "MergedLinesAreUnion", "SuiteAnalysisKeepsOutcomes"):
                    detail = (f"input {x}: reported before the suite-level analysis lines={e['py_lines']} out={e['py_out']}, "
                              f"afterwards lines={e['py_lines_after']} out={e['py_out_after']}; merged lines={e['merged_lines']}")
                elif clause in ("ReportedLinesExact", "NoForeignLines", "RecordingContinuesLines"):
                    a, b = set(e["gt_lines"]), set(e["py_lines"])
                    detail = (f"input {x}: executed but not reported {sorted(a - b)}, reported but not executed "
                              f"{sorted(b - a)} (line 0 = a line goal without line number)")
                elif clause in ("BranchOutcomesExact", "RecordingContinuesOutcomes"):
                    detail = (f"input {x}: interpreter only {[o for o in e['gt_out'] if o not in e['py_out']]}, "
                              f"pynguin only {[o for o in e['py_out'] if o not in e['gt_out']]}")
                else:
                    detail = (f"conditional jumps per line (interpreter) {[o for o in e['gt_njumps'] if o not in e['py_npreds']]} "
                              f"vs predicates per line (pynguin) {[o for o in e['py_npreds'] if o not in e['gt_njumps']]}")
            ctx.bad(clause, f"{prop}/{clause}/idiom:{name}", f"idiom {name} metrics={'+'.join(m)}: {detail}",
                    trace=tr, behaviour={"idiom": name, "metrics": list(m)})
    ctx.notes["idiom_functions"] = len(names)
    ctx.notes["idiom_metric_sets"] = [list(m) for m in msets]
    ctx.notes["idiom_executions"] = len(jobs) * len(idioms.INPUTS)
    return len(jobs) * len(idioms.INPUTS)


def replay(ctx: Ctx, rec: dict, prop: str) -> int:
    before = len(ctx.bads)
    run(ctx, prop, {rec["behaviour"]["idiom"]})
    known = __import__("harness.core", fromlist=["load_findings"]).load_findings()
    new = [b for b in ctx.bads[before:] if b.signature not in known]
    for b in ctx.bads[before:]:
        print(b.clause, b.detail)
    print(f"VIOLATION property={prop} replay=(this)" if new else "OK")
    return 1 if new else 0
